import Exetera.Model.Reader
import Exetera.Lemmas.IndexedReader
import Exetera.Lemmas.PySlice
import Exetera.Lemmas.Storage
/-! The repaired indexed readers on a well-formed field, for every `int` / `slice` item (Model/Reader.lean). -/
namespace Exetera.Reader

open Exetera Exetera.Spec Exetera.IndexedWriter Exetera.Storage

theorem fieldLen_offsets {β} (xs : List (List β)) : fieldLen (offsets xs) = xs.length := by simp [fieldLen]

/-- picking the rows `rows` (all between `first` and `last`) out of the block `xs[first:last+1]` gives those rows -/
theorem pick_block {β} (xs : List β) (first last : Nat) (hl : last < xs.length) (rows : List Int)
    (hrows : ∀ r ∈ rows, (first : Int) ≤ r ∧ r ≤ (last : Int)) :
    pick ((pySlice xs first (last + 1)).map some) (first : Int) rows = .ok ((rows.filterMap (rowOf xs)).map some) := by
  induction rows with
  | nil => simp [pick]
  | cons r rs ih =>
    obtain ⟨h1, h2⟩ := hrows r (by simp)
    have ih := ih (fun z hz => hrows z (by simp [hz]))
    have hneg : ¬ (r - (first : Int) < 0) := by omega
    have hrow : rowOf xs r = some (xs[r.toNat]'(by omega)) := rowOf_of_row xs (by omega) (by omega)
    have hget : getE ((pySlice xs first (last + 1)).map some) (r - (first : Int)).toNat "block[r - first]"
        = .ok (some (xs[r.toNat]'(by omega))) := by
      rw [getE_eq_ok]
      simp only [pySlice, List.getElem?_map, List.getElem?_take, List.getElem?_drop]
      have hlt : (r - (first : Int)).toNat < last + 1 - first := by omega
      have hidx : first + (r - (first : Int)).toNat = r.toNat := by omega
      rw [if_pos hlt, hidx, List.getElem?_eq_getElem (by omega)]
      rfl
    simp only [pick, hneg, if_false, hget, ih, List.filterMap_cons, hrow, List.map_cons]

/-- the unit-step body on normalised bounds -/
theorem readUnit_wellformed (writeable : Bool) (xs : List Bytes) (a b : Int) (ha : 0 ≤ a) (han : a ≤ xs.length)
    (hbn : b ≤ xs.length) :
    readUnit writeable (offsets xs) xs.flatten a b = .ok ((pySlice xs a.toNat (max a b).toNat).map some) := by
  unfold readUnit
  exact getSlice_wellformed writeable xs _ _ (by omega) (by omega)

/-- `data[start:stop:step]`, either reader, EVERY combination of `None` / negative / out-of-range bounds and steps: exactly
    Python's `xs[start:stop:step]` (with its ValueError for step 0), every place filled -/
theorem getSliceRepaired_wellformed (writeable : Bool) (xs : List Bytes) (start stop step : Option Int) :
    getSliceRepaired writeable (offsets xs) xs.flatten start stop step
      = (match pySliceG xs start stop step with
         | .ok ys => .ok (ys.map some)
         | .error e => .error e) := by
  unfold getSliceRepaired
  rw [fieldLen_offsets]
  cases h : sliceIndices xs.length start stop step with
  | error e => simp [pySliceG, h]
  | ok t =>
    obtain ⟨a, b, st⟩ := t
    obtain ⟨hne, hp, hn⟩ := sliceIndices_bounds h
    simp only
    by_cases h1 : st = 1
    · subst h1
      have hb := hp (by omega)
      rw [pySliceG_unit xs _ _ _ h]
      simp only [bne_self_eq_false, Bool.false_eq_true, if_false]
      exact readUnit_wellformed writeable xs a b hb.1 hb.2.1 hb.2.2.2
    · have hbne : (st != 1) = true := by simp [h1]
      simp only [hbne, if_true, pySliceG, h]
      cases h0 : (pyRange a b st).head? with
      | none =>
        have : pyRange a b st = [] := List.head?_eq_none_iff.mp h0
        simp [this]
      | some r0 =>
        cases hl : (pyRange a b st).getLast? with
        | none =>
          have : pyRange a b st = [] := List.getLast?_eq_none_iff.mp hl
          rw [this] at h0; cases h0
        | some rl =>
          simp only
          have hr0 : r0 ∈ pyRange a b st := List.mem_of_head? h0
          have hrl : rl ∈ pyRange a b st := List.mem_of_getLast? hl
          obtain ⟨h00, h01⟩ := pyRange_rows h hr0
          obtain ⟨hl0, hl1⟩ := pyRange_rows h hrl
          -- the recursive call `self[first:last + 1]` normalises to the same bounds
          have hrec : sliceIndices xs.length (some (min r0 rl)) (some (max r0 rl + 1)) none
              = .ok (min r0 rl, max r0 rl + 1, 1) := by
            simp only [sliceIndices, stepOf, startOf, stopOf, adjBound, upperB, lowerB]
            have e1 : ¬ (min r0 rl < 0) := by omega
            have e2 : ¬ (max r0 rl + 1 < 0) := by omega
            simp only [show ¬ ((1 : Int) = 0) by omega, show ¬ ((1 : Int) < 0) by omega, if_false, e1, e2]
            congr 2
            · omega
            · congr 1; omega
          rw [hrec]
          simp only
          rw [readUnit_wellformed writeable xs _ _ (by omega) (by omega) (by omega)]
          simp only
          have hfirst : ((min r0 rl).toNat : Int) = min r0 rl := by omega
          have hmax : (max (min r0 rl) (max r0 rl + 1)).toNat = (max r0 rl).toNat + 1 := by omega
          rw [hmax, ← hfirst]
          apply pick_block xs _ _ (by omega)
          intro r hr
          have := pyRange_between hne h0 hl hr
          omega

/-- the row a Python int names -/
theorem pyIndex_in_range {α} (xs : List α) (i : Int) (h0 : -(xs.length : Int) ≤ i) (h1 : i < xs.length) :
    pyIndex xs i = .ok (xs[(if i < 0 then i + (xs.length : Int) else i).toNat]'(by split <;> omega)) := by
  unfold pyIndex
  have hr : ¬ (i < -(xs.length : Int) ∨ (xs.length : Int) ≤ i) := by omega
  rw [if_neg hr, rowOf_of_row xs (by split <;> omega) (by split <;> omega)]

theorem pyIndex_out_of_range {α} (xs : List α) (i : Int) (h : i < -(xs.length : Int) ∨ (xs.length : Int) ≤ i) :
    pyIndex xs i = .error (.oob "list index out of range") := by
  unfold pyIndex; rw [if_pos h]

/-- `data[i]`, either reader, EVERY Python int: the row Python's `xs[i]` names for `-n ≤ i < n`; outside that range both
    fail (the field with its ValueError where a list raises IndexError) -/
theorem getIntRepaired_wellformed (xs : List Bytes) (i : Int) :
    getIntRepaired (offsets xs) xs.flatten i
      = (match pyIndex xs i with
         | .ok x => .ok x
         | .error _ => .error (.valueError "Index is out of range")) := by
  unfold getIntRepaired
  rw [fieldLen_offsets]
  by_cases h : i < -(xs.length : Int) ∨ (xs.length : Int) ≤ i
  · simp only [pyIndex_out_of_range xs i h]
    rw [if_pos h]
  · rw [pyIndex_in_range xs i (by omega) (by omega)]
    simp only
    rw [if_neg h]
    exact getItem_wellformed xs _ (by split <;> omega)

/-! ### the readers as found, on the items they handle -/

theorem clampIdx_nonneg (n : Nat) (a : Nat) : clampIdx n (a : Int) = min a n := by
  unfold clampIdx; rw [if_neg (by omega)]; simp

theorem npSlice_nat {α} (xs : List α) (a b : Nat) : npSlice xs (a : Int) (b : Int) = slice xs a b := by
  unfold npSlice
  rw [clampIdx_nonneg, clampIdx_nonneg]
  apply List.ext_getElem?
  intro k
  rw [getElem?_slice, getElem?_slice]
  by_cases ha : a ≤ xs.length
  · have hma : min a xs.length = a := by omega
    rw [hma]
    by_cases hk : k < b - a
    · rw [if_pos hk]
      by_cases hk2 : k < min b xs.length - a
      · rw [if_pos hk2]
      · rw [if_neg hk2, List.getElem?_eq_none (by omega)]
    · rw [if_neg hk, if_neg (by omega)]
  · have hma : min a xs.length = xs.length := by omega
    rw [hma]
    have hn : ¬ k < min b xs.length - xs.length := by omega
    rw [if_neg hn]
    split
    · rw [List.getElem?_eq_none (by omega)]
    · rfl

theorem npIndex_nat {α} (xs : List α) (a : Nat) (site : String) : npIndex xs (a : Int) site = getE xs a site := by
  unfold npIndex
  by_cases h : a < xs.length
  · rw [if_neg (by omega), if_neg (by omega)]; rfl
  · rw [if_pos (by omega)]
    unfold getE
    rw [List.getElem?_eq_none (by omega)]

/-- as found, a slice whose bounds are both given and non-negative is read by the body that `getSlice` models
    (whatever the step: it is ignored) -/
theorem getSliceAsFound_nat (writeable : Bool) (indices : List Nat) (values : Bytes) (a b : Nat) :
    getSliceAsFound writeable indices values (some (a : Int)) (some (b : Int)) = getSlice writeable indices values a b := by
  unfold getSliceAsFound getSlice
  have e1 : ((b : Int) + 1) = ((b + 1 : Nat) : Int) := by omega
  have e2 : ((b : Int) - (a : Int)).toNat = b - a := by omega
  simp only [e1, npSlice_nat, npIndex_nat, e2]
  rfl

/-- as found, `data[i]` for `i ≥ 0` is what `getItem` models -/
theorem getIntAsFound_nat (indices : List Nat) (values : Bytes) (i : Nat) :
    getIntAsFound indices values (i : Int) = getItem indices values i := by
  unfold getIntAsFound getItem
  have e1 : ((i : Int) + 2) = ((i + 2 : Nat) : Int) := by omega
  simp only [e1, npSlice_nat]
  rfl

/-! ### plain fields -/

/-- the repaired HDF5 field array answers every item as numpy does (the ascending read reversed is the descending slice) -/
theorem h5Get_repaired {α} (xs : List α) (item : Item) : h5Get .repaired xs item = numpyGet xs item := by
  cases item with
  | int i => rfl
  | slice start stop step =>
    cases step with
    | none => rfl
    | some st =>
      unfold h5Get
      by_cases hneg : st < 0
      · simp only [hneg, if_true]
        cases h : sliceIndices xs.length start stop (some st) with
        | error e => simp [numpyGet, pySliceG, h]
        | ok t =>
          obtain ⟨a, b, s⟩ := t
          obtain ⟨hs, hne, _, _⟩ := sliceIndices_ok h
          have hs' : s = st := by rw [hs]; rfl
          subst hs'
          obtain ⟨_, _, hn⟩ := sliceIndices_bounds h
          have hb := hn hneg
          simp only [numpyGet, pySliceG, h]
          rw [pyRange_head?, pyRange_getLast?]
          by_cases hlen : rangeLen a b s = 0
          · simp [hlen, pyRange]
          · simp only [hlen, if_false]
            have hrl : a + ((rangeLen a b s - 1 : Nat) : Int) * s ∈ pyRange a b s :=
              mem_pyRange.mpr ⟨rangeLen a b s - 1, by omega, rfl⟩
            have ha : a ∈ pyRange a b s := mem_pyRange.mpr ⟨0, by omega, by simp⟩
            obtain ⟨l0, l1⟩ := pyRange_rows h hrl
            obtain ⟨a0, a1⟩ := pyRange_rows h ha
            have hrec : sliceIndices xs.length (some (a + ((rangeLen a b s - 1 : Nat) : Int) * s)) (some (a + 1)) (some (-s))
                = .ok (a + ((rangeLen a b s - 1 : Nat) : Int) * s, a + 1, -s) := by
              simp only [sliceIndices, stepOf, startOf, stopOf, adjBound, upperB, lowerB]
              simp only [show ¬ (-s = 0) by omega, show ¬ (-s < 0) by omega, if_false,
                show ¬ (a + ((rangeLen a b s - 1 : Nat) : Int) * s < 0) by omega, show ¬ (a + 1 < 0) by omega]
              congr 2
              · omega
              · congr 1; omega
            simp only [hrec, pyRange_reverse hneg hlen, List.filterMap_reverse, List.reverse_reverse]
      · simp only [hneg, if_false]

/-- `field.data[item]` of a plain field to which something (even an empty part) was written, either backing, every item:
    numpy's = Python's answer on the stored sequence -/
theorem plainGet_written {α} (a : Arr α) (hw : a ≠ .mem none) (item : Item) :
    plainGet .repaired a item = numpyGet a.contents item := by
  cases a with
  | mem ds =>
    cases ds with
    | none => exact absurd rfl hw
    | some xs => rfl
  | h5 xs => exact h5Get_repaired xs item

/-- a memory array nothing was written to answers every slice with the empty array — Python's answer on the empty
    sequence for every non-zero step -/
theorem plainGet_unwritten {α} (start stop step : Option Int) (hstep : step ≠ some 0) :
    plainGet .repaired (.mem none : Arr α) (.slice start stop step) = numpyGet ([] : List α) (.slice start stop step) := by
  have hne : ¬ ∃ e, pySliceG ([] : List α) start stop step = .error e := by
    rw [pySliceG_error_iff]; exact hstep
  cases h : pySliceG ([] : List α) start stop step with
  | error e => exact absurd ⟨e, h⟩ hne
  | ok ys =>
    have hlen : ys.length = 0 := by
      unfold pySliceG at h
      split at h
      · cases h
      · rename_i a b st hsi
        injection h with h
        subst h
        cases hl : (pyRange a b st).filterMap (rowOf ([] : List α)) with
        | nil => rfl
        | cons y ys =>
          have : y ∈ (pyRange a b st).filterMap (rowOf ([] : List α)) := by rw [hl]; simp
          obtain ⟨r, _, hr⟩ := List.mem_filterMap.mp this
          simp [rowOf] at hr
    have : ys = [] := List.eq_nil_of_length_eq_zero hlen
    subst this
    simp [plainGet, numpyGet, h]

theorem Arr.appended_ne_none {α} (a : Arr α) (part : List α) : a.appended part ≠ .mem none := by
  cases a <;> simp [Arr.appended]

/-- after any list of `write_part` calls on a fresh array the array holds their concatenation, and it is an array that was
    written (HDF5 dataset, or a memory array after at least one call) -/
theorem writeParts_written {α} (z : α) (h5 : Bool) (parts : List (List α)) (hw : h5 = true ∨ parts ≠ []) :
    ∃ a, writeParts .repaired z (Arr.fresh h5) parts = .ok a ∧ a.contents = parts.flatten ∧ a ≠ .mem none := by
  have := foldE_rule (Arr.writePart .repaired z)
    (fun (s : Arr α) done => s.contents = done.flatten ∧ (h5 = true ∨ done ≠ [] → s ≠ .mem none))
    (by
      intro s done x h
      exact ⟨s.appended x, Arr.writePart_repaired z s x, by simp [h.1], fun _ => Arr.appended_ne_none s x⟩)
    parts (Arr.fresh h5) [] ⟨by simp, by
      intro h
      rcases h with h | h
      · subst h; simp [Arr.fresh]
      · exact absurd rfl h⟩
  obtain ⟨a, ha, hc, hn⟩ := this
  exact ⟨a, by simpa [writeParts] using ha, by simpa using hc, hn (by simpa using hw)⟩

end Exetera.Reader
