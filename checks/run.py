#!/venv/bin/python
"""Entry point of every check:  checks/run.py <Cxx> [--tier quick|thorough] [--replay file]

Verdict pipeline (DESIGN.md 1.3):
  1. regenerate Gen/ from /repo, lake build the property's theorems and the model driver
  2. audit: every listed theorem exists, axioms ⊆ {propext, Classical.choice, Quot.sound}, no sorry/native_decide/…
  3. correspondence: corpus, exhaustive small scope, seeded random cases — real code vs Lean model, and real code vs the
     property's own oracle (the Python rendering of the Spec)
  4. all fine → exit 0 (KNOWN-FINDING lines for open findings whose witness still fails)
  5. a broken proof obligation or correspondence is not yet a violation: search for a concrete failing input; report
     VIOLATION with it as replay, or `… no-failing-input-found` naming what no longer checks.
Exit codes: 0 held, 1 violation, 2 the check itself could not run (timeout, infrastructure)."""
import argparse
import importlib
import json
import os
import random
import sys
import time
import traceback

sys.path.insert(0, os.path.dirname(os.path.dirname(os.path.abspath(__file__))))
from checks import lib  # noqa: E402


def main():
    ap = argparse.ArgumentParser()
    ap.add_argument("prop")
    ap.add_argument("--tier", default=os.environ.get("VERIF_TIER", "quick"), choices=["quick", "thorough"])
    ap.add_argument("--replay")
    ap.add_argument("--no-lean", action="store_true", help="(debugging only) skip build and audit")
    args = ap.parse_args()
    prop = args.prop.upper()
    seed = int(os.environ.get("VERIF_SEED", "0") or 0)
    H = importlib.import_module("checks.harness." + prop.lower())
    if args.replay:
        return replay(H, prop, args.replay)
    t0 = time.time()
    repo0 = lib.repo_state()
    rng = random.Random(seed)
    tier = args.tier
    broken = []          # proof obligations / ties that no longer check: (kind, name, detail)
    notes = []

    # ---- 1+2: Lean -------------------------------------------------------------------------------------------
    theorems = list(getattr(H, "THEOREMS", []))
    ob = lib.VERIF / "checks" / "obligations" / f"{prop}.json"
    if ob.exists():
        theorems += [t for t in json.load(open(ob)) if t not in theorems]
    modules = list(getattr(H, "LEAN_MODULES", []))
    audit_res = {}
    driver_ok = True
    if not args.no_lean:
        if (lib.VERIF / "tools" / "translate.py").exists():
            ok, out = lib.translate()
            if not ok:
                stale = lib.failed_gen_files(out)
                mine = None if stale is None else sorted(set(stale) & lib.lean_imports(modules))
                if mine is None or mine:
                    broken.append(("translator", "tools/translate.py" + ("" if not mine else " (" + ", ".join(mine) + ")"), out[-800:]))
                else:
                    notes.append("a translator step failed for Gen files this property does not import: " + ", ".join(stale))
        ok, out = lib.lake_build(["exetera_model"])
        if not ok:
            driver_ok = False
            broken.append(("build", "exetera_model", out[-1500:]))
        ok, out = lib.lake_build(modules) if modules else (True, "")
        if not ok:
            broken.append(("build", ",".join(modules), out[-1500:]))
        hits = lib.forbidden_scan()
        for h in hits:
            broken.append(("forbidden-token", h, ""))
        if theorems:
            audit_res, raw = lib.audit(modules, theorems)
            for t, r in audit_res.items():
                if not r["ok"]:
                    broken.append(("theorem", t, r["msg"]))
        if tier == "thorough" and modules and not broken and getattr(H, "LEANCHECKER", True):
            import subprocess
            with lib.BuildLock():
                p = subprocess.run(["lake", "env", "leanchecker"] + modules, cwd=lib.LEAN, stdout=subprocess.PIPE,
                                   stderr=subprocess.STDOUT, text=True)
            if p.returncode != 0:
                broken.append(("leanchecker", ",".join(modules), p.stdout[-800:]))
            else:
                notes.append("leanchecker re-checked " + ",".join(modules))
    obligations = len(theorems)
    discharged = sum(1 for t in theorems if audit_res.get(t, {}).get("ok"))

    # ---- 3: correspondence -----------------------------------------------------------------------------------
    stats = {}
    tc = time.time()
    res = correspond(H, tier, rng, driver_ok, stats)
    disagreements, violations = res["disagreements"], res["violations"]
    # advisory fingerprints (DESIGN 1.2): source of an anchor function differs from the recorded one and the quick scope saw
    # nothing -> deepen the correspondence with a seeded sample of the thorough scope, within a time budget
    changed = lib.changed_functions(prop)
    if changed:
        notes.append("anchor functions differing from checks/fingerprints.json: " + ", ".join(changed[:12]))
    if changed and tier == "quick" and not disagreements and not violations:
        budget = float(os.environ.get("VERIF_ESCALATE_S", "150"))
        rate = max(stats.get("evaluations", 0), 1) / max(time.time() - tc, 1.0)
        limit = int(rate * budget)
        lib.log(f"[{prop}] {len(changed)} anchor function(s) changed: deepening the correspondence (≤ {limit} thorough-scope cases)")
        stats2 = {}
        res2 = correspond(H, "thorough", random.Random(seed + 7), driver_ok, stats2, limit=limit, modes_of="quick")
        disagreements += res2["disagreements"]
        violations += res2["violations"]
        stats["evaluations"] = stats.get("evaluations", 0) + stats2.get("evaluations", 0)
        stats["compared"] = stats.get("compared", 0) + stats2.get("compared", 0)
        stats["distinct_nontrivial"] = stats.get("distinct_nontrivial", 0) + stats2.get("distinct_nontrivial", 0)
        notes.append(f"deepened: {stats2.get('evaluations', 0)} additional evaluations sampled from the thorough scope")

    # ---- 4/5: verdict ----------------------------------------------------------------------------------------
    findings = lib.load_findings(prop)
    open_f = {f["id"]: f for f in findings if f["status"] == "open"}
    known_hits = {}
    new_viol = []
    for v in violations:
        fid = v.get("finding")
        if fid in open_f:
            known_hits.setdefault(fid, v)
        else:
            new_viol.append(v)
    for d in disagreements:
        broken.append(("correspondence", d["what"], lib.canon(d["case"])[:600]))

    if broken and not new_viol:
        # a broken obligation or tie: search harder for a concrete failing input on the implementation
        lib.log(f"[{prop}] {len(broken)} broken obligation(s)/tie(s); searching the implementation for a failing input")
        extra = correspond(H, "thorough" if tier == "quick" else "search", random.Random(seed + 1), False, {},
                           spec_only=True)
        for v in extra["violations"]:
            fid = v.get("finding")
            if fid in open_f:
                known_hits.setdefault(fid, v)
            else:
                new_viol.append(v)

    repo1 = lib.repo_state()
    if repo1 != repo0:
        # the library changed under the run (a commit or an edit while workers were importing it): no verdict, no evidence
        lib.log(f"[{prop}] REPO-CHANGED-DURING-RUN {repo0} -> {repo1}: this run is unusable, run the check again")
        return 2
    notes.append(f"repo revision {repo0[0]}, working-tree digest {repo0[1]} (unchanged over the run)")
    rc = 0
    replay_dir = lib.VERIF / "replay" / prop
    for fid, f in open_f.items():
        if fid in known_hits:
            print(f"KNOWN-FINDING: property={prop} {fid} {f['what']}")
        else:
            notes.append(f"open finding {fid} was not reproduced by this run's cases")
    if new_viol:
        replay_dir.mkdir(parents=True, exist_ok=True)
        seen = set()
        for k, v in enumerate(new_viol[:5]):
            key = v["what"]
            if key in seen:
                continue
            seen.add(key)
            path = replay_dir / f"{tier}_{seed}_{k}.json"
            path.write_text(json.dumps({"property": prop, "kind": "failing-input", **v}, indent=1, default=str))
            print(f"VIOLATION property={prop} replay={path.relative_to(lib.VERIF)}")
        rc = 1
    elif broken:
        replay_dir.mkdir(parents=True, exist_ok=True)
        path = replay_dir / f"{tier}_{seed}_unchecked.json"
        path.write_text(json.dumps({"property": prop, "kind": "no-longer-checks",
                                    "broken": [{"kind": k, "name": n, "detail": d} for k, n, d in broken[:20]]},
                                   indent=1))
        print(f"VIOLATION property={prop} replay={path.relative_to(lib.VERIF)} no-failing-input-found")
        rc = 1

    # ---- evidence --------------------------------------------------------------------------------------------
    level = getattr(H, "LEVEL", "proof")
    coverage = {
        "obligations": obligations, "discharged": discharged,
        "theorems": [{"name": t, "axioms": audit_res.get(t, {}).get("axioms", []),
                      "ok": audit_res.get(t, {}).get("ok", False)} for t in theorems],
        "checker_cmd": "cd lean && lake build " + " ".join(modules) + " && lake env lean <#print axioms per theorem>"
                       + (" && lake env leanchecker " + " ".join(modules) if tier == "thorough" else ""),
        "trusted_base": list(getattr(H, "TRUSTED", [])),
        "evaluations": stats.get("evaluations", 0),
        "distinct_nontrivial": stats.get("distinct_nontrivial", 0),
        "rule": getattr(H, "RULE", ""),
        "samples": stats.get("samples", []),
        "exhaustive": bool(stats.get("exhaustive", False)),
        "traces_validated_against_impl": stats.get("compared", 0),
        "modes": stats.get("modes", []),
        "distribution": stats.get("distribution", {}),
        "model_impl_disagreements": len(disagreements),
        "spec_violations_on_impl": len(violations),
        "known_findings_reproduced": sorted(known_hits),
        "broken": [f"{k}:{n}" for k, n, _ in broken],
        "explanation": getattr(H, "EXPLANATION", "") or (
            f"{discharged}/{obligations} Lean theorems checked by the kernel (axioms audited); executable Lean model compared "
            f"with the real code on {stats.get('compared', 0)} executions; real code compared with the property oracle on "
            f"every case"),
        "notes": notes,
    }
    if level == "proof" and obligations == 0:
        level = "other"
    lib.write_evidence(prop, tier, seed, level, coverage, list(getattr(H, "ASSUMPTIONS", [])), time.time() - t0,
                       len(new_viol), scratch=args.no_lean)
    lib.log(f"[{prop}] tier={tier} seed={seed} theorems {discharged}/{obligations} cases={stats.get('evaluations', 0)} "
            f"disagreements={len(disagreements)} violations={len(violations)} known={sorted(known_hits)} "
            f"rc={rc} {time.time() - t0:.1f}s")
    return rc


def correspond(H, tier, rng, driver_ok, stats, spec_only=False, limit=None, modes_of=None):
    """run the cases of `tier` on the implementation (each mode), on the model, and on the property oracle"""
    cases = H.gen_cases(tier, rng)
    if limit is not None and len(cases) > limit:
        keep = sorted(rng.sample(range(len(cases)), max(limit, 1)))
        cases = [cases[i] for i in keep]
    modes = getattr(H, "MODES", {"quick": ["jit"], "thorough": ["jit", "nojit"], "search": ["jit", "nojit"]})
    modes = modes.get(modes_of or tier, ["jit"])
    to_model = getattr(H, "to_model", lambda c: c)
    model_out = None
    if driver_ok and not spec_only:
        try:
            model_out = lib.run_model([to_model(c) for c in cases])
        except Exception as e:  # noqa
            lib.log("model driver failed:", e)
            model_out = None
    disagreements, violations = [], []
    impl_by_mode = {}
    for mode in modes:
        sub = cases
        idx = list(range(len(cases)))
        if mode != "jit":
            # interpreted / bounds-checked runs are slow: use the cases the harness marks for them
            sel = getattr(H, "select_for_mode", None)
            if sel:
                idx = [i for i in idx if sel(cases[i], mode, tier)]
                sub = [cases[i] for i in idx]
        outs = lib.run_impl(H.__name__.split(".")[-1], sub, mode=mode)
        cut = any(o == lib.SKIPPED for o in outs)
        impl_by_mode[mode] = {i: o for i, o in zip(idx, outs) if o != lib.SKIPPED}
        if cut:
            break        # the batch was cut short after several hangs: they are reported; further modes would only repeat them
    compare = getattr(H, "compare", default_compare)
    nontriv = set()
    dist = {}
    compared = 0
    for mode, outs in impl_by_mode.items():
        for i, io in outs.items():
            c = cases[i]
            if model_out is not None:
                why = compare(c, io, model_out[i], mode)
                compared += 1
                if why:
                    disagreements.append({"what": f"model≠impl[{mode}] {why}", "case": c, "impl": io,
                                          "model": model_out[i], "mode": mode})
            why = H.check_spec(c, io, mode)
            if why:
                v = {"what": why, "case": c, "impl": io, "mode": mode}
                fm = getattr(H, "match_finding", None)
                if fm:
                    v["finding"] = fm(c, io, mode)
                violations.append(v)
    if "jit" in impl_by_mode:
        for mode, outs in impl_by_mode.items():
            if mode == "jit":
                continue
            for i, io in outs.items():
                ij = impl_by_mode["jit"].get(i)
                okdiff = getattr(H, "mode_diff_ok", None)   # optional: differences the harness declares legitimate
                if ij is not None and strip(ij) != strip(io) and not (okdiff and okdiff(cases[i], ij, io, mode)):
                    v = {"what": f"jit≠{mode}", "case": cases[i], "impl": {"jit": ij, mode: io}, "mode": mode}
                    fm = getattr(H, "match_finding", None)
                    if fm:
                        v["finding"] = fm(cases[i], io, mode)
                    (violations if getattr(H, "MODE_DIFF_IS_VIOLATION", False) else disagreements).append(v)
    for i, c in enumerate(cases):
        mo = model_out[i] if model_out is not None else None
        tag = H.classify(c, mo) if hasattr(H, "classify") else ("nontrivial" if True else "")
        for t in (tag if isinstance(tag, (list, tuple)) else [tag]):
            dist[t] = dist.get(t, 0) + 1
        if hasattr(H, "nontrivial"):
            if H.nontrivial(c, mo):
                nontriv.add(lib.canon({k: v for k, v in c.items() if not k.startswith("_")}))
        else:
            nontriv.add(lib.canon(c))
    stats.update({"evaluations": sum(len(o) for o in impl_by_mode.values()), "distinct_nontrivial": len(nontriv),
                  "samples": [brief_sample(c) for c in
                              cases[:2] + cases[len(cases) // 2: len(cases) // 2 + 2] + cases[-1:]],
                  "compared": compared, "modes": modes, "distribution": dist,
                  "exhaustive": bool(getattr(H, "EXHAUSTIVE", {}).get(tier, False))})
    return {"disagreements": disagreements, "violations": violations}


def brief_sample(o, keep=24):
    """a case as shown in the evidence file: long arrays / strings are abbreviated (a random case may hold thousands of rows)"""
    if isinstance(o, dict):
        return {k: brief_sample(v, keep) for k, v in o.items()}
    if isinstance(o, (list, tuple)):
        if len(o) > keep:
            return [brief_sample(v, keep) for v in o[:keep]] + [f"... {len(o) - keep} more"]
        return [brief_sample(v, keep) for v in o]
    if isinstance(o, str) and len(o) > 400:
        return o[:400] + f"... {len(o) - 400} more chars"
    return o


def strip(o):
    if isinstance(o, dict):
        return {k: v for k, v in o.items() if k not in ("msg", "trace", "calls")}
    return o


def default_compare(case, impl_out, model_out, mode):
    a, b = strip(impl_out), strip(model_out)
    if "err" in a and "err" in b:
        return None if a["err"] == b["err"] else f"errors differ {a['err']} vs {b['err']}"
    if "err" in a or "err" in b:
        return f"impl={lib.canon(a)[:200]} model={lib.canon(b)[:200]}"
    if "ok" in b:
        b = b["ok"]
    if "ok" in a:
        a = a["ok"]
    a, b = strip(a), strip(b)
    return None if lib.canon(a) == lib.canon(b) else f"impl={lib.canon(a)[:300]} model={lib.canon(b)[:300]}"


def replay(H, prop, path):
    r = json.load(open(path))
    if r.get("kind") == "no-longer-checks":
        print(json.dumps(r, indent=1))
        return 1
    case, mode = r["case"], r.get("mode", "jit")
    io = lib.run_impl(H.__name__.split(".")[-1], [case], mode=mode)[0]
    print("case :", lib.canon(case))
    print("impl :", lib.canon(io))
    try:
        lib.lake_build(["exetera_model"])
        print("model:", lib.canon(lib.run_model([getattr(H, "to_model", lambda c: c)(case)])[0]))
    except Exception as e:  # noqa
        print("model: unavailable", e)
    why = H.check_spec(case, io, mode)
    print("spec :", why or "holds")
    if why:
        print(f"VIOLATION property={prop} replay={path}")
        return 1
    return 0


if __name__ == "__main__":
    try:
        sys.exit(main())
    except SystemExit:
        raise
    except BaseException:  # infrastructure failure: never a VIOLATION line
        traceback.print_exc()
        sys.exit(2)
