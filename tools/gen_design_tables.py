#!/usr/bin/env python3
"""Regenerate the measured tables of DESIGN.md (between `<!-- BEGIN:<name> -->` / `<!-- END:<name> -->` markers) from
MANIFEST.json, checks/obligations, evidence/, known_findings.json and seeded/*/meta.json."""
import json
import re
from pathlib import Path

V = Path(__file__).resolve().parent.parent


def load(p, default=None):
    try:
        return json.loads(Path(p).read_text())
    except Exception:
        return default


def status_table():
    man = load(V / "MANIFEST.json")
    kf = load(V / "known_findings.json", {"findings": []})["findings"]
    rows = ["| id | level | Lean obligations | quick run (cases, s) | open findings | fixed findings |", "|---|---|---|---|---|---|"]
    for c in man["checks"]:
        pid = c["property_id"]
        ob = load(V / "checks" / "obligations" / f"{pid}.json", [])
        ev = load(V / "evidence" / f"{pid}.json", {})
        cov = ev.get("coverage", {})
        opn = [e["id"] for e in kf if pid in e["properties"] and e["status"] == "open"]
        fx = [e["id"] for e in kf if pid in e["properties"] and e["status"] == "fixed"]
        rows.append(f"| {pid} | {c['level_claimed']['category']} | {len(ob)} | {cov.get('evaluations', '?')} evaluations, "
                    f"{cov.get('distinct_nontrivial', '?')} distinct non-trivial, {ev.get('wall_s', '?')} s ({ev.get('tier', '?')}) | "
                    f"{', '.join(opn) or '–'} | {', '.join(fx) or '–'} |")
    for n in man.get("not_applicable", []):
        rows.append(f"| {n['property_id']} | not claimed | – | – | – | – |")
    return "\n".join(rows)


def seeded_table():
    rows = ["| seeded change | property | what it changes (first line of notes) | demo clean / patched | suite new failures | checks run → caught by |",
            "|---|---|---|---|---|---|"]
    for d in sorted((V / "seeded").iterdir()):
        m = load(d / "meta.json")
        if not m:
            rows.append(f"| {d.name} | {d.name.split('-')[0]} | (not yet evaluated) | | | |")
            continue
        notes = (d / "notes.md").read_text().splitlines() if (d / "notes.md").exists() else []
        first = next((l.strip("# *").strip() for l in notes if l.strip()), "")[:110].replace("|", "/")
        suite = m.get("existing_suite_with_patch")
        sn = "not re-run" if not suite else (", ".join(suite["new_failures"]) or "none")
        ran = m.get("checks_run", {})
        caught = m.get("caught_by", [])
        if m.get("superseded"):
            first = "(superseded: no longer applies to the repaired tree) " + first
        hist = m.get("history", [])
        if hist and not hist[0]["caught_by"] and caught:
            first = "(missed at first, see 9.1) " + first
        rows.append(f"| {d.name} | {m.get('property', d.name.split('-')[0])} | {first} | {m.get('demo_on_clean_tree_exit')} / "
                    f"{m.get('demo_with_patch_exit')} | {sn} | {', '.join(ran)} → **{', '.join(caught) or 'MISSED'}** |")
    return "\n".join(rows)


def main():
    p = V / "DESIGN.md"
    s = p.read_text()
    for name, fn in (("status", status_table), ("seeded", seeded_table)):
        pat = re.compile(rf"(<!-- BEGIN:{name} -->\n).*?(\n<!-- END:{name} -->)", re.S)
        if pat.search(s):
            s = pat.sub(lambda m: m.group(1) + fn() + m.group(2), s)
    p.write_text(s)
    print("DESIGN.md tables regenerated")


if __name__ == "__main__":
    main()
