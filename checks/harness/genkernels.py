"""Differential execution of the TRANSLATED kernels (lean/Exetera/Gen/Kernels.lean, written by tools/translate_njit.py from
the current operations.py) against the REAL compiled kernels.

This validates the translator's semantics (the runtime prelude Model/PyRt.lean: subscripts, slices, numpy fancy indexing,
np.zeros, range folds, while loops, break, integer arithmetic on negative numbers, empty arrays), which is the trusted
part of the tie "generated Lean definition = what the source says".  The theorems about the generated definitions are in
Lemmas/GenKernels*.lean and Props/*Gen.lean.

It is a helper, not a property harness: the harness of the property that owns a kernel calls `install(globals(), "Cxx")`
at its very end; that wraps the owner's `gen_cases`, `impl`, `to_model`, `compare`, `check_spec`, … so that additional cases
with `"op": "gen_kernel"` are generated (derived from the owner's own cases plus a small seeded stream of direct kernel
calls), routed to the real kernel (`impl`) and to the driver op `gen_kernel` (Driver/CGenKernels.lean), and compared.
The owner's cases and verdict logic are untouched.

Case format:  {"op": "gen_kernel", "kernel": <name>, "args": [{"arr": [...]}, {"barr": [...]}, {"int": n}, {"bool": b},
               {"str": "..."}, {"none": true}], "fuel": n, "_unsafe": bool}
`_unsafe` marks a call that may subscript out of range: compiled code does not check subscripts, so such a call is only
executed interpreted / bounds-checked (USE_NUMBA=false, NUMBA_BOUNDSCHECK=1), never in the plain JIT mode."""
import os

# kernel -> owning property, numpy dtypes of the array arguments (positional; None for scalars)
KERNELS = {
    "apply_spans_count": {"owner": "C08"},
    "apply_spans_first": {"owner": "C08"},
    "apply_spans_last": {"owner": "C08"},
    "apply_spans_max": {"owner": "C08"},
    "apply_spans_min": {"owner": "C08"},
    "apply_spans_index_of_first": {"owner": "C08"},
    "apply_spans_index_of_last": {"owner": "C08"},
    "apply_spans_index_of_min": {"owner": "C08"},
    "apply_spans_index_of_max": {"owner": "C08"},
    "_get_spans_for_2_fields_by_spans": {"owner": "C08"},
    "apply_spans_index_of_first_filter": {"owner": "C08"},       # (dest_array, filter_array) are returned by name
    "apply_spans_index_of_last_filter": {"owner": "C08"},
    "apply_spans_index_of_min_filter": {"owner": "C08"},
    "apply_spans_index_of_max_filter": {"owner": "C08"},
    "_get_spans_for_2_fields_njit": {"owner": "C08", "mutated": [2]},        # returns a slice of the `spans` buffer it wrote
    "_get_spans_for_multi_fields_njit": {"owner": "C08", "mutated": [1]},
    "_get_spans_for_index_string_field": {"owner": "C08"},
    "apply_spans_index_of_min_indexed": {"owner": "C08"},
    "apply_spans_index_of_max_indexed": {"owner": "C08"},
    "compare_arrays": {"owner": "C14"},                                        # `return` inside the loop
    "apply_filter_to_index_values": {"owner": "C09"},
    "apply_indices_to_index_values": {"owner": "C09"},
    "map_valid": {"owner": "C04"},
    "ordered_map_valid_partial": {"owner": "C04", "mutated": [5]},   # result_data is written in place
    "ordered_map_valid_indexed_partial": {"owner": "C04", "mutated": [8, 9]},  # result_indices, result_values
    "safe_map_values": {"owner": "C04"},
    "next_map_subchunk": {"owner": "C04"},
    "get_valid_value_extents": {"owner": "C04"},
    "generate_ordered_map_to_left_both_unique_partial": {"owner": "C03", "mutated": [2]},
    "generate_ordered_map_to_left_remaining": {"owner": "C03", "mutated": [1, 2]},
    "generate_ordered_map_to_left_right_unique_remaining": {"owner": "C03", "mutated": [1]},
    "generate_ordered_map_to_left_partial": {"owner": "C03", "mutated": [4, 5]},
    "generate_ordered_map_to_left_left_unique_partial": {"owner": "C03", "mutated": [3, 4]},
    "generate_ordered_map_to_left_right_unique_partial": {"owner": "C03", "mutated": [3]},
    "generate_ordered_map_to_inner_partial": {"owner": "C03", "mutated": [4, 5]},
    "generate_ordered_map_to_inner_left_unique_partial": {"owner": "C03", "mutated": [4, 5]},
    "generate_ordered_map_to_inner_right_unique_partial": {"owner": "C03", "mutated": [4, 5]},
    "generate_ordered_map_to_inner_both_unique_partial": {"owner": "C03", "mutated": [4, 5]},
    "compare_rows_for_journalling": {"owner": "C17", "mutated": [4]},          # returns None: the result is `to_keep`
    "compare_indexed_rows_for_journalling": {"owner": "C17", "mutated": [6]},
    "merge_journalled_entries": {"owner": "C17", "mutated": [5]},              # returns None: the result is `dest`
    "merge_indexed_journalled_entries_count": {"owner": "C17"},
    "merge_indexed_journalled_entries": {"owner": "C17", "mutated": [7, 8]},   # returns None: (dest_inds, dest_vals)
    "_apply_spans_concat_2": {"owner": "C16", "mutated": [3, 4]},             # (s + 1, d_index_i, d_index_v), dest_index, dest_values
    "categorical_transform": {"owner": "C06", "mutated": [0]},                 # returns None: the result is `chunk`
    "leaky_categorical_transform": {"owner": "C06", "mutated": [0, 1, 2]},     # chunk, freetext_indices, freetext_values
    "fixed_string_transform": {"owner": "C06", "mutated": [6]},                # returns None: the result is `memory`
    # (exception_message, exception_args: list of arrays), elements, validity; column_vals / field_name are uint8 as at the call
    # site (NumericImporter.import_part), validation_mode a Python str
    "numeric_bool_transform": {"owner": "C06", "mutated": [0, 1], "dtypes": {3: "uint8", 9: "uint8"}},
    "generate_ordered_map_to_left_both_unique": {"owner": "C19", "mutated": [2]},
    "generate_ordered_map_to_left_right_unique": {"owner": "C19", "mutated": [2]},
    "ordered_inner_map_both_unique": {"owner": "C19", "mutated": [2, 3]},      # returns None
    "ordered_inner_map_result_size": {"owner": "C19"},
    "ordered_inner_map_left_unique": {"owner": "C19", "mutated": [2, 3]},      # returns None
    "ordered_inner_map": {"owner": "C19", "mutated": [2, 3]},                  # returns None
    # KT4C: the two `_old` kernels of the legacy streamed forms of Session.ordered_merge_left / _right
    "generate_ordered_map_to_left_right_unique_partial_old": {"owner": "C19", "mutated": [3]},   # (i, j, unmapped), left_to_right
    "ordered_map_valid_partial_old": {"owner": "C19", "mutated": [3]},                           # (i, val), result
    # a generator: the translation returns the lists of the yielded components (starts, ends); `generator` = their number
    "chunks": {"owner": "C19", "generator": 2},
    # kernels WITHOUT a caller in the library (dead code: only tests/ call them): translated and validated differentially under
    # C10 only; no theorem about them is an obligation of any property (an edit to dead code raises no semantic alarm)
    "ordered_left_map_result_size": {"owner": "C10"},
    "ordered_outer_map_result_size_both_unique": {"owner": "C10"},
    "ordered_inner_map_left_unique_partial": {"owner": "C10", "mutated": [4, 5]},
    "ordered_get_last_as_filter": {"owner": "C10"},
    "streaming_sort_partial": {"owner": "C10", "mutated": [0, 4, 5]},
    # KT4B
    "ordered_generate_journalling_indices": {"owner": "C17"},                  # (old_inds, new_inds); safe on every input
    # typed lists: unique_result is a numba typed list of uint8 arrays, the three companions typed lists of int64 or None;
    # returns None: the result is the four lists
    "get_indexed_string_unique": {"owner": "C14", "mutated": [2, 3, 4, 5],
                                  "decode": [None, "u8", "list_u8", "olist_i64", "olist_i64", "olist_i64"]},
    "isin_indexed_string_speedup": {"owner": "C14", "decode": ["list_u8", None, "u8"]},
    "safe_map_indexed_values": {"owner": "C04", "decode": [None, "u8", None, None, "ou8"]},
    # KT4A  ("module": the kernel lives in exetera/core/<module>.py instead of operations.py)
    "fast_csv_reader": {"owner": "C05", "mutated": [2, 3], "module": "csv_reader_speedup"},   # column_inds, column_vals
    "transform_to_values": {"owner": "C06"},                                   # returns a list of arrays
}
C08_NOSRC = ("apply_spans_count", "apply_spans_index_of_first", "apply_spans_index_of_last")
C08_REDUCE = ("apply_spans_count", "apply_spans_first", "apply_spans_last", "apply_spans_max", "apply_spans_min",
              "apply_spans_index_of_first", "apply_spans_index_of_last", "apply_spans_index_of_min", "apply_spans_index_of_max")
C08_FILTER = {"index_of_first": "apply_spans_index_of_first_filter", "index_of_last": "apply_spans_index_of_last_filter",
              "index_of_min": "apply_spans_index_of_min_filter", "index_of_max": "apply_spans_index_of_max_filter"}

QUICK_DERIVED = 270
QUICK_RANDOM = 270


def arr(xs):
    return {"arr": [int(x) for x in xs]}


def arr2(rows):
    return {"arr2": [[int(x) for x in r] for r in rows]}


def barr(xs):
    return {"barr": [bool(x) for x in xs]}


NONE = {"none": True}


def gcase(kernel, args, unsafe=False, fuel=None, **ann):
    n = sum(len(a.get("arr", a.get("barr", []))) + sum(len(r) for r in a.get("arr2", [])) for a in args)
    c = {"op": "gen_kernel", "kernel": kernel, "args": args, "fuel": fuel if fuel is not None else 4 * n + 64,
         "_unsafe": bool(unsafe),
         # the cross-cutting harnesses (C10/C11/C12, checks/harness/meta.py) re-run the owners' own well-formed cases and
         # use owner-specific helpers on them; this flag keeps the translator-validation cases out of those runs
         "_malformed": True}
    c.update(ann)
    return c


# ----------------------------------------------------------------------------------------------------------------------
# C08: apply_spans_*
# ----------------------------------------------------------------------------------------------------------------------

C08_FN = {"count": "apply_spans_count", "first": "apply_spans_first", "last": "apply_spans_last",
          "min": "apply_spans_min", "max": "apply_spans_max", "index_of_min": "apply_spans_index_of_min",
          "index_of_max": "apply_spans_index_of_max", "index_of_first": "apply_spans_index_of_first",
          "index_of_last": "apply_spans_index_of_last"}


def c08_safe(sp, n):
    """every subscript the span kernels make is in range: span entries within [0, n], non-decreasing, ends ≥ 1"""
    return len(sp) >= 1 and all(0 <= a <= b <= n for a, b in zip(sp, sp[1:])) and all(1 <= b for b in sp[1:]) and \
        all(0 <= a < max(n, 1) for a in sp[:-1]) and (n > 0 or len(sp) == 1)


def merge_safe(s0, s1):
    """`while span1[j] < span0[i]` stays inside span1: some entry of span1 is ≥ every entry of span0 it is compared with"""
    return not s1 or not s0 or (max(s1) >= max(s0) and all(a <= b for a, b in zip(s1, s1[1:])))


def indexed_minmax_safe(sp, idx, vals):
    """every subscript of apply_spans_index_of_{min,max}_indexed is in range: spans address rows, offsets address values"""
    nrows = len(idx) - 1
    return len(sp) >= 1 and all(0 <= a < b <= nrows for a, b in zip(sp, sp[1:])) and \
        all(0 <= a <= len(vals) for a in idx)


def _int_col(col):
    return col is not None and col.get("kind") == "numeric" and col.get("dtype", "int64") in ("int64", "int32") and \
        ints_only(col["data"])


def filter_case(k, sp, src, dest, filt, **ann):
    """a `*_filter` kernel call; it may subscript out of range exactly when a buffer has fewer entries than there are spans"""
    args = [arr(sp)] + ([arr(src)] if k.endswith(("min_filter", "max_filter")) else []) + [arr(dest), barr(filt)]
    return gcase(k, args, unsafe=min(len(dest), len(filt)) < len(sp) - 1, **ann)


def derive_c08(case):
    op = case.get("op")
    if op == "apply_filter" and _int_col(case.get("col")):
        return filter_case(C08_FILTER[case["fn"]], case["spans"], case["col"]["data"], case["dest"], case["filt"], _from="C08")
    if op == "spans_2arrays" and all(_int_col(c) for c in case["cols"]) and len(case["cols"]) == 2:
        a, b = (c["data"] for c in case["cols"])
        return gcase("_get_spans_for_2_fields_njit", [arr(a), arr(b), arr([0] * (len(a) + 1))], unsafe=len(b) < len(a),
                     _from="C08")
    if op == "spans_multi" and case["cols"] and all(_int_col(c) for c in case["cols"]) and \
            len({len(c["data"]) for c in case["cols"]}) == 1:
        rows = [c["data"] for c in case["cols"]]
        return gcase("_get_spans_for_multi_fields_njit", [arr2(rows), arr([0] * (len(rows[0]) + 1))], _from="C08")
    if op == "spans_indexed_raw":
        return gcase("_get_spans_for_index_string_field", [arr(case["indices"]), arr(case["values"])], _from="C08")
    if case.get("op") == "spans_by_spans":
        s0, s1 = case["span0"], case["span1"]
        return gcase("_get_spans_for_2_fields_by_spans", [arr(s0), arr(s1)], unsafe=not merge_safe(s0, s1),
                     fuel=len(s1) + 1, _from="C08")
    if case.get("op") != "apply" or case.get("level") != "ops":
        return None
    if case["fn"] in ("index_of_min_indexed", "index_of_max_indexed") and case.get("col", {}).get("kind") == "indexed":
        idx, vals = [0], []
        for st in case["col"]["data"]:
            vals.extend(st.encode("latin-1"))
            idx.append(len(vals))
        if not case["col"]["data"] and case["col"].get("noidx", True):
            idx = []
        sp = case["spans"]
        return gcase("apply_spans_" + case["fn"], [arr(sp), arr(idx), arr(vals), NONE],
                     unsafe=not indexed_minmax_safe(sp, idx, vals), _from="C08")
    k = C08_FN.get(case["fn"])
    if k not in KERNELS:
        return None
    col = case.get("col")
    sp = case["spans"]
    if col is None:
        return gcase(k, [arr(sp), NONE], unsafe=len(sp) == 0 and False, _from="C08")
    if col["kind"] != "numeric" or col.get("dtype", "int64") not in ("int64", "int32"):
        return None
    return gcase(k, [arr(sp), arr(col["data"]), NONE], unsafe=not c08_safe(sp, len(col["data"])), _from="C08")


def random_c08(rng, n_cases):
    out = []
    names = [k for k, v in KERNELS.items() if v["owner"] == "C08"]
    for t in range(n_cases):
        k = names[t % len(names)]
        if k in C08_FILTER.values():
            n = rng.choice([0, 1, 2, 3, rng.randrange(1, 12), rng.randrange(1, 40)])
            src = [rng.choice([0, 1, -1, 5, -7, 2 ** 40, rng.randrange(-9, 10)]) for _ in range(n)]
            what = rng.randrange(10)
            if what < 7:                                   # non-decreasing, empty spans included
                sp = sorted(rng.randrange(0, n + 1) for _ in range(rng.randrange(0, 7)))
            else:                                          # anything: decreasing, beyond the column, negative
                sp = [rng.randrange(-2, n + 3) for _ in range(rng.randrange(0, 5))]
            m = max(len(sp) - 1, 0)
            dl, fl = (m, m) if rng.random() < 0.8 else (rng.randrange(0, m + 2), rng.randrange(0, m + 2))
            out.append(filter_case(k, sp, src, [7] * dl, [rng.random() < 0.5 for _ in range(fl)], _from="random"))
            continue
        if k == "_get_spans_for_2_fields_njit":
            n = rng.choice([0, 1, 2, 3, rng.randrange(1, 30)])
            a = sorted(rng.randrange(0, 4) for _ in range(n))
            b = [rng.randrange(0, 3) for _ in range(n if rng.random() < 0.85 else rng.randrange(0, n + 2))]
            cap = n + 1 if rng.random() < 0.8 else rng.randrange(0, n + 3)
            runs = 1 + sum(1 for i in range(1, n) if a[i] != a[i - 1] or (i < len(b) and b[i] != b[i - 1]))
            out.append(gcase(k, [arr(a), arr(b), arr([9] * cap)], unsafe=len(b) < n or cap < (runs + 1 if n else 1),
                             _from="random"))
            continue
        if k == "_get_spans_for_multi_fields_njit":
            n = rng.choice([0, 1, 2, 3, rng.randrange(1, 20)])
            rows = [[rng.randrange(0, 2 + c) for _ in range(n)] for c in range(rng.randrange(1, 5))]
            rows[0].sort()
            cap = n + 1 if rng.random() < 0.8 else rng.randrange(0, n + 3)
            runs = 1 + sum(1 for i in range(1, n) if any(r[i] != r[i - 1] for r in rows))
            out.append(gcase(k, [arr2(rows), arr([9] * cap)], unsafe=cap < (runs + 1 if n else 1), _from="random"))
            continue
        if k == "_get_spans_for_index_string_field":
            n = rng.choice([0, 0, 1, 2, 3, rng.randrange(1, 15)])
            strs = [[rng.choice([97, 98, 32])] * rng.choice([0, 1, 1, 2, 3]) for _ in range(n)]
            strs = [strs[i - 1] if i and rng.random() < 0.5 else strs[i] for i in range(n)]
            idx = [0]
            for st in strs:
                idx.append(idx[-1] + len(st))
            vals = [c for st in strs for c in st]
            what = rng.randrange(10)
            if what == 0:
                idx = []                                   # a field without any index entry
            elif what == 1:
                idx = [rng.randrange(0, len(vals) + 3) for _ in idx]       # offsets that are not an encoding
            elif what == 2:
                vals = vals[:rng.randrange(0, len(vals) + 1)]
            out.append(gcase(k, [arr(idx), arr(vals)], _from="random"))
            continue
        if k in ("apply_spans_index_of_min_indexed", "apply_spans_index_of_max_indexed"):
            n = rng.choice([0, 1, 2, 3, rng.randrange(1, 12)])
            strs = [[rng.choice([97, 98, 32]) for _ in range(rng.choice([0, 1, 1, 2, 3]))] for _ in range(n)]
            strs = [strs[i - 1] if i and rng.random() < 0.3 else strs[i] for i in range(n)]
            idx = [0]
            for st in strs:
                idx.append(idx[-1] + len(st))
            vals = [c for st in strs for c in st]
            what = rng.randrange(10)
            if what == 0 and n >= 2:
                j = rng.randrange(1, n)              # offsets that decrease somewhere (rows of negative "length")
                idx[j] = rng.randrange(0, len(vals) + 1)
            elif what == 1:
                vals = vals[:rng.randrange(0, len(vals) + 1)]
            what = rng.randrange(10)
            if what < 7:
                sp = [0] + [i for i in range(1, n) if rng.random() < rng.choice([0.1, 0.5, 0.9])] + ([n] if n else [])
            elif what < 9:
                sp = sorted(rng.randrange(0, n + 1) for _ in range(rng.randrange(0, 6)))
            else:
                sp = [rng.randrange(-2, n + 3) for _ in range(rng.randrange(0, 5))]
            dest = NONE if rng.random() < 0.8 or not sp else arr([9] * (len(sp) - 1))
            out.append(gcase(k, [arr(sp), arr(idx), arr(vals), dest], unsafe=not indexed_minmax_safe(sp, idx, vals),
                             _from="random"))
            continue
        if k == "_get_spans_for_2_fields_by_spans":
            n = rng.randrange(0, 30)
            mk = lambda: sorted(set([0, n] + [rng.randrange(0, n + 1) for _ in range(rng.randrange(0, 8))]))  # noqa: E731
            s0, s1 = mk(), mk()
            if rng.random() < 0.3:                     # not over the same row count / empty / unsorted / negative
                s1 = [rng.randrange(-3, n + 4) for _ in range(rng.randrange(0, 6))]
            out.append(gcase(k, [arr(s0), arr(s1)], unsafe=not merge_safe(s0, s1), fuel=len(s1) + 1, _from="random"))
            continue
        n = rng.choice([0, 1, 2, 3, rng.randrange(1, 12), rng.randrange(1, 60)])
        src = [rng.choice([0, 1, -1, 5, -7, 2 ** 40, -(2 ** 40), rng.randrange(-9, 10)]) for _ in range(n)]
        what = rng.randrange(10)
        if what < 6:                                   # well-formed spans
            sp = [0] + [i for i in range(1, n) if rng.random() < rng.choice([0.1, 0.5, 0.9])] + ([n] if n else [])
        elif what < 8:                                 # in range but with empty spans / not from 0 / not to n
            sp = sorted(rng.randrange(0, n + 1) for _ in range(rng.randrange(0, 6)))
        else:                                          # anything, negative entries included
            sp = [rng.randrange(-2, n + 3) for _ in range(rng.randrange(0, 5))]
        unsafe = not c08_safe(sp, n)
        if k in C08_NOSRC:
            args = [arr(sp), NONE]
            unsafe = False                              # reads spans[i], spans[i+1] for i < len - 1 only
            if rng.random() < 0.3 and len(sp) >= 1:
                args = [arr(sp), arr([9] * (len(sp) - 1))]           # caller-supplied destination
        else:
            args = [arr(sp), arr(src), NONE]
            if rng.random() < 0.2 and len(sp) >= 1:
                args = [arr(sp), arr(src), arr([9] * (len(sp) - 1))]
        out.append(gcase(k, args, unsafe=unsafe, _from="random"))
    return out


# ----------------------------------------------------------------------------------------------------------------------
# C09: the two-pass kernels on (indices, values) buffers.  Both validate their subscripts before using them (fixes D8 /
# NC09b), so no call is `_unsafe`; a negative entry of `indices_to_apply` is the translation's `negative_index` branch.
# ----------------------------------------------------------------------------------------------------------------------

def derive_c09(case):
    if case.get("op") != "c09_kernel":
        return None
    if case["kernel"] == "filter":
        return gcase("apply_filter_to_index_values", [barr(case["flt"]), arr(case["indices"]), arr(case["values"])],
                     _from="C09")
    return gcase("apply_indices_to_index_values", [arr(case["idx"]), arr(case["indices"]), arr(case["values"])],
                 _from="C09")


def random_c09(rng, n_cases):
    out = []
    for t in range(n_cases):
        n = rng.choice([0, 1, 2, 3, rng.randrange(1, 10), rng.randrange(1, 40)])
        lens = [rng.choice([0, 0, 1, 2, 3, 7]) for _ in range(n)]
        indices = [0]
        for ln in lens:
            indices.append(indices[-1] + ln)
        values = [rng.randrange(0, 256) for _ in range(indices[-1])]
        what = rng.randrange(10)
        if what == 8 and n:                              # offsets that are not an encoding: decreasing / beyond the values
            indices = [rng.randrange(0, len(values) + 3) for _ in indices]
        if what == 9:
            values = values[:rng.randrange(0, len(values) + 1)]
        if t % 2 == 0:
            m = n if rng.random() < 0.85 else rng.randrange(0, n + 3)
            flt = [rng.random() < rng.choice([0.2, 0.5, 0.9]) for _ in range(m)]
            out.append(gcase("apply_filter_to_index_values", [barr(flt), arr(indices), arr(values)], _from="random"))
        else:
            lo = 0 if rng.random() < 0.8 else -n - 1
            idx = [rng.randrange(lo, n + (1 if rng.random() < 0.1 else 0)) if n or lo < 0 or rng.random() < 0.1 else 0
                   for _ in range(rng.randrange(0, 12))] if n else ([] if rng.random() < 0.7 else [0])
            out.append(gcase("apply_indices_to_index_values", [arr(idx), arr(indices), arr(values)], _from="random"))
    return out


# ----------------------------------------------------------------------------------------------------------------------
# C04: map_valid, ordered_map_valid_partial, next_map_subchunk, get_valid_value_extents
# ----------------------------------------------------------------------------------------------------------------------

def ints_only(xs):
    return all(isinstance(x, int) and not isinstance(x, bool) for x in xs)


def map_safe(m, inv, lo, n):
    """every valid map entry addresses a source row: lo ≤ k < lo + n (a negative offset within -n..-1 wraps, still in range)"""
    return all(k == inv or -n <= k - lo < n for k in m)


def derive_c04(case):
    op = case.get("op")
    if op == "map_valid" and ints_only(case["src"]) and ints_only(case["map"]):
        res = case.get("result")
        if res is not None and (not ints_only(res) or len(res) != len(case["map"])):
            return None
        return gcase("map_valid", [arr(case["src"]), arr(case["map"]), NONE if res is None else arr(res), {"int": case["inv"]}],
                     unsafe=not map_safe(case["map"], case["inv"], 0, len(case["src"])), _from="C04")
    if op == "next_map_subchunk" and ints_only(case["map"]):
        return gcase("next_map_subchunk", [arr(case["map"]), {"int": case["sm"]}, {"int": case["inv"]}, {"int": case["cs"]}],
                     unsafe=case["sm"] < 0, fuel=2 * len(case["map"]) + 8, _from="C04")
    if op == "safe_map_indexed_values" and ints_only(case["map"]):
        idx, vals = _encode_col([list(e.encode()) for e in case["entries"]])
        return safe_map_indexed_gcase(idx, vals, case["map"], case["filter"],
                                      None if case["empty"] is None else list(case["empty"]), "C04")
    if op == "extents" and ints_only(case["map"]):
        s_, e_ = case["start"], case["end"]
        return gcase("get_valid_value_extents", [arr(case["map"]), {"int": s_}, {"int": e_}, {"int": case["inv"]}],
                     unsafe=not (0 <= s_ < e_ <= len(case["map"])), fuel=len(case["map"]) + 8, _from="C04")
    return None


def indexed_partial_safe(m, sm_end, indices, i_start, i_max, values, mv_start, cap_i, cap_v, inv, sm, ri, rv):
    """every subscript of ordered_map_valid_indexed_partial is in range (a negative one within -len..-1 wraps, still in range)"""
    if not _inr(i_start, len(indices)):
        return False
    v_off = indices[i_start]
    while sm < sm_end:
        if not _inr(sm, len(m)):
            return False
        if m[sm] == inv:
            if not _inr(ri, cap_i):
                return False
        else:
            i = m[sm] - mv_start
            if i >= i_max:
                return True
            if not (_inr(i, len(indices)) and _inr(i + 1, len(indices))):
                return False
            v_start, v_end = indices[i] - v_off, indices[i + 1] - v_off
            if rv + v_end - v_start > cap_v:
                return True
            for v in range(v_start, v_end):
                if not (_inr(v, len(values)) and _inr(rv, cap_v)):
                    return False
                rv += 1
            if not _inr(ri, cap_i):
                return False
        sm += 1
        ri += 1
    return True


def random_c04_indexed(rng):
    inv = rng.choice([-1, -1, 4611686018427387904])
    nrows = rng.randrange(1, 8)
    lens = [rng.choice([0, 1, 1, 2, 4]) for _ in range(nrows)]
    base = rng.randrange(0, 5)                                 # the offsets window does not start at 0
    indices = [base]
    for ln in lens:
        indices.append(indices[-1] + ln)
    i_start = rng.randrange(0, nrows)
    i_max = rng.randrange(i_start + 1, nrows + 1)
    values = [rng.randrange(1, 200) for _ in range(indices[i_max] - indices[i_start] + rng.choice([0, 0, 2]))]
    mv_start = rng.randrange(0, 30)
    n = rng.randrange(0, 8)
    m = sorted(mv_start + rng.randrange(i_start, min(nrows, i_max + 1)) for _ in range(n))
    m = [inv if rng.random() < 0.25 else k for k in m]
    what = rng.randrange(12)
    if what == 0:
        m = [inv if k == inv else k - rng.randrange(0, 3) for k in m]          # entries below the window
    elif what == 1:
        values = values[:rng.randrange(0, len(values) + 1)]
    sm = rng.randrange(0, n + 1)
    sm_end = n if rng.random() < 0.8 else rng.randrange(sm, n + 2)
    cap_i = rng.choice([n + 1, n + 1, max(n - 1, 0), 2])
    cap_v = rng.choice([0, 1, 3, 8, 64])
    ri = 0 if rng.random() < 0.7 else rng.randrange(0, cap_i + 1)
    rv = 0 if rng.random() < 0.7 else rng.randrange(0, cap_v + 1)
    acc = rng.randrange(0, 50)
    I = lambda v: {"int": int(v)}                     # noqa: E731,E741
    return gcase("ordered_map_valid_indexed_partial",
                 [arr(m), I(0), I(sm_end), arr(indices), I(i_start), I(i_max), arr(values), I(mv_start), arr([5] * cap_i),
                  arr([6] * cap_v), I(inv), I(sm), I(ri), I(rv), I(acc)],
                 unsafe=not indexed_partial_safe(m, sm_end, indices, i_start, i_max, values, mv_start, cap_i, cap_v, inv, sm, ri, rv),
                 fuel=n + 4, _from="random")


def random_c04_safe_map(rng):
    nsrc = rng.choice([0, 1, 2, 5, rng.randrange(1, 20)])
    n = rng.choice([0, 1, 2, 3, rng.randrange(1, 15)])
    src = [rng.randrange(-50, 1000) for _ in range(nsrc)]
    bad = rng.random() < 0.15
    m = [rng.randrange(-nsrc if bad else 0, nsrc + (2 if bad else 0)) if nsrc else rng.choice([0, -1]) for _ in range(n)]
    filt = [rng.random() < 0.6 and nsrc > 0 for _ in range(n if rng.random() < 0.9 else rng.randrange(0, n + 1))]
    safe = len(filt) >= n and all((not filt[i]) or -nsrc <= m[i] < nsrc for i in range(n))
    empty = NONE if rng.random() < 0.5 else {"int": rng.choice([0, -1, 7])}
    return gcase("safe_map_values", [arr(src), arr(m), barr(filt), empty], unsafe=not safe, _from="random")


def safe_map_indexed_safe(idx, vals, m, filt):
    """every subscript of safe_map_indexed_values is in range and every slice assignment copies equally long slices"""
    if len(filt) < len(m):
        return False
    for k, f in zip(m, filt):
        if f and not (0 <= k and k + 1 < len(idx) and 0 <= idx[k] <= idx[k + 1] <= len(vals)):
            return False
    return True


def safe_map_indexed_gcase(idx, vals, m, filt, empty, frm):
    return gcase("safe_map_indexed_values", [arr(idx), arr(vals), arr(m), barr(filt), NONE if empty is None else arr(empty)],
                 unsafe=not safe_map_indexed_safe(idx, vals, m, filt), _from=frm)


def random_c04_safe_map_indexed(rng):
    """an indexed string column (offsets, bytes), a row map and its filter as the merge code builds them; sometimes malformed:
    row numbers out of range / negative, a filter that is too short, offsets that decrease or run past the values"""
    rows = [[rng.randrange(0, 256) for _ in range(rng.choice([0, 0, 1, 2, 3, 5]))] for _ in range(rng.choice([0, 1, 2, 4, 7]))]
    idx = [0]
    for r in rows:
        idx.append(idx[-1] + len(r))
    vals = [b for r in rows for b in r]
    n = rng.choice([0, 1, 2, 3, rng.randrange(1, 12)])
    bad = rng.random() < 0.15
    nr = len(rows)
    m = [rng.randrange(-nr if bad else 0, nr + (2 if bad else 0)) if nr else rng.choice([0, -1]) for _ in range(n)]
    filt = [rng.random() < 0.65 and nr > 0 for _ in range(n if rng.random() < 0.9 else rng.randrange(0, n + 1))]
    r = rng.random()
    if r < 0.07 and len(idx) > 2:
        k = rng.randrange(1, len(idx))
        idx[k] = max(0, idx[k] - rng.randrange(1, 4))          # offsets that decrease somewhere
    elif r < 0.14 and vals:
        vals = vals[:rng.randrange(0, len(vals))]               # offsets beyond the values
    empty = None if rng.random() < 0.5 else [rng.randrange(0, 256) for _ in range(rng.choice([0, 1, 3]))]
    return safe_map_indexed_gcase(idx, vals, m, filt, empty, "random")


def random_c04(rng, n_cases):
    out = []
    for t in range(n_cases):
        if t % 7 == 6:
            out.append(random_c04_safe_map_indexed(rng))
            continue
        if t % 6 == 5:
            out.append(random_c04_safe_map(rng))
            continue
        if t % 6 == 4:
            out.append(random_c04_indexed(rng))
            continue
        inv = rng.choice([-1, -1, 2147483647, 4611686018427387904])
        nsrc = rng.choice([0, 1, 2, 5, rng.randrange(1, 30)])
        n = rng.choice([0, 1, 2, 3, rng.randrange(1, 25)])
        src = [rng.randrange(-50, 1000) for _ in range(nsrc)]
        what = t % 6
        if what == 0:
            bad = rng.random() < 0.15
            m = [inv if rng.random() < 0.3 or nsrc == 0 else rng.randrange(-nsrc if bad else 0, nsrc + (2 if bad else 0))
                 for _ in range(n)]
            res = NONE if rng.random() < 0.5 else arr([rng.randrange(100) for _ in m])
            out.append(gcase("map_valid", [arr(src), arr(m), res, {"int": inv}], unsafe=not map_safe(m, inv, 0, nsrc),
                             _from="random"))
        elif what == 1:
            # as ordered_map_valid_stream calls it: a window [lo, lo + len(values)) of the source and a sub-chunk [s, e)
            lo = rng.randrange(0, 50)
            bad = rng.random() < 0.15
            m = [inv if rng.random() < 0.3 or nsrc == 0 else lo + rng.randrange(-1 if bad else 0, nsrc + (1 if bad else 0))
                 for _ in range(n)]
            s_ = rng.randrange(0, n + 1)
            e_ = rng.randrange(s_, n + 1)
            buf = [rng.randrange(7, 10) for _ in range(n + (0 if rng.random() < 0.9 else -1 if n else 0))]
            safe = map_safe(m[s_:e_], inv, lo, nsrc) and e_ <= len(buf)
            out.append(gcase("ordered_map_valid_partial",
                             [arr(src), arr(m), {"int": s_}, {"int": e_}, {"int": lo}, arr(buf), {"int": inv},
                              {"int": rng.choice([0, -5])}], unsafe=not safe, fuel=n + 4, _from="random"))
        elif what == 2:
            m = sorted(rng.randrange(0, 40) for _ in range(n))
            m = [inv if rng.random() < 0.3 else k for k in m]
            if rng.random() < 0.3 and n >= 2:           # a step back, as in the map of the non-driving side of a join
                i = rng.randrange(1, n)
                m[i:] = [inv if k == inv else max(k - 20, 0) for k in m[i:]]
            out.append(gcase("next_map_subchunk", [arr(m), {"int": rng.randrange(0, n + 2)}, {"int": inv},
                                                   {"int": rng.choice([1, 2, 5, 1000])}], fuel=2 * n + 8, _from="random"))
        else:
            m = [inv if rng.random() < 0.5 else rng.randrange(0, 40) for _ in range(n)]
            s_ = rng.randrange(0, n + 1)
            e_ = rng.randrange(0, n + 1)
            out.append(gcase("get_valid_value_extents", [arr(m), {"int": s_}, {"int": e_}, {"int": inv}],
                             unsafe=not (0 <= s_ < e_ <= n), fuel=n + 8, _from="random"))
    return out


# ----------------------------------------------------------------------------------------------------------------------
# C03: the join `_partial` / `_remaining` kernels, called as the streamed drivers call them (every subscript is guarded by
# the loop condition as long as i_max ≤ len(left), j_max ≤ len(right) and both result buffers have the same length)
# ----------------------------------------------------------------------------------------------------------------------

def _sorted_keys(rng, n, unique):
    if unique:
        return sorted(rng.sample(range(-5, 3 * n + 5), n))
    return sorted(rng.choice([rng.randrange(-3, n + 2), rng.randrange(0, 4)]) for _ in range(n))


def random_c03(rng, n_cases):
    out = []
    I = lambda v: {"int": int(v)}                     # noqa: E731,E741
    for t in range(n_cases):
        inv = rng.choice([-1, 2147483647, 4611686018427387904])
        nl, nr = rng.randrange(0, 12), rng.randrange(0, 12)
        cap = rng.choice([1, 2, 3, 5, 16])
        what = t % 10
        if what == 0:
            left, right = _sorted_keys(rng, nl, True), _sorted_keys(rng, nr, True)
            i, j = rng.randrange(0, nl + 1), rng.randrange(0, nr + 1)
            r = rng.randrange(0, cap + 1) if rng.random() < 0.3 else 0
            out.append(gcase("generate_ordered_map_to_left_both_unique_partial",
                             [arr(left), arr(right), arr([7] * cap), I(inv), I(rng.randrange(0, 100)), I(i), I(j), I(r)],
                             fuel=2 * (2 * nl + 2 * nr + cap) + 4, _from="random"))
        elif what == 1:
            i_max = rng.randrange(0, 12)
            out.append(gcase("generate_ordered_map_to_left_remaining",
                             [I(i_max), arr([7] * cap), arr([8] * cap), I(rng.randrange(0, 100)), I(rng.randrange(0, i_max + 2)),
                              I(rng.randrange(0, cap + 1)), I(inv)], fuel=i_max + 1, _from="random"))
        elif what == 2:
            i_max = rng.randrange(0, 12)
            out.append(gcase("generate_ordered_map_to_left_right_unique_remaining",
                             [I(i_max), arr([8] * cap), I(rng.randrange(0, i_max + 2)), I(rng.randrange(0, cap + 1)), I(inv)],
                             fuel=i_max + 1, _from="random"))
        elif what in (3, 4):
            left, right = _sorted_keys(rng, nl, False), _sorted_keys(rng, nr, False)
            cap = rng.choice([1, 2, 3, 5, 16, 64])
            i, j = (0, 0) if rng.random() < 0.6 else (rng.randrange(0, nl + 1), rng.randrange(0, nr + 1))
            # start of a key run on both sides only (the kernel is re-entered either in `inner` state or at run starts)
            while 0 < i < nl and left[i - 1] == left[i]:
                i -= 1
            while 0 < j < nr and right[j - 1] == right[j]:
                j -= 1
            fsm = [I(i), I(j), I(0), I(0), I(0), I(-1), I(-1), {"bool": False}]
            if what == 3:
                out.append(gcase("generate_ordered_map_to_left_partial",
                                 [arr(left), I(nl), arr(right), I(nr), arr([7] * cap), arr([8] * cap), I(inv),
                                  I(rng.randrange(0, 50)), I(rng.randrange(0, 50))] + fsm,
                                 fuel=4 * (nl + nr + cap) + 16, _from="random"))
            else:
                out.append(gcase("generate_ordered_map_to_inner_partial",
                                 [arr(left), I(nl), arr(right), I(nr), arr([7] * cap), arr([8] * cap),
                                  I(rng.randrange(0, 50)), I(rng.randrange(0, 50))] + fsm,
                                 fuel=4 * (nl + nr + cap) + 16, _from="random"))
        else:
            # the uniqueness-specialised kernels, as the streamed drivers call them: i_max / j_max are the logical (trimmed)
            # chunk lengths, at most the window lengths; one call in ten passes a bound beyond its window (`_unsafe`)
            lu = what in (5, 7)                        # left keys unique
            ru = what in (6, 8)                        # right keys unique
            bu = what == 9
            left = _sorted_keys(rng, nl, lu or bu)
            right = _sorted_keys(rng, nr, ru or bu)
            i_max = nl if rng.random() < 0.6 else rng.randrange(0, nl + 1)
            j_max = nr if rng.random() < 0.6 else rng.randrange(0, nr + 1)
            unsafe = False
            if rng.random() < 0.1:
                if rng.random() < 0.5:
                    i_max = nl + 1
                else:
                    j_max = nr + 1
                unsafe = True
            i, j = rng.randrange(0, nl + 1), rng.randrange(0, nr + 1)
            r = rng.randrange(0, cap + 1) if rng.random() < 0.3 else 0
            i_off, j_off = rng.randrange(0, 100), rng.randrange(0, 100)
            fuel = 2 * (2 * nl + 2 * nr + cap) + 8
            if what == 5:
                out.append(gcase("generate_ordered_map_to_left_left_unique_partial",
                                 [arr(left), arr(right), I(j_max), arr([7] * cap), arr([8] * cap), I(inv), I(i_off), I(j_off),
                                  I(i), I(j), I(r)], unsafe=unsafe and j_max > nr, fuel=fuel, _from="random"))
            elif what == 6:
                out.append(gcase("generate_ordered_map_to_left_right_unique_partial",
                                 [arr(left), I(i_max), arr(right), arr([8] * cap), I(inv), I(j_off), I(i), I(j), I(r)],
                                 unsafe=unsafe and i_max > nl, fuel=fuel, _from="random"))
            else:
                k = {7: "generate_ordered_map_to_inner_left_unique_partial",
                     8: "generate_ordered_map_to_inner_right_unique_partial",
                     9: "generate_ordered_map_to_inner_both_unique_partial"}[what]
                out.append(gcase(k, [arr(left), I(i_max), arr(right), I(j_max), arr([7] * cap), arr([8] * cap), I(i_off),
                                     I(j_off), I(i), I(j), I(r)], unsafe=unsafe, fuel=fuel, _from="random"))
    return out


# ----------------------------------------------------------------------------------------------------------------------
# C17: compare_rows_for_journalling on journalling maps (-1 = no row); C19: the flat left-map kernels on whole arrays
# ----------------------------------------------------------------------------------------------------------------------

def compare_rows_safe(om, nm, oldf, newf, tk):
    """every subscript the kernel makes is in range (a negative row number within -len..-1 wraps, still in range)"""
    if len(tk) < len(om):
        return False
    for i, o in enumerate(om):
        if tk[i]:
            continue
        if o == -1:
            continue
        if i >= len(nm):
            return False
        if nm[i] == -1:
            continue
        if not (-len(oldf) <= o < len(oldf)) or not (-len(newf) <= nm[i] < len(newf)):
            return False
    return True


def _inr(k, n):
    """is `a[k]` in range for len(a) == n (a negative subscript within -n..-1 wraps, still in range)"""
    return -n <= k < n


def merge_safe_run(om, nm, tk, old_n, new_n, cap, offsets):
    """every subscript of merge_journalled_entries (offsets=False: old_n / new_n rows, `cap` destination slots) resp.
    merge_indexed_journalled_entries_count (offsets=True: old_n / new_n offset entries) is in range"""
    cur_old = cur_dest = 0
    for i in range(len(om)):
        while cur_old <= om[i]:
            if not _inr(cur_old + (1 if offsets else 0), old_n) or not _inr(cur_old, old_n):
                return False
            if not offsets and not _inr(cur_dest, cap):
                return False
            cur_old += 1
            cur_dest += 1
        if i >= len(tk):
            return False
        if tk[i]:
            if i >= len(nm) or not _inr(nm[i], new_n) or (offsets and not _inr(nm[i] + 1, new_n)):
                return False
            if not offsets and not _inr(cur_dest, cap):
                return False
            cur_dest += 1
    return True


def _journal_maps(rng):
    """journalling maps as ordered_generate_journalling_indices produces them, plus keep flags"""
    no, nn = rng.randrange(0, 8), rng.randrange(0, 6)
    okeys = sorted(rng.randrange(0, 6) for _ in range(no))
    nkeys = sorted(rng.sample(range(0, 8), nn))
    om, nm = [], []
    for k in sorted(set(okeys) | set(nkeys)):
        om.append(max((i for i, x in enumerate(okeys) if x == k), default=-1))
        nm.append(nkeys.index(k) if k in nkeys else -1)
    tk = [n != -1 and (o == -1 or rng.random() < 0.5) for o, n in zip(om, nm)]
    return no, nn, om, nm, tk


def random_c17_merge(rng, t):
    no, nn, om, nm, tk = _journal_maps(rng)
    what = rng.randrange(10)
    if what == 0:                                       # anything: entries beyond the tables, keep flags without a snapshot row
        om = [rng.randrange(-1, no + 2) for _ in om]
        nm = [rng.randrange(-2, nn + 2) for _ in nm]
        tk = [rng.random() < 0.5 for _ in tk]
    elif what == 1 and om:
        nm = nm[:rng.randrange(0, len(nm) + 1)]
        tk = tk[:rng.randrange(0, len(tk) + 1)]
    if t % 2 == 0:
        cap = no + sum(tk) + rng.choice([0, 0, 0, 0, 1, 3, -1])
        cap = max(cap, 0)
        old_src = [rng.randrange(-5, 50) for _ in range(no)]
        new_src = [rng.randrange(50, 99) for _ in range(nn)]
        return gcase("merge_journalled_entries", [arr(om), arr(nm), barr(tk), arr(old_src), arr(new_src), arr([0] * cap)],
                     unsafe=not merge_safe_run(om, nm, tk, no, nn, cap, False), fuel=cap + no + 4, _from="random")
    oi, ni = [0], [0]
    for _ in range(no):
        oi.append(oi[-1] + rng.choice([0, 1, 1, 2, 5]))
    for _ in range(nn):
        ni.append(ni[-1] + rng.choice([0, 1, 1, 2, 5]))
    if rng.random() < 0.1:
        oi = oi[:-1]
    return gcase("merge_indexed_journalled_entries_count", [arr(om), arr(nm), barr(tk), arr(oi), arr(ni)],
                 unsafe=not merge_safe_run(om, nm, tk, len(oi), len(ni), 0, True), fuel=len(oi) + 4, _from="random")


def compare_indexed_safe(om, nm, oi, ov, ni, nv, tk):
    """the assertions can be evaluated and, when they pass, every subscript is in range"""
    if not oi or not ni:
        return False
    if len(om) != len(nm) or oi[-1] != len(ov) or ni[-1] != len(nv):
        return True                                    # AssertionError before any other subscript
    if len(tk) < len(om):
        return False
    for i, o in enumerate(om):
        if tk[i] or o == -1 or nm[i] == -1:
            continue
        if not (_inr(o, len(oi)) and _inr(o + 1, len(oi)) and _inr(nm[i], len(ni)) and _inr(nm[i] + 1, len(ni))):
            return False
    return True


def random_c17_indexed(rng):
    no, nn, om, nm, _ = _journal_maps(rng)
    mk = lambda k: [[rng.choice([97, 98])] * rng.choice([0, 1, 1, 2]) for _ in range(k)]      # noqa: E731
    orows, nrows = mk(no), mk(nn)
    oi, ni = [0], [0]
    for r in orows:
        oi.append(oi[-1] + len(r))
    for r in nrows:
        ni.append(ni[-1] + len(r))
    ov, nv = [c for r in orows for c in r], [c for r in nrows for c in r]
    what = rng.randrange(12)
    if what == 0:
        om = [rng.randrange(-1, no + 2) for _ in om]
        nm = [rng.randrange(-2, nn + 2) for _ in nm]
    elif what == 1:
        nm = nm[:-1] if nm else [0]                    # assert len(old_map) == len(new_map)
    elif what == 2:
        ov = ov + [97]                                 # assert old_indices[-1] == len(old_values)
    elif what == 3:
        nv = nv[:-1] if nv else [98]
    elif what == 4:
        oi = []
    tk = [rng.random() < 0.3 for _ in range(len(om) if rng.random() < 0.9 else rng.randrange(0, len(om) + 1))]
    return gcase("compare_indexed_rows_for_journalling", [arr(om), arr(nm), arr(oi), arr(ov), arr(ni), arr(nv), barr(tk)],
                 unsafe=not compare_indexed_safe(om, nm, oi, ov, ni, nv, tk), _from="random")


def merge_indexed_safe(om, nm, tk, oi, ni, capI):
    """every scalar subscript of merge_indexed_journalled_entries is in range (slices never raise IndexError)"""
    if capI < 1:
        return False
    cur_old, cur_dest = 0, 1
    for i in range(len(om)):
        while cur_old <= om[i]:
            if not (_inr(cur_old + 1, len(oi)) and _inr(cur_old, len(oi)) and _inr(cur_dest, capI)):
                return False
            cur_old += 1
            cur_dest += 1
        if i >= len(tk):
            return False
        if tk[i]:
            if i >= len(nm) or not (_inr(nm[i] + 1, len(ni)) and _inr(nm[i], len(ni)) and _inr(cur_dest, capI)):
                return False
            cur_dest += 1
    return True


def random_c17_merge_indexed(rng):
    no, nn, om, nm, tk = _journal_maps(rng)
    mk = lambda k: [[rng.randrange(1, 9)] * rng.choice([0, 1, 1, 2]) for _ in range(k)]      # noqa: E731
    orows, nrows = mk(no), mk(nn)
    oi, ni = [0], [0]
    for r in orows:
        oi.append(oi[-1] + len(r))
    for r in nrows:
        ni.append(ni[-1] + len(r))
    ov, nv = [c for r in orows for c in r], [c for r in nrows for c in r]
    what = rng.randrange(12)
    if what == 0:
        om = [rng.randrange(-1, no + 2) for _ in om]
        nm = [rng.randrange(-2, nn + 2) for _ in nm]
        tk = [rng.random() < 0.5 for _ in tk]
    elif what == 1:
        ov = ov[:rng.randrange(0, len(ov) + 1)]            # values shorter than the offsets say: a slice of the wrong size
    elif what == 2 and len(oi) > 1:
        oi = oi[:-1]
    capI = no + sum(tk) + 1 + rng.choice([0, 0, 0, 0, 1, -1])
    capV = len(ov) + sum(len(nrows[n]) for n, k in zip(nm, tk) if k and 0 <= n < nn) + rng.choice([0, 0, 0, 2, -1])
    capI, capV = max(capI, 0), max(capV, 0)
    return gcase("merge_indexed_journalled_entries",
                 [arr(om), arr(nm), barr(tk), arr(oi), arr(ov), arr(ni), arr(nv), arr([0] * capI), arr([0] * capV)],
                 unsafe=not merge_indexed_safe(om, nm, tk, oi, ni, capI), fuel=len(oi) + no + 4, _from="random")


def random_c17_indices(rng):
    """ordered_generate_journalling_indices: sorted old keys with runs / strictly sorted snapshot keys (the callers' shape),
    and keys outside the precondition (unsorted, repeated snapshot keys, negative keys, empty sides) — the kernel subscripts
    inside its arrays on EVERY input (C17Gen.gen_journal_indices_safe), so no call is `_unsafe`"""
    r = rng.random()
    lo = -3 if rng.random() < 0.2 else 0
    old = sorted(rng.randrange(lo, 7) for _ in range(rng.randrange(0, 12)))
    new = sorted(rng.sample(range(lo, 9), rng.randrange(0, 7)))
    if r < 0.15 and len(old) > 1:
        rng.shuffle(old)
    elif r < 0.3 and new:
        new.insert(rng.randrange(len(new) + 1), rng.choice(new))
    elif r < 0.4:
        new = [rng.randrange(lo, 7) for _ in range(rng.randrange(0, 7))]
    return gcase("ordered_generate_journalling_indices", [arr(old), arr(new)], _from="random")


def derive_c17(case):
    if case.get("op") != "journal_kernels":
        return None
    old, new = case.get("old"), case.get("new")
    if not all(isinstance(x, int) and not isinstance(x, bool) for x in list(old) + list(new)):
        return None
    return gcase("ordered_generate_journalling_indices", [arr(old), arr(new)], _from="C17")


def random_c17(rng, n_cases):
    out = []
    for t in range(n_cases):
        kind = t % 6
        if kind == 5:
            out.append(random_c17_indices(rng))
            continue
        if kind == 4:
            out.append(random_c17_merge_indexed(rng))
            continue
        if kind == 3:
            out.append(random_c17_indexed(rng))
            continue
        if kind in (1, 2):
            out.append(random_c17_merge(rng, kind))
            continue
        no, nn = rng.randrange(0, 8), rng.randrange(0, 8)
        n = rng.randrange(0, 10)
        oldf = [rng.randrange(0, 4) for _ in range(no)]
        newf = [rng.randrange(0, 4) for _ in range(nn)]
        bad = rng.random() < 0.15
        om = [-1 if rng.random() < 0.3 or no == 0 else rng.randrange(-no if bad else 0, no + (2 if bad else 0)) for _ in range(n)]
        nm = [-1 if rng.random() < 0.3 or nn == 0 else rng.randrange(-nn if bad else 0, nn + (2 if bad else 0)) for _ in range(n)]
        if rng.random() < 0.1:
            nm = nm[:rng.randrange(0, n + 1)]
        tk = [rng.random() < 0.3 for _ in range(n if rng.random() < 0.9 else rng.randrange(0, n + 1))]
        out.append(gcase("compare_rows_for_journalling", [arr(om), arr(nm), arr(oldf), arr(newf), barr(tk)],
                         unsafe=not compare_rows_safe(om, nm, oldf, newf, tk), _from="random"))
    return out


# ----------------------------------------------------------------------------------------------------------------------
# C06: categorical_transform on staging arrays as the CSV reader fills them (2-D `column_inds`, flat `column_vals`)
# ----------------------------------------------------------------------------------------------------------------------

def categorical_safe(chunk_n, ic, cinds, vals, coffs, keys, index, values):
    """every subscript the kernel makes is in range (a negative one within -len..-1 wraps, still in range)"""
    if not _inr(ic, len(coffs)) or not _inr(ic, len(cinds)):
        return False
    off, row = coffs[ic], cinds[ic]
    for r in range(len(row) - 1):
        if r >= chunk_n:
            break
        ks, kl = row[r], row[r + 1] - row[r]
        for i in range(len(index) - 1):
            if kl != index[i + 1] - index[i]:
                continue
            found = i
            for j in range(kl):
                a, b = off + ks + j, index[i] + j
                if not (_inr(a, len(vals)) and _inr(b, len(keys))):
                    return False
                if vals[a] != keys[b]:
                    found = -1
                    break
            if found != -1 and not _inr(found, len(values)):
                return False
    return True


def fixed_string_safe(cinds, vals, coffs, ic, rows, strlen, nmem):
    if not _inr(ic, len(coffs)):
        return False
    if rows > 0 and not _inr(ic, len(cinds)):
        return False
    for r in range(rows):
        row = cinds[ic]
        if not (_inr(r, len(row)) and _inr(r + 1, len(row))):
            return False
        a = r * strlen
        start = row[r] + coffs[ic]
        end = min(row[r + 1] + coffs[ic], start + strlen)
        for c in range(start, end):
            if not (_inr(c, len(vals)) and _inr(a, nmem)):
                return False
            a += 1
    return True


def random_c06(rng, n_cases):
    out = []
    words = [b"", b"a", b"b", b"ab", b"abc", b"ba", b"yes", b"no", b"a ", b"n"]
    for t in range(n_cases):
        ncols = rng.randrange(1, 4)
        nrows = rng.choice([0, 1, 2, 3, rng.randrange(1, 8)])
        cats = sorted(set(rng.sample(words, rng.randrange(0, 5))))
        keys = [c for w in cats for c in w]
        index = [0]
        for w in cats:
            index.append(index[-1] + len(w))
        values = [rng.randrange(-3, 100) for _ in cats]
        cinds, vals, coffs = [], [], [0]
        for c in range(ncols):
            row, buf = [0], []
            for _ in range(nrows):
                w = rng.choice(cats) if cats and rng.random() < 0.6 else rng.choice(words)
                buf.extend(w)
                row.append(len(buf))
            stale = rng.randrange(0, 3)                         # stale entries after the rows written in this call
            cinds.append(row + [rng.randrange(0, 5) for _ in range(stale)])
            vals.extend(buf + [88] * rng.randrange(0, 3))
            coffs.append(len(vals))
        width = max(len(r) for r in cinds)
        cinds = [r + [0] * (width - len(r)) for r in cinds]
        ic = rng.randrange(0, ncols)
        what = rng.randrange(12)
        if what == 0:
            ic = ncols + rng.randrange(0, 2)                    # the column subscript beyond the staging arrays
        elif what == 1 and index:
            index = index[:-1] + [index[-1] + 2]                # a table whose last key runs past `cat_keys`
        elif what == 2:
            vals = vals[:rng.randrange(0, len(vals) + 1)]
        elif what == 3:
            values = values[:-1]
        chunk_n = nrows if rng.random() < 0.8 else rng.randrange(0, nrows + 2)
        if t % 3 == 2:
            strlen = rng.choice([0, 1, 2, 3, 5])
            rows = chunk_n
            nmem = rows * strlen if rng.random() < 0.9 else rng.randrange(0, rows * strlen + 2)
            bvals = [v if rng.random() < 0.8 else rng.randrange(128, 256) for v in vals]      # bytes above 127: np.int8 wraps
            out.append(gcase("fixed_string_transform",
                             [arr2(cinds), arr(bvals), arr(coffs), {"int": ic}, {"int": rows}, {"int": strlen}, arr([0] * nmem)],
                             unsafe=not fixed_string_safe(cinds, bvals, coffs, ic, rows, strlen, nmem), _from="random"))
            continue
        if t % 3 == 1:
            nidx = chunk_n + 1 if rng.random() < 0.9 else rng.randrange(0, chunk_n + 2)
            cap = coffs[ic + 1] - coffs[ic] if ic < ncols else 3
            nval = cap if rng.random() < 0.9 else rng.randrange(0, cap + 1)
            safe = categorical_safe(chunk_n, ic, cinds, vals, coffs, keys, index, values) and \
                min(chunk_n, len(cinds[ic]) - 1 if ic < ncols else 0) < nidx
            out.append(gcase("leaky_categorical_transform",
                             [arr([0] * chunk_n), arr([0] * nidx), arr([0] * nval), {"int": ic}, arr2(cinds), arr(vals),
                              arr(coffs), arr(keys), arr(index), arr(values)], unsafe=not safe, _from="random"))
            continue
        out.append(gcase("categorical_transform",
                         [arr([0] * chunk_n), {"int": ic}, arr2(cinds), arr(vals), arr(coffs), arr(keys), arr(index), arr(values)],
                         unsafe=not categorical_safe(chunk_n, ic, cinds, vals, coffs, keys, index, values), _from="random"))
    # numeric_bool_transform: a stream of its own, drawn AFTER the loop above so that the cases above stay what they were
    import random as _random
    out.extend(random_numeric_bool(_random.Random(rng.randrange(1 << 30)), max(54, n_cases // 4)))
    return out


NBT_CELLS = [b"1", b"0", b" y ", b"no", b"ON", b"off", b"yes", b"true", b"False", b"", b"  ", b"2", b"tru", b"maybe",
             b"T", b"n ", b" oN", b"Yes ", b"TRUE", b"fALSE", b"of", b"falsy", b"truee", b"f", b"N", b" 1", b"oFF  ", b"x y"]
NBT_GOOD = [b"1", b"0", b" y ", b"no", b"ON", b"off", b"yes", b"true", b"False", b"T", b"n ", b" oN", b"Yes ", b"fALSE"]
NBT_WORDS = {2: [[(79, 111), (78, 110)], [(78, 110), (79, 111)]],
             3: [[(89, 121), (69, 101), (83, 115)], [(79, 111), (70, 102), (70, 102)]],
             4: [[(84, 116), (82, 114), (85, 117), (69, 101)]],
             5: [[(70, 102), (65, 97), (76, 108), (83, 115), (69, 101)]]}


def numeric_bool_safe(nel, nval, cinds, vals, coffs, ic, rows, mode):
    """every subscript numeric_bool_transform makes is in range (a transliteration of the kernel on Python lists that checks
    each subscript before it is made, in evaluation order; a negative one within -len..-1 wraps, still in range).  The
    ValueError of `val in (…)` on a slice that is not of length 1 is raised by compiled and interpreted code alike: the call
    ends there, in range so far."""
    if not _inr(ic, len(coffs)):
        return False
    off = coffs[ic]
    for r in range(rows):
        if not _inr(ic, len(cinds)):
            return False
        row = cinds[ic]
        if not (_inr(r, len(row)) and _inr(r + 1, len(row))):
            return False
        rs, re_ = row[r], row[r + 1]
        length = re_ - rs
        bs, be = 0, length - 1
        while bs < length:
            if not _inr(off + rs + bs, len(vals)):
                return False
            if vals[off + rs + bs] != 32:
                break
            bs += 1
        while be >= 0:
            if not _inr(off + rs + be, len(vals)):
                return False
            if vals[off + rs + be] != 32:
                break
            be -= 1
        al = be - bs + 1
        empty, valid = False, True
        if al <= 0:
            empty, valid = True, False
        else:
            a = off + rs + bs
            val = vals[a:a + al]
            if al == 1:
                if len(val) != 1:
                    return True                                 # ValueError in every mode
                valid = val[0] in (49, 89, 121, 84, 116, 48, 78, 110, 70, 102)
            elif al in NBT_WORDS:
                valid = False
                for alt in NBT_WORDS[al]:                       # `and` chains, left to right, short-circuit
                    hit = True
                    for k, chars in enumerate(alt):
                        if not _inr(k, len(val)):
                            return False
                        if val[k] not in chars:
                            hit = False
                            break
                    if hit:
                        valid = True
                        break
            else:
                valid = False
        if not (_inr(r, nel) and _inr(r, nval)):
            return False
        if not valid and (mode == "strict" or (mode == "allow_empty" and not empty)):
            break
    return True


def random_numeric_bool(rng, n_cases):
    """staging arrays as the CSV reader fills them (cells of a boolean column, padded / stale entries), the three validation
    modes, and malformed calls (short column_vals, column subscript out of range, short elements / validity, more rows
    than were staged)"""
    out = []
    modes = ["strict", "allow_empty", "relaxed"]
    for t in range(n_cases):
        mode = modes[t % 3]
        ncols = rng.randrange(1, 4)
        nrows = rng.choice([0, 1, 2, 3, rng.randrange(1, 9)])
        p_good = {"strict": 0.9, "allow_empty": 0.75, "relaxed": 0.4}[mode] if rng.random() < 0.8 else 0.3
        cinds, vals, coffs = [], [], [0]
        for c in range(ncols):
            row, buf = [0], []
            for _ in range(nrows):
                w = rng.choice(NBT_GOOD) if rng.random() < p_good else rng.choice(NBT_CELLS)
                if rng.random() < {"strict": 0.08, "allow_empty": 0.2, "relaxed": 0.1}[mode]:
                    w = rng.choice([b"", b" ", b"   "])             # an empty cell (message 1 in strict mode)
                buf.extend(w)
                row.append(len(buf))
            stale = rng.randrange(0, 3)                         # stale entries after the rows written in this call
            cinds.append(row + [rng.randrange(0, 5) for _ in range(stale)])
            vals.extend(buf + [88] * rng.randrange(0, 3))
            coffs.append(len(vals))
        width = max(len(r) for r in cinds)
        cinds = [r + [0] * (width - len(r)) for r in cinds]
        ic = rng.randrange(0, ncols)
        rows, nel, nval = nrows, nrows, nrows
        what = rng.randrange(14)
        if what == 0:
            ic = ncols + rng.randrange(0, 2)                    # the column subscript beyond the staging arrays
        elif what == 1:
            vals = vals[:rng.randrange(0, len(vals) + 1)]       # short column_vals
        elif what == 2:
            nel = rng.randrange(0, nrows + 1)                   # short elements
        elif what == 3:
            nval = rng.randrange(0, nrows + 1)                  # short validity
        elif what == 4:
            rows = nrows + rng.randrange(1, 3)                  # more rows than were staged
        elif what == 5:
            nel, nval = nrows + rng.randrange(1, 3), nrows + rng.randrange(0, 2)      # longer destination arrays
        elif what == 6 and nrows:
            rows = rng.randrange(0, nrows)                      # fewer rows than were staged
        elif what == 7 and vals:
            # column offsets shifted by -len(column_vals): every byte subscript is negative and wraps to the same byte (in
            # range; the translation answers `negative_index`, which is not compared; the slices differ: `val` may be empty)
            coffs = [o - len(vals) for o in coffs]
        inv = rng.choice([0, 0, 0, 1, -1, 5])
        name = rng.choice([b"f", b"flag", b"a b", b""])
        safe = numeric_bool_safe(nel, nval, cinds, vals, coffs, ic, rows, mode)
        out.append(gcase("numeric_bool_transform",
                         [barr([False] * nel), barr([True] * nval), arr2(cinds), arr(vals), arr(coffs), {"int": ic},
                          {"int": rows}, {"int": inv}, {"str": mode}, arr(name)], unsafe=not safe, _from="random"))
    return out


# ----------------------------------------------------------------------------------------------------------------------
# C16: _apply_spans_concat_2 on the (offsets, bytes) arrays of a column, reusable destination buffers
# ----------------------------------------------------------------------------------------------------------------------

def concat_safe(spans, idx, vals, cap_i, cap_v, max_i, max_v, sep, dlm, sp_start):
    """every subscript of _apply_spans_concat_2 is in range, and the loop runs at least once (else it reads the unbound `s`)"""
    d_i, d_v = (1, 0) if sp_start == 0 else (0, 0)
    sp_end = len(spans) - 1
    if sp_start >= sp_end or sp_start < 0:
        return False
    ok = lambda a, n: 0 <= a < n                      # noqa: E731  (no negative subscripts in the safe stream)

    def emit_row(a, b, delta):
        flag = False
        for i in range(a, b):
            if not ok(i, len(vals)):
                return None
            flag = flag or vals[i] in (sep, dlm)
        n = (2 if flag else 0) + sum(2 if vals[i] == dlm else 1 for i in range(a, b))
        if n and not ok(d_v + delta + n - 1, cap_v):
            return None
        return delta + n
    for s in range(sp_start, sp_end):
        if not (ok(s + 1, len(spans)) and ok(spans[s], len(idx)) and ok(spans[s + 1], len(idx))):
            return False
        cur, nxt = spans[s], spans[s + 1]
        a, b = idx[cur], idx[nxt]
        ne = 0
        if nxt - cur == 1:
            ne = 1 if b - a > 0 else 0
        elif nxt - cur > 1:
            for e in range(cur, nxt):
                if not ok(e + 1, len(idx)):
                    return False
                ne += idx[e + 1] - idx[e] > 0
        delta = 0
        if ne == 1:
            delta = emit_row(a, b, 0)
            if delta is None:
                return False
        elif ne > 1:
            prev_empty = True
            for e in range(cur, nxt):
                x, y = idx[e], idx[e + 1]
                if not prev_empty and y != x and e > cur:
                    if not ok(d_v + delta, cap_v):
                        return False
                    delta += 1
                prev_empty = prev_empty and y == x
                delta = emit_row(x, y, delta)
                if delta is None:
                    return False
        d_v += delta
        if not ok(d_i, cap_i):
            return False
        d_i += 1
        if d_i >= max_i or d_v >= max_v:
            break
    return True


def concat_gcase(spans, idx, vals, cap_i, cap_v, max_i, max_v, sp_start, dest_start_v, index0, frm):
    I = lambda v: {"int": int(v)}                     # noqa: E731,E741
    return gcase("_apply_spans_concat_2",
                 [arr(spans), arr(idx), arr(vals), arr([index0] * cap_i), arr([0] * cap_v), I(max_i), I(max_v), I(44), I(34),
                  I(sp_start), I(dest_start_v)],
                 unsafe=not concat_safe(spans, idx, vals, cap_i, cap_v, max_i, max_v, 44, 34, sp_start), _from=frm)


def derive_c16(case):
    if case.get("op") != "concat_kernel":
        return None
    idx, vals = [0], []
    for st in case["strs"]:
        vals.extend(st.encode("utf-8"))
        idx.append(len(vals))
    return concat_gcase(case["spans"], idx, vals, case["cap_i"], case["cap_v"], case["max_i"], case["max_v"], case["sp_start"],
                        case["dest_start_v"], case["index0"], "C16")


def random_c16(rng, n_cases):
    out = []
    words = [b"", b"", b"a", b"b,c", b'd"e', b'"', b",", b"xy", b'""', b"a,\"b"]
    for t in range(n_cases):
        n = rng.randrange(0, 9)
        rows = [rng.choice(words) for _ in range(n)]
        idx, vals = [0], []
        for r in rows:
            vals.extend(r)
            idx.append(len(vals))
        what = rng.randrange(12)
        if what < 8:
            cuts = sorted(rng.sample(range(1, n), rng.randrange(0, n))) if n > 1 else []
            spans = [0] + cuts + ([n] if n else [])
        elif what < 10:
            spans = sorted(rng.randrange(0, n + 1) for _ in range(rng.randrange(0, n + 3)))          # empty spans
        else:
            spans = [rng.randrange(0, n + 2) for _ in range(rng.randrange(0, 6))]                     # inverted / beyond
        m = 2 * len(vals) + 3 * n + 2
        sp_start = rng.randrange(0, max(len(spans) - 1, 1)) if rng.random() < 0.9 else len(spans)
        max_i = rng.randrange(1, 6)
        cap_i = max_i + rng.randrange(0, 3) if rng.random() < 0.9 else rng.randrange(0, max_i + 1)
        max_v = rng.randrange(0, m + 2)
        cap_v = max_v + m if rng.random() < 0.85 else rng.randrange(0, m + 1)
        if what == 11:
            vals = vals[:rng.randrange(0, len(vals) + 1)]
        out.append(concat_gcase(spans, idx, vals, cap_i, cap_v, max_i, max_v, sp_start, rng.choice([0, 0, 1, 7, 1000]),
                                rng.choice([0, 0, 5]), "random"))
    return out


def random_c19(rng, n_cases):
    out = []
    for t in range(n_cases):
        nl, nr = rng.randrange(0, 12), rng.randrange(0, 12)
        if t % 6 in (4, 5):
            lu = t % 6 == 4
            left, right = _sorted_keys(rng, nl, lu), _sorted_keys(rng, nr, False)
            if rng.random() < 0.1:
                left = [rng.randrange(0, 4) for _ in range(nl)]           # not sorted / not unique: subscripts still guarded
            # the number of pairs the kernel writes (its own control flow on these arrays)
            i = j = pairs = 0
            while i < len(left) and j < len(right):
                if left[i] < right[j]:
                    i += 1
                elif left[i] > right[j]:
                    j += 1
                else:
                    ci, cj = i, j
                    if not lu:
                        while ci + 1 < len(left) and left[ci + 1] == left[ci]:
                            ci += 1
                    while cj + 1 < len(right) and right[cj + 1] == right[cj]:
                        cj += 1
                    pairs += (ci - i + 1) * (cj - j + 1)
                    i, j = ci + 1, cj + 1
            cl, cr = (pairs + rng.randrange(0, 3) for _ in range(2))
            short = rng.random() < 0.1 and pairs > 0
            if short:
                cl = rng.randrange(0, pairs)
            out.append(gcase("ordered_inner_map_left_unique" if lu else "ordered_inner_map",
                             [arr(left), arr(right), arr([7] * cl), arr([8] * cr)], unsafe=short, fuel=nl + nr + 1, _from="random"))
            continue
        if t % 6 == 3:
            # every subscript is guarded by a length test: no call is `_unsafe`, sorted or not
            left, right = _sorted_keys(rng, nl, False), _sorted_keys(rng, nr, False)
            if rng.random() < 0.15:
                left = [rng.randrange(-3, 4) for _ in range(nl)]
            out.append(gcase("ordered_inner_map_result_size", [arr(left), arr(right)], fuel=nl + nr + 1, _from="random"))
            continue
        if t % 6 == 2:
            left, right = _sorted_keys(rng, nl, True), _sorted_keys(rng, nr, True)
            if rng.random() < 0.1:
                right = [rng.randrange(0, 6) for _ in range(nr)]
            matches = len(set(left) & set(right)) if len(set(right)) == len(right) else min(nl, nr)
            cl, cr = (matches + rng.randrange(0, 3) for _ in range(2))
            short = rng.random() < 0.1 and matches > 0
            if short:
                cl = rng.randrange(0, matches)
            out.append(gcase("ordered_inner_map_both_unique", [arr(left), arr(right), arr([7] * cl), arr([8] * cr)],
                             unsafe=short or len(set(right)) != len(right), fuel=nl + nr + 1, _from="random"))
            continue
        bu = t % 6 == 0
        first = _sorted_keys(rng, nl, bu)
        second = _sorted_keys(rng, nr, True)
        if rng.random() < 0.1:                       # keys that are not sorted / not unique: every subscript is still guarded
            second = [rng.randrange(0, 6) for _ in range(nr)]
        res = [7] * (nl if rng.random() < 0.9 else rng.randrange(0, nl + 3))      # a wrong length is an explicit ValueError
        inv = rng.choice([-1, 2147483647, 4611686018427387904])
        k = "generate_ordered_map_to_left_both_unique" if bu else "generate_ordered_map_to_left_right_unique"
        out.append(gcase(k, [arr(first), arr(second), arr(res), {"int": inv}], fuel=nl + nr + 1, _from="random"))
    return out


def derive_c14(case):
    if case.get("op") != "compare_arrays":
        return None
    return gcase("compare_arrays", [arr(bytes.fromhex(case["a"])), arr(bytes.fromhex(case["b"]))], _from="C14")


def random_c14(rng, n_cases):
    out = []
    for t in range(n_cases):
        a = [rng.choice([0, 1, 97, 98, 255]) for _ in range(rng.randrange(0, 6))]
        b = list(a[:rng.randrange(0, len(a) + 1)]) + [rng.choice([0, 97, 98, 255]) for _ in range(rng.randrange(0, 3))] \
            if rng.random() < 0.6 else [rng.choice([0, 1, 97, 98, 255]) for _ in range(rng.randrange(0, 6))]
        out.append(gcase("compare_arrays", [arr(a), arr(b)], _from="random"))       # every subscript is below both lengths
    return out


def _encode_col(col):
    idx = [0]
    for r in col:
        idx.append(idx[-1] + len(r))
    return idx, [b for r in col for b in r]


def unique_gcase(idx, vals, res, ui, uv, uc, frm):
    """`_unsafe`: `unique_counts[j]` leaves the list when the caller's counts are shorter than its uniques"""
    opt = lambda x: NONE if x is None else arr(x)
    return gcase("get_indexed_string_unique", [arr(idx), arr(vals), arr2(res), opt(ui), opt(uv), opt(uc)],
                 unsafe=uc is not None and len(uc) < len(res), _from=frm)


def isin_gcase(tests, idx, vals, frm):
    return gcase("isin_indexed_string_speedup", [arr2(tests), arr(idx), arr(vals)], _from=frm)


def derive_c14_all(case):
    op = case.get("op")
    if op == "compare_arrays":
        return derive_c14(case)
    if op == "unique_indexed":
        idx, vals = _encode_col([list(bytes.fromhex(h)) for h in case["col"]])
        ri, rv, rc = [bool(f) for f in case["flags"]]
        return unique_gcase(idx, vals, [], [] if ri else None, [] if rv else None, [] if rc else None, "C14")
    if op == "isin_indexed" and case.get("tests"):
        tests = sorted(bytes.fromhex(t) for t in case["tests"] if t is not None)
        if not tests:
            return None
        idx, vals = _encode_col([list(bytes.fromhex(h)) for h in case["col"]])
        return isin_gcase([list(t) for t in tests], idx, vals, "C14")
    return None


def random_c14_all(rng, n_cases):
    """compare_arrays as before; get_indexed_string_unique on columns with repeated rows / rows of equal length / empty rows,
    every combination of the three optional lists, sometimes lists that are not empty at the call; isin_indexed_string_speedup
    on sorted test sets (the caller's shape) and on unsorted / repeated ones (the binary search still stays inside the list)"""
    out = []
    alpha = [0, 1, 97, 98, 255]
    for t in range(n_cases):
        kind = t % 3
        if kind == 0:
            out.extend(random_c14(rng, 1))
            continue
        pool = [[rng.choice(alpha) for _ in range(rng.choice([0, 1, 1, 2, 2, 3]))] for _ in range(rng.randrange(1, 6))]
        col = [list(rng.choice(pool)) for _ in range(rng.choice([0, 1, 2, 3, 5, 8, 12]))]
        idx, vals = _encode_col(col)
        r = rng.random()
        if r < 0.06 and len(idx) > 2:
            k = rng.randrange(1, len(idx))
            idx[k] = max(0, idx[k] - rng.randrange(1, 3))       # offsets that decrease somewhere: slices clamp, lengths go negative
        elif r < 0.12 and vals:
            vals = vals[:rng.randrange(0, len(vals))]            # offsets beyond the values: slices clamp
        elif r < 0.15:
            idx = []                                             # `range(-1)`
        if kind == 1:
            ri, rv, rc = rng.random() < 0.5, rng.random() < 0.5, rng.random() < 0.5
            res, ui, uv, uc = [], ([] if ri else None), ([] if rv else None), ([] if rc else None)
            if rng.random() < 0.12:
                # lists that already hold entries (never the case for the public caller)
                res = [list(rng.choice(pool)) for _ in range(rng.randrange(1, 3))]
                ui = None if ui is None else [rng.randrange(0, 5) for _ in range(rng.randrange(0, 3))]
                uv = None if uv is None else [rng.randrange(0, 5) for _ in range(rng.randrange(0, 3))]
                uc = None if uc is None else [rng.randrange(1, 4) for _ in range(rng.randrange(0, 4))]
            out.append(unique_gcase(idx, vals, res, ui, uv, uc, "random"))
        else:
            tests = [list(rng.choice(pool)) if rng.random() < 0.7 else [rng.choice(alpha) for _ in range(rng.randrange(0, 4))]
                     for _ in range(rng.choice([0, 1, 2, 3, 4, 7]))]
            if rng.random() < 0.8:
                tests = sorted(set(tuple(x) for x in tests))
            out.append(isin_gcase([list(x) for x in tests], idx, vals, "random"))
    return out


DERIVE = {"C14": derive_c14_all, "C08": derive_c08, "C09": derive_c09, "C04": derive_c04, "C16": derive_c16, "C17": derive_c17}
RANDOM = {"C14": random_c14_all, "C06": random_c06, "C16": random_c16, "C08": random_c08, "C09": random_c09, "C04": random_c04, "C03": random_c03, "C17": random_c17, "C19": random_c19}


# ----------------------------------------------------------------------------------------------------------------------
# KT4C: the `_old` kernels of C19, called as the legacy drivers call them (views of the current chunks, a scratch array of
# `chunksize` slots) and with malformed arguments (scratch array too short, empty map chunk, entries outside the data view)
# ----------------------------------------------------------------------------------------------------------------------

def lru_old_safe(left, right, cap):
    """every subscript of generate_ordered_map_to_left_right_unique_partial_old is in range: it stores at every i it passes"""
    i = j = 0
    while i < len(left) and j < len(right):
        if left[i] > right[j]:
            j += 1
        else:
            if i >= cap:
                return False
            i += 1
    return True


def map_old_safe(d, nd, m, cap, inv):
    """every subscript of ordered_map_valid_partial_old is in range (a negative one within -len..-1 wraps, still in range)"""
    i = 0
    while True:
        if i >= len(m):
            return False                     # `map_field[i]` of an empty chunk
        v = m[i]
        if v != inv:
            if v >= d + nd:
                return True
            if not _inr(v - d, nd) or not _inr(i, cap):
                return False
        i += 1
        if i >= len(m):
            return True


def random_c19_old(rng, n_cases):
    out = []
    I = lambda v: {"int": int(v)}                     # noqa: E731,E741
    for t in range(n_cases):
        inv = rng.choice([-1, 2147483647, 4611686018427387904])
        if t % 2 == 0:
            nl, nr = rng.randrange(0, 12), rng.randrange(0, 12)
            left, right = _sorted_keys(rng, nl, False), _sorted_keys(rng, nr, True)
            if rng.random() < 0.1:
                right = [rng.randrange(0, 6) for _ in range(nr)]         # not sorted / not unique: subscripts still guarded
            cap = nl + rng.randrange(0, 3) if rng.random() < 0.85 else rng.randrange(0, nl + 1)
            out.append(gcase("generate_ordered_map_to_left_right_unique_partial_old",
                             [I(rng.choice([0, 0, 4, 1000])), arr(left), arr(right), arr([7] * cap), I(inv)],
                             unsafe=not lru_old_safe(left, right, cap), fuel=nl + nr + 1, _from="random"))
            continue
        d = rng.choice([0, 0, 3, 20])
        nd = rng.choice([0, 1, 2, 5, rng.randrange(1, 12)])
        n = rng.choice([0, 1, 2, 3, rng.randrange(1, 12)])
        data = [rng.randrange(-50, 1000) for _ in range(nd)]
        what = rng.randrange(10)
        lo, hi = (d, d + nd + 2) if what < 8 else (d - 3, d + nd + 2)     # entries beyond the view end the call; below it: malformed
        m = sorted(rng.randrange(lo, max(hi, lo + 1)) for _ in range(n))
        m = [inv if rng.random() < 0.3 else k for k in m]
        cap = n + rng.randrange(0, 3) if rng.random() < 0.85 else rng.randrange(0, n + 1)
        out.append(gcase("ordered_map_valid_partial_old", [I(d), arr(data), arr(m), arr([0] * cap), I(inv)],
                         unsafe=not map_old_safe(d, nd, m, cap, inv), fuel=n + 1, _from="random"))
    return out


def random_c19_chunks(rng, n_cases):
    """`chunks(length, chunksize)` for chunksize ≥ 1 (any length, negative included) and for a chunksize ≤ 0 with a length ≤ 0
    (a chunksize ≤ 0 with a positive length never ends: not executed)"""
    out = []
    for t in range(n_cases):
        n = rng.choice([0, 1, 2, 7, rng.randrange(0, 60), rng.randrange(-3, 1)])
        cs = rng.choice([1, 1, 2, 3, 4, rng.randrange(1, 70), 1 << 20]) if n > 0 or rng.random() < 0.7 else rng.randrange(-3, 1)
        out.append(gcase("chunks", [{"int": n}, {"int": cs}], fuel=max(n, 0) + 1, _from="random"))
    return out


def _random_c19_with_old(rng, n_cases):
    """the share of the two `_old` kernels and of `chunks` among the seeded direct calls of C19 (≥ 54 each per quick run)"""
    nk = sum(1 for v in KERNELS.values() if v["owner"] == "C19")
    n_old = 2 * n_cases // max(nk, 3)
    n_ch = n_cases // max(nk, 3)
    return random_c19(rng, n_cases - n_old - n_ch) + random_c19_old(rng, n_old) + random_c19_chunks(rng, n_ch)


RANDOM["C19"] = _random_c19_with_old


# ----------------------------------------------------------------------------------------------------------------------
# KT4C: the five kernels without a caller in the library, under C10 (translator validation only)
# ----------------------------------------------------------------------------------------------------------------------

def stream_sort_safe(pos, lens, vals, idx, capv, capi):
    """every subscript of streaming_sort_partial is in range (a negative one within -len..-1 wraps, still in range)"""
    pos = list(pos)
    k = len(pos)
    dest, total = 0, sum(lens)
    while dest < total:
        if k == 0 or len(lens) == 0:
            return False
        if pos[0] == lens[0]:
            return True
        if not vals or not _inr(pos[0], len(vals[0])):
            return False
        mv, mi = vals[0][pos[0]], 0
        for i in range(1, k):
            if i >= len(lens):
                return False
            if pos[i] == lens[i]:
                return True
            if i >= len(vals) or not _inr(pos[i], len(vals[i])):
                return False
            if vals[i][pos[i]] < mv:
                mv, mi = vals[i][pos[i]], i
        if mi >= len(idx) or not _inr(pos[mi], len(idx[mi])) or not _inr(dest, capi) or not _inr(dest, capv):
            return False
        dest += 1
        pos[mi] += 1
    return True


def random_c10(rng, n_cases):
    out = []
    I = lambda v: {"int": int(v)}                     # noqa: E731,E741
    for t in range(n_cases):
        nl, nr = rng.randrange(0, 12), rng.randrange(0, 12)
        what = t % 5
        if what in (0, 1):
            # every subscript is guarded by a length test: no call is `_unsafe`, sorted or not
            left, right = _sorted_keys(rng, nl, what == 1), _sorted_keys(rng, nr, what == 1)
            if rng.random() < 0.15:
                left = [rng.randrange(-3, 4) for _ in range(nl)]
            k = "ordered_left_map_result_size" if what == 0 else "ordered_outer_map_result_size_both_unique"
            out.append(gcase(k, [arr(left), arr(right)], fuel=nl + nr + 1, _from="random"))
        elif what == 2:
            left, right = _sorted_keys(rng, nl, True), _sorted_keys(rng, nr, False)
            if rng.random() < 0.1:
                left = [rng.randrange(0, 4) for _ in range(nl)]
            cl = rng.choice([0, 1, 2, 4, 16])
            cr = cl if rng.random() < 0.85 else rng.randrange(0, cl + 3)
            out.append(gcase("ordered_inner_map_left_unique_partial",
                             [I(rng.randrange(0, 50)), I(rng.randrange(0, 50)), arr(left), arr(right), arr([7] * cl), arr([8] * cr)],
                             unsafe=cr < cl, fuel=nl + nr + 1, _from="random"))
        elif what == 3:
            n = rng.choice([0, 1, 2, 3, rng.randrange(1, 15)])
            f = sorted(rng.randrange(0, 5) for _ in range(n)) if rng.random() < 0.8 else [rng.randrange(-3, 4) for _ in range(n)]
            out.append(gcase("ordered_get_last_as_filter", [arr(f)], unsafe=n == 0, _from="random"))   # `result[-1]` of an empty array
        else:
            k = rng.choice([1, 2, 2, 3])
            n = rng.choice([1, 2, 3, rng.randrange(1, 7)])
            vals = [sorted(rng.randrange(-5, 20) for _ in range(n)) for _ in range(k)]
            idx = [[100 * c + j for j in range(n)] for c in range(k)]
            lens = [n if rng.random() < 0.7 else rng.randrange(0, n + 1) for _ in range(k)]
            pos = [0 if rng.random() < 0.6 else rng.randrange(0, ln + 1) for ln in lens]
            cap = sum(lens) if rng.random() < 0.85 else rng.randrange(0, sum(lens) + 1)
            bad = rng.randrange(12)
            if bad == 0:
                lens = lens[:-1]
            elif bad == 1:
                lens = [ln + 2 for ln in lens]                # lengths beyond the chunks
            out.append(gcase("streaming_sort_partial", [arr(pos), arr(lens), arr2(vals), arr2(idx), arr([0] * cap), arr([0] * cap)],
                             unsafe=not stream_sort_safe(pos, lens, vals, idx, cap, cap), fuel=k * n + sum(lens) + 2, _from="random"))
    return out


RANDOM["C10"] = random_c10


# ----------------------------------------------------------------------------------------------------------------------
# KT4A.  C05: fast_csv_reader (csv_reader_speedup.py) on windows of CSV text, staging arrays of every size;  C06:
# transform_to_values on staging arrays
# ----------------------------------------------------------------------------------------------------------------------
CSV_Q, CSV_S, CSV_N, CSV_W = 34, 44, 10, 32


def csv_reader_safe(source, start_index, column_inds, column_vals, column_offsets, has_header, q=CSV_Q, sep=CSV_S, nl=CSV_N,
                    ws=CSV_W):
    """does every subscript of fast_csv_reader stay in range?  The kernel itself on Python lists (a list raises IndexError
    exactly where numpy does, and wraps a negative subscript the same way); an explicit `raise Exception` is defined
    behaviour (safe)."""
    inds = [list(r) for r in column_inds]
    vals = list(column_vals)

    def at(a, i):
        if not -len(a) <= i < len(a):
            raise IndexError
        return a[i]
    try:
        if not inds:
            raise IndexError                       # `.shape[1]` of an array without rows is not represented
        maxrow = len(inds[0]) - 1
        index, end_line_at, col, row, escaped, cand, count = start_index, start_index - 1, 0, -1 if has_header else 0, False, False, 0
        cstart = at(at(inds, col), row) if row >= 0 else 0
        inds_full = vals_full = False
        col_offset, col_cnt = 0, at(column_offsets, 1)
        while index < len(source) and at(source, index) == ws:
            index += 1
        if index == len(source):
            return True
        cell_at = index
        steps = 0
        while True:
            steps += 1
            if steps > len(source) + 8:
                return False                        # (cannot happen: every iteration advances `index`)
            write = end_cell = end_line = False
            c = at(source, index)
            if c == sep:
                end_cell, write = (True, False) if not escaped else (False, True)
            elif c == nl:
                if not escaped:
                    end_cell = end_line = True
                    end_line_at = index
                else:
                    write = True
            elif c == q:
                if not escaped:
                    if index != cell_at:
                        return True                 # raise Exception
                    escaped = True
                elif cand:
                    write, cand = True, False
                elif index + 1 < len(source) and at(source, index + 1) == q:
                    cand = True
                elif index + 1 < len(source) and (at(source, index + 1) == sep or at(source, index + 1) == nl):
                    escaped = False
                elif index + 1 == len(source):
                    pass
                else:
                    return True                     # raise Exception
            else:
                write = True
            if write and row >= 0:
                k = col_offset + cstart + count
                at(vals, k)
                if k < 0:
                    return False                    # a negative subscript of the flat array: an error branch of the translation
                vals[k] = c
                count += 1
                if cstart + count >= col_cnt:
                    vals_full = True
            if end_cell:
                if row >= 0:
                    r = at(inds, col)
                    at(r, row + 1)
                    r[row + 1] = cstart + count
                if end_line:
                    row += 1
                    col = 0
                    if row == maxrow:
                        inds_full = True
                else:
                    col += 1
                col_offset = at(column_offsets, col)
                col_cnt = at(column_offsets, col + 1) - col_offset
                if col < 0 or col + 1 < 0:
                    return False
                cstart = at(at(inds, col), row)
                count = 0
                while index + 1 < len(source) and at(source, index + 1) == ws:
                    index += 1
                cell_at = index + 1
            index += 1
            if index == len(source) or inds_full or vals_full:
                return True
    except IndexError:
        return False


def csv_gcase(src, start, inds, vals, offs, has_header, frm):
    safe = start >= 0 and csv_reader_safe(src, start, inds, vals, offs, has_header)
    return gcase("fast_csv_reader",
                 [arr(src), {"int": start}, arr2(inds), arr(vals), arr(offs), {"bool": bool(has_header)},
                  {"int": CSV_Q}, {"int": CSV_S}, {"int": CSV_N}, {"int": CSV_W}],
                 unsafe=not safe, fuel=len(src) + 8, _from=frm)


def derive_c05(case):
    if case.get("op") != "csv_kernel" or not case.get("inds") or len({len(r) for r in case["inds"]}) != 1:
        return None
    return csv_gcase(case["src"], case["start"], case["inds"], case["vals"], case["offs"], case["has_header"], "C05")


def random_c05(rng, n_cases):
    out = []
    cells = [b"", b"a", b"ab", b"abc", b" a", b"a ", b"  ", b'"a"', b'"a,b"', b'"a\nb"', b'"a""b"', b'""', b'"a" ', b'a"b', b'"a"b',
             b"1", b"22", b'"', b'"abc', b' "a"', b"x y"]
    for t in range(n_cases):
        ncols = rng.randrange(1, 4)
        nrec = rng.choice([0, 1, 2, 3, rng.randrange(1, 7)])
        text = b""
        for r in range(nrec):
            k = ncols if rng.random() < 0.85 else rng.randrange(1, ncols + 2)          # a record with too few / too many cells
            text += b",".join(rng.choice(cells) for _ in range(k))
            text += b"\n" if (r + 1 < nrec or rng.random() < 0.8) else b""
            if rng.random() < 0.1:
                text += rng.choice([b"\n", b"  ", b" \n"])
        src = list(text)
        maxrow = rng.choice([1, 2, 3, nrec + 1, rng.randrange(1, 9)])
        budgets = [rng.choice([1, 2, 3, 4, 8, 16, 40]) for _ in range(ncols)]
        offs = [0]
        for b in budgets:
            offs.append(offs[-1] + b)
        has_header = rng.random() < 0.5
        # staging arrays as the driver hands them over: zeros on the first call of a window, the previous call's content
        # (stale offsets, first entry of a row = where the column's bytes continue) on a resumed one
        if rng.random() < 0.7:
            inds = [[0] * (maxrow + 1) for _ in range(ncols)]
        else:
            inds = [[rng.randrange(0, 4)] + [rng.randrange(0, 6) for _ in range(maxrow)] for _ in range(ncols)]
        vals = [0] * offs[-1] if rng.random() < 0.7 else [rng.randrange(0, 256) for _ in range(offs[-1])]
        start = 0 if rng.random() < 0.6 else rng.randrange(0, len(src) + 2)
        what = rng.randrange(14)
        if what == 0:
            offs = offs[:-1]                                   # column_offsets one entry short
        elif what == 1:
            vals = vals[:rng.randrange(0, len(vals) + 1)]      # column_vals shorter than the budgets
        elif what == 2 and ncols > 1:                          # (an array WITHOUT rows is not representable: `shape1E`)
            inds = inds[:-1]                                   # fewer staging rows than columns in the text
        elif what == 3:
            maxrow = 0
            inds = [[0] for _ in range(ncols)]                 # no room for a single row
        out.append(csv_gcase(src, start, inds, vals, offs, has_header, "random"))
    return out


def transform_to_values_safe(cinds, coffs, ic, rows):
    if not _inr(ic, len(coffs)):
        return False
    if rows > 0 and not (_inr(ic, len(cinds)) and rows + 1 <= len(cinds[ic])):
        return False
    return True


def random_c06_kt4a(rng, n_cases):
    out = []
    words = [b"", b"a", b"ab", b"2020-01-01", b"x y", b"12:00"]
    for t in range(n_cases):
        ncols = rng.randrange(1, 4)
        nrows = rng.choice([0, 1, 2, 3, rng.randrange(1, 8)])
        cinds, vals, coffs = [], [], [0]
        for c in range(ncols):
            row, buf = [0], []
            for _ in range(nrows):
                buf.extend(rng.choice(words))
                row.append(len(buf))
            cinds.append(row + [rng.randrange(0, 5) for _ in range(rng.randrange(0, 3))])
            vals.extend(buf + [88] * rng.randrange(0, 3))
            coffs.append(len(vals))
        width = max(len(r) for r in cinds)
        cinds = [r + [0] * (width - len(r)) for r in cinds]
        ic = rng.randrange(0, ncols)
        rows = nrows if rng.random() < 0.8 else rng.randrange(0, nrows + 3)
        what = rng.randrange(12)
        if what == 0:
            ic = ncols + rng.randrange(0, 2)                    # the column subscript beyond the staging arrays
        elif what == 1:
            vals = vals[:rng.randrange(0, len(vals) + 1)]       # slices are clamped: never an error
        elif what == 2:
            cinds = [[x - rng.randrange(0, 3) for x in r] for r in cinds]      # negative slice bounds: Python's rule
        elif what == 3:
            coffs = [x - 2 for x in coffs]
        out.append(gcase("transform_to_values", [arr2(cinds), arr(vals), arr(coffs), {"int": ic}, {"int": rows}],
                         unsafe=not transform_to_values_safe(cinds, coffs, ic, rows), _from="random"))
    return out


def random_c06_all(rng, n_cases):
    """the cases of `random_c06` for a seed are unchanged (same count, drawn first); the KT4A kernels come after them"""
    first = random_c06(rng, n_cases)
    return first + random_c06_kt4a(rng, max(54, n_cases // 5))


DERIVE["C05"] = derive_c05
RANDOM["C05"] = random_c05
RANDOM["C06"] = random_c06_all


def extra_cases(owner, cases, tier, rng):
    owner = owner.upper()
    nd = QUICK_DERIVED if tier == "quick" else 20 * QUICK_DERIVED
    nk = sum(1 for v in KERNELS.values() if v["owner"] == owner)
    nr = max(QUICK_RANDOM, 54 * nk)                 # at least 54 seeded direct calls per translated kernel of the owner
    nr = nr if tier == "quick" else 40 * nr
    derived = []
    seen = set()
    for c in cases:
        g = DERIVE[owner](c) if owner in DERIVE else None
        if g is not None:
            key = (g["kernel"], repr(g["args"]))
            if key not in seen:
                seen.add(key)
                derived.append(g)
    if len(derived) > nd:
        by_kernel = {}
        for c in derived:
            by_kernel.setdefault(c["kernel"], []).append(c)
        per = max(1, nd // len(by_kernel))
        derived = [c for k in sorted(by_kernel) for c in
                   (rng.sample(by_kernel[k], per) if len(by_kernel[k]) > per else by_kernel[k])]
    out = derived + (RANDOM[owner](rng, nr) if owner in RANDOM else [])
    for i, c in enumerate(out):
        c["_n"] = i
    return out


# ----------------------------------------------------------------------------------------------------------------------
# implementation side
# ----------------------------------------------------------------------------------------------------------------------
_S = {}


def _env():
    if not _S:
        import numpy as np
        from exetera.core import operations as ops
        _S.update(np=np, ops=ops, jit=os.environ.get("USE_NUMBA", "true").lower() not in ("false", "0")
                  and not os.environ.get("NUMBA_BOUNDSCHECK"))
    return _S


def _decode(np, a):
    if "arr" in a:
        return np.array(a["arr"], dtype=np.int64)
    if "barr" in a:
        return np.array(a["barr"], dtype=bool)
    if "arr2" in a:
        rows = a["arr2"]
        return np.array(rows, dtype=np.int64).reshape(len(rows), len(rows[0]) if rows else 0)
    if "int" in a:
        return np.int64(a["int"])
    if "bool" in a:
        return bool(a["bool"])
    if "str" in a:
        return a["str"]
    return None


def _decode_as(np, a, kind):
    """arguments whose numba type is not the default int64 array: uint8 arrays, typed lists (of uint8 arrays / of int64)"""
    import numba.typed as nt
    import numba.core.types as nct
    if "none" in a:
        return None
    if kind in ("u8", "ou8"):
        return np.array(a["arr"], dtype=np.uint8)
    if kind == "list_u8":
        xs = nt.List.empty_list(item_type=nct.uint8[:])
        for r in a["arr2"]:
            xs.append(np.array(r, dtype=np.uint8))
        return xs
    if kind == "olist_i64":
        xs = nt.List.empty_list(item_type=nct.int64)
        for v in a["arr"]:
            xs.append(int(v))
        return xs
    raise ValueError(kind)


def _canon(np, r):
    if isinstance(r, tuple):
        return [_canon(np, x) for x in r]
    if isinstance(r, np.ndarray):
        if r.ndim == 2:
            return [[int(x) for x in row] for row in r.tolist()]        # a 2-D array written in place (KT4A: column_inds)
        if r.dtype == bool:
            return [bool(x) for x in r.tolist()]
        return [int(x) for x in r.tolist()]
    if isinstance(r, (bool, np.bool_)):
        return bool(r)
    if isinstance(r, (int, np.integer)):
        return int(r)
    if r is None:
        return None
    return [_canon(np, x) for x in r]         # list / numba typed list


def impl(case):
    e = _env()
    if case.get("_unsafe") and e["jit"]:
        return {"skipped": "a call that may subscript out of range is not executed in the compiled mode"}
    np, ops = e["np"], e["ops"]
    module = KERNELS.get(case["kernel"], {}).get("module")
    if module is not None:
        import importlib
        ops = importlib.import_module("exetera.core." + module)
    fn = getattr(ops, case["kernel"])
    dec = KERNELS.get(case["kernel"], {}).get("decode")
    args = [_decode(np, a) if not dec or dec[k] is None else _decode_as(np, a, dec[k]) for k, a in enumerate(case["args"])]
    for i, dt in (KERNELS.get(case["kernel"], {}).get("dtypes") or {}).items():
        args[i] = args[i].astype(dt)         # array arguments whose dtype at the real call site is not int64
    ret = fn(*args)
    ncomp = KERNELS.get(case["kernel"], {}).get("generator")
    if ncomp:
        # a generator: exhaust it; the translation returns one list per yielded component
        items = [x if isinstance(x, tuple) else (x,) for x in ret]
        cols = [[int(x[j]) for x in items] for j in range(ncomp)]
        return {"val": cols[0] if ncomp == 1 else cols}
    # a kernel without `return` yields None: its result is what it stored into its array parameters
    parts = [] if ret is None else [_canon(np, x) for x in ret] if isinstance(ret, tuple) else [_canon(np, ret)]
    mutated = KERNELS.get(case["kernel"], {}).get("mutated") or []
    # arrays the kernel writes in place are part of its result (translator: `mutated`)
    vals = parts + [_canon(np, args[i]) for i in mutated]
    return {"val": vals[0] if len(vals) == 1 and not isinstance(ret, tuple) else vals}


def to_model(case):
    return {k: v for k, v in case.items() if not k.startswith("_")}


def compare(case, io, mo, mode):
    if isinstance(io, dict) and "skipped" in io:
        return None
    if "bad" in mo:
        return f"generated kernel {case['kernel']} unavailable: {mo['bad']}"
    if "err" in mo:
        if mo["err"] == "negative_index":
            return None          # a negative subscript is an error branch of the translation; Python wraps around
        if mo["err"] == "index_error" and mode == "jit" and not mo.get("raised"):
            return None          # an out-of-range subscript is undefined in compiled code (an explicit raise is not)
        if mo["err"] == "other:UnboundLocalError" and mode != "nojit":
            return None          # the read of an unbound local is undefined in compiled code; Python raises (interpreted mode)
        a = io.get("err") if isinstance(io, dict) else None
        return None if a == mo["err"] else f"real kernel {str(io)[:200]} generated kernel err={mo['err']}"
    if "err" in io:
        return f"real kernel raised {io['err']} ({io.get('msg', '')}) generated kernel {str(mo)[:200]}"
    return None if io["val"] == mo["ok"] else f"real kernel {str(io['val'])[:200]} generated kernel {str(mo['ok'])[:200]}"


def check_spec(case, io, mode):
    return None                  # the property's oracle speaks about the owner's cases; these only validate the translator


def nontrivial(case, mo):
    return bool(mo) and "ok" in mo and isinstance(mo["ok"], list) and len(mo["ok"]) >= 2


def classify(case, mo):
    tags = ["gen_kernel:" + case["kernel"], "gen_kernel-from:" + str(case.get("_from"))]
    if mo and "err" in mo:
        tags.append("gen_kernel-err:" + mo["err"])
    return tags


def select_for_mode(case, mode, tier):
    if case.get("_unsafe"):
        return True
    return case.get("_n", 0) % 2 == 0


# ----------------------------------------------------------------------------------------------------------------------
# hooking into the owner's harness
# ----------------------------------------------------------------------------------------------------------------------

def install(g, owner, gen_module=True):
    """wrap the harness functions in the module namespace `g` so that `gen_kernel` cases are added and routed here
    (`gen_module=False`: the owner has no `Props/<owner>Gen.lean` — its kernels are validated differentially only)"""
    def is_gen(case):
        return isinstance(case, dict) and case.get("op") == "gen_kernel"

    orig_gen = g["gen_cases"]

    def gen_cases(tier, rng):
        cases = orig_gen(tier, rng)
        return cases + extra_cases(owner, cases, tier, rng)
    g["gen_cases"] = gen_cases

    def route(name, mine, default=None):
        orig = g.get(name)

        def f(case, *a):
            if is_gen(case):
                return mine(case, *a)
            if orig is None:
                return default(case, *a)
            return orig(case, *a)
        g[name] = f

    route("impl", impl)
    route("to_model", to_model, lambda c: c)
    route("check_spec", check_spec)
    route("nontrivial", nontrivial, lambda c, mo: True)
    route("classify", classify, lambda c, mo: "nontrivial")
    route("select_for_mode", select_for_mode, lambda c, mode, tier: True)
    if "match_finding" in g:
        route("match_finding", lambda c, io, mode: None)
    # the three modes legitimately differ exactly where a subscript is out of range / an unbound local is read (undefined in
    # compiled code); installed whether or not the owner has a `mode_diff_ok` of its own (the thorough tier diffs the modes)
    route("mode_diff_ok", lambda c, a, b, mode: bool(c.get("_unsafe")), lambda c, a, b, mode: False)
    if "compare" in g:
        route("compare", compare)
    else:
        from checks import run as _run        # the default structural comparison of run.py

        def cmp(case, io, mo, mode):
            return compare(case, io, mo, mode) if is_gen(case) else _run.default_compare(case, io, mo, mode)
        g["compare"] = cmp
    mods = g.get("LEAN_MODULES")
    extra = f"Exetera.Props.{owner.upper()}Gen"
    if gen_module and isinstance(mods, list) and extra not in mods:
        mods.append(extra)
