"""C06 — schema-typed conversion on import stores the value the text denotes, or flags it.

Correspondence (two levels):
  c06_col : the REAL importer object of one column (CategoricalImporter, LeakyCategoricalImporter, NumericImporter,
            FixedStringImporter, DateTimeImporter, DateImporter) is fed a sequence of chunks through `import_part`, exactly
            as `read_file_using_fast_csv_reader` does (2-D column_inds, flat column_vals, column_offsets, written_row_count;
            the column sits at a non-zero offset beside a decoy column, index rows beyond written_row_count are stale), and
            the destination fields (<name>, _valid, _freetext, _day, _set) are read back      vs  Exetera.Transforms.* (Lean)
  c06_csv : a CSV file + a JSON schema file go through parsers.read_csv (load_schema.schema_file_to_dict builds the importer
            definitions, the real reader chunks the file by chunk_row_size)                    vs  the same Lean column models
Oracle of the property itself (check_spec): the Python rendering of Spec/Transforms.lean below (whole-string category lookup,
bool spellings, Python int()/float(), the validation-mode table, first-N-bytes, datetime with the written offset)."""
import itertools
import json
import re

PROPERTY = "C06"
LEVEL = "proof"
LEAN_MODULES = ["Exetera.Props.C06", "Exetera.Witness.C06", "Exetera.Props.C0506"]
THEOREMS = []
EXHAUSTIVE = {"quick": True, "thorough": True}
MODES = {"quick": ["jit"], "thorough": ["jit", "nojit", "bounds"], "search": ["jit", "nojit"]}
CASE_TIMEOUT = 120
TECHNIQUE = ("Lean 4 theorems about an executable model of the import transforms (byte-level kernels with checked subscripts) + "
             "translator for the bool literal table + differential correspondence with the real importers and parsers.read_csv")
LEVEL_TEXT = ("Proof, for every cell text, category table, chunking and validation mode, that the modelled kernels compute the "
              "specified conversion without any out-of-range subscript: categorical_transform / leaky_categorical_transform over "
              "get_byte_map's packed table return the value of the unique key equal to the whole cell (free text and its offsets "
              "accumulate correctly across any chunking); a categorical column without free text holds, row by row, the value "
              "listed for the key the cell equals, or the import raises ValueError because some cell equals no key - which of "
              "the two depends on the cells only, not on the chunking (categorical_property: a statement about the PROPOSED repair of NC06d, which is not applied to /repo - see the note; "
              "categorical_transform's first_unmatched is the FIRST such row of the chunk: categorical_transform_checked, "
              "first_unmatched_is_first); numeric_bool_transform accepts exactly the documented spellings "
              "(stated over the literal table regenerated from the source), the validation-mode table of transform_int/float, "
              "fixed_string_transform keeps the first N bytes, parse_timestamp_bytes yields the UTC POSIX time of every accepted "
              "layout including written offsets, and all companion columns stay as long as the main column. Composition with "
              "C05 (Props/C0506.lean, namespace Props.C05): every importer is an append homomorphism over cell blocks "
              "(importer_append_homomorphism), the CSV driver feeds each importer exactly consecutive blocks of its column "
              "(staging_column_encodes ties C05's per-call guarantee to this property's Encodes), hence for any schema, "
              "chunk_row_size and regrowth the public entry point stores typedSpec(kind, whole column) in every main and "
              "companion field (read_csv_typed_eq_spec, typed_companions_aligned). The raising half of the property at the "
              "public entry point (read_csv_typed_raises): whenever some selected cell is rejected by its importer's validation "
              "mode (empty / unparseable numeric text in strict, unparseable in allow_empty, integer outside the dtype in every "
              "mode, impossible date, text that is no category in a categorical column without free text), read_csv_with_schema_dict raises, for every chunk_row_size of C05's regime, every window "
              "boundary and every regrowth (typed_raise_chunk_size_unobservable: two chunk sizes both succeed with equal "
              "output or both raise); the error is what the importer raises (rejErr) on the first rejected cell - index_map "
              "order, then row order - of the first kernel block that holds one, and its class is Exception for bool, "
              "OverflowError for an out-of-dtype integer, ValueError for empty / unparseable numeric text, for dates and for text "
              "that is no category (typed_reject_error_class).")
LEVEL_NOTE = ("Parameters, not theorems: the text-to-number parsers (Python int()/float(), numpy astype; validation_mode_table holds "
              "for every parser that rejects blank text) and datetime/timezone (CPython's _ymd2ord is mirrored and proved equal to "
              "plain day counting; int() on bytes is modelled executably and compared exhaustively on short texts). The timestamp "
              "theorem covers texts rendered with fixed-width decimals in the seven layouts; what parse_timestamp_bytes does with "
              "other texts (unchecked separators) is only compared, not specified. The model is validated against the real importers "
              "by the differential run, not verified against the Python text. Theorems are about the code with fixes D27 (C05), D28, "
              "D29, NC06a, NC06b, NC06c, NC06e, NC06f applied. NC06d (text that is no category, in a categorical column "
              "without free text, is stored as 0) is an OPEN finding: a repair exists only as the proposal "
              "fixes/proposed/NC06d_strict_categorical_rejects_unknown_text.patch and is NOT applied to /repo; "
              "the model carries both variants - categoricalTransformChecked / categoricalImportPart / "
              "categoricalImportChecked mirror the PROPOSED code (categorical_property is about it), categoricalTransform / "
              "categoricalImport the code as found (categorical_exact_match states the stored 0 outright, "
              "categorical_property_partial, witness in Witness/C06.lean); the driver reports both, and the as-found answer is "
              "accepted by the correspondence only while NC06d is listed open (then the oracle reports it under the finding). "
              "The composed theorem read_csv_typed_eq_spec requires every selected cell to be acceptable to its importer; for "
              "rejected cells (strict / allow_empty, out of range, impossible dates) read_csv_typed_raises lifts the "
              "importer-level statement (read_csv_typed_raises_partial, kept) through the driver loop: the invariant DI is "
              "extended by 'no rejected cell among the records consumed so far' (DIC), one iteration is split at the importers "
              "into an ok- and an error-continuation (driver_step_split). WHETHER the import raises is independent of the "
              "chunking; WHICH rejected cell is reported is not (the kernel blocks d..d+a-1 depend on chunk_row_size): "
              "Props/C0506.lean has a file that raises ValueError with chunk_row_size 2 and OverflowError with 40. The "
              "csv_typed correspondence checks the real import against exactly this statement: error class of model and "
              "code, and the reported column / cell text against the first rejected cell of the first block of the model's "
              "block trace, on a stratified family (every importer kind x validation mode x class of cell x every row "
              "position: first row of the file, last row of a kernel block, first row after a regrowth).")
RULE = ("corpus (witnesses of D28, D29, NC06a-f; NC06d at importer level and at the public entry point) first; exhaustive: every byte string up to length 3 (quick) / 4 (thorough) over the "
        "bool literal alphabet {t,r,u,e,f,a,l,s,y,n,o,0,1,blank,x} plus all case variants of the accepted spellings, in the three "
        "modes; every subset (size <= 3) of the key pool {'', a, ab, b, ba, abc} against all pool members, strict prefixes/suffixes "
        "and a stranger, for both categorical importers and four chunkings (whole, singletons, with empty chunks, uneven); a "
        "categorical column without free text with ONE cell that is no category (stranger, empty, proper prefix / suffix of a key, "
        "key plus a byte, other case, trailing / leading blank) in every row 0..5 x five chunkings (first row, last row of a chunk, "
        "first row of a later chunk, after an empty chunk; measured: cat-unmatched:*), two such cells, '' listed as a key; fixed "
        "strings of length 0..4 against N = 1..3; every integer text of a 45-word grammar (blanks, signs, underscores, exponents, "
        "out of range, empty, garbage) x 3 modes x 8 integer dtypes; every timestamp layout x boundary dates x offsets; then seeded "
        "random columns (up to 40 rows, random chunkings with empty chunks, tables up to 600 key bytes, UTF-8 keys) and CSV-level "
        "cases through the JSON schema loader; csv_typed (shared with checks/harness/c05.py): 160 (quick) / 4000 (thorough) "
        "mixed typed schemas through the real read_csv_with_schema_dict / read_csv with the smallest supported chunk_row_size "
        "values (typed columns cross many kernel calls and value-buffer regrowths; categorical cells that are no category "
        "included), compared with the composed model (CSV driver + importer models) and this oracle; rejected cells, "
        "stratified and seed independent (c05.typed_reject_cases): a typed column beside a one-byte fixed-string column whose "
        "long cell in row 3 forces a value-buffer regrowth, the cell of class {empty, unparseable, out of dtype range, "
        "impossible date} in every row 0..5 in turn x {bool, int8, uint16, float64} x {strict, allow_empty, relaxed} and "
        "datetime / date, and the cell of class {unknown, empty, prefix, extension, case, trailing blank} of a categorical "
        "column without free text, x chunk_row_size {smallest, +1, (+3), one window}, plus two-column files with two rejected cells "
        "of different exception classes in both column orders; measured strata in the distribution (reject-stratum:*). Non-trivial = at least two chunks or an unmatched/invalid/truncated cell; distinct "
        "= distinct case dict.")
ASSUMPTIONS = ["Python int()/float(), numpy astype(str->number) and datetime/timezone arithmetic are parameters of the theorems "
               "(compared on generated texts, int() and _ymd2ord also modelled)",
               "h5py stores and returns the written arrays faithfully; write_part appends (C01)",
               "the CSV reader hands each importer well-formed chunks (C05): monotone row offsets inside the column's buffer",
               "hand-written Lean model validated by this differential run, not verified against the Python text"]
TRUSTED = ["Lean 4.33 kernel", "axioms: propext, Classical.choice, Quot.sound only (audited per theorem)",
           "tools/translate_extra.py (AST extraction of numeric_bool_transform's literal tests)",
           "checks/harness/c06.py generators, chunk layout and comparison",
           "Lean model Exetera/Model/Transforms.lean mirrors operations.py / field_importers.py by hand"]
EXPLANATION = ""

INT_RANGES = {"int8": (-2 ** 7, 2 ** 7 - 1), "uint8": (0, 2 ** 8 - 1), "int16": (-2 ** 15, 2 ** 15 - 1),
              "uint16": (0, 2 ** 16 - 1), "int32": (-2 ** 31, 2 ** 31 - 1), "uint32": (0, 2 ** 32 - 1),
              "int64": (-2 ** 63, 2 ** 63 - 1), "uint64": (0, 2 ** 64 - 1)}
# numpy converts the parsed Python int through a C long first: beyond it the error is still an OverflowError
KINDS = ["categorical", "leaky", "fixed", "bool", "int", "float", "datetime", "date"]
ONES = [b"1", b"y", b"t", b"true", b"on", b"yes"]
ZEROS = [b"0", b"n", b"f", b"false", b"off", b"no"]


def hx(b):
    return bytes(b).hex()


def unhx(s):
    return bytes.fromhex(s)


# ------------------------------------------------------------------------------------------------------------------
# the chunk an importer sees (shared by impl and to_model, so both get the same arrays)
# ------------------------------------------------------------------------------------------------------------------

def layout(cells, lay):
    """cells: list of bytes. lay = [col, ncols, pad, extra, slack]. Returns (inds 2-D list, vals bytes, offs list, col, rows)."""
    col, ncols, pad, extra, slack = lay
    rows = len(cells)
    tot = sum(len(c) for c in cells)
    offs = [0]
    for c in range(ncols):
        offs.append(offs[-1] + ((tot + slack) if c == col else pad))
    vals = bytearray(b"\x58" * offs[-1])
    inds = [[7] * (rows + 1 + extra) for _ in range(ncols)]
    pos = 0
    inds[col][0] = 0
    for i, c in enumerate(cells):
        vals[offs[col] + pos: offs[col] + pos + len(c)] = c
        pos += len(c)
        inds[col][i + 1] = pos
    return inds, bytes(vals), offs, col, rows


def model_chunk(cells, lay):
    inds, vals, offs, col, rows = layout(cells, lay)
    # col / ncols: the column subscript the importer is called with and the first dimension of column_inds
    # (= len(column_offsets) - 1): the model checks the subscript of column_offsets[col] / column_inds[col, .] against them
    return {"inds": inds[col], "vals": hx(vals), "off": offs[col], "cap": offs[col + 1] - offs[col], "rows": rows,
            "col": col, "ncols": len(inds)}


def lay_of(n):
    return [[1, 2, 3, 2, 4], [0, 1, 0, 0, 0], [1, 3, 5, 1, 0], [0, 2, 2, 3, 2]][n % 4]


# ------------------------------------------------------------------------------------------------------------------
# float tokens
# ------------------------------------------------------------------------------------------------------------------

def ftoken(x):
    x = float(x)
    return "nan" if x != x else x.hex()


def py_float(text, dtype):
    import numpy as np
    try:
        v = float(text)
    except ValueError:
        return None
    with np.errstate(all="ignore"):
        return ftoken(np.dtype(dtype).type(v))


def resolve_invalid(case):
    inv = case.get("invalid", 0)
    if isinstance(inv, str):
        lo, hi = INT_RANGES[case["dtype"]]
        return lo if inv.strip() == "min" else hi
    return inv


def rstrip_nul(b):
    return b.rstrip(b"\x00")


_OPEN = {}


def nc06d_open():
    """is finding NC06d (a categorical column without free text stores 0 for a cell that is no category) still listed open?
    While it is, an implementation that answers like the AS-FOUND variant of the model (reported under `asfound`) is not a
    model/implementation disagreement: the property oracle reports it under the finding. Once the entry is `fixed`, the
    as-found answer is a disagreement and a violation."""
    if "NC06d" not in _OPEN:
        from checks import lib
        _OPEN["NC06d"] = any(f["id"] == "NC06d" and f["status"] == "open" for f in lib.load_findings(PROPERTY))
    return _OPEN["NC06d"]


def unmatched_cells(col, cells):
    """the cells of a categorical column (bytes) that equal no category key, in row order"""
    table = {unhx(c["k"]) for c in col["cats"]}
    return [c for c in cells if c not in table]


def col_to_model(case, chunks=None):
    kind = case["kind"]
    chunks = case["chunks"] if chunks is None else chunks
    lay = case.get("lay", [0, 1, 0, 0, 0])
    m = {"kind": kind, "chunks": [model_chunk([unhx(c) for c in ch], lay) for ch in chunks]}
    if kind in ("categorical", "leaky"):
        m["cats"] = case["cats"]
    elif kind == "fixed":
        m["strlen"] = case["strlen"]
    elif kind == "bool":
        m["mode"] = case["mode"]
        m["invalid_truth"] = bool(case.get("invalid", 0))
    elif kind == "int":
        lo, hi = INT_RANGES[case["dtype"]]
        inv = resolve_invalid(case)
        m.update(mode=case["mode"], lo=lo, hi=hi, invalid_text=hx(str(inv).encode()), invalid_val=inv)
    elif kind == "float":
        inv = case.get("invalid", 0)
        texts = {rstrip_nul(unhx(c)) for ch in chunks for c in ch} | {str(inv).encode()}
        pt = []
        for t in sorted(texts):
            tok = py_float(t, case["dtype"])
            pt.append({"k": hx(t), "v": tok} if tok is not None else {"k": hx(t)})
        import numpy as np
        with np.errstate(all="ignore"):
            ivtok = ftoken(np.dtype(case["dtype"]).type(inv))
        m.update(mode=case["mode"], invalid_text=hx(str(inv).encode()), invalid_val=ivtok, ptable=pt)
    return m


def to_model(case):
    if case["op"] == "csv_typed":
        from checks.harness import c05
        return c05.typed_to_model(case)
    if case["op"] == "c06_col":
        m = col_to_model(case)
        m["op"] = "c06_col"
        return m
    if case["op"] == "c06_csv":
        return {"op": "c06_csv", "cols": [col_to_model(c, [c["cells"]]) for c in case["cols"]]}
    return case


# ------------------------------------------------------------------------------------------------------------------
# generators
# ------------------------------------------------------------------------------------------------------------------

def chunkings(n):
    """four deterministic partitions of n rows into chunk sizes"""
    out = [[n], [1] * n, [0] + ([n // 2, 0, n - n // 2] if n > 1 else [n]) + [0]]
    a = max(1, n // 3)
    out.append([a, n - a] if n > a else [n])
    seen, res = set(), []
    for p in out:
        t = tuple(p)
        if t not in seen and sum(p) == n:
            seen.add(t)
            res.append(p)
    return res


def split(cells, sizes):
    out, k = [], 0
    for s in sizes:
        out.append(cells[k:k + s])
        k += s
    return out


def rand_sizes(rng, n, allow_empty=True):
    sizes = []
    left = n
    while left > 0:
        s = rng.choice([0, 1, 1, 2, 3, 5, 8, left] if allow_empty else [1, 1, 2, 3, 5, 8, left])
        s = min(s, left)
        sizes.append(s)
        left -= s
    if allow_empty and rng.random() < 0.3:
        sizes.append(0)
    return sizes or ([0] if allow_empty else [])


def mkcol(kind, cells, sizes, n, **kw):
    c = {"op": "c06_col", "kind": kind, "chunks": [[hx(x) for x in ch] for ch in split(cells, sizes)], "lay": lay_of(n), "_n": n}
    c.update(kw)
    return c


def cats_of(d):
    return [{"k": hx(k), "v": v} for k, v in d.items()]


INT_TEXTS = [b"0", b"7", b"12", b"-5", b"+5", b" 12", b"12 ", b" 12 ", b"\t7", b"007", b"-0", b"1_0", b"1__0", b"_1", b"1_", b"",
             b" ", b"  ", b"x", b"12abc", b"1.0", b"1.5", b"1e3", b"0x10", b"--1", b"+-1", b"- 1", b"1 2", b"nan", b"inf", b"127",
             b"128", b"-128", b"-129", b"255", b"256", b"32767", b"32768", b"65535", b"65536", b"2147483647", b"2147483648",
             b"4294967295", b"4294967296", b"9223372036854775807", b"9223372036854775808", b"-9223372036854775808",
             b"-9223372036854775809", b"18446744073709551615", b"18446744073709551616", b"9007199254740993", b"true", b"+", b"-"]
FLOAT_TEXTS = [b"0", b"1", b"-2", b"1.5", b"-0.25", b" 3.75 ", b"1e2", b"1E-2", b"2.5e+3", b"inf", b"-inf", b"nan", b"Infinity", b"",
               b"  ", b"x", b"1.5x", b"1_0.5", b"1e", b".5", b"5.", b"+.5e1", b"0x10", b"1e400", b"16777217", b"1,5", b"--1", b"1 2"]
BOOL_ALPHA = b"trufalsyno01 x"
BOOL_ALPHA = bytes(sorted(set(BOOL_ALPHA + b"e")))


def case_variants(word):
    outs = [b""]
    for ch in word:
        c = bytes([ch])
        alts = {c.lower(), c.upper()}
        outs = [o + a for o in outs for a in sorted(alts)]
    return outs


TS_GOOD = [b"2020-06-15 19:45:39", b"2020-06-15 19:45:39 UTC", b"2020-06-15 19:45:39.1 UTC", b"2020-06-15 19:45:39.05 UTC",
           b"2020-06-15 19:45:39.056 UTC", b"2020-06-15 19:45:39.056000+00:00", b"2020-06-15 19:45:39.056000+01:00",
           b"2020-06-15 19:45:39.999999-05:30", b"2020-06-15 19:45:39+00:00", b"2020-06-15 19:45:39+01:00",
           b"2020-06-15 19:45:39-11:45", b"1970-01-01 00:00:00", b"1969-12-31 23:59:59", b"2000-02-29 12:00:00",
           b"1900-03-01 00:00:00", b"2100-02-28 23:59:59+14:00", b"0001-01-01 00:00:00", b"9999-12-31 23:59:59",
           b"2024-12-31 23:59:59.999999+23:59", b"2020-01-01 00:00:00-23:59", b"0001-01-01 00:00:00+01:00", b"", b"  "]
TS_BAD = [b"2020-02-30 00:00:00", b"1900-02-29 00:00:00", b"2020-13-01 00:00:00", b"2020-00-10 00:00:00", b"2020-06-15 24:00:00",
          b"2020-06-15 19:60:00", b"2020-06-15 19:45:60", b"2020-06-15 19:45", b"2020-06-15", b"2020-06-15 19:45:39.0567 UTC",
          b"2020-06-15 19:45:39.056789 UTC", b"2020-06-15T19:45:39", b"2020x06y15z19:45:39", b"0000-01-01 00:00:00",
          b"2020-06-15 19:45:39.056000*01:00", b"2020-06-15 19:45:39+24:00", b"2020-06-15 19:45:39+01:99", b"garbage", b"UTC",
          b"2020-06-15 19:45:39.056000+1:000", b"+020-+6-15 1_:45: 9", b"2020-06-15 19:45:39+aa:00", b"2022-02-03 12:00:01.123456+00.00"]
DATE_TEXTS = [b"2020-06-15", b"1970-01-01", b"1969-12-31", b"2000-02-29", b"1900-02-28", b"0001-01-01", b"9999-12-31", b"", b" ",
              b" 2021-03-04 ", b"2020-6-5", b"2020-06- 5", b"2020-1-05", b"2020-12-31", b"2020-13-01", b"2020-02-30", b"1900-02-29",
              b"2020-06-15x", b"20200-01-01", b"0000-01-01", b"2020-06-00", b"2020-00-10", b"2020-06-32", b"2020/06/15", b"15-06-2020",
              b"2020-06", b"2020-06-1", b"2020-10-9", b"2020-06-39", b"202-06-15", b"2020-06-15 00:00:00"]
KEY_POOL = [b"", b"a", b"ab", b"b", b"ba", b"abc"]
CAT_CELLS = KEY_POOL + [b"c", b"abcd", b"bc", b"A", b" a", b"a ", b"aB"]
# a categorical column WITHOUT free text and a cell that is no category (fix NC06d: the import raises ValueError naming the
# first such cell of the first chunk that holds one): the odd cell's relation to the keys x its row x the chunking
CAT_ODD = {"stranger": b"maybe", "empty": b"", "prefix-of-key": b"ye", "key-is-prefix": b"yess", "case": b"Yes",
           "trailing-blank": b"yes ", "leading-blank": b" no", "suffix-of-key": b"es"}


def cat_reject_cases(n0):
    cases, n = [], n0
    good = [b"yes", b"no", b"no", b"yes", b"yes", b"no"]
    tables = [{b"no": 0, b"yes": 1}, {b"yes": 7, b"no": 3, b"n": 5}]
    for what, odd in CAT_ODD.items():
        for pos in range(len(good)):
            for sizes in ([6], [3, 3], [1] * 6, [2, 0, 4], [0, 5, 1]):
                for ti, d in enumerate(tables):
                    if ti == 1 and (pos + len(sizes)) % 3:
                        continue
                    cells = list(good)
                    cells[pos] = odd
                    n += 1
                    cases.append(mkcol("categorical", cells, sizes, n, cats=cats_of(d), vtype="int8", _odd=[what, pos]))
        # two odd cells: the one in the earlier row is named, whatever the chunking; and the same column with free text allowed
        for sizes in ([6], [3, 3], [1] * 6):
            cells = list(good)
            cells[1], cells[4] = odd, b"other"
            n += 1
            cases.append(mkcol("categorical", cells, sizes, n, cats=cats_of(tables[0]), vtype="int8", _odd=[what, 1]))
            n += 1
            cases.append(mkcol("leaky", cells, sizes, n, cats=cats_of(tables[0]), vtype="int8"))
    # '' listed as a category: an empty cell is that category
    for sizes in ([6], [2, 4]):
        n += 1
        cases.append(mkcol("categorical", [b"yes", b"", b"no", b"", b"", b"yes"], sizes, n,
                           cats=cats_of({b"": 4, b"no": 0, b"yes": 1}), vtype="int8"))
    return cases


def exhaustive(tier):
    cases = []
    n = 0
    # --- bool literals -------------------------------------------------------------------------------------------
    L = 3 if tier == "quick" else 4
    words = [b""]
    for ln in range(1, L + 1):
        words.extend(bytes(t) for t in itertools.product(BOOL_ALPHA, repeat=ln))
    if tier != "quick":
        words.extend(bytes(t) for t in itertools.product(b"falseFx ", repeat=5))
    for w in ONES + ZEROS:
        words.extend(case_variants(w))
        words.extend([b" " + w.upper(), w + b"  ", b"  " + w.capitalize() + b" ", b"\t" + w, w + b"x", w[:-1]])
    per = 400
    for k in range(0, len(words), per):
        batch = words[k:k + per]
        n += 1
        sizes = [len(batch)]
        if n % 2 == 0 and len(batch) > per // 2:
            sizes = [per // 2, 0, len(batch) - per // 2]
        cases.append(mkcol("bool", batch, sizes, n, mode="relaxed", invalid=n % 2))
    for w in [b"true", b"", b"  ", b"x", b"tru", b" No ", b"2", b"yes", b"FALSE"]:
        for mode in ("strict", "allow_empty", "relaxed"):
            for inv in (0, 1):
                n += 1
                cases.append(mkcol("bool", [b"1", w, b"off"], [2, 1] if n % 2 else [3], n, mode=mode, invalid=inv))
    # --- categorical / leaky -------------------------------------------------------------------------------------
    for r in range(1, 4):
        for keys in itertools.combinations(KEY_POOL, r):
            d = {k: (i * 5 + 1 if i else (0 if len(keys) % 2 else 3)) for i, k in enumerate(keys)}
            for kind in ("categorical", "leaky"):
                for sizes in chunkings(len(CAT_CELLS)):
                    n += 1
                    cases.append(mkcol(kind, CAT_CELLS, sizes, n, cats=cats_of(d), vtype="int8"))
    cat = cat_reject_cases(n)
    cases.extend(cat)
    n += len(cat)
    # --- fixed strings ---------------------------------------------------------------------------------------------
    fcells = [b"", b"a", b"ab", b"abc", b"abcd", b"\xc3\xa9\xc3\xa9", b" x ", b"\xff"]
    for strlen in (1, 2, 3, 5):
        for sizes in chunkings(len(fcells)):
            n += 1
            cases.append(mkcol("fixed", fcells, sizes, n, strlen=strlen))
    # --- integers -----------------------------------------------------------------------------------------------------
    dts = list(INT_RANGES)
    for t in INT_TEXTS:
        for mode in ("strict", "allow_empty", "relaxed"):
            for dt in (dts if tier != "quick" else dts[(n % 2)::2]):
                n += 1
                inv = [0, -1, "min", "max", 7][n % 5]
                if inv == -1 and dt.startswith("u"):
                    inv = 3
                if dt == "uint64" and isinstance(inv, str):
                    inv = 9          # utils.get_min_max has no uint64 (not a schema-permitted type)
                cases.append(mkcol("int", [b"1", t, b" 2"] if n % 3 else [t], [2, 1] if n % 3 == 1 else ([3] if n % 3 else [1]), n,
                                   mode=mode, dtype=dt, invalid=inv))
    # --- floats -------------------------------------------------------------------------------------------------------
    for t in FLOAT_TEXTS:
        for mode in ("strict", "allow_empty", "relaxed"):
            for dt in ("float32", "float64"):
                n += 1
                cases.append(mkcol("float", [b"1.5", t], [1, 1] if n % 2 else [2], n, mode=mode, dtype=dt, invalid=[0, 160.5, -1][n % 3]))
    # --- timestamps -------------------------------------------------------------------------------------------------
    for sizes in chunkings(len(TS_GOOD)):
        n += 1
        cases.append(mkcol("datetime", TS_GOOD, sizes, n, day=True, flag=True))
    n += 1
    cases.append(mkcol("datetime", TS_GOOD, [len(TS_GOOD)], n, day=False, flag=False))
    for t in TS_BAD:
        n += 1
        cases.append(mkcol("datetime", [TS_GOOD[0], t], [1, 1] if n % 2 else [2], n, day=True, flag=True))
    good_dates = [t for t in DATE_TEXTS if date_expect(t)[0] in ("ok", "empty")]
    for sizes in chunkings(len(good_dates)):
        n += 1
        cases.append(mkcol("date", good_dates, sizes, n, day=True, flag=True))
    for t in DATE_TEXTS:
        n += 1
        cases.append(mkcol("date", [b"2020-01-01", t], [1, 1] if n % 2 else [2], n, day=bool(n % 3), flag=bool(n % 2)))
    # --- int() itself -------------------------------------------------------------------------------------------------
    alpha = b"01_+- x"
    for ln in range(0, 4 if tier == "quick" else 6):
        for t in itertools.product(alpha, repeat=ln):
            cases.append({"op": "c06_parse_int", "text": hx(bytes(t))})
    return cases


def rand_key(rng):
    ln = rng.choice([0, 1, 1, 2, 3, 5, 9, 30])
    return bytes(rng.choice(b"abAB c\xc3\xa9") for _ in range(ln))


def rand_cats(rng, big):
    d = {}
    nkeys = rng.randrange(1, 6) if not big else rng.randrange(18, 40)
    for _ in range(nkeys * 3):
        k = rand_key(rng) if not big else bytes(rng.choice(b"abcdefgh") for _ in range(rng.randrange(8, 24)))
        try:
            k.decode()
        except UnicodeDecodeError:
            continue
        if k not in d and len(d) < nkeys:
            d[k] = rng.randrange(-128, 128) if rng.random() < 0.3 else len(d)
    return d or {b"a": 1}


def random_cases(tier, rng):
    cases = []
    count = 260 if tier == "quick" else 60000
    for t in range(count):
        n = 100000 + t
        kind = rng.choice(KINDS)
        rows = rng.choice([0, 1, 2, 3, 5, 8, 13, 40])
        if kind in ("categorical", "leaky"):
            d = rand_cats(rng, big=rng.random() < 0.25)
            keys = list(d)
            cells = []
            for _ in range(rows):
                r = rng.random()
                k = rng.choice(keys)
                if r < 0.6:
                    cells.append(k)
                elif r < 0.7:
                    cells.append(k[:-1])
                elif r < 0.8:
                    cells.append(k + bytes([rng.choice(b"ab ")]))
                elif r < 0.9:
                    cells.append(k[1:])
                else:
                    cells.append(rand_key(rng))
            cases.append(mkcol(kind, cells, rand_sizes(rng, rows), n, cats=cats_of(d), vtype=rng.choice(["int8", "int8", "int16", "int32"])))
        elif kind == "fixed":
            cells = [bytes(rng.choice(b"abc \xc3\xa9\xffz") for _ in range(rng.choice([0, 1, 2, 3, 4, 7]))) for _ in range(rows)]
            cases.append(mkcol("fixed", cells, rand_sizes(rng, rows), n, strlen=rng.choice([1, 2, 3, 4, 8])))
        elif kind == "bool":
            pool = ONES + ZEROS + [b"", b" ", b"x", b"tru", b"2", b"nope"]
            cells = []
            for _ in range(rows):
                w = rng.choice(pool)
                w = bytes(rng.choice([c, c ^ 0x20]) if chr(c).isalpha() else c for c in w)
                cells.append(b" " * rng.choice([0, 0, 1, 2]) + w + b" " * rng.choice([0, 0, 1]))
            cases.append(mkcol("bool", cells, rand_sizes(rng, rows), n, mode=rng.choice(["strict", "allow_empty", "relaxed"]),
                               invalid=rng.choice([0, 1, 7])))
        elif kind == "int":
            dt = rng.choice(list(INT_RANGES))
            lo, hi = INT_RANGES[dt]
            cells = []
            for _ in range(rows):
                r = rng.random()
                if r < 0.7:
                    v = rng.choice([lo, hi, 0, 1, -1 if lo < 0 else 2, rng.randrange(lo, hi + 1)])
                    cells.append(rng.choice([b"", b" ", b"+" if v >= 0 else b""]) + str(v).encode() + rng.choice([b"", b" "]))
                elif r < 0.8:
                    cells.append(rng.choice([b"", b" ", b"  "]))
                elif r < 0.9:
                    cells.append(rng.choice(INT_TEXTS))
                else:
                    cells.append(str(rng.choice([lo - 1, hi + 1])).encode())
            cases.append(mkcol("int", cells, rand_sizes(rng, rows, allow_empty=False), n, mode=rng.choice(["strict", "allow_empty", "relaxed"]),
                               dtype=dt, invalid=rng.choice([0, "min", "max", 5] if dt != "uint64" else [0, 5])))
        elif kind == "float":
            cells = [rng.choice(FLOAT_TEXTS) if rng.random() < 0.5 else
                     (b"%d.%d" % (rng.randrange(-999, 999), rng.choice([0, 5, 25, 125]))) for _ in range(rows)]
            cases.append(mkcol("float", cells, rand_sizes(rng, rows, allow_empty=False), n, mode=rng.choice(["strict", "allow_empty", "relaxed"]),
                               dtype=rng.choice(["float32", "float64"]), invalid=rng.choice([0, 160.5, -1])))
        elif kind == "datetime":
            cells = [rand_ts(rng) for _ in range(rows)]
            cases.append(mkcol("datetime", cells, rand_sizes(rng, rows), n, day=rng.random() < 0.6, flag=rng.random() < 0.6))
        else:
            cells = [rand_date(rng) for _ in range(rows)]
            cases.append(mkcol("date", cells, rand_sizes(rng, rows), n, day=rng.random() < 0.6, flag=rng.random() < 0.6))
    # CSV level
    ncsv = 40 if tier == "quick" else 5000
    for t in range(ncsv):
        cases.append(rand_csv(rng, 200000 + t))
    return cases


def rand_ts(rng):
    r = rng.random()
    if r < 0.1:
        return rng.choice([b"", b" "])
    if r < 0.18:
        return rng.choice(TS_BAD)
    y = rng.choice([1, 1600, 1900, 1969, 1970, 2000, 2020, 2024, 2100, 9999, rng.randrange(1, 10000)])
    mo = rng.randrange(1, 13)
    d = rng.choice([1, 28, 29, 30, 31, rng.randrange(1, 29)])
    base = b"%04d-%02d-%02d %02d:%02d:%02d" % (y, mo, d, rng.randrange(0, 24), rng.randrange(0, 60), rng.randrange(0, 60))
    form = rng.randrange(7)
    off = b"%s%02d:%02d" % (rng.choice([b"+", b"-"]), rng.choice([0, 0, 1, 5, 12, 14, 23]), rng.choice([0, 0, 30, 45, 59]))
    if form == 0:
        return base
    if form == 1:
        return base + b" UTC"
    if form == 2:
        return base + b".%d UTC" % rng.randrange(10)
    if form == 3:
        return base + b".%02d UTC" % rng.randrange(100)
    if form == 4:
        return base + b".%03d UTC" % rng.randrange(1000)
    if form == 5:
        return base + b".%06d" % rng.choice([0, 1, 999999, rng.randrange(10 ** 6)]) + off
    return base + off


def rand_date(rng):
    r = rng.random()
    if r < 0.1:
        return rng.choice([b"", b" "])
    if r < 0.2:
        return rng.choice(DATE_TEXTS)
    y = rng.choice([1, 1600, 1900, 1969, 1970, 2000, 2020, 2024, 2100, 9999, rng.randrange(1, 10000)])
    mo = rng.randrange(1, 13)
    d = rng.choice([1, 28, 29, 30, 31, rng.randrange(1, 29)])
    if rng.random() < 0.15:
        return b"%04d-%d-%d" % (y, mo, d)
    return b"%04d-%02d-%02d" % (y, mo, d)


def csv_safe(b):
    return not any(c in b for c in b',"\n\r\x00') and not b.startswith(b" ") and b.decode("utf8", "ignore").encode() == b


def rand_csv(rng, n):
    rows = rng.choice([1, 2, 3, 5, 9, 20])
    ncols = rng.randrange(1, 5)
    cols = []
    for ci in range(ncols):
        kind = rng.choice(KINDS)
        col = {"kind": kind, "name": "c%d" % ci}
        if kind in ("categorical", "leaky"):
            d = {k: v for k, v in rand_cats(rng, big=rng.random() < 0.2).items() if csv_safe(k) and k == k.strip()}
            if not any(len(k) for k in d):      # a table whose longest key is '' gives the reader a zero-byte column budget
                d[b"a"] = 1
            keys = list(d)
            cells = [rng.choice(keys) if rng.random() < 0.7 or kind == "categorical" and rng.random() < 0.8
                     else rng.choice(keys) + b"x" for _ in range(rows)]
            col.update(cats=cats_of(d), vtype="int8")
        elif kind == "fixed":
            cells = [bytes(rng.choice(b"abc\xc3\xa9z") for _ in range(rng.choice([0, 1, 2, 3, 6]))) for _ in range(rows)]
            cells = [c if csv_safe(c) else b"zz" for c in cells]
            col.update(strlen=rng.choice([1, 2, 4]))
        elif kind == "bool":
            cells = [rng.choice(ONES + ZEROS + [b"", b"TRUE", b"No", b"x"]) for _ in range(rows)]
            col.update(mode=rng.choice(["allow_empty", "relaxed", "relaxed", "strict"]), invalid=rng.choice([0, 1]))
        elif kind == "int":
            dt = rng.choice(["int8", "uint8", "int16", "uint16", "int32", "uint32", "int64"])
            lo, hi = INT_RANGES[dt]
            cells = [rng.choice([str(rng.randrange(lo, hi + 1)).encode(), b"", b"7", b"x", b"1.5", str(hi).encode()]) for _ in range(rows)]
            col.update(mode=rng.choice(["allow_empty", "relaxed", "relaxed", "strict"]), dtype=dt, invalid=rng.choice([0, "min", "max"]))
        elif kind == "float":
            cells = [rng.choice([b"1.5", b"-2", b"", b"1e2", b"x", b"nan", b"0.125"]) for _ in range(rows)]
            col.update(mode=rng.choice(["allow_empty", "relaxed", "relaxed", "strict"]), dtype=rng.choice(["float32", "float64"]), invalid=0)
        elif kind == "datetime":
            cells = [t for t in (rand_ts(rng) for _ in range(rows))]
            cells = [c.strip() if csv_safe(c.strip()) else b"" for c in cells]
            col.update(day=rng.random() < 0.5, flag=rng.random() < 0.5)
        else:
            cells = [rand_date(rng).strip() for _ in range(rows)]
            col.update(day=rng.random() < 0.5, flag=rng.random() < 0.5)
        col["cells"] = [hx(c) for c in cells]
        cols.append(col)
    recs = [b",".join(unhx(c["cells"][i]) for c in cols) for i in range(rows)]
    header = b",".join(c["name"].encode() for c in cols)
    maxcell = max([len(unhx(x)) for c in cols for x in c["cells"]] + [1])
    need = max([len(header) + 1 + len(recs[0]) + 1] + [len(r) + 1 for r in recs])
    # budgets of the reader's staging buffers (C05's territory: regrowth / re-read is not exercised here): a column's bytes
    # in one window must stay below field_size * chunk_row_size
    budget = 2
    for c in cols:
        fs = {"fixed": c.get("strlen", 1), "bool": 5, "int": 20, "float": 30, "datetime": 32, "date": 10}.get(c["kind"])
        if fs is None:
            fs = max(len(unhx(k["k"]).decode()) for k in c["cats"])
        budget = max(budget, -(-(sum(len(unhx(x)) for x in c["cells"]) + 1) // max(fs, 1)) + 1)
    crs_min = max(-(-need // (2 * ncols)) + 1, maxcell + 1, budget)
    crs = rng.choice([crs_min, crs_min + 1, 2 * crs_min, 1 << 20])
    return {"op": "c06_csv", "cols": cols, "crs": crs, "_n": n}


def gen_cases(tier, rng):
    from checks import corpus
    cases = list(corpus.load("C06"))
    cases.extend(exhaustive(tier))
    cases.extend(random_cases(tier, rng))
    # the composition C05 o C06 (op csv_typed, owned by checks/harness/c05.py): mixed typed schemas through the REAL
    # read_csv_with_schema_dict / read_csv with small chunk_row_size values, compared with the composed Lean model (the CSV
    # driver feeding the importer models one import_part per kernel call) and with this module's oracle; here also with cells
    # that are no category (NC06d)
    from checks.harness import c05
    cases.extend(c05.typed_regrowth_cases())
    cases.extend(c05.typed_reject_cases(tier == "quick", categorical=True))
    cases.extend(c05.typed_cases(rng, 160 if tier == "quick" else 4000, allow_unmatched=True))
    return cases


# ------------------------------------------------------------------------------------------------------------------
# implementation (runs in worker processes)
# ------------------------------------------------------------------------------------------------------------------
_S = {}


def _env():
    if not _S:
        import io
        import warnings
        warnings.simplefilter("ignore")
        import numpy as np
        from exetera.core.session import Session
        from exetera.io import field_importers as fi, parsers
        s = Session()
        ds = s.open_dataset(io.BytesIO(), "w", "ds")
        _S.update(np=np, fi=fi, parsers=parsers, s=s, ds=ds, k=0, io=io)
    return _S


def new_df(e):
    e["k"] += 1
    return e["ds"].create_dataframe("df%d" % e["k"])


def make_importer(e, df, col, name="a"):
    fi, s = e["fi"], e["s"]
    kind = col["kind"]
    if kind in ("categorical", "leaky"):
        cats = {unhx(c["k"]).decode(): c["v"] for c in col["cats"]}
        cls = fi.LeakyCategoricalImporter if kind == "leaky" else fi.CategoricalImporter
        return cls(s, df, name, cats, col.get("vtype", "int8"))
    if kind == "fixed":
        return fi.FixedStringImporter(s, df, name, col["strlen"])
    if kind == "bool":
        return fi.NumericImporter(s, df, name, "bool", col.get("invalid", 0), col["mode"])
    if kind in ("int", "float"):
        return fi.NumericImporter(s, df, name, col["dtype"], col.get("invalid", 0), col["mode"])
    if kind == "datetime":
        return fi.DateTimeImporter(s, df, name, col.get("day", False), col.get("flag", False))
    if kind == "date":
        return fi.DateImporter(s, df, name, col.get("day", False), col.get("flag", False))
    raise ValueError(kind)


def read_col(e, df, col, name="a"):
    np = e["np"]
    kind = col["kind"]
    out = {}
    main = df[name].data[:]
    if kind in ("categorical", "leaky"):
        out["data"] = [int(x) for x in main]
        out["dtype"] = str(main.dtype)
        if kind == "leaky":
            f = df[name + "_freetext"]
            out["ft_indices"] = [int(x) for x in f.indices[:]]
            out["ft_values"] = hx(np.asarray(f.values[:], dtype=np.uint8).tobytes())
    elif kind == "fixed":
        out["data"] = hx(np.asarray(main).tobytes())
        out["dtype"] = str(main.dtype)
    elif kind in ("bool", "int", "float"):
        if kind == "float":
            out["data"] = [ftoken(x) for x in main]
        else:
            out["data"] = [int(x) for x in main]
        out["dtype"] = str(main.dtype)
        if name + "_valid" in df:
            out["valid"] = [int(x) for x in df[name + "_valid"].data[:]]
    else:
        out["ts"] = [float(x).hex() for x in main]
        if name + "_day" in df:
            d = df[name + "_day"].data[:]
            out["day"] = [hx(np.asarray(d[i:i + 1]).tobytes()) for i in range(len(d))]
        if name + "_set" in df:
            out["set"] = [int(x) for x in df[name + "_set"].data[:]]
    return out


def impl(case):
    if case["op"] == "csv_typed":
        from checks.harness import c05
        return c05.impl(case)
    e = _env()
    np = e["np"]
    if case["op"] == "c06_parse_int":
        try:
            return {"v": int(unhx(case["text"]))}
        except ValueError:
            return {"v": None}
    if case["op"] == "c06_col":
        df = new_df(e)
        imp = make_importer(e, df, case)
        lay = case.get("lay", [0, 1, 0, 0, 0])
        for ch in case["chunks"]:
            inds, vals, offs, col, rows = layout([unhx(c) for c in ch], lay)
            imp.import_part(np.array(inds, dtype=np.int64), np.frombuffer(vals, dtype=np.uint8).copy(),
                            np.array(offs, dtype=np.int64), col, rows)
            imp.complete()
        return read_col(e, df, case)
    if case["op"] == "c06_csv":
        return impl_csv(e, case)
    raise ValueError(case["op"])


def schema_json(cols):
    fields = {}
    for c in cols:
        k = c["kind"]
        if k in ("categorical", "leaky"):
            cat = {"strings_to_values": {unhx(x["k"]).decode(): x["v"] for x in c["cats"]}, "value_type": c.get("vtype", "int8")}
            if k == "leaky":
                cat["out_of_range"] = "freetext"
            fields[c["name"]] = {"field_type": "categorical", "categorical": cat}
        elif k == "fixed":
            fields[c["name"]] = {"field_type": "fixed_string", "length": c["strlen"]}
        elif k in ("bool", "int", "float"):
            fields[c["name"]] = {"field_type": "numeric", "value_type": "bool" if k == "bool" else c["dtype"],
                                 "invalid_value": c.get("invalid", 0), "validation_mode": c["mode"]}
        else:
            fields[c["name"]] = {"field_type": k, "create_day_field": bool(c.get("day")), "create_flag_field": bool(c.get("flag"))}
    return json.dumps({"exetera": {"version": "1.1.0"}, "schema": {"t": {"primary_keys": [], "fields": fields}}})


def impl_csv(e, case):
    import os
    import tempfile
    from io import StringIO
    cols = case["cols"]
    rows = len(cols[0]["cells"])
    text = b",".join(c["name"].encode() for c in cols) + b"\n"
    for i in range(rows):
        text += b",".join(unhx(c["cells"][i]) for c in cols) + b"\n"
    df = new_df(e)
    fd, path = tempfile.mkstemp(suffix=".csv")
    try:
        with os.fdopen(fd, "wb") as f:
            f.write(text)
        e["parsers"].read_csv(path, df, schema_file=StringIO(schema_json(cols)), chunk_row_size=case["crs"])
    finally:
        os.unlink(path)
    return {"cols": [read_col(e, df, c, c["name"]) for c in cols]}


# ------------------------------------------------------------------------------------------------------------------
# the property's oracle (Python rendering of Spec/Transforms.lean)
# ------------------------------------------------------------------------------------------------------------------
TS_LAYOUTS = [
    (re.compile(rb"(\d{4})-(\d\d)-(\d\d) (\d\d):(\d\d):(\d\d)\.(\d{3}) UTC"), 1000, False),
    (re.compile(rb"(\d{4})-(\d\d)-(\d\d) (\d\d):(\d\d):(\d\d)\.(\d{2}) UTC"), 10000, False),
    (re.compile(rb"(\d{4})-(\d\d)-(\d\d) (\d\d):(\d\d):(\d\d)\.(\d) UTC"), 100000, False),
    (re.compile(rb"(\d{4})-(\d\d)-(\d\d) (\d\d):(\d\d):(\d\d)() UTC"), 0, False),
    (re.compile(rb"(\d{4})-(\d\d)-(\d\d) (\d\d):(\d\d):(\d\d)\.(\d{6})([+-])(\d\d):(\d\d)"), 1, True),
    (re.compile(rb"(\d{4})-(\d\d)-(\d\d) (\d\d):(\d\d):(\d\d)()([+-])(\d\d):(\d\d)"), 0, True),
    (re.compile(rb"(\d{4})-(\d\d)-(\d\d) (\d\d):(\d\d):(\d\d)()"), 0, False),
]


def ts_expect(cell):
    """('empty',) | ('ok', microseconds) | ('raise',) | ('unspecified',)"""
    from datetime import datetime, timedelta, timezone
    v = cell.strip()
    if v == b"":
        return ("empty",)
    for rx, scale, has_off in TS_LAYOUTS:
        m = rx.fullmatch(v)
        if not m:
            continue
        g = m.groups()
        y, mo, d, h, mi, s = (int(x) for x in g[:6])
        us = int(g[6]) * scale if g[6] else 0
        off = 0
        if has_off:
            off = (int(g[8]) * 60 + int(g[9])) * (-1 if g[7] == b"-" else 1)
            if abs(off) >= 1440:
                return ("raise",)
        try:
            dt = datetime(y, mo, d, h, mi, s, us, tzinfo=timezone(timedelta(minutes=off)))
        except ValueError:
            return ("raise",)
        delta = dt - datetime(1970, 1, 1, tzinfo=timezone.utc)
        return ("ok", (delta.days * 86400 + delta.seconds) * 10 ** 6 + delta.microseconds)
    return ("unspecified",)


def date_expect(cell):
    import calendar
    v = cell.strip()
    if v == b"":
        return ("empty",)
    m = re.fullmatch(rb"(\d{4})-(\d\d)-(\d\d)", v)
    if not m:
        return ("unspecified",)
    y, mo, d = (int(x) for x in m.groups())
    if not (1 <= y <= 9999 and 1 <= mo <= 12 and 1 <= d <= calendar.monthrange(max(y, 1), mo)[1]):
        return ("raise",)
    from datetime import date
    return ("ok", (date(y, mo, d).toordinal() - date(1970, 1, 1).toordinal()) * 86400 * 10 ** 6)


def us_eq(hexfloat, us):
    return float.fromhex(hexfloat) == us / 10 ** 6


def bool_class(cell):
    t = cell.strip(b" ")
    if t == b"":
        return "empty"
    low = t.lower()
    if low in ONES:
        return 1
    if low in ZEROS:
        return 0
    return "bad"


def int_class(cell, dtype):
    if cell.strip() == b"":
        return "empty"
    try:
        v = int(cell)
    except ValueError:
        return "bad"
    lo, hi = INT_RANGES[dtype]
    return v if lo <= v <= hi else "range"


def float_class(cell, dtype):
    if cell.strip() == b"":
        return "empty"
    tok = py_float(cell, dtype)
    return "bad" if tok is None else tok


def numeric_spec(col, cells, io):
    """the validation-mode table; returns None or a violation string"""
    kind, mode = col["kind"], col["mode"]
    if kind == "bool":
        cls = [bool_class(c) for c in cells]
        inv = int(bool(col.get("invalid", 0)))
    elif kind == "int":
        cls = [int_class(c, col["dtype"]) for c in cells]
        inv = resolve_invalid(col)
    else:
        import numpy as np
        cls = [float_class(c, col["dtype"]) for c in cells]
        with np.errstate(all="ignore"):
            inv = ftoken(np.dtype(col["dtype"]).type(col.get("invalid", 0)))
    must_raise = any(c == "bad" for c in cls) and mode in ("strict", "allow_empty") or any(c == "empty" for c in cls) and mode == "strict"
    has_range = any(c == "range" for c in cls)
    if "err" in io:
        if must_raise or has_range:
            return None
        return f"raised {io['err']} ({io.get('msg', '')}) although every cell is acceptable in mode {mode}"
    if must_raise:
        return f"mode {mode}: a cell that must be rejected was imported (classes {cls[:12]})"
    data, valid = io["data"], io.get("valid")
    if len(data) != len(cells):
        return f"{len(cells)} cells but {len(data)} values stored"
    if mode != "strict" and valid is not None and len(valid) != len(data):
        return f"validity flag has {len(valid)} rows, the column {len(data)}"
    for i, c in enumerate(cls):
        ok = c not in ("empty", "bad", "range")
        if c == "range":
            if not (mode == "relaxed" and valid is not None and valid[i] == 0):
                return f"row {i}: out-of-range text {cells[i]!r} stored as {data[i]} without a flag"
            continue
        want = c if ok else inv
        if data[i] != want:
            return f"row {i}: text {cells[i]!r} stored as {data[i]}, the text denotes {want} (mode {mode})"
        if valid is not None and valid[i] != int(ok):
            return f"row {i}: text {cells[i]!r} has validity flag {valid[i]}"
    return None


def col_spec(col, cells, io):
    kind = col["kind"]
    if kind in ("bool", "int", "float"):
        return numeric_spec(col, cells, io)
    if kind in ("categorical", "leaky"):
        table = {unhx(c["k"]): c["v"] for c in col["cats"]}
        if "err" in io:
            if kind == "categorical" and any(c not in table for c in cells):
                return None          # no free text allowed and a cell that is no category: there is no value to store
            return f"raised {io['err']} ({io.get('msg', '')}) instead of importing the categorical column"
        data = io["data"]
        if len(data) != len(cells):
            return f"{len(cells)} cells but {len(data)} codes stored"
        for i, c in enumerate(cells):
            if c in table:
                if data[i] != table[c]:
                    return f"row {i}: text {c!r} stored as {data[i]}, its category value is {table[c]}"
            elif kind == "leaky":
                if data[i] != -1:
                    return f"row {i}: text {c!r} is no category but stored as {data[i]} instead of -1"
            else:
                return f"unmatched:row {i}: text {c!r} is no category, free text is not allowed, yet {data[i]} was stored without any flag"
        if kind == "leaky":
            want = [b"" if c in table else c for c in cells]
            idx = [0]
            for w in want:
                idx.append(idx[-1] + len(w))
            if io["ft_indices"] != idx or unhx(io["ft_values"]) != b"".join(want):
                return f"free-text companion differs: indices {io['ft_indices'][:12]} values {io['ft_values'][:40]} expected {idx[:12]} {hx(b''.join(want))[:40]}"
        return None
    if kind == "fixed":
        if "err" in io:
            return f"raised {io['err']} ({io.get('msg', '')})"
        n = col["strlen"]
        want = b"".join(c[:n].ljust(n, b"\x00") for c in cells)
        if unhx(io["data"]) != want:
            return f"fixed strings differ: got {io['data'][:60]} expected {hx(want)[:60]}"
        return None
    # datetime / date
    exp = [ts_expect(c) if kind == "datetime" else date_expect(c) for c in cells]
    if any(x[0] == "unspecified" for x in exp):
        if "err" in io:
            return None
    if "err" in io:
        if any(x[0] == "raise" for x in exp):
            return None
        if any(x[0] == "unspecified" for x in exp):
            return None
        return f"raised {io['err']} ({io.get('msg', '')}) although every cell is in an accepted layout"
    if any(x[0] == "raise" for x in exp):
        return "an impossible date/time was imported"
    ts = io["ts"]
    if len(ts) != len(cells):
        return f"{len(cells)} cells but {len(ts)} timestamps"
    for name in ("day", "set"):
        if name in io and len(io[name]) != len(ts):
            return f"companion _{name} has {len(io[name])} rows, the column {len(ts)}"
    for i, x in enumerate(exp):
        v = cells[i].strip()
        if x[0] == "ok" and not us_eq(ts[i], x[1]):
            return f"row {i}: {cells[i]!r} stored as {float.fromhex(ts[i])!r}, the written instant is {x[1] / 10 ** 6!r}"
        if x[0] == "empty" and float.fromhex(ts[i]) != 0.0:
            return f"row {i}: empty cell stored as {float.fromhex(ts[i])}"
        if "set" in io and x[0] != "unspecified" and io["set"][i] != int(x[0] == "ok"):
            return f"row {i}: _set flag {io['set'][i]} for {cells[i]!r}"
        if "day" in io and x[0] != "unspecified" and unhx(io["day"][i]) != v[:10].ljust(10, b"\x00"):
            return f"row {i}: _day {io['day'][i]} for {cells[i]!r}"
    return None


def check_spec(case, io, mode):
    if case["op"] == "c06_parse_int":
        return None
    if case["op"] == "csv_typed":
        from checks.harness import c05
        return c05.spec_typed(case, io)
    if case["op"] == "c06_col":
        cells = [unhx(c) for ch in case["chunks"] for c in ch]
        return col_spec(case, cells, io)
    # csv level: any column may be the one that raised
    if "err" in io:
        whys = [col_spec(c, [unhx(x) for x in c["cells"]], io) for c in case["cols"]]
        return None if any(w is None for w in whys) else whys[0]
    for c, o in zip(case["cols"], io["cols"]):
        why = col_spec(c, [unhx(x) for x in c["cells"]], o)
        if why:
            return f"column {c['name']} ({c['kind']}): {why}"
    return None


def match_finding(case, io, mode):
    """NC06d: a categorical column without free text stores 0 for text that is no category — and nothing else is wrong"""
    if case["op"] == "csv_typed":
        return match_typed(case, io)
    cols = [case] if case["op"] == "c06_col" else case.get("cols", [])
    outs = [io] if case["op"] == "c06_col" else (io.get("cols") or [])
    if "err" in io or len(cols) != len(outs):
        return None
    hit = False
    for c, o in zip(cols, outs):
        cells = [unhx(x) for ch in c["chunks"] for x in ch] if "chunks" in c else [unhx(x) for x in c["cells"]]
        why = col_spec(c, cells, o)
        if why is None:
            continue
        if not (c["kind"] == "categorical" and why.startswith("unmatched:")):
            return None
        table = {unhx(k["k"]): k["v"] for k in c["cats"]}
        if len(o["data"]) != len(cells) or any(o["data"][i] != table.get(x, 0) for i, x in enumerate(cells)):
            return None
        hit = True
    return "NC06d" if hit else None


def match_typed(case, io):
    """NC06d on a csv_typed case: the only thing wrong is that categorical columns without free text hold 0 for cells that are
    no category; everything else (rows, order, every other column, every matched cell) is as specified"""
    from checks.harness import c05
    if "err" in io:
        return None
    colcells = c05.typed_columns(case)
    if colcells is None:
        return None
    skip = set()
    for ci, c in enumerate(case["cols"]):
        if c["kind"] != "categorical" or c["name"] not in io["fields"]:
            continue
        cells = colcells[ci]
        o = io["fields"][c["name"]]
        why = col_spec(c, cells, o)
        if why is None:
            continue
        table = {unhx(k["k"]): k["v"] for k in c["cats"]}
        if not why.startswith("unmatched:") or len(o["data"]) != len(cells) or \
                any(o["data"][i] != table.get(x, 0) for i, x in enumerate(cells)):
            return None
        skip.add(c["name"])
    if not skip:
        return None
    # everything else about the case (rows, order, every other column) must be as specified
    return "NC06d" if c05.spec_typed(case, io, skip=skip) is None else None


# ------------------------------------------------------------------------------------------------------------------
# model vs implementation
# ------------------------------------------------------------------------------------------------------------------
ERR_EQ = {"other:OverflowError": "overflow_error"}


def norm_err(e):
    return ERR_EQ.get(e, e)


def cmp_col(col, io, m):
    """io: impl output of one column, m: model output ({'ok':..}|{'err':..})"""
    if "err" in m:
        return f"model err={m['err']} impl returned a value"
    m = m["ok"]
    kind = col["kind"]
    if kind in ("datetime", "date"):
        if len(io["ts"]) != len(m["ts"]) or any(not us_eq(a, b) for a, b in zip(io["ts"], m["ts"])):
            return f"timestamps differ impl={[float.fromhex(x) for x in io['ts']][:6]} model_us={m['ts'][:6]}"
        if "day" in io and io["day"] != m["day"]:
            return f"_day differs impl={io['day'][:4]} model={m['day'][:4]}"
        if "set" in io and io["set"] != m["set"]:
            return f"_set differs impl={io['set'][:8]} model={m['set'][:8]}"
        return None
    keys = ["data"] + (["ft_indices", "ft_values"] if kind == "leaky" else [])
    for k in keys:
        if io[k] != m[k]:
            return f"{k} differs impl={str(io[k])[:200]} model={str(m[k])[:200]}"
    if "valid" in io and io["valid"] != m["valid"]:
        return f"valid differs impl={io['valid'][:12]} model={m['valid'][:12]}"
    return None


def compare(case, io, mo, mode):
    if case["op"] == "csv_typed":
        from checks.harness import c05
        if "bad" in mo:
            return f"model driver rejected the case: {mo['bad']}"
        return c05.compare_typed(case, io, mo)
    if case["op"] == "c06_parse_int":
        return None if io.get("v") == mo.get("ok") else f"int() impl={io.get('v')} model={mo.get('ok')}"
    if case["op"] == "c06_col":
        why = cmp_one(case, io, mo)
        if why and as_found_ok(case, [unhx(x) for ch in case["chunks"] for x in ch], mo) and cmp_one(case, io, mo["asfound"]) is None:
            return None          # the code as found (NC06d, listed open): check_spec reports it under the finding
        if why is None and "err" in io and case["kind"] == "categorical":
            why = cat_message(case, io, case["chunks"])
        return why
    outs = mo.get("ok")
    if outs is None:
        return f"model: {mo}"
    if "err" in io:
        errs = {norm_err(o["err"]) for o in outs if "err" in o}
        return None if norm_err(io["err"]) in errs else f"impl err={io['err']} ({io.get('msg', '')}) model column errs={sorted(errs)}"
    for c, o, m in zip(case["cols"], io["cols"], outs):
        why = cmp_col(c, o, m)
        if why and as_found_ok(c, [unhx(x) for x in c["cells"]], m) and cmp_col(c, o, m["asfound"]) is None:
            continue
        if why:
            return f"column {c['name']} ({c['kind']}): {why}"
    return None


def cmp_one(case, io, mo):
    if "err" in io:
        a, b = norm_err(io["err"]), norm_err(mo.get("err", "<value>"))
        return None if a == b else f"impl err={a} ({io.get('msg', '')}) model err={b}"
    return cmp_col(case, io, mo)


def as_found_ok(col, cells, mo):
    """may this column be answered like the as-found variant of the model? Only a categorical column without free text that
    holds a cell which is no category, and only while NC06d is listed open"""
    return (col["kind"] == "categorical" and isinstance(mo, dict) and isinstance(mo.get("asfound"), dict)
            and nc06d_open() and bool(unmatched_cells(col, cells)))


CAT_MSG = re.compile(r"^Field '(.*?)': '(.*)' \(row (\d+)\) is not one of the categories", re.S)


def cat_message(col, io, chunks):
    """fix NC06d, what the ValueError of CategoricalImporter.import_part names: the first cell that is no category of the
    first chunk that holds one (categorical_transform's first_unmatched), its text and its row number in the whole column"""
    m = CAT_MSG.match(io.get("msg", ""))
    if io.get("err") != "value_error" or not m:
        return None
    table = {unhx(c["k"]) for c in col["cats"]}
    row = 0
    for ch in chunks:
        for x in ch:
            if unhx(x) not in table:
                want = unhx(x).decode("utf-8", "replace")
                if m.group(2) != want or int(m.group(3)) != row:
                    return f"the ValueError names {m.group(2)!r} (row {m.group(3)}), the first cell that is no category is {want!r} (row {row})"
                return None
            row += 1
    return None


# ------------------------------------------------------------------------------------------------------------------
def nontrivial(case, mo):
    if case["op"] == "csv_typed":
        from checks.harness import c05
        return c05.nontrivial(case, mo)
    if case["op"] == "c06_parse_int":
        return False
    if case["op"] == "c06_csv":
        return True
    return len(case["chunks"]) > 1 or (mo is not None and "err" in mo)


def classify(case, mo):
    if case["op"] == "csv_typed":
        from checks.harness import c05
        return c05.classify(case, mo)
    if case["op"] != "c06_col":
        return [case["op"]]
    tags = [case["kind"]]
    if case.get("mode"):
        tags.append(case["kind"] + ":" + case["mode"])
    if len(case["chunks"]) > 1:
        tags.append("multi-chunk")
    if any(len(ch) == 0 for ch in case["chunks"]):
        tags.append("empty-chunk")
    if case["kind"] in ("categorical", "leaky") and sum(len(c["k"]) // 2 for c in case["cats"]) > 255:
        tags.append("keys>255B")
    if mo and "err" in mo:
        tags.append("model-err:" + mo["err"])
    if case["kind"] == "categorical":
        # where the first cell that is no category sits: measured strata of fix NC06d
        table = {unhx(c["k"]) for c in case["cats"]}
        row, first = 0, None
        for ci, ch in enumerate(case["chunks"]):
            for ri, x in enumerate(ch):
                if first is None and unhx(x) not in table:
                    first = (ci, ri, len(ch), row)
                row += 1
        if first is not None:
            ci, ri, ln, r = first
            tags.append("cat-unmatched")
            if r == 0:
                tags.append("cat-unmatched:first-row")
            if ri == ln - 1 and ln >= 2:
                tags.append("cat-unmatched:last-row-of-chunk")
            if ri == 0 and ci > 0 and r > 0:
                tags.append("cat-unmatched:first-row-of-later-chunk")
            if r == row - 1:
                tags.append("cat-unmatched:last-row")
            if case.get("_odd"):
                tags.append("cat-unmatched:" + case["_odd"][0])
    return tags


def select_for_mode(case, mode, tier):
    if case["op"] == "c06_parse_int":
        return False
    if case["op"] == "csv_typed":
        return case.get("_n", 0) % 7 == 0
    return case.get("_n", 0) % (7 if mode == "nojit" else 11) == 0 or "_corpus" in case


# the translated kernels of this property (Gen/Kernels.lean) are run against the real compiled kernels as well
from checks.harness import genkernels  # noqa: E402
genkernels.install(globals(), "C06")
