import Exetera.Gen.Kernels
import Exetera.Model.Join
import Exetera.Lemmas.GenKernels
import Exetera.Lemmas.GenKernelsJoin
import Exetera.Lemmas.GenKernelsJoinGeneral
/-!
  The TRANSLATED uniqueness-specialised INNER join kernels against the guard/body models of `Model/Join.lean`:

    generate_ordered_map_to_inner_both_unique_partial    ~  runPartial .innerBU
    generate_ordered_map_to_inner_left_unique_partial    ~  runPartial .innerLU
    generate_ordered_map_to_inner_right_unique_partial   ~  runPartial .innerRU

  Same simulation relation as for the left kernels (`buffer[:r]` = the model's list, capacities and loop variables equal);
  `whileE_sim` lifts the one-iteration lemmas.
-/
namespace Exetera.GenK

open Exetera Exetera.PyRt Exetera.Gen.Kernels Exetera.Join

/-- both result buffers after `l_result[r] = a; r_result[r] = b` keep their capacity and extend the written prefixes -/
theorem push_bufs {cap : Nat} {k : K} {l4 l5 : List Int} (a b : Int)
    (h4l : l4.length = cap) (h5l : l5.length = cap) (hll : k.lb.length = k.rb.length)
    (ht4 : l4.take k.rb.length = k.lb) (ht5 : l5.take k.rb.length = k.rb) (hcap : k.rb.length < cap) :
    (l4.set k.rb.length a).length = cap ∧ (l5.set k.rb.length b).length = cap ∧
    (k.lb ++ [a]).length = (k.rb ++ [b]).length ∧
    (l4.set k.rb.length a).take (k.rb ++ [b]).length = k.lb ++ [a] ∧
    (l5.set k.rb.length b).take (k.rb ++ [b]).length = k.rb ++ [b] := by
  refine ⟨by simpa using h4l, by simpa using h5l, by simp [hll], ?_, ?_⟩
  · simp only [List.length_append, List.length_singleton]; rw [take_set_succ _ _ _ (by omega), ht4]
  · simp only [List.length_append, List.length_singleton]; rw [take_set_succ _ _ _ (by omega), ht5]

/-! ### generate_ordered_map_to_inner_both_unique_partial -/

namespace IBU

abbrev St := generate_ordered_map_to_inner_both_unique_partial.St

abbrev mk (p : P) (l4 l5 : List Int) (i j r : Int) : St :=
  ⟨p.left, (p.iMax : Int), p.right, (p.jMax : Int), l4, l5, (p.iOff : Int), (p.jOff : Int), i, j, r⟩

def R (p : P) (s : St) (k : K) : Prop :=
  ∃ l4 l5, s = mk p l4 l5 k.i k.j k.rb.length ∧ l4.length = p.cap ∧ l5.length = p.cap ∧ k.lb.length = k.rb.length ∧
    l4.take k.rb.length = k.lb ∧ l5.take k.rb.length = k.rb

theorem guard_eq (p : P) (s : St) (k : K) (h : R p s k) :
    generate_ordered_map_to_inner_both_unique_partial.guard_L1 s = partialGuard .innerBU p k := by
  obtain ⟨l4, l5, rfl, h4l, _⟩ := h
  simp only [generate_ordered_map_to_inner_both_unique_partial.guard_L1, pyLen, h4l, partialGuard]
  rw [Bool.eq_iff_iff]
  simp only [Bool.and_eq_true, decide_eq_true_eq]
  have hr : k.r = k.rb.length := rfl
  omega

theorem body_sim (p : P) (s : St) (k k' : K) (h : R p s k) (hb : partialBody .innerBU p k = .ok k') :
    ∃ s', generate_ordered_map_to_inner_both_unique_partial.body_L1 s = .ok s' ∧ R p s' k' := by
  obtain ⟨l4, l5, rfl, h4l, h5l, hll, ht4, ht5⟩ := h
  simp only [partialBody, uniqueBody, bind, Except.bind, pure, Except.pure, Variant.isLeft] at hb
  have e_i : (k.i : Int) + 1 = ((k.i + 1 : Nat) : Int) := by omega
  have e_j : (k.j : Int) + 1 = ((k.j + 1 : Nat) : Int) := by omega
  have e_r : (k.rb.length : Int) + 1 = ((k.rb.length + 1 : Nat) : Int) := by omega
  cases ha : getE p.left k.i "left[i]" with
  | error e => rw [ha] at hb; simp at hb
  | ok a =>
    rw [ha] at hb
    simp only [] at hb
    cases hbb : getE p.right k.j "right[j]" with
    | error e => rw [hbb] at hb; simp at hb
    | ok b =>
      rw [hbb] at hb
      simp only [] at hb
      have ha' : ∀ site, getE p.left k.i site = .ok a := fun site => Gen.getE_site site ha
      have hb' : ∀ site, getE p.right k.j site = .ok b := fun site => Gen.getE_site site hbb
      by_cases hlt : a < b
      · simp only [hlt, if_true, Bool.false_eq_true, if_false, Except.ok.injEq] at hb
        subst hb
        refine ⟨mk p l4 l5 ((k.i + 1 : Nat) : Int) k.j k.rb.length, ?_, l4, l5, rfl, h4l, h5l, hll, ht4, ht5⟩
        simp only [generate_ordered_map_to_inner_both_unique_partial.body_L1, mk, idxE_nat, ha', hb', bindE_ok, hlt,
          decide_true, if_true, e_i]
      · simp only [hlt, if_false] at hb
        by_cases hgt : a > b
        · simp only [hgt, if_true, Except.ok.injEq] at hb
          subst hb
          refine ⟨mk p l4 l5 k.i ((k.j + 1 : Nat) : Int) k.rb.length, ?_, l4, l5, rfl, h4l, h5l, hll, ht4, ht5⟩
          simp only [generate_ordered_map_to_inner_both_unique_partial.body_L1, mk, idxE_nat, ha', hb', bindE_ok, hlt,
            decide_false, Bool.false_eq_true, if_false, hgt, decide_true, if_true, e_j]
        · simp only [hgt, if_false] at hb
          cases hp : push p.cap k ((k.i + p.iOff : Nat) : Int) ((k.j + p.jOff : Nat) : Int) "result[r]" with
          | error e => rw [hp] at hb; simp at hb
          | ok k1 =>
            rw [hp] at hb
            simp only [Except.ok.injEq] at hb
            obtain ⟨hcap, hk1⟩ := push_inv hp
            subst hk1
            subst hb
            have e1 : (k.i : Int) + (p.iOff : Int) = ((k.i + p.iOff : Nat) : Int) := by omega
            have e2 : (k.j : Int) + (p.jOff : Int) = ((k.j + p.jOff : Nat) : Int) := by omega
            obtain ⟨q1, q2, q3, q4, q5⟩ := push_bufs ((k.i + p.iOff : Nat) : Int) ((k.j + p.jOff : Nat) : Int) h4l h5l hll ht4 ht5 hcap
            refine ⟨mk p (l4.set k.rb.length ((k.i + p.iOff : Nat) : Int)) (l5.set k.rb.length ((k.j + p.jOff : Nat) : Int))
              ((k.i + 1 : Nat) : Int) ((k.j + 1 : Nat) : Int) ((k.rb.length + 1 : Nat) : Int), ?_, _, _, ?_, q1, q2, q3, q4, q5⟩
            · simp only [generate_ordered_map_to_inner_both_unique_partial.body_L1, mk, idxE_nat, ha', hb', bindE_ok, hlt,
                decide_false, Bool.false_eq_true, if_false, hgt, e1, e2, setIdxE_nat, setE,
                show k.rb.length < l4.length by omega, show k.rb.length < l5.length by omega, if_true, e_i, e_j, e_r]
            · simp

end IBU

/-- every `.ok` run of the model's inner both-unique `_partial` kernel is a run of the translated kernel (same fuel) on buffers
    whose written prefixes are the model's lists -/
theorem inner_both_unique_partial_ok (p : P) (k k' : K) (lbuf rbuf : List Int)
    (hl : lbuf.length = p.cap) (hr : rbuf.length = p.cap) (hlen : k.lb.length = k.rb.length)
    (h1 : lbuf.take k.rb.length = k.lb) (h2 : rbuf.take k.rb.length = k.rb)
    (h : runPartial .innerBU p k = .ok k') :
    ∃ lbuf' rbuf', generate_ordered_map_to_inner_both_unique_partial.run p.left p.iMax p.right p.jMax lbuf rbuf p.iOff p.jOff
        k.i k.j k.rb.length (partialFuel p) = .ok ((k'.i : Int), (k'.j : Int), (k'.rb.length : Int), lbuf', rbuf') ∧
      lbuf'.length = p.cap ∧ rbuf'.length = p.cap ∧ lbuf'.take k'.rb.length = k'.lb ∧ rbuf'.take k'.rb.length = k'.rb := by
  unfold runPartial at h
  obtain ⟨s', hw, hR⟩ := whileE_sim (IBU.R p) generate_ordered_map_to_inner_both_unique_partial.guard_L1
    generate_ordered_map_to_inner_both_unique_partial.body_L1 (partialGuard .innerBU p) (partialBody .innerBU p)
    (IBU.guard_eq p) (fun s t t' hR _ hb => IBU.body_sim p s t t' hR hb) (partialFuel p)
    (IBU.mk p lbuf rbuf k.i k.j k.rb.length) k k' ⟨lbuf, rbuf, rfl, hl, hr, hlen, h1, h2⟩ h
  obtain ⟨l4, l5, rfl, h4l, h5l, _, ht4, ht5⟩ := hR
  refine ⟨l4, l5, ?_, h4l, h5l, ht4, ht5⟩
  unfold generate_ordered_map_to_inner_both_unique_partial.run
  have hw' : whileE generate_ordered_map_to_inner_both_unique_partial.guard_L1
      generate_ordered_map_to_inner_both_unique_partial.body_L1 (partialFuel p)
      (IBU.mk p lbuf rbuf k.i k.j k.rb.length) = .ok (IBU.mk p l4 l5 k'.i k'.j k'.rb.length) := hw
  simp only [IBU.mk] at hw'
  simp only [hw', bindE_ok]

/-! ### generate_ordered_map_to_inner_left_unique_partial -/

namespace ILU

abbrev St := generate_ordered_map_to_inner_left_unique_partial.St

abbrev mk (p : P) (l4 l5 : List Int) (i j r : Int) : St :=
  ⟨p.left, (p.iMax : Int), p.right, (p.jMax : Int), l4, l5, (p.iOff : Int), (p.jOff : Int), i, j, r⟩

def R (p : P) (s : St) (k : K) : Prop :=
  ∃ l4 l5, s = mk p l4 l5 k.i k.j k.rb.length ∧ l4.length = p.cap ∧ l5.length = p.cap ∧ k.lb.length = k.rb.length ∧
    l4.take k.rb.length = k.lb ∧ l5.take k.rb.length = k.rb

theorem guard_eq (p : P) (s : St) (k : K) (h : R p s k) :
    generate_ordered_map_to_inner_left_unique_partial.guard_L1 s = partialGuard .innerLU p k := by
  obtain ⟨l4, l5, rfl, h4l, _⟩ := h
  simp only [generate_ordered_map_to_inner_left_unique_partial.guard_L1, pyLen, h4l, partialGuard]
  rw [Bool.eq_iff_iff]
  simp only [Bool.and_eq_true, decide_eq_true_eq]
  have hr : k.r = k.rb.length := rfl
  omega

theorem body_sim (p : P) (s : St) (k k' : K) (h : R p s k) (hb : partialBody .innerLU p k = .ok k') :
    ∃ s', generate_ordered_map_to_inner_left_unique_partial.body_L1 s = .ok s' ∧ R p s' k' := by
  obtain ⟨l4, l5, rfl, h4l, h5l, hll, ht4, ht5⟩ := h
  simp only [partialBody, uniqueBody, bind, Except.bind, pure, Except.pure, Variant.isLeft] at hb
  have e_i : (k.i : Int) + 1 = ((k.i + 1 : Nat) : Int) := by omega
  have e_j : (k.j : Int) + 1 = ((k.j + 1 : Nat) : Int) := by omega
  have e_r : (k.rb.length : Int) + 1 = ((k.rb.length + 1 : Nat) : Int) := by omega
  cases ha : getE p.left k.i "left[i]" with
  | error e => rw [ha] at hb; simp at hb
  | ok a =>
    rw [ha] at hb
    simp only [] at hb
    cases hbb : getE p.right k.j "right[j]" with
    | error e => rw [hbb] at hb; simp at hb
    | ok b =>
      rw [hbb] at hb
      simp only [] at hb
      have ha' : ∀ site, getE p.left k.i site = .ok a := fun site => Gen.getE_site site ha
      have hb' : ∀ site, getE p.right k.j site = .ok b := fun site => Gen.getE_site site hbb
      by_cases hlt : a < b
      · simp only [hlt, if_true, Bool.false_eq_true, if_false, Except.ok.injEq] at hb
        subst hb
        refine ⟨mk p l4 l5 ((k.i + 1 : Nat) : Int) k.j k.rb.length, ?_, l4, l5, rfl, h4l, h5l, hll, ht4, ht5⟩
        simp only [generate_ordered_map_to_inner_left_unique_partial.body_L1, idxE_nat, ha', hb', bindE_ok, hlt,
          decide_true, if_true, e_i]
      · simp only [hlt, if_false] at hb
        by_cases hgt : a > b
        · simp only [hgt, if_true, Except.ok.injEq] at hb
          subst hb
          refine ⟨mk p l4 l5 k.i ((k.j + 1 : Nat) : Int) k.rb.length, ?_, l4, l5, rfl, h4l, h5l, hll, ht4, ht5⟩
          simp only [generate_ordered_map_to_inner_left_unique_partial.body_L1, idxE_nat, ha', hb', bindE_ok, hlt,
            decide_false, Bool.false_eq_true, if_false, hgt, decide_true, if_true, e_j]
        · simp only [hgt, if_false] at hb
          cases hp : push p.cap k ((k.i + p.iOff : Nat) : Int) ((k.j + p.jOff : Nat) : Int) "result[r]" with
          | error e => rw [hp] at hb; simp at hb
          | ok k1 =>
            rw [hp] at hb
            simp only [] at hb
            obtain ⟨hcap, hk1⟩ := push_inv hp
            subst hk1
            have e1 : (k.i : Int) + (p.iOff : Int) = ((k.i + p.iOff : Nat) : Int) := by omega
            have e2 : (k.j : Int) + (p.jOff : Int) = ((k.j + p.jOff : Nat) : Int) := by omega
            obtain ⟨q1, q2, q3, q4, q5⟩ := push_bufs ((k.i + p.iOff : Nat) : Int) ((k.j + p.jOff : Nat) : Int) h4l h5l hll ht4 ht5 hcap
            by_cases hend : k.j + 1 ≥ p.jMax
            · have hend' : decide (((k.j + 1 : Nat) : Int) ≥ (p.jMax : Int)) = true := by simp; omega
              simp only [hend, if_true, Except.ok.injEq] at hb
              subst hb
              refine ⟨mk p (l4.set k.rb.length ((k.i + p.iOff : Nat) : Int)) (l5.set k.rb.length ((k.j + p.jOff : Nat) : Int))
                ((k.i + 1 : Nat) : Int) ((k.j + 1 : Nat) : Int) ((k.rb.length + 1 : Nat) : Int), ?_, _, _, ?_, q1, q2, q3, q4, q5⟩
              · simp only [generate_ordered_map_to_inner_left_unique_partial.body_L1, idxE_nat, ha', hb', bindE_ok, hlt,
                  decide_false, Bool.false_eq_true, if_false, hgt, e1, e2, setIdxE_nat, setE,
                  show k.rb.length < l4.length by omega, show k.rb.length < l5.length by omega, if_true, e_i, e_j, e_r, hend']
              · simp
            · have hend' : decide (((k.j + 1 : Nat) : Int) ≥ (p.jMax : Int)) = false := by simp; omega
              simp only [hend, if_false] at hb
              cases hb1 : getE p.right (k.j + 1) "right[j+1]" with
              | error e => rw [hb1] at hb; simp at hb
              | ok b1 =>
                rw [hb1] at hb
                simp only [] at hb
                have hb1' : ∀ site, getE p.right (k.j + 1) site = .ok b1 := fun site => Gen.getE_site site hb1
                by_cases hne : b1 = b
                · have hne' : (b1 != b) = false := by simp [hne]
                  simp only [hne', Bool.false_eq_true, if_false, Except.ok.injEq] at hb
                  subst hb
                  refine ⟨mk p (l4.set k.rb.length ((k.i + p.iOff : Nat) : Int)) (l5.set k.rb.length ((k.j + p.jOff : Nat) : Int))
                    k.i ((k.j + 1 : Nat) : Int) ((k.rb.length + 1 : Nat) : Int), ?_, _, _, ?_, q1, q2, q3, q4, q5⟩
                  · simp only [generate_ordered_map_to_inner_left_unique_partial.body_L1, idxE_nat, ha', hb', bindE_ok, hlt,
                      decide_false, Bool.false_eq_true, if_false, hgt, e1, e2, setIdxE_nat, setE,
                      show k.rb.length < l4.length by omega, show k.rb.length < l5.length by omega, if_true, e_j, e_r, hend',
                      hb1', hne']
                  · simp
                · have hne' : (b1 != b) = true := by simp [hne]
                  simp only [hne', if_true, Except.ok.injEq] at hb
                  subst hb
                  refine ⟨mk p (l4.set k.rb.length ((k.i + p.iOff : Nat) : Int)) (l5.set k.rb.length ((k.j + p.jOff : Nat) : Int))
                    ((k.i + 1 : Nat) : Int) ((k.j + 1 : Nat) : Int) ((k.rb.length + 1 : Nat) : Int), ?_, _, _, ?_, q1, q2, q3, q4, q5⟩
                  · simp only [generate_ordered_map_to_inner_left_unique_partial.body_L1, idxE_nat, ha', hb', bindE_ok, hlt,
                      decide_false, Bool.false_eq_true, if_false, hgt, e1, e2, setIdxE_nat, setE,
                      show k.rb.length < l4.length by omega, show k.rb.length < l5.length by omega, if_true, e_i, e_j, e_r, hend',
                      hb1', hne']
                  · simp

end ILU

/-- every `.ok` run of the model's inner left-unique `_partial` kernel is a run of the translated kernel (same fuel) on buffers
    whose written prefixes are the model's lists -/
theorem inner_left_unique_partial_ok (p : P) (k k' : K) (lbuf rbuf : List Int)
    (hl : lbuf.length = p.cap) (hr : rbuf.length = p.cap) (hlen : k.lb.length = k.rb.length)
    (h1 : lbuf.take k.rb.length = k.lb) (h2 : rbuf.take k.rb.length = k.rb)
    (h : runPartial .innerLU p k = .ok k') :
    ∃ lbuf' rbuf', generate_ordered_map_to_inner_left_unique_partial.run p.left p.iMax p.right p.jMax lbuf rbuf p.iOff p.jOff
        k.i k.j k.rb.length (partialFuel p) = .ok ((k'.i : Int), (k'.j : Int), (k'.rb.length : Int), lbuf', rbuf') ∧
      lbuf'.length = p.cap ∧ rbuf'.length = p.cap ∧ lbuf'.take k'.rb.length = k'.lb ∧ rbuf'.take k'.rb.length = k'.rb := by
  unfold runPartial at h
  obtain ⟨s', hw, hR⟩ := whileE_sim (ILU.R p) generate_ordered_map_to_inner_left_unique_partial.guard_L1
    generate_ordered_map_to_inner_left_unique_partial.body_L1 (partialGuard .innerLU p) (partialBody .innerLU p)
    (ILU.guard_eq p) (fun s t t' hR _ hb => ILU.body_sim p s t t' hR hb) (partialFuel p)
    (ILU.mk p lbuf rbuf k.i k.j k.rb.length) k k' ⟨lbuf, rbuf, rfl, hl, hr, hlen, h1, h2⟩ h
  obtain ⟨l4, l5, rfl, h4l, h5l, _, ht4, ht5⟩ := hR
  refine ⟨l4, l5, ?_, h4l, h5l, ht4, ht5⟩
  unfold generate_ordered_map_to_inner_left_unique_partial.run
  have hw' : whileE generate_ordered_map_to_inner_left_unique_partial.guard_L1
      generate_ordered_map_to_inner_left_unique_partial.body_L1 (partialFuel p)
      (ILU.mk p lbuf rbuf k.i k.j k.rb.length) = .ok (ILU.mk p l4 l5 k'.i k'.j k'.rb.length) := hw
  simp only [ILU.mk] at hw'
  simp only [hw', bindE_ok]

/-! ### generate_ordered_map_to_inner_right_unique_partial -/

namespace IRU

abbrev St := generate_ordered_map_to_inner_right_unique_partial.St

abbrev mk (p : P) (l4 l5 : List Int) (i j r : Int) : St :=
  ⟨p.left, (p.iMax : Int), p.right, (p.jMax : Int), l4, l5, (p.iOff : Int), (p.jOff : Int), i, j, r⟩

def R (p : P) (s : St) (k : K) : Prop :=
  ∃ l4 l5, s = mk p l4 l5 k.i k.j k.rb.length ∧ l4.length = p.cap ∧ l5.length = p.cap ∧ k.lb.length = k.rb.length ∧
    l4.take k.rb.length = k.lb ∧ l5.take k.rb.length = k.rb

theorem guard_eq (p : P) (s : St) (k : K) (h : R p s k) :
    generate_ordered_map_to_inner_right_unique_partial.guard_L1 s = partialGuard .innerRU p k := by
  obtain ⟨l4, l5, rfl, h4l, _⟩ := h
  simp only [generate_ordered_map_to_inner_right_unique_partial.guard_L1, pyLen, h4l, partialGuard]
  rw [Bool.eq_iff_iff]
  simp only [Bool.and_eq_true, decide_eq_true_eq]
  have hr : k.r = k.rb.length := rfl
  omega

theorem body_sim (p : P) (s : St) (k k' : K) (h : R p s k) (hb : partialBody .innerRU p k = .ok k') :
    ∃ s', generate_ordered_map_to_inner_right_unique_partial.body_L1 s = .ok s' ∧ R p s' k' := by
  obtain ⟨l4, l5, rfl, h4l, h5l, hll, ht4, ht5⟩ := h
  simp only [partialBody, uniqueBody, bind, Except.bind, pure, Except.pure, Variant.isLeft] at hb
  have e_i : (k.i : Int) + 1 = ((k.i + 1 : Nat) : Int) := by omega
  have e_j : (k.j : Int) + 1 = ((k.j + 1 : Nat) : Int) := by omega
  have e_r : (k.rb.length : Int) + 1 = ((k.rb.length + 1 : Nat) : Int) := by omega
  cases ha : getE p.left k.i "left[i]" with
  | error e => rw [ha] at hb; simp at hb
  | ok a =>
    rw [ha] at hb
    simp only [] at hb
    cases hbb : getE p.right k.j "right[j]" with
    | error e => rw [hbb] at hb; simp at hb
    | ok b =>
      rw [hbb] at hb
      simp only [] at hb
      have ha' : ∀ site, getE p.left k.i site = .ok a := fun site => Gen.getE_site site ha
      have hb' : ∀ site, getE p.right k.j site = .ok b := fun site => Gen.getE_site site hbb
      by_cases hlt : a < b
      · simp only [hlt, if_true, Bool.false_eq_true, if_false, Except.ok.injEq] at hb
        subst hb
        refine ⟨mk p l4 l5 ((k.i + 1 : Nat) : Int) k.j k.rb.length, ?_, l4, l5, rfl, h4l, h5l, hll, ht4, ht5⟩
        simp only [generate_ordered_map_to_inner_right_unique_partial.body_L1, idxE_nat, ha', hb', bindE_ok, hlt,
          decide_true, if_true, e_i]
      · simp only [hlt, if_false] at hb
        by_cases hgt : a > b
        · simp only [hgt, if_true, Except.ok.injEq] at hb
          subst hb
          refine ⟨mk p l4 l5 k.i ((k.j + 1 : Nat) : Int) k.rb.length, ?_, l4, l5, rfl, h4l, h5l, hll, ht4, ht5⟩
          simp only [generate_ordered_map_to_inner_right_unique_partial.body_L1, idxE_nat, ha', hb', bindE_ok, hlt,
            decide_false, Bool.false_eq_true, if_false, hgt, decide_true, if_true, e_j]
        · simp only [hgt, if_false] at hb
          cases hp : push p.cap k ((k.i + p.iOff : Nat) : Int) ((k.j + p.jOff : Nat) : Int) "result[r]" with
          | error e => rw [hp] at hb; simp at hb
          | ok k1 =>
            rw [hp] at hb
            simp only [] at hb
            obtain ⟨hcap, hk1⟩ := push_inv hp
            subst hk1
            have e1 : (k.i : Int) + (p.iOff : Int) = ((k.i + p.iOff : Nat) : Int) := by omega
            have e2 : (k.j : Int) + (p.jOff : Int) = ((k.j + p.jOff : Nat) : Int) := by omega
            obtain ⟨q1, q2, q3, q4, q5⟩ := push_bufs ((k.i + p.iOff : Nat) : Int) ((k.j + p.jOff : Nat) : Int) h4l h5l hll ht4 ht5 hcap
            by_cases hend : k.i + 1 ≥ p.iMax
            · have hend' : decide (((k.i + 1 : Nat) : Int) ≥ (p.iMax : Int)) = true := by simp; omega
              simp only [hend, if_true, Except.ok.injEq] at hb
              subst hb
              refine ⟨mk p (l4.set k.rb.length ((k.i + p.iOff : Nat) : Int)) (l5.set k.rb.length ((k.j + p.jOff : Nat) : Int))
                ((k.i + 1 : Nat) : Int) ((k.j + 1 : Nat) : Int) ((k.rb.length + 1 : Nat) : Int), ?_, _, _, ?_, q1, q2, q3, q4, q5⟩
              · simp only [generate_ordered_map_to_inner_right_unique_partial.body_L1, idxE_nat, ha', hb', bindE_ok, hlt,
                  decide_false, Bool.false_eq_true, if_false, hgt, e1, e2, setIdxE_nat, setE,
                  show k.rb.length < l4.length by omega, show k.rb.length < l5.length by omega, if_true, e_i, e_j, e_r, hend']
              · simp
            · have hend' : decide (((k.i + 1 : Nat) : Int) ≥ (p.iMax : Int)) = false := by simp; omega
              simp only [hend, if_false] at hb
              cases ha1 : getE p.left (k.i + 1) "left[i+1]" with
              | error e => rw [ha1] at hb; simp at hb
              | ok a1 =>
                rw [ha1] at hb
                simp only [] at hb
                have ha1' : ∀ site, getE p.left (k.i + 1) site = .ok a1 := fun site => Gen.getE_site site ha1
                by_cases hne : a1 = a
                · have hne' : (a1 != a) = false := by simp [hne]
                  simp only [hne', Bool.false_eq_true, if_false, Except.ok.injEq] at hb
                  subst hb
                  refine ⟨mk p (l4.set k.rb.length ((k.i + p.iOff : Nat) : Int)) (l5.set k.rb.length ((k.j + p.jOff : Nat) : Int))
                    ((k.i + 1 : Nat) : Int) k.j ((k.rb.length + 1 : Nat) : Int), ?_, _, _, ?_, q1, q2, q3, q4, q5⟩
                  · simp only [generate_ordered_map_to_inner_right_unique_partial.body_L1, idxE_nat, ha', hb', bindE_ok, hlt,
                      decide_false, Bool.false_eq_true, if_false, hgt, e1, e2, setIdxE_nat, setE,
                      show k.rb.length < l4.length by omega, show k.rb.length < l5.length by omega, if_true, e_i, e_r, hend',
                      ha1', hne']
                  · simp
                · have hne' : (a1 != a) = true := by simp [hne]
                  simp only [hne', if_true, Except.ok.injEq] at hb
                  subst hb
                  refine ⟨mk p (l4.set k.rb.length ((k.i + p.iOff : Nat) : Int)) (l5.set k.rb.length ((k.j + p.jOff : Nat) : Int))
                    ((k.i + 1 : Nat) : Int) ((k.j + 1 : Nat) : Int) ((k.rb.length + 1 : Nat) : Int), ?_, _, _, ?_, q1, q2, q3, q4, q5⟩
                  · simp only [generate_ordered_map_to_inner_right_unique_partial.body_L1, idxE_nat, ha', hb', bindE_ok, hlt,
                      decide_false, Bool.false_eq_true, if_false, hgt, e1, e2, setIdxE_nat, setE,
                      show k.rb.length < l4.length by omega, show k.rb.length < l5.length by omega, if_true, e_i, e_j, e_r, hend',
                      ha1', hne']
                  · simp

end IRU

/-- every `.ok` run of the model's inner right-unique `_partial` kernel is a run of the translated kernel (same fuel) on buffers
    whose written prefixes are the model's lists -/
theorem inner_right_unique_partial_ok (p : P) (k k' : K) (lbuf rbuf : List Int)
    (hl : lbuf.length = p.cap) (hr : rbuf.length = p.cap) (hlen : k.lb.length = k.rb.length)
    (h1 : lbuf.take k.rb.length = k.lb) (h2 : rbuf.take k.rb.length = k.rb)
    (h : runPartial .innerRU p k = .ok k') :
    ∃ lbuf' rbuf', generate_ordered_map_to_inner_right_unique_partial.run p.left p.iMax p.right p.jMax lbuf rbuf p.iOff p.jOff
        k.i k.j k.rb.length (partialFuel p) = .ok ((k'.i : Int), (k'.j : Int), (k'.rb.length : Int), lbuf', rbuf') ∧
      lbuf'.length = p.cap ∧ rbuf'.length = p.cap ∧ lbuf'.take k'.rb.length = k'.lb ∧ rbuf'.take k'.rb.length = k'.rb := by
  unfold runPartial at h
  obtain ⟨s', hw, hR⟩ := whileE_sim (IRU.R p) generate_ordered_map_to_inner_right_unique_partial.guard_L1
    generate_ordered_map_to_inner_right_unique_partial.body_L1 (partialGuard .innerRU p) (partialBody .innerRU p)
    (IRU.guard_eq p) (fun s t t' hR _ hb => IRU.body_sim p s t t' hR hb) (partialFuel p)
    (IRU.mk p lbuf rbuf k.i k.j k.rb.length) k k' ⟨lbuf, rbuf, rfl, hl, hr, hlen, h1, h2⟩ h
  obtain ⟨l4, l5, rfl, h4l, h5l, _, ht4, ht5⟩ := hR
  refine ⟨l4, l5, ?_, h4l, h5l, ht4, ht5⟩
  unfold generate_ordered_map_to_inner_right_unique_partial.run
  have hw' : whileE generate_ordered_map_to_inner_right_unique_partial.guard_L1
      generate_ordered_map_to_inner_right_unique_partial.body_L1 (partialFuel p)
      (IRU.mk p lbuf rbuf k.i k.j k.rb.length) = .ok (IRU.mk p l4 l5 k'.i k'.j k'.rb.length) := hw
  simp only [IRU.mk] at hw'
  simp only [hw', bindE_ok]

end Exetera.GenK
