import Driver.Util
import Exetera.Model.Dates
open Lean Exetera Exetera.Dates
namespace Driver.C20

def bools (xs : List Bool) : Json := Driver.ints (xs.map (fun b => if b then 1 else 0))

def handle : Driver.Handler := fun op j =>
  match op with
  | "dates_periods" => some do
    let s ← Driver.get? Int j "start"
    let e ← Driver.get? Int j "end"
    let p ← Driver.get? String j "period"
    let d ← Driver.get? Int j "delta"
    pure <| Driver.outE Driver.ints (getPeriods s e p d)
  | "dates_days" => some do
    let ts ← Driver.get? (List Int) j "ts"
    let f ← Driver.get? (Option (List Int)) j "filter"
    let s ← Driver.get? (Option Int) j "start"
    let e ← Driver.get? (Option Int) j "end"
    pure <| Driver.outE (fun (o : DaysOut) =>
      Json.mkObj [("days", Driver.ints o.days), ("in_range", match o.inRange with | none => Json.null | some fl => bools fl)])
      (getDays ts f s e)
  | "dates_map" => some do
    let ps ← Driver.get? (List Int) j "periods"
    pure <| Driver.outE Driver.ints (offsetMap ps)
  | "dates_offsets" => some do
    let m ← Driver.get? (List Int) j "map"
    let ds ← Driver.get? (List Int) j "days"
    let f ← Driver.get? (Option (List Int)) j "in_range"
    pure <| Driver.outE Driver.ints (getPeriodOffsets m ds f)
  | "dates_pipeline" => some do
    let ts ← Driver.get? (List Int) j "ts"
    let f ← Driver.get? (Option (List Int)) j "filter"
    let s ← Driver.get? Int j "start"
    let e ← Driver.get? Int j "end"
    let p ← Driver.get? String j "period"
    let d ← Driver.get? Int j "delta"
    pure <| Driver.outE Driver.ints (pipeline ts f s e p d)
  | _ => none

end Driver.C20
