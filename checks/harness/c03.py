"""C03 — streaming join maps equal the relational join for every chunk size.
Correspondence: ops.generate_ordered_map_to_*_streamed on memory fields  vs  Exetera.Join.streamed (Lean)
Oracle for the property itself: the Python rendering of Spec.leftJoin / Spec.innerJoin below."""
import itertools

PROPERTY = "C03"
LEVEL = "proof"
LEAN_MODULES = ["Exetera.Props.C03"]
THEOREMS = []  # filled from checks/obligations.json
EXHAUSTIVE = {"quick": True, "thorough": True}
RULE = ("exhaustive: all pairs of non-decreasing key sequences over a k-letter alphabet with length <= n (quick k=3,n=4; "
        "thorough k=4,n=5) x chunk sizes 1..n+2 x the variants whose uniqueness assumption the pair satisfies, alternating "
        "rdtype int32/int64 and key dtype int64/S2; plus seeded random sorted columns with planted runs around chunk "
        "boundaries. Non-trivial = the pair has at least one equal key AND at least one unmatched left row or a chunk "
        "boundary inside the data (cs < max length); distinct = distinct (variant, cs, left, right).")
ASSUMPTIONS = ["numpy/numba compare int64 and fixed-length byte-string keys as the total order the model uses on Int",
               "MemoryFieldArray.write_part/complete append (C01)",
               "hand-written Lean model validated by this differential run, not verified against the Python text"]
TRUSTED = ["Lean 4.33 kernel", "axioms: propext, Classical.choice, Quot.sound only (audited per theorem)",
           "checks/harness/c03.py generators and comparison", "Lean model Exetera/Model/Join.lean mirrors operations.py by hand"]
EXPLANATION = ""

VARIANTS = {
    # name: (function, has l_result, takes invalid, needs left unique, needs right unique, is left join)
    "left": ("generate_ordered_map_to_left_streamed", True, True, False, False, True),
    "left_lu": ("generate_ordered_map_to_left_left_unique_streamed", True, True, True, False, True),
    "left_ru": ("generate_ordered_map_to_left_right_unique_streamed", False, True, False, True, True),
    "left_bu": ("generate_ordered_map_to_left_both_unique_streamed", False, True, True, True, True),
    "inner": ("generate_ordered_map_to_inner_streamed", True, False, False, False, False),
    "inner_lu": ("generate_ordered_map_to_inner_left_unique_streamed", True, True, True, False, False),
    "inner_ru": ("generate_ordered_map_to_inner_right_unique_streamed", True, True, False, True, False),
    "inner_bu": ("generate_ordered_map_to_inner_both_unique_streamed", True, True, True, True, False),
}
INV32 = (1 << 31) - 1
INV64 = 1 << 62


def nondecreasing(k, n):
    out = []
    for ln in range(n + 1):
        out.extend(list(c) for c in itertools.combinations_with_replacement(range(k), ln))
    return out


def is_unique(xs):
    return len(set(xs)) == len(xs)


def applicable(v, left, right):
    _, _, _, lu, ru, _ = VARIANTS[v]
    return (not lu or is_unique(left)) and (not ru or is_unique(right))


def mk(v, cs, left, right, k):
    rd = "int32" if k % 2 == 0 else "int64"
    inv = INV32 if rd == "int32" else (INV64 if k % 4 == 1 else -1)
    kd = "S2" if k % 3 == 2 and max(left + right + [0]) < 100 else "int64"   # S2 keys are rendered as two digits
    return {"op": "join_streamed", "variant": v, "cs": cs, "inv": inv, "left": left, "right": right,
            "rdtype": rd, "kdtype": kd, "_n": k, "fuel": 4 * (len(left) + len(right) + len(left) * max(1, len(right))) + 16}


def gen_cases(tier, rng):
    cases = []
    from checks import corpus
    cases.extend(corpus.load("C03"))
    k, n = (3, 4) if tier == "quick" else (4, 5)
    seqs = nondecreasing(k, n)
    cnt = 0
    for left in seqs:
        for right in seqs:
            for v in VARIANTS:
                if not applicable(v, left, right):
                    continue
                css = range(1, n + 3)
                if tier == "quick" and v not in ("left", "inner"):
                    css = [1, 2, 3, n + 2]
                for cs in css:
                    cnt += 1
                    cases.append(mk(v, cs, left, right, cnt))
    # seeded random larger columns with planted runs ending at / around chunk boundaries
    nrand = 300 if tier == "quick" else 4000
    for t in range(nrand):
        cs = rng.choice([1, 2, 3, 4, 5, 7, 8, 16, 33])
        v = rng.choice(list(VARIANTS))
        _, _, _, lu, ru, _ = VARIANTS[v]
        ln, rn = rng.randrange(0, 60), rng.randrange(0, 60)
        left = rand_sorted(rng, ln, lu, cs)
        right = rand_sorted(rng, rn, ru, cs)
        cases.append(mk(v, cs, left, right, t))
    return cases


def rand_sorted(rng, n, unique, cs):
    xs, key = [], rng.randrange(0, 3)
    while len(xs) < n:
        if unique:
            run = 1
        else:
            run = rng.choice([1, 1, 1, 2, 3, cs - 1, cs, cs + 1, 2 * cs, 2 * cs + 1])
            run = max(1, run)
        xs.extend([key] * run)
        key += rng.choice([1, 1, 2, 5])
    return xs[:n] if not unique else xs[:n]


# ------------------------------------------------------------------------------------------------------------------
# implementation (runs in worker processes)
# ------------------------------------------------------------------------------------------------------------------
_S = {}


def _env():
    if not _S:
        import numpy as np
        from exetera.core import operations as ops, fields
        from exetera.core.session import Session
        _S.update(np=np, ops=ops, fields=fields, s=Session())
    return _S


def key_field(e, xs, kd):
    np, fields, s = e["np"], e["fields"], e["s"]
    if kd == "S2":
        f = fields.FixedStringMemField(s, 2)
        f.data.write(np.array([b"%02d" % x for x in xs], dtype="S2"))
    else:
        f = fields.NumericMemField(s, "int64")
        f.data.write(np.array(xs, dtype="int64"))
    return f


def impl(case):
    e = _env()
    np, ops, fields, s = e["np"], e["ops"], e["fields"], e["s"]
    fn, has_l, takes_inv, _, _, _ = VARIANTS[case["variant"]]
    rd = case.get("rdtype", "int64")
    left = key_field(e, case["left"], case.get("kdtype", "int64"))
    right = key_field(e, case["right"], case.get("kdtype", "int64"))
    lr, rr = fields.NumericMemField(s, rd), fields.NumericMemField(s, rd)
    args = [left, right] + ([lr] if has_l else []) + [rr]
    if takes_inv:
        args.append(np.dtype(rd).type(case["inv"]) if rd == "int32" or case["inv"] != -1 else np.int64(-1))
    getattr(ops, fn)(*args, chunksize=case["cs"], rdtype=np.dtype(rd).type)
    return {"l": lr.data[:].tolist() if has_l else None, "r": rr.data[:].tolist(),
            "dtype": str(rr.data[:].dtype)}


_COUNT = {"n": 0, "wrapped": False}


def impl_counted(case):
    """same as impl, with every `_partial` / `_remaining` kernel invocation counted (module attributes wrapped from outside)"""
    e = _env()
    ops = e["ops"]
    if not _COUNT["wrapped"]:
        for name in dir(ops):
            if name.startswith("generate_ordered_map_to_") and (name.endswith("_partial") or name.endswith("_remaining")):
                fn = getattr(ops, name)

                def wrap(fn):
                    def w(*a, **k):
                        _COUNT["n"] += 1
                        return fn(*a, **k)
                    return w
                setattr(ops, name, wrap(fn))
        _COUNT["wrapped"] = True
    _COUNT["n"] = 0
    out = impl(case)
    out["calls"] = _COUNT["n"]
    return out


def is_streamed(case):
    return True


def step_bound(case, io):
    out = len(io["r"]) if "r" in io else 0
    return 2 * (len(case["left"]) + len(case["right"]) + 2 * max(out, len(case["left"])) + 1)


# ------------------------------------------------------------------------------------------------------------------
# the property's oracle: relational join (Python rendering of Spec/Join.lean)
# ------------------------------------------------------------------------------------------------------------------

def left_join(l, r):
    out = []
    for i, a in enumerate(l):
        ms = [j for j, b in enumerate(r) if b == a]
        out.extend([(i, j) for j in ms] if ms else [(i, None)])
    return out


def inner_join(l, r):
    return [(i, j) for i, a in enumerate(l) for j, b in enumerate(r) if a == b]


def expected(case):
    _, has_l, _, _, _, is_left = VARIANTS[case["variant"]]
    if is_left:
        rows = left_join(case["left"], case["right"])
        rr = [case["inv"] if j is None else j for _, j in rows]
    else:
        rows = inner_join(case["left"], case["right"])
        rr = [j for _, j in rows]
    return {"l": [i for i, _ in rows] if has_l else None, "r": rr}


def check_spec(case, io, mode):
    ex = expected(case)
    if "err" in io:
        return f"raised {io['err']} ({io.get('msg', '')}) instead of returning the join map"
    if io["l"] != ex["l"] or io["r"] != ex["r"]:
        return f"map differs from relational join: got l={io['l']} r={io['r']} expected l={ex['l']} r={ex['r']}"
    if io["r"] and io.get("dtype") != case.get("rdtype", "int64"):   # an empty memory array has no dtype yet
        return f"result dtype {io.get('dtype')} != requested {case.get('rdtype')}"
    return None


def compare(case, io, mo, mode):
    if "err" in io or "err" in mo:
        a, b = io.get("err"), mo.get("err")
        return None if a == b else f"impl err={a} model err={b}"
    m = mo["ok"]
    if io["l"] != m["l"] or io["r"] != m["r"]:
        return f"impl l={io['l']} r={io['r']}  model l={m['l']} r={m['r']}"
    return None


def nontrivial(case, mo):
    l, r, cs = case["left"], case["right"], case["cs"]
    return bool(set(l) & set(r)) and (bool(set(l) - set(r)) or cs < max(len(l), len(r)))


def classify(case, mo):
    l, r, cs = case["left"], case["right"], case["cs"]
    tags = [case["variant"]]
    if not l or not r:
        tags.append("empty-side")
    if cs < max(len(l), len(r), 1):
        tags.append("multi-chunk")
    for xs in (l, r):
        if xs and max(xs.count(x) for x in set(xs)) >= cs:
            tags.append("run>=cs")
            break
    if mo and "err" in mo:
        tags.append("model-err:" + mo["err"])
    return tags


def select_for_mode(case, mode, tier):
    # interpreted / bounds-checked runs: every 7th case in quick, all in thorough small scope
    return len(case["left"]) + len(case["right"]) <= 12 and (tier != "quick" or case.get("_n", 0) % 5 == 0)


# the TRANSLATED join kernels (Gen/Kernels.lean) are executed against the real kernels on a seeded stream of direct kernel calls
from checks.harness import genkernels  # noqa: E402
genkernels.install(globals(), "C03")
