"""Extra table extractions called by tools/translate.py:  run(repo: Path, out: Path).

C06 — Gen/BoolLiterals.lean: the literal table of `numeric_bool_transform` (exetera/core/operations.py), read off the
`if actual_length == k:` chain and, inside each branch, the `val in (...)` / `val[j] in (...) and ...` tests with the
`value = c` they guard, in source order. Also the blank byte both trimming loops compare with.
If the function no longer has that shape the extraction fails (exit status 1 = broken tie, handled by checks/run.py)."""
import ast
from pathlib import Path


def fail(msg):
    raise SystemExit("TRANSLATE-FAIL: numeric_bool_transform: " + msg)


def _const_tuple(node):
    if not isinstance(node, (ast.Tuple, ast.List)):
        fail("alternatives are not a literal tuple")
    vals = []
    for e in node.elts:
        if not (isinstance(e, ast.Constant) and isinstance(e.value, int)):
            fail("alternative is not an int literal")
        vals.append(e.value)
    return vals


def _position_test(node):
    """`val in (..)` -> (None, alts);  `val[j] in (..)` -> (j, alts)"""
    if not (isinstance(node, ast.Compare) and len(node.ops) == 1 and isinstance(node.ops[0], ast.In)):
        fail("literal test is not an `in` comparison")
    left = node.left
    alts = _const_tuple(node.comparators[0])
    if isinstance(left, ast.Name) and left.id == "val":
        return None, alts
    if isinstance(left, ast.Subscript) and isinstance(left.value, ast.Name) and left.value.id == "val" \
            and isinstance(left.slice, ast.Constant) and isinstance(left.slice.value, int):
        return left.slice.value, alts
    fail("literal test is not about `val` / `val[j]`")


def _assigned_const(body, name):
    if len(body) != 1 or not isinstance(body[0], ast.Assign) or len(body[0].targets) != 1:
        return None
    t = body[0].targets[0]
    if not (isinstance(t, ast.Name) and t.id == name and isinstance(body[0].value, ast.Constant)):
        return None
    return body[0].value.value


def _rows_of_branch(k, stmt):
    """the inner `if <test>: value = c  elif ...  else: valid_input = False` chain of the branch for actual_length == k"""
    rows = []
    node = stmt
    while True:
        if not isinstance(node, ast.If):
            fail(f"length {k}: expected an if/elif chain")
        tests = node.test.values if isinstance(node.test, ast.BoolOp) and isinstance(node.test.op, ast.And) else [node.test]
        pos = [_position_test(t) for t in tests]
        if k == 1 and len(pos) == 1 and pos[0][0] is None:
            alts = [pos[0][1]]
        else:
            if [p for p, _ in pos] != list(range(k)):
                fail(f"length {k}: tests do not cover positions 0..{k - 1} in order")
            alts = [a for _, a in pos]
        v = _assigned_const(node.body, "value")
        if v not in (0, 1):
            fail(f"length {k}: branch does not assign value = 0/1")
        rows.append((k, alts, v))
        if len(node.orelse) == 1 and isinstance(node.orelse[0], ast.If):
            node = node.orelse[0]
            continue
        if _assigned_const(node.orelse, "valid_input") is not False:
            fail(f"length {k}: final else is not `valid_input = False`")
        return rows


def extract_bool_literals(repo):
    tree = ast.parse((repo / "exetera/core/operations.py").read_text())
    fn = next((n for n in tree.body if isinstance(n, ast.FunctionDef) and n.name == "numeric_bool_transform"), None)
    if fn is None:
        fail("function not found")
    # the chain `if actual_length == 1: ... elif actual_length == 2: ... else: valid_input = False`
    chain = None
    for n in ast.walk(fn):
        if isinstance(n, ast.If) and isinstance(n.test, ast.Compare) and isinstance(n.test.left, ast.Name) \
                and n.test.left.id == "actual_length" and isinstance(n.test.ops[0], ast.Eq) \
                and isinstance(n.test.comparators[0], ast.Constant) and n.test.comparators[0].value == 1:
            chain = n
            break
    if chain is None:
        fail("`if actual_length == 1` chain not found")
    rows, seen = [], []
    node = chain
    while True:
        t = node.test
        if not (isinstance(t, ast.Compare) and isinstance(t.left, ast.Name) and t.left.id == "actual_length"
                and len(t.ops) == 1 and isinstance(t.ops[0], ast.Eq) and isinstance(t.comparators[0], ast.Constant)):
            fail("length dispatch is not `actual_length == k`")
        k = t.comparators[0].value
        if k in seen:
            fail(f"length {k} dispatched twice")
        seen.append(k)
        if len(node.body) != 1:
            fail(f"length {k}: branch has more than one statement")
        rows.extend(_rows_of_branch(k, node.body[0]))
        if len(node.orelse) == 1 and isinstance(node.orelse[0], ast.If):
            node = node.orelse[0]
            continue
        if _assigned_const(node.orelse, "valid_input") is not False:
            fail("final else of the length dispatch is not `valid_input = False`")
        break
    # blank byte of the two trimming loops
    blanks = []
    for n in ast.walk(fn):
        if isinstance(n, ast.While):
            for c in ast.walk(n.test):
                if isinstance(c, ast.Compare) and isinstance(c.ops[0], ast.Eq) and isinstance(c.comparators[0], ast.Constant) \
                        and isinstance(c.left, ast.Subscript):
                    blanks.append(c.comparators[0].value)
    if len(blanks) != 2 or blanks[0] != blanks[1]:
        fail(f"trimming loops not recognised (blank bytes {blanks})")
    # the two validation-mode strings the kernel tests
    modes = []
    for n in ast.walk(fn):
        if isinstance(n, ast.Compare) and isinstance(n.left, ast.Name) and n.left.id == "validation_mode" \
                and isinstance(n.comparators[0], ast.Constant):
            modes.append(n.comparators[0].value)
    if modes != ["strict", "allow_empty"]:
        fail(f"validation mode tests changed: {modes}")
    return rows, blanks[0]


def run(repo: Path, out: Path):
    rows, blank = extract_bool_literals(Path(repo))
    L = ["-- generated by tools/translate_extra.py from numeric_bool_transform in exetera/core/operations.py; do not edit",
         "namespace Exetera.Gen", "",
         "/-- rows of the literal tests in source order: (actual_length, for each byte position the accepted byte values, value) -/",
         "def boolLiterals : List (Nat × List (List Nat) × Int) := ["]
    L.append(",\n".join(f"  ({k}, {alts}, {v})" for k, alts, v in rows))
    L += ["]", "", "/-- the byte both trimming loops skip -/", f"def boolBlank : Nat := {blank}", "", "end Exetera.Gen", ""]
    (Path(out) / "BoolLiterals.lean").write_text("\n".join(L))
    print(f"translated: {len(rows)} bool literal rows")
