import Exetera.Lemmas.CsvFullRow
/-! The index buffer fills (C05, regrowth): the record that completes row `maxrow` of the staging buffers ends the call with
    `is_column_inds_full`; all `maxrow` records are reported and the call resumes right behind the last one. -/
namespace Exetera.Csv
open Exetera Spec

/-- the loop has stopped because `maxrow` records are staged: the resume position is the end of the last one -/
structure IndsEnd (offs : List Nat) (maxrow ncols : Nat) (s' : KS) (np : Nat) (E : Nat → List Bytes) : Prop where
  done : s'.done = true
  np : s'.nextPos = np
  hdr : s'.hdr = false
  row : s'.row = maxrow
  indsFull : s'.indsFull = true
  valsFull : s'.valsFull = false
  vfc : s'.vfc = none
  shape : Shape ncols maxrow offs s'.inds s'.vals
  cols : ∀ c, c < ncols → ColOK offs s'.inds s'.vals c (E c)

/-- the last cell of the record that fills the index buffer -/
theorem cell_nl_full {src : Bytes} {offs : List Nat} {maxrow ncols : Nat} (c : Cell) (hwf : c.WF) (A B : Bytes) (s : KS)
    (j : Nat) (k np : Nat) (E : Nat → List Bytes)
    (hcs : CellStart src offs maxrow ncols s A j false k np E)
    (hsrc : src = A ++ (body c ++ NL :: B)) (hj : j + 1 = ncols)
    (hcap : offAt offs j + (E j).flatten.length + c.value.length < offAt offs (j + 1))
    (hrows : k + 1 = maxrow) :
    ∃ n s', KSteps src offs maxrow n s s' ∧
      IndsEnd offs maxrow ncols s' (A.length + (body c).length + 1) (stage false E j c.value) := by
  have hd0 : s.done = false := by
    rw [hcs.done, hcs.index, hsrc]; simp
  obtain ⟨n, s1, hsteps, hi1, he1, hc1, hctx1, hd1, heff⟩ :=
    cell_content (offs := offs) (maxrow := maxrow) c hwf A B NL s hsrc (Or.inr rfl) hcs.index hcs.ics hd0
      hcs.indsFull hcs.valsFull hcs.esc hcs.cand (cell_room hcs _ (fun _ => hcap))
  obtain ⟨hnp1, hcol1, hh1, hrow1, hvfc1, hcst1, hics1, hif1, hvf1, hco1, hcc1, hinds1⟩ := ctx_eq hctx1
  have hsh := hcs.shape
  have hsrc' : src = (A ++ body c) ++ (NL :: B) := by simp [hsrc]
  have hi1' : s1.index = (A ++ body c).length := by simp [hi1]
  have hcb : src[s1.index]? = some NL := by rw [hsrc', hi1', getElem?_append_len0]; simp
  have hnc : 0 < ncols := by have := hcs.jlt; omega
  have ho := offs_get hsh.offsLen (c := 0) (by omega)
  have ho1 := offs_get hsh.offsLen (c := 1) (by omega)
  obtain ⟨⟨rj, hrj, _⟩, _⟩ := hcs.cols j hcs.jlt
  obtain ⟨⟨r0, hr0, hr0k⟩, _⟩ := hcs.cols 0 hnc
  have hr0len := hsh.rowLen _ _ hr0
  have hrjlen := hsh.rowLen _ _ hrj
  have hh1' : s1.hdr = false := by rw [hh1, hcs.hdr_]
  rw [hcs.hdr_] at heff
  simp only [Bool.false_eq_true, if_false] at heff
  obtain ⟨hcnt1, hw⟩ := heff
  obtain ⟨hlens1, hlens2⟩ := hcs.lens rfl
  have hEj : (E j).length = k := hlens2 j (Nat.le_refl _) hcs.jlt
  have hp : s.colOff + s.cstart + s.count = offAt offs j + (E j).flatten.length := by
    rw [hcs.colOff, hcs.cstart rfl, hcs.count]; omega
  rw [hp] at hw
  have hval : s1.cstart + s1.count = (E j).flatten.length + c.value.length := by
    rw [hcst1, hcs.cstart rfl, hcnt1, hcs.count]; omega
  have hx : (s.inds.set j (rj.set (k + 1) ((E j).flatten.length + c.value.length)))[0]? = some
      (if j = 0 then rj.set (k + 1) ((E j).flatten.length + c.value.length) else r0) := by
    by_cases hj0 : j = 0
    · subst hj0
      rw [List.getElem?_set_self (lt_len_of_get hrj)]; simp
    · rw [List.getElem?_set_ne hj0, hr0]; simp [hj0]
  have hcsv : (if j = 0 then rj.set (k + 1) ((E j).flatten.length + c.value.length) else r0)[k + 1]? =
      some (upd E j c.value 0).flatten.length := by
    by_cases hj0 : j = 0
    · subst hj0
      simp only [if_true]
      rw [List.getElem?_set_self (by omega), upd_flat_self]
    · simp only [hj0, if_false]
      have h0 : (E 0).length = k + 1 := hlens1 0 (by omega)
      have := hr0k (k + 1) (by omega)
      rw [this, ← h0, endOf_all, upd_ne _ _ (Ne.symm hj0)]
  obtain ⟨s2, hstep, hi2, hics2, he2, hc2, hd2, hnp2, hcol2, hh2, hrow2, hcst2, hcnt2, hif2, hco2, hcc2, hinds2, hctx2⟩ :=
    step_nl (offs := offs) (maxrow := maxrow)
      (inds' := s.inds.set j (rj.set (k + 1) ((E j).flatten.length + c.value.length)))
      (o := offAt offs 0) (o1 := offAt offs 1) (cs := (upd E j c.value 0).flatten.length)
      hcb (by rw [he1, hc1]; exact lex_nl _ _ _) (by rw [hif1, hcs.indsFull]) (by rw [hvf1, hcs.valsFull])
      (by
        rw [hh1', hinds1, hcol1, hcs.col, hrow1, hcs.row, hval]
        simp only [Bool.false_eq_true, if_false]
        exact set2_eq _ _ hrj (by omega))
      ho ho1
      (by
        rw [hh1', hrow1, hcs.row]
        simp only [Bool.false_eq_true, if_false]
        exact get2_eq _ hx hcsv)
  have hctx2' : s2.vfc = s1.vfc ∧ s2.valsFull = s1.valsFull ∧ s2.vals = s1.vals := by
    simpa [KS.ctx2, Prod.ext_iff] using hctx2
  have hfull : ((if s1.hdr = true then 0 else s1.row + 1) == maxrow) = true := by
    rw [hh1', hrow1, hcs.row]; simp; omega
  refine ⟨n + 1, s2, StepsN.trans hsteps (StepsN.one (g := kguard) (by simp [kguard, hd1]) hstep), ?_⟩
  have hE : stage false E j c.value = upd E j c.value := rfl
  rw [hE]
  exact {
    done := by rw [hd2, hfull]; simp
    np := by rw [hnp2, hi1]
    hdr := hh2
    row := by rw [hrow2, hh1', hrow1, hcs.row]; simpa using hrows
    indsFull := by rw [hif2, hfull]
    valsFull := by rw [hctx2'.2.1, hvf1, hcs.valsFull]
    vfc := by rw [hctx2'.1, hvfc1, hcs.vfc]
    shape := by rw [hinds2, hctx2'.2.2]; exact shape_set hsh hrj hw.len
    cols := by
      intro c' hc'
      rw [hinds2, hctx2'.2.2]
      by_cases hcj : c' = j
      · subst hcj
        have := (hcs.cols c' hc').snoc hrj (by rw [hEj]; omega) hw
        rw [hEj] at this
        simpa [upd] using this
      · have h0 := hcs.cols c' hc'
        have hdis : offAt offs c' + (E c').flatten.length ≤ offAt offs j + (E j).flatten.length ∨
            offAt offs j + (E j).flatten.length + c.value.length ≤ offAt offs c' := by
          left
          have := hcs.caps c' hc'
          have := hsh.mono_le j (c' + 1) (by omega) (by omega)
          omega
        have := (h0.of_wrote hw hdis).of_set_other (rj.set (k + 1) ((E j).flatten.length + c.value.length))
          (Ne.symm hcj)
        simpa [upd, hcj] using this }

/-- the record that fills the index buffer: from the start of its first cell to the end of the call -/
theorem row_cells_last {src : Bytes} {offs : List Nat} {maxrow ncols : Nat} (cs : List Cell) :
    ∀ (A0 X : Bytes) (s : KS) (j : Nat) (k np : Nat) (E : Nat → List Bytes),
      cs ≠ [] → (∀ c ∈ cs, c.WF) → j + cs.length = ncols →
      src = A0 ++ (renderCells cs ++ X) →
      CellStart src offs maxrow ncols s (A0 ++ (renderCells cs ++ X).takeWhile isWs) j false k np E →
      RowCap offs false E j cs → k + 1 = maxrow →
      ∃ n s', KSteps src offs maxrow n s s' ∧
        IndsEnd offs maxrow ncols s' (A0 ++ renderCells cs).length (stageRow false E j cs) := by
  induction cs with
  | nil => intro _ _ _ _ _ _ _ h; exact absurd rfl h
  | cons c cs ih =>
    intro A0 X s j k np E _ hwf hlen hsrc hcs hcap hrows
    have hwfc := hwf c (by simp)
    cases cs with
    | nil =>
      have hrc : renderCells [c] ++ X = renderCell c ++ NL :: X := by simp [renderCells]
      rw [hrc] at hsrc hcs
      have hsrc' : src = (A0 ++ (renderCell c ++ NL :: X).takeWhile isWs) ++ (body c ++ NL :: X) := by
        rw [List.append_assoc, ← lead_drop c NL X (Or.inr rfl), List.takeWhile_append_dropWhile]; exact hsrc
      obtain ⟨n, s', hsteps, hend⟩ :=
        cell_nl_full (offs := offs) (maxrow := maxrow) c hwfc _ X s j k np E hcs hsrc' (by simpa using hlen) (hcap.1 rfl)
          hrows
      refine ⟨n, s', hsteps, ?_⟩
      have hL : (A0 ++ (renderCell c ++ NL :: X).takeWhile isWs).length + (body c).length + 1 =
          (A0 ++ renderCells [c]).length := by
        have := congrArg List.length (lead_split c NL X (Or.inr rfl))
        simp only [renderCells, List.length_append, List.length_cons, List.length_nil] at this ⊢
        omega
      rw [hL] at hend
      exact hend
    | cons d ds =>
      have hrc : renderCells (c :: d :: ds) ++ X = renderCell c ++ SEP :: (renderCells (d :: ds) ++ X) := by
        simp [renderCells]
      rw [hrc] at hsrc hcs
      have hsrc' : src = (A0 ++ (renderCell c ++ SEP :: (renderCells (d :: ds) ++ X)).takeWhile isWs) ++
          (body c ++ SEP :: (renderCells (d :: ds) ++ X)) := by
        rw [List.append_assoc, ← lead_drop c SEP _ (Or.inl rfl), List.takeWhile_append_dropWhile]; exact hsrc
      obtain ⟨n1, s1, hsteps1, hcs1⟩ :=
        cell_sep (offs := offs) (maxrow := maxrow) c hwfc _ (renderCells (d :: ds) ++ X) s j false k np E hcs hsrc'
          (by simp at hlen; omega) hcap.1
      have hA : A0 ++ (renderCell c ++ SEP :: (renderCells (d :: ds) ++ X)).takeWhile isWs ++
          (body c ++ SEP :: (renderCells (d :: ds) ++ X).takeWhile isWs) =
          (A0 ++ (renderCell c ++ [SEP])) ++ (renderCells (d :: ds) ++ X).takeWhile isWs := by
        have := lead_split c SEP (renderCells (d :: ds) ++ X) (Or.inl rfl)
        simp only [List.append_assoc]
        rw [← List.append_assoc ((renderCell c ++ SEP :: (renderCells (d :: ds) ++ X)).takeWhile isWs), this]
        simp
      rw [hA] at hcs1
      have hsrc1 : src = (A0 ++ (renderCell c ++ [SEP])) ++ (renderCells (d :: ds) ++ X) := by
        rw [hsrc]; simp
      obtain ⟨n2, s2, hsteps2, hend⟩ :=
        ih (A0 ++ (renderCell c ++ [SEP])) X s1 (j + 1) k np (stage false E j c.value) (by simp)
          (fun x hx => hwf x (by simp [hx])) (by simp at hlen ⊢; omega) hsrc1 hcs1 hcap.2 hrows
      refine ⟨n1 + n2, s2, StepsN.trans hsteps1 hsteps2, ?_⟩
      have hB : A0 ++ (renderCell c ++ [SEP]) ++ renderCells (d :: ds) = A0 ++ renderCells (c :: d :: ds) := by
        simp [renderCells]
      rw [hB] at hend
      exact hend

end Exetera.Csv
