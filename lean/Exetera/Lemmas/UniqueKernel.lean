import Exetera.Lemmas.UniqueEncode
/-! `get_indexed_string_unique` returns the distinct values in discovery order with first-occurrence indices,
    the row → discovery-position inverse and per-value counts. -/
namespace Exetera.Unique
open Exetera

/-- the distinct values of `p` in order of first occurrence -/
def disc (p : List Bytes) : List Bytes := p.foldl (fun acc v => if v ∈ acc then acc else acc ++ [v]) []

theorem disc_snoc (p : List Bytes) (v : Bytes) :
    disc (p ++ [v]) = if v ∈ disc p then disc p else disc p ++ [v] := by
  simp only [disc, List.foldl_append, List.foldl_cons, List.foldl_nil]
  split <;> simp_all

theorem snoc_induction {α} {P : List α → Prop} (nil : P []) (snoc : ∀ p v, P p → P (p ++ [v])) : ∀ l, P l := by
  intro l
  rw [← List.reverse_reverse l]
  induction l.reverse with
  | nil => exact nil
  | cons x xs ih => rw [List.reverse_cons]; exact snoc _ _ ih

theorem mem_disc {p : List Bytes} {x : Bytes} : x ∈ disc p ↔ x ∈ p := by
  induction p using snoc_induction with
  | nil => simp [disc]
  | snoc p v ih =>
    rw [disc_snoc]
    by_cases h : v ∈ disc p
    · simp only [h, if_true, List.mem_append, List.mem_singleton, ih]
      constructor
      · exact Or.inl
      · rintro (h' | rfl)
        · exact h'
        · exact ih.mp h
    · simp [h, ih]

theorem disc_nodup (p : List Bytes) : (disc p).Nodup := by
  induction p using snoc_induction with
  | nil => simp [disc]
  | snoc p v ih =>
    rw [disc_snoc]
    by_cases h : v ∈ disc p
    · simpa [h] using ih
    · simp only [h, if_false]
      rw [List.nodup_append]
      refine ⟨ih, by simp, ?_⟩
      intro a ha b hb
      simp only [List.mem_singleton] at hb
      subst hb
      intro hab; subst hab; exact h ha

theorem scanEq_eq (v : Bytes) : ∀ (us : List Bytes) (j : Nat),
    scanEq v us j = if v ∈ us then some (j + us.idxOf v) else none := by
  intro us
  induction us with
  | nil => intro j; simp [scanEq]
  | cons u us ih =>
    intro j
    by_cases h : v = u
    · subst h; simp [scanEq]
    · have h' : (u == v) = false := by simpa using fun e => h e.symm
      simp only [scanEq, beq_iff_eq, h, if_false, ih, List.mem_cons, false_or, List.idxOf_cons, h',
        cond_false]
      split <;> simp <;> omega

/-- the state of the kernel after the rows `p` -/
def KInv (ri rv rc : Bool) (p : List Bytes) (s : UState) : Prop :=
  s.out.result = disc p ∧
  (∀ u ∈ disc p, (u.length : Int) ∈ s.lengthsSeen) ∧
  s.out.index = (if ri then some ((disc p).map (fun u => p.idxOf u)) else none) ∧
  s.out.inverse = (if rv then some (p.map (fun x => (disc p).idxOf x)) else none) ∧
  s.out.counts = (if rc then some ((disc p).map (fun u => p.count u)) else none)

theorem map_idxOf_snoc_of_mem (p : List Bytes) (v : Bytes) (us : List Bytes) (h : ∀ u ∈ us, u ∈ p) :
    us.map (fun u => (p ++ [v]).idxOf u) = us.map (fun u => p.idxOf u) := by
  apply List.map_congr_left
  intro u hu
  simp [List.idxOf_append, h u hu]

/-- a value that is already known: only `inverse` and `counts[j]` change -/
theorem kinv_seen (ri rv rc : Bool) (p : List Bytes) (v : Bytes) (s : UState) (hI : KInv ri rv rc p s)
    (hv : v ∈ disc p) :
    ∃ s', (match s.out.counts with
           | none => Except.ok { s with out := { s.out with inverse := s.out.inverse.map (· ++ [(disc p).idxOf v]) } }
           | some c =>
             match getE c ((disc p).idxOf v) "unique:unique_counts[j]" with
             | .error e => .error e
             | .ok cj => .ok { s with out := { s.out with inverse := s.out.inverse.map (· ++ [(disc p).idxOf v]),
                                                          counts := some (c.set ((disc p).idxOf v) (cj + 1)) } })
          = .ok s' ∧ KInv ri rv rc (p ++ [v]) s' := by
  obtain ⟨hres, hlen, hidx, hinv, hcnt⟩ := hI
  have hd : disc (p ++ [v]) = disc p := by simp [disc_snoc, hv]
  have hj : (disc p).idxOf v < (disc p).length := List.idxOf_lt_length_iff.mpr hv
  have hsub : ∀ u ∈ disc p, u ∈ p := fun u hu => mem_disc.mp hu
  have hinv' : s.out.inverse.map (· ++ [(disc p).idxOf v])
      = (if rv then some ((p ++ [v]).map (fun x => (disc p).idxOf x)) else none) := by
    rw [hinv]; cases rv <;> simp
  have hidx' : s.out.index = (if ri then some ((disc p).map (fun u => (p ++ [v]).idxOf u)) else none) := by
    rw [hidx, map_idxOf_snoc_of_mem p v _ hsub]
  cases rc with
  | false =>
    simp only [Bool.false_eq_true, if_false] at hcnt
    rw [hcnt]
    refine ⟨_, rfl, ?_⟩
    refine ⟨by simpa [hd] using hres, by simpa [hd] using hlen, by simpa [hd] using hidx',
      by simpa [hd] using hinv', by simp [hcnt]⟩
  | true =>
    simp only [if_true] at hcnt
    rw [hcnt]
    have hjc : (disc p).idxOf v < ((disc p).map (fun u => p.count u)).length := by simpa using hj
    simp only [getE_of_lt _ hjc]
    refine ⟨_, rfl, ?_⟩
    refine ⟨by simpa [hd] using hres, by simpa [hd] using hlen, by simpa [hd] using hidx',
      by simpa [hd] using hinv', ?_⟩
    simp only [hd, if_true, Option.some.injEq]
    apply List.ext_getElem
    · simp
    · intro k h1 h2
      simp only [List.length_set, List.length_map] at h1
      simp only [List.getElem_set, List.getElem_map, List.count_append]
      by_cases hk : (disc p).idxOf v = k
      · subst hk
        simp [List.getElem_idxOf hj]
      · simp only [hk, if_false]
        have : (disc p)[k] ≠ v := by
          intro e
          apply hk
          rw [← e]
          exact (disc_nodup p).idxOf_getElem k h1
        simp [List.count_cons]
        exact fun e => this e.symm

/-- a new value: all four lists grow -/
theorem kinv_new (ri rv rc : Bool) (p : List Bytes) (v : Bytes) (s : UState) (hI : KInv ri rv rc p s)
    (hv : v ∉ disc p) (ls : List Int) (hls : ∀ l ∈ s.lengthsSeen, l ∈ ls) (hvl : (v.length : Int) ∈ ls) :
    KInv ri rv rc (p ++ [v]) { lengthsSeen := ls, out := s.out.addNew v p.length } := by
  obtain ⟨hres, hlen, hidx, hinv, hcnt⟩ := hI
  have hd : disc (p ++ [v]) = disc p ++ [v] := by simp [disc_snoc, hv]
  have hvp : v ∉ p := fun h => hv (mem_disc.mpr h)
  have hsub : ∀ u ∈ disc p, u ∈ p := fun u hu => mem_disc.mp hu
  refine ⟨by simp [UOut.addNew, hres, hd], ?_, ?_, ?_, ?_⟩
  · intro u hu
    rw [hd, List.mem_append, List.mem_singleton] at hu
    rcases hu with hu | rfl
    · exact hls _ (hlen u hu)
    · exact hvl
  · simp only [UOut.addNew, hidx, hd, List.map_append, List.map_cons, List.map_nil]
    rw [map_idxOf_snoc_of_mem p v _ hsub]
    cases ri <;> simp [List.idxOf_append, hvp]
  · simp only [UOut.addNew, hinv, hd, hres, List.map_append, List.map_cons, List.map_nil]
    have : p.map (fun x => (disc p ++ [v]).idxOf x) = p.map (fun x => (disc p).idxOf x) := by
      apply List.map_congr_left
      intro x hx
      simp [List.idxOf_append, mem_disc.mpr hx]
    rw [this]
    cases rv <;> simp [List.idxOf_append, hv]
  · simp only [UOut.addNew, hcnt, hd, List.map_append, List.map_cons, List.map_nil]
    have : (disc p).map (fun u => (p ++ [v]).count u) = (disc p).map (fun u => p.count u) := by
      apply List.map_congr_left
      intro u hu
      have : u ≠ v := fun e => hv (e ▸ hu)
      simp [List.count_append, this.symm]
    rw [this]
    cases rc <;> simp [List.count_append, List.count_eq_zero.mpr hvp]

/-- one iteration of the row loop on a stored column keeps the invariant and reads no subscript out of range -/
theorem uniqueStep_encode (ri rv rc : Bool) (col : List Bytes) (i : Nat) (h : i < col.length) (s : UState)
    (hI : KInv ri rv rc (col.take i) s) :
    ∃ s', uniqueStep (encode col).1 (encode col).2 s i = .ok s' ∧ KInv ri rv rc (col.take (i + 1)) s' := by
  obtain ⟨lo, hi, h1, h2, h3, h4⟩ := encode_row col i h
  have htake : col.take (i + 1) = col.take i ++ [col[i]] := (List.take_append_getElem h).symm
  have hplen : (col.take i).length = i := by rw [List.length_take]; omega
  have hlenv : ((hi : Int) - (lo : Int)) = (col[i].length : Int) := by omega
  unfold uniqueStep
  simp only [h1, h2, h3, hlenv]
  rw [htake]
  by_cases hc : s.lengthsSeen.contains (col[i].length : Int) = true
  · simp only [hc, Bool.not_true, Bool.false_eq_true, if_false]
    have hsc : scanEq col[i] s.out.result 0
        = if col[i] ∈ disc (col.take i) then some (0 + (disc (col.take i)).idxOf col[i]) else none := by
      rw [hI.1, scanEq_eq]
    rw [hsc]
    by_cases hv : col[i] ∈ disc (col.take i)
    · simp only [hv, if_true, Nat.zero_add]
      exact kinv_seen ri rv rc _ _ s hI hv
    · simp only [hv, if_false]
      refine ⟨_, rfl, ?_⟩
      have := kinv_new ri rv rc _ _ s hI hv s.lengthsSeen (fun _ h => h) (by simpa using hc)
      rwa [hplen] at this
  · simp only [hc, Bool.not_false, if_true]
    have hv : col[i] ∉ disc (col.take i) := by
      intro hv
      apply hc
      simpa using hI.2.1 _ hv
    refine ⟨_, rfl, ?_⟩
    have := kinv_new ri rv rc _ _ s hI hv ((col[i].length : Int) :: s.lengthsSeen)
      (fun _ h => List.mem_cons_of_mem _ h) (List.mem_cons_self)
    rwa [hplen] at this

theorem uniqueLoop_encode (ri rv rc : Bool) (col : List Bytes) : ∀ (k i : Nat) (s : UState), i + k = col.length →
    KInv ri rv rc (col.take i) s →
    ∃ s', uniqueLoop (encode col).1 (encode col).2 k i s = .ok s' ∧ KInv ri rv rc col s' := by
  intro k
  induction k with
  | zero =>
    intro i s h hI
    refine ⟨s, rfl, ?_⟩
    rwa [List.take_of_length_le (by omega)] at hI
  | succ k ih =>
    intro i s h hI
    obtain ⟨s1, hs1, hI1⟩ := uniqueStep_encode ri rv rc col i (by omega) s hI
    obtain ⟨s2, hs2, hI2⟩ := ih (i + 1) s1 (by omega) hI1
    exact ⟨s2, by simp only [uniqueLoop, hs1, hs2], hI2⟩

/-- the kernel's result on a stored column, in discovery order -/
def discOut (ri rv rc : Bool) (col : List Bytes) : UOut :=
  { result := disc col
    index := if ri then some ((disc col).map (fun u => col.idxOf u)) else none
    inverse := if rv then some (col.map (fun x => (disc col).idxOf x)) else none
    counts := if rc then some ((disc col).map (fun u => col.count u)) else none }

/-- `get_indexed_string_unique` on a stored column: no out-of-bounds access, and the four lists are the distinct values
    in discovery order, their first rows, the row → discovery position map and the occurrence counts -/
theorem getIndexedStringUnique_encode (ri rv rc : Bool) (col : List Bytes) :
    getIndexedStringUnique (encode col).1 (encode col).2 ri rv rc = .ok (discOut ri rv rc col) := by
  unfold getIndexedStringUnique
  have hinit : KInv ri rv rc (col.take 0)
      { lengthsSeen := [-1]
        out := { result := [], index := if ri then some [] else none, inverse := if rv then some [] else none,
                 counts := if rc then some [] else none } } := by
    refine ⟨by simp [disc], by simp [disc], ?_, ?_, ?_⟩ <;> simp [disc]
  obtain ⟨s', hs', hI⟩ := uniqueLoop_encode ri rv rc col col.length 0 _ (by omega) hinit
  simp only [encode_rows, hs']
  obtain ⟨h1, _, h3, h4, h5⟩ := hI
  congr 1
  cases hso : s'.out with
  | mk r ix iv c =>
    simp only [hso] at h1 h3 h4 h5
    simp [discOut, h1, h3, h4, h5]

end Exetera.Unique
