import Exetera.Model.Basic
import Exetera.Model.Join
/-!
  Model of `element_chunked_copy` / `chunked_copy` (exetera/core/operations.py) — the column copy `DataFrame.merge` uses for
  the columns of a side that needs no map.

      def element_chunked_copy(src_elem, dest_elem, chunksize):
          i = 0
          chunk = next_chunk(i, len(src_elem), chunksize)
          while i < len(src_elem):
              dest_elem.write(src_elem[chunk[0]:chunk[1]])
              i += chunk[1] - chunk[0]
              chunk = next_chunk(i, len(src_elem), chunksize)

  Termination is not syntactically evident (`i` advances by the length of the chunk, which is 0 for `chunksize = 0`), so the
  loop is `whileE` with fuel as a parameter. `dest` is the append-only contents of `dest_elem` (C01), `writes` counts the
  `write` calls (a trace, compared with the implementation's by the C12 harness).
-/
namespace Exetera.ChunkedCopy
open Exetera

structure St (α : Type) where
  i : Nat
  chunk : Nat × Nat
  dest : List α
  writes : Nat
  deriving Repr, DecidableEq, Inhabited

def guard {α} (src : List α) (s : St α) : Bool := decide (s.i < src.length)

/-- one iteration of `while i < len(src_elem)` -/
def body {α} (src : List α) (cs : Nat) (s : St α) : Except Err (St α) :=
  let i := s.i + (s.chunk.2 - s.chunk.1)
  .ok ⟨i, Join.nextChunk i src.length cs, s.dest ++ slice src s.chunk.1 s.chunk.2, s.writes + 1⟩

def init {α} (src dest0 : List α) (cs : Nat) : St α := ⟨0, Join.nextChunk 0 src.length cs, dest0, 0⟩

/-- `element_chunked_copy(src_elem, dest_elem, chunksize)`; `dest0` is what `dest_elem` held before -/
def elementChunkedCopy {α} (src dest0 : List α) (cs fuel : Nat) : Except Err (St α) :=
  whileE (guard src) (body src cs) fuel (init src dest0 cs)

/-- a field as `chunked_copy` sees it -/
inductive Field (α : Type) where
  | plain (data : List α)
  | indexed (indices : List Int) (values : List α)
  deriving Repr, DecidableEq, Inhabited

structure Out (α : Type) where
  field : Field α
  writes : Nat
  deriving Repr, DecidableEq, Inhabited

/-- `chunked_copy(src_field, dest_field, chunksize)` into a fresh destination of the same kind -/
def chunkedCopy {α} (src : Field α) (cs fuel : Nat) : Except Err (Out α) :=
  match src with
  | .plain data =>
    match elementChunkedCopy data [] cs fuel with
    | .error e => .error e
    | .ok s => .ok ⟨.plain s.dest, s.writes⟩
  | .indexed indices values =>
    match elementChunkedCopy indices [] cs fuel with
    | .error e => .error e
    | .ok s1 =>
      match elementChunkedCopy values [] cs fuel with
      | .error e => .error e
      | .ok s2 => .ok ⟨.indexed s1.dest s2.dest, s1.writes + s2.writes⟩

end Exetera.ChunkedCopy
