import Exetera.Lemmas.CatalogueRefineOps
import Exetera.Lemmas.CatalogueReopen
/-! Refinement, part 3: every client call is one step of the abstract catalogue; every history is a run of it. -/
namespace Exetera.Catalogue

theorem SameFrames.file_of_ok {α} {s s' : State} {r : Res α} {a : α} (h : SameFrames s r.state) (hr : r = .ok a s') :
    s'.file = s.file := by
  subst hr; exact h.2.1

theorem ensureValid_congr {s s1 : State} {h : Nat} (hh : s1.handles[h]? = s.handles[h]?) : ensureValid s1 h = ensureValid s h := by
  unfold ensureValid; rw [hh]

/-- `dataframe.copy` / `df[n] = f` that returns: the destination column holds what the catalogue holds at the source -/
theorem copyField_abs {s s' : State} (hI : Inv s) {r : FRef} {h g d : Nat} {fn n : Name} {a : Nat}
    (hr : getField s r = .ok h) (hg : ((d, fn), g) ∈ s.file) (hz : Linked s h) (hc : copyField .repaired s h g n = .ok a s') :
    ∃ p, refPos s r = some p ∧ fieldName s h = .ok p.col ∧ absH5 s' = (absH5 s).setCol d fn n ((absH5 s).col p) := by
  obtain ⟨c, hfc, href⟩ := copyField_refines hI.toInvCore hc
  obtain ⟨hd, hv, _⟩ := fieldContent_ok_iff hfc
  obtain ⟨k, hk⟩ := hz hd hv
  obtain ⟨d', fn', g', hpos, hf', _, hl⟩ := getField_pos hI hr hv hk
  refine ⟨⟨d', fn', k⟩, hpos, hk, ?_⟩
  rw [src_content hI hf' hv hl hfc]
  exact absH5_setCol hI.toInvCore (copyField_shape hc).1 hg href

/-- `dataframe.move` that returns: a rename inside one frame, copy + drop across frames -/
theorem moveField_abs {s s' : State} (hI : Inv s) {r : FRef} {h g d : Nat} {fn n : Name}
    (hr : getField s r = .ok h) (hg : ((d, fn), g) ∈ s.file) (hz : Linked s h) (hc : moveField .repaired s h g n = .ok () s') :
    absH5 s' = specStep (refPos s r) (absH5 s) (.moveField r d fn n) := by
  unfold moveField at hc
  split at hc
  · cases hc
  next hd hv =>
  obtain ⟨k, hk⟩ := hz hd hv
  obtain ⟨d', fn', g', hpos, hf', ho, hl⟩ := getField_pos hI hr hv hk
  simp only [specStep, hpos]
  split at hc
  · next hown =>
    rw [ho] at hown
    cases hown
    have hkey : (d', fn') = (d, fn) := file_frame_eq hI.toInvCore hf' hg
    simp only [hk] at hc
    simp only [hkey, if_true]
    exact renameFields_abs hI hg (by simp) hc
  · next hown =>
    have hkey : ¬ (d', fn') = (d, fn) := by
      intro e
      rw [e] at hf'
      have : g' = g := functional hI.fileNodup hf' hg
      exact hown (by rw [ho, this])
    simp only [hkey, if_false]
    cases hcp : copyField .repaired s h g n with
    | err e s1 => rw [hcp] at hc; simp [Res.andThen] at hc
    | ok a s1 =>
      rw [hcp] at hc
      simp only [Res.andThen, ho] at hc
      have hI1 : InvCore s1 := by
        have := copyField_inv hI.toInvCore h g n (List.mem_map.2 ⟨_, hg, rfl⟩); rw [hcp] at this; exact this
      obtain ⟨hfile1, _, hlinks1, hhandles1⟩ := copyField_shape hcp
      have hv1 : ensureValid s1 h = .ok hd := by
        have hh := (ensureValid_ok hv).1
        rw [ensureValid_congr (s := s) (by rw [hhandles1 h hd hh, hh])]; exact hv
      have hfn1 : fieldName s1 h = .ok k := fieldName_of_link hI1 hv1 (hlinks1 _ hl)
      simp only [hfn1] at hc
      cases hdr : dropField s1 g' k with
      | err e s2 => rw [hdr] at hc; cases hc
      | ok u s2 =>
        rw [hdr] at hc
        simp only [Res.ok.injEq, true_and] at hc
        subst hc
        show absH5 s2 = _
        obtain ⟨c, hfc, href⟩ := copyField_refines hI.toInvCore hcp
        have h1 : absH5 s1 = (absH5 s).setCol d fn n ((absH5 s).col ⟨d', fn', k⟩) := by
          rw [src_content hI hf' hv hl hfc]
          exact absH5_setCol hI.toInvCore hfile1 hg href
        have h2 : absH5 s2 = (absH5 s1).setCol d' fn' k none :=
          absH5_setCol hI1 ((dropField_frames s1 g' k).file_of_ok hdr) (by rw [hfile1]; exact hf') (dropField_refines hdr)
        rw [h2, h1]

theorem absH5_frame {s : State} (hI : Inv s) {d : Nat} {fn : Name} {g : Nat} (hf : ((d, fn), g) ∈ s.file) :
    absH5 s d fn = some (frameH5 s g) := by
  rw [absH5_apply, (look_eq_some hI.fileNodup).2 hf]; rfl

theorem refsLinked_srcLinked {s : State} {op : Op} (h : op.refsLinked s) : op.srcLinked s := by
  cases op <;> first | exact h | trivial

/-- THE refinement: a call of the repaired code that returns is one step of the abstract catalogue. -/
theorem step_refines_ok {s : State} (hI : Inv s) (op : Op) (hz : op.refsLinked s) {u : Unit} {s' : State}
    (hok : step .repaired s op = .ok u s') : absH5 s' = specStep (srcOf s op) (absH5 s) op := by
  cases op with
  | create d fn n c =>
    simp only [step] at hok
    obtain ⟨g, hg, hk⟩ := withFrame_ok hok
    obtain ⟨a, ha⟩ := void_ok hk
    simp only [specStep]
    exact absH5_setCol hI.toInvCore (addField_ok_shape ha).1 (getFrame_file hI hg) (addField_refines hI.toInvCore ha)
  | setItem d fn n r =>
    have hz' : ∀ h, getField s r = .ok h → Linked s h := hz
    simp only [step] at hok
    obtain ⟨h, hr, hk⟩ := withField_ok hok
    obtain ⟨g, hg, hk⟩ := withFrame_ok hk
    obtain ⟨a, ha⟩ := void_ok hk
    obtain ⟨p, hpos, _, habs⟩ := copyField_abs hI hr (getFrame_file hI hg) (hz' h hr) ha
    simp only [srcOf, Op.ref, Option.bind_some, hpos, specStep]
    exact habs
  | add d fn r =>
    have hz' : ∀ h, getField s r = .ok h → Linked s h := hz
    simp only [step] at hok
    obtain ⟨h, hr, hk⟩ := withField_ok hok
    obtain ⟨g, hg, hk⟩ := withFrame_ok hk
    obtain ⟨a, ha⟩ := void_ok hk
    unfold addCopy at ha
    split at ha
    · cases ha
    · next k hn =>
      obtain ⟨p, hpos, hname, habs⟩ := copyField_abs hI hr (getFrame_file hI hg) (hz' h hr) ha
      rw [hn] at hname
      cases hname
      simp only [srcOf, Op.ref, Option.bind_some, hpos, specStep]
      exact habs
  | delItem d fn n =>
    simp only [step] at hok
    obtain ⟨g, hg, hk⟩ := withFrame_ok hok
    simp only [specStep]
    exact absH5_setCol hI.toInvCore ((delItem_frames s g n).file_of_ok hk) (getFrame_file hI hg) (delItem_refines hk)
  | drop d fn n =>
    simp only [step] at hok
    obtain ⟨g, hg, hk⟩ := withFrame_ok hok
    simp only [specStep]
    exact absH5_setCol hI.toInvCore ((dropField_frames s g n).file_of_ok hk) (getFrame_file hI hg) (dropField_refines hk)
  | deleteField d fn r =>
    simp only [step] at hok
    obtain ⟨h, hr, hk⟩ := withField_ok hok
    obtain ⟨g, hg, hk⟩ := withFrame_ok hk
    unfold deleteField at hk
    split at hk
    · cases hk
    next hd hv =>
    split at hk
    · cases hk
    split at hk
    · cases hk
    next k hn =>
    obtain ⟨d', fn', g', hpos, _, _, _⟩ := getField_pos hI hr hv hn
    simp only [srcOf, Op.ref, Option.bind_some, hpos, specStep]
    exact absH5_setCol hI.toInvCore ((delItem_frames s g k).file_of_ok hk) (getFrame_file hI hg) (delItem_refines hk)
  | rename d fn dict =>
    simp only [step] at hok
    split at hok
    · cases hok
    next hn =>
    obtain ⟨g, hg, hk⟩ := withFrame_ok hok
    simp only [specStep]
    exact renameFields_abs hI (getFrame_file hI hg) (Decidable.not_not.1 hn) hk
  | copyField r d fn n =>
    have hz' : ∀ h, getField s r = .ok h → Linked s h := hz
    simp only [step] at hok
    obtain ⟨h, hr, hk⟩ := withField_ok hok
    obtain ⟨g, hg, hk⟩ := withFrame_ok hk
    obtain ⟨a, ha⟩ := void_ok hk
    obtain ⟨p, hpos, _, habs⟩ := copyField_abs hI hr (getFrame_file hI hg) (hz' h hr) ha
    simp only [srcOf, Op.ref, Option.bind_some, hpos, specStep]
    exact habs
  | moveField r d fn n =>
    have hz' : ∀ h, getField s r = .ok h → Linked s h := hz
    simp only [step] at hok
    obtain ⟨h, hr, hk⟩ := withField_ok hok
    obtain ⟨g, hg, hk⟩ := withFrame_ok hk
    simp only [srcOf, Op.ref, Option.bind_some]
    exact moveField_abs hI hr (getFrame_file hI hg) (hz' h hr) hk
  | createFrame d fn src =>
    cases src with
    | none =>
      simp only [step] at hok
      obtain ⟨g, hg⟩ := void_ok hok
      simp only [specStep]
      exact createFrame_abs hI (by intro sg h; cases h) hg
    | some sr =>
      obtain ⟨sd, sfn⟩ := sr
      simp only [step] at hok
      obtain ⟨sg, hsg, hk⟩ := withFrame_ok hok
      obtain ⟨g, hg⟩ := void_ok hk
      have hf := getFrame_file hI hsg
      simp only [specStep]
      rw [absH5_frame hI hf]
      exact createFrame_abs hI (by intro sg' h; cases h; exact List.mem_map.2 ⟨_, hf, rfl⟩) hg
  | requireFrame d fn =>
    simp only [step] at hok
    split at hok
    · next hin =>
      simp only [Res.ok.injEq, true_and] at hok
      subst hok
      obtain ⟨g, hg⟩ := mem_keys.1 hin
      simp only [specStep, absH5_frame hI ((hI.sameFrames _).1 hg), Option.isSome_some, if_true]
    · next hnin =>
      obtain ⟨g, hg⟩ := void_ok hok
      have hnone : absH5 s d fn = none := by
        rw [absH5_apply, look_eq_none.2 (fun hm => hnin (by
          obtain ⟨v, hv⟩ := mem_keys.1 hm
          exact mem_keys_of_mem ((hI.sameFrames _).2 hv)))]
        rfl
      simp only [specStep, hnone, Option.isSome_none, Bool.false_eq_true, if_false]
      exact createFrame_abs hI (by intro sg h; cases h) hg
  | copyFrame sd sfn d fn =>
    simp only [step] at hok
    obtain ⟨sg, hsg, hk⟩ := withFrame_ok hok
    have hf := getFrame_file hI hsg
    simp only [specStep]
    rw [absH5_frame hI hf]
    exact copyFrame_abs hI (List.mem_map.2 ⟨_, hf, rfl⟩) hk
  | setFrame d fn sd sfn =>
    simp only [step] at hok
    obtain ⟨sg, hsg, hk⟩ := withFrame_ok hok
    have := setFrame_abs hI (getFrame_ok hI hsg).1 hk
    simp only [specStep]
    by_cases hsd : sd = d
    · subst hsd; simpa using this
    · simpa [hsd] using this
  | delFrame d fn => simp only [step] at hok; simp only [specStep]; exact delFrame_abs hI hok
  | dropFrame d fn => simp only [step] at hok; simp only [specStep]; exact dropFrame_abs hI hok
  | deleteFrame d sd sfn =>
    simp only [step] at hok
    obtain ⟨sg, hsg, hk⟩ := withFrame_ok hok
    have hname := hI.frameName _ _ (getFrame_file hI hsg)
    simp only [hname] at hk
    simp only [specStep]
    exact delFrame_abs hI hk
  | moveFrame sd sfn d fn =>
    simp only [step] at hok
    obtain ⟨sg, hsg, hk⟩ := withFrame_ok hok
    simp only [specStep]
    exact moveFrame_abs hI (getFrame_ok hI hsg).1 hk
  | reopen d =>
    simp only [step, Res.ok.injEq, true_and] at hok
    subst hok
    rfl
  | view r =>
    simp only [step] at hok
    obtain ⟨h, _, hk⟩ := withField_ok hok
    obtain ⟨a, ha⟩ := void_ok hk
    unfold viewField at ha
    split at ha
    · cases ha
    · simp only [Res.ok.injEq] at ha
      obtain ⟨_, rfl⟩ := ha
      rfl

theorem step_inv {s : State} (hI : Inv s) (op : Op) : Inv (step .repaired s op).state := by
  by_cases h : ∃ d, op = .reopen d
  · obtain ⟨d, rfl⟩ := h
    exact reopen_inv hI d
  · exact step_inv_noreopen hI op (fun d hd => h ⟨d, hd⟩)

/-- one call, returning or raising, is one entry of the call log applied to the abstract catalogue -/
theorem step_refines {s : State} (hI : Inv s) (op : Op) (hz : op.refsLinked s) :
    absH5 (step .repaired s op).state = specCall (absH5 s) (callOf .repaired s op) := by
  unfold specCall callOf
  cases hr : step .repaired s op with
  | ok u s' =>
    simp only [Res.state, Res.isOk, if_true]
    exact step_refines_ok hI op hz hr
  | err e s' =>
    simp only [Res.state, Res.isOk, Bool.false_eq_true, if_false]
    rw [step_errKeeps hI op (refsLinked_srcLinked hz) e s' hr]

theorem specRun_cons (A : Cat) (c : Call) (cs : List Call) : specRun A (c :: cs) = specRun (specCall A c) cs := rfl

/-- every history is a run of the abstract catalogue over its call log -/
theorem run_refines (ops : List Op) {s : State} (hI : Inv s) (hz : HistLinked .repaired s ops) :
    absH5 (run .repaired s ops) = specRun (absH5 s) (callLog .repaired s ops) := by
  induction ops generalizing s with
  | nil => rfl
  | cons op ops ih =>
    simp only [run, callLog, specRun_cons]
    rw [ih (step_inv hI op) hz.2, step_refines hI op hz.1]

end Exetera.Catalogue
