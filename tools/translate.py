#!/usr/bin/env python3
"""Translator entry point (DESIGN.md 1.2, tie T): regenerates lean/Exetera/Gen/*.lean from the source text of ExeTera.
Runs every tools/translators/*.py with `--repo <path>`; fails (exit 1) if any of them can no longer extract its table."""
import argparse
import subprocess
import sys
from pathlib import Path

HERE = Path(__file__).resolve().parent


def main():
    ap = argparse.ArgumentParser()
    ap.add_argument("--repo", default="/repo")
    a = ap.parse_args()
    rc = 0
    for script in sorted((HERE / "translators").glob("*.py")):
        p = subprocess.run([sys.executable, str(script), "--repo", a.repo], stdout=subprocess.PIPE, stderr=subprocess.STDOUT, text=True)
        print(f"[{script.name}] {p.stdout.strip()}")
        rc = rc or p.returncode
    sys.exit(rc)


if __name__ == "__main__":
    main()
