import Exetera.Lemmas.CsvWindowStep
/-! The driver loop over all windows of a file (no buffer regrowth) (C05). -/
namespace Exetera.Csv
open Exetera Spec

/-- the window that reaches the end of the file is the rest of the text, with its final line break -/
theorem readWindow_last {file T : Bytes} {ci w : Nat} (h : IsFile file T) (hTnl : T.getLast? = some NL)
    (hlt : ci < file.length) (hend : file.length ≤ ci + w) : readWindow file ci w = T.drop ci := by
  have hs : slice file ci (ci + w) = file.drop ci := by
    simp only [slice, Nat.add_sub_cancel_left]
    apply List.take_of_length_le
    simp; omega
  unfold readWindow
  simp only [hs]
  have hlen : ci + (file.drop ci).length = file.length := by simp; omega
  have hlast : (file.drop ci).getLast? = file.getLast? := by
    rw [List.getLast?_drop]
    have : ¬ file.length ≤ ci := by omega
    simp [this]
  rcases h with h | ⟨h, hn⟩
  · subst h
    simp [hlen, hlast, hTnl]
  · simp only [hlen, hlast, beq_self_eq_true, hn, ne_eq, not_false_eq_true, and_self, if_true]
    rw [← h, List.drop_append_of_le_length (by omega)]

theorem fieldOf'_nil : fieldOf' [] = ({ kind := .indexed } : Imp) := rfl

/-- the last driver iteration: the window reaches the end of the file -/
theorem last_step {file : Bytes} {crs ncols : Nat} {offs im : List Nat} {hrow : List Cell} {rows : List (List Cell)}
    (st : Setting file crs ncols offs im hrow rows) {s : DS} {ci d : Nat} {hh : Bool}
    (hinv : DInv ncols (crs * Gen.Csv.CHUNK_ROW_FACTOR) offs im s ci hh d (doneCols rows d))
    (hpos : ci = if hh then 0 else (renderCells hrow ++ render (rows.take d)).length)
    (hd0 : hh = true → d = 0) (hd : d ≤ rows.length)
    (hlt : ci < file.length) (hend : file.length ≤ ci + crs * Gen.Csv.CHUNK_ROW_FACTOR * ncols) :
    ∃ s', driverStep file (crs * Gen.Csv.CHUNK_ROW_FACTOR * ncols) ncols im s = .ok s' ∧ file.length ≤ s'.ci ∧
      s'.stop = false ∧ s'.rows = (rows.length : Int) ∧ s'.imps = im.map (fun c => fieldOf' (column (values rows) c)) := by
  have hrne : hrow ≠ [] := by intro h; have := st.hdr.1; rw [h] at this; simp at this; have := st.nc; omega
  have hallne : ∀ r ∈ hrow :: rows, r ≠ [] := by
    intro r hr h
    rcases List.mem_cons.mp hr with h1 | h1
    · exact hrne (h1 ▸ h)
    · have := (st.tab r h1).1; rw [h] at this; simp at this; have := st.nc; omega
  have hTnl : (render (hrow :: rows)).getLast? = some NL := render_getLast _ (by simp) hallne
  have hT : render (hrow :: rows) = renderCells hrow ++ render (rows.take d) ++ render (rows.drop d) := by
    rw [List.append_assoc, ← render_take_drop]; rfl
  have hTlen := isFile_length st.isFile
  have hTlen2 : (render (hrow :: rows)).length ≤ file.length + 1 := by
    rcases st.isFile with h | ⟨h, _⟩
    · rw [← h]; omega
    · rw [← h]; simp
  have hdrop : (render (hrow :: rows)).drop ci = (if hh then renderCells hrow else []) ++ render (rows.drop d) := by
    cases hh with
    | true =>
      have := hd0 rfl
      subst this
      simp only [if_true] at hpos ⊢
      subst hpos
      simp [render]
    | false =>
      simp only [Bool.false_eq_true, if_false] at hpos ⊢
      rw [hT, hpos, List.drop_left]; rfl
  have hwin := readWindow_last st.isFile hTnl hlt hend
  rw [hdrop] at hwin
  have hdroplen : ((render (hrow :: rows)).drop ci).length = (render (hrow :: rows)).length - ci := by simp
  rw [hdrop, List.length_append] at hdroplen
  have htabR : ∀ x ∈ rows.drop d, x.length = ncols ∧ ∀ c ∈ x, c.WF := fun x hx => st.tab x (List.mem_of_mem_drop hx)
  have hmaxpos : 0 < crs * Gen.Csv.CHUNK_ROW_FACTOR := Nat.mul_pos st.crsPos (by decide)
  have hrowsR : (rows.drop d).length < crs * Gen.Csv.CHUNK_ROW_FACTOR := by
    have h1 := render_length_ge ncols (rows.drop d) (fun l hl => st.min l (by simp [List.mem_of_mem_drop hl]))
    apply count_lt_of_bytes (ncols := ncols) (b := (render (rows.drop d)).length) _ h1
    · omega
    · have : 1 ≤ crs := st.crsPos
      show 2 ≤ crs * 2
      omega
  have hne : hh = true ∨ rows.drop d ≠ [] := by
    cases hh with
    | true => exact Or.inl rfl
    | false =>
      right
      intro h
      rw [h] at hdroplen
      have hnil : (render ([] : List (List Cell))).length = 0 := rfl
      rw [hnil] at hdroplen
      simp only [Bool.false_eq_true, if_false, List.length_nil] at hdroplen
      omega
  have hcap : RowsCap offs (fun _ => []) (rows.drop d) := by
    apply rowsCap_of_final offs ncols _ _ (fun x hx => (htabR x hx).1)
    intro c hc
    have hpart := column_part_le (rows.take d) (rows.drop d) [] c
    rw [List.append_nil, List.take_append_drop] at hpart
    have := st.fit c hc
    simp only [List.nil_append]
    omega
  obtain ⟨o, hker, hok⟩ :=
    kernel_records (src := readWindow file ci (crs * Gen.Csv.CHUNK_ROW_FACTOR * ncols)) (offs := offs) hh hrow (rows.drop d)
      [] (by rw [hwin]; simp) (fun _ => st.hdr) htabR st.nc hinv.shape hmaxpos hinv.zero hcap hrowsR hne
  have hslice : ((slice file ci (ci + crs * Gen.Csv.CHUNK_ROW_FACTOR * ncols)).length == 0) = false := by
    apply beq_false_of_ne
    simp [slice]
    have hpos' : 0 < crs * Gen.Csv.CHUNK_ROW_FACTOR * ncols := Nat.mul_pos hmaxpos st.nc
    omega
  have hwlen : (readWindow file ci (crs * Gen.Csv.CHUNK_ROW_FACTOR * ncols)).length = (render (hrow :: rows)).length - ci := by
    rw [hwin, List.length_append]; omega
  have hnp : (readWindow file ci (crs * Gen.Csv.CHUNK_ROW_FACTOR * ncols)).length ≠ 0 := by omega
  obtain ⟨s', hstep, hinv'⟩ :=
    driverStep_fresh hinv hslice (by simpa using hker) hok hnp
      (fun c hc => by rw [stageRows_length _ htabR c hc]) st.imOk
  refine ⟨s', hstep, ?_, hinv'.stop, ?_, ?_⟩
  · rw [hinv'.ci, hwlen]; omega
  · rw [hinv'.rows]; simp; omega
  · rw [hinv'.imps]
    apply List.map_congr_left
    intro c _
    congr 1
    rw [stageRows_col, List.nil_append]
    have := doneCols_add rows d (rows.length - d) c
    rw [List.take_of_length_le (by simp)] at this
    rw [this]
    unfold doneCols
    rw [List.take_of_length_le (by omega)]

end Exetera.Csv
