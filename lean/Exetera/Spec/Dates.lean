/-! Specification vocabulary of C20 (date helpers). Everything is over exact integer seconds. -/
namespace Exetera.Spec.Dates

/-- `d` is the number of whole 86400-second days elapsed from the origin `o` to `t` (negative before the origin) -/
def IsDayOf (o t d : Int) : Prop := o + 86400 * d ≤ t ∧ t < o + 86400 * (d + 1)

/-- the truth value of one filter element (`bool`, or `int8` where non-zero means "keep") -/
def keeps : Option Int → Bool
  | some v => v != 0
  | none => false

/-- row `i` passes the supplied filter (no filter: every row passes) -/
def passes : Option (List Int) → Nat → Bool
  | none, _ => true
  | some f, i => keeps f[i]?

/-- `start ≤ t`, vacuous without a start -/
def afterStart : Option Int → Int → Bool
  | none, _ => true
  | some s, t => decide (s ≤ t)

/-- `t < end`, vacuous without an end -/
def beforeEnd : Option Int → Int → Bool
  | none, _ => true
  | some e, t => decide (t < e)

/-- the in-range flag of a row: passes the filter and lies in `[start, end)` -/
def inRangeFlag (filt : Option (List Int)) (start end_ : Option Int) (i : Nat) (t : Int) : Bool :=
  passes filt i && afterStart start t && beforeEnd end_ t

/-- the chosen origin: the explicit start, else the earliest timestamp among the rows that pass the filter -/
def IsOrigin (ts : List Int) (filt : Option (List Int)) : Option Int → Int → Prop
  | some s, o => o = s
  | none, o => (∃ i, ts[i]? = some o ∧ passes filt i = true) ∧
      ∀ i t, ts[i]? = some t → passes filt i = true → o ≤ t

/-- `n + 1` equally spaced boundaries `start, start + step, …, start + n·step` -/
def boundaries (start step : Int) (n : Nat) : List Int := (List.range (n + 1)).map (fun (k : Nat) => start + (k : Int) * step)

/-- `x` lies in the `k`-th half-open interval `[bs[k], bs[k+1])` of the boundaries `bs` -/
def InPeriod (bs : List Int) (k : Nat) (x : Int) : Prop :=
  ∃ lo hi, bs[k]? = some lo ∧ bs[k + 1]? = some hi ∧ lo ≤ x ∧ x < hi

/-- ascending (not necessarily strictly) -/
def Ascending (bs : List Int) : Prop := bs.Pairwise (· ≤ ·)

end Exetera.Spec.Dates
