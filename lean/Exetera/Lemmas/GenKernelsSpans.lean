import Exetera.Gen.Kernels
import Exetera.Lemmas.GenKernels
/-!
  The TRANSLATED span kernels (`Gen/Kernels.lean`, regenerated from operations.py on every run) refine the hand-written
  models of `Model/Spans.lean`:  for every span array of naturals and every source column,

      Sim (Gen.Kernels.apply_spans_X.run spans src none) (Spans.applySpansX spans src)

  i.e. both return the same array, or both fail with the same error class.  Every theorem of Props/C08 about the hand
  model therefore transfers to the code as translated (Props/C08Gen.lean).
-/
namespace Exetera.GenK

open Exetera Exetera.PyRt Exetera.Spans Exetera.Gen.Kernels

/-- the span array as the kernel receives it -/
abbrev ints (sp : List Nat) : List Int := sp.map Int.ofNat

@[simp] theorem ints_length (sp : List Nat) : (ints sp).length = sp.length := by simp [ints]

theorem getE_ints (sp : List Nat) (i : Nat) (site : String) {x : Nat} (h : sp[i]? = some x) :
    getE (ints sp) i site = .ok (x : Int) := getE_map_ofNat sp i site h

/-! ### apply_spans_count -/

theorem apply_spans_count_refines (sp : List Nat) :
    Sim (apply_spans_count.run (ints sp) none) (applySpansCount sp) := by
  unfold apply_spans_count.run applySpansCount forSpans
  cases sp with
  | nil => simp [pyLen, npZeros, Sim]
  | cons a t =>
    have hlen : (pyLen (ints (a :: t)) - 1) = ((t.length : Nat) : Int) := by simp [pyLen]
    simp only [hlen, npZeros_nat, bindE_ok, List.isEmpty_cons, Bool.false_eq_true, if_false]
    have h := forRange_forPairs_run (a :: t) (by simp)
      (fun dest (s : apply_spans_count.St) => s.p0 = ints (a :: t) ∧ s.p1 = dest)
      (fun k s => apply_spans_count.body_L1 { s with v0 := k })
      (fun cur next => .ok ((next : Int) - cur))
      (by
        intro k cur next dest s hc hn hR hk
        obtain ⟨h0, h1⟩ := hR
        have hk1 : ((k : Int) + 1) = ((k + 1 : Nat) : Int) := by omega
        simp only [apply_spans_count.body_L1, h0, h1, hk1, idxE_nat, getE_ints _ _ _ hn, getE_ints _ _ _ hc, bindE_ok,
          setIdxE_nat, setE, hk, if_true]
        exact ⟨_, rfl, rfl, rfl⟩)
      { p0 := ints (a :: t), p1 := List.replicate t.length 0, v0 := 0 } (List.replicate t.length 0) (by simp) ⟨rfl, rfl⟩
    have hl : (((a :: t).length : Nat) : Int) - 1 = ((t.length : Nat) : Int) := by simp
    rw [hl] at h
    cases hp : forPairs (fun cur next => Except.ok ((next : Int) - cur)) (a :: t) with
    | error e =>
      rw [hp] at h
      obtain ⟨e', hrun, ht⟩ := h
      simp only [hrun, bindE_error, Sim, ht]
    | ok vs =>
      rw [hp] at h
      obtain ⟨s', hrun, _, h1⟩ := h
      simp only [hrun, bindE_ok, Sim, h1]

/-! ### apply_spans_first / apply_spans_last: numpy fancy indexing against the span recursion -/

/-- `src[spans[:-1]]` against `for cur, next in pairs: src[cur]` -/
theorem takeE_dropLast_forPairs (src : List Int) (site site' : String) :
    ∀ sp : List Nat, Sim (takeE src site (ints sp.dropLast)) (forPairs (fun cur _ => getE src cur site') sp)
  | [] => by simp [takeE, forPairs, Sim]
  | [_] => by simp [takeE, forPairs, Sim]
  | a :: b :: rest => by
    have ih := takeE_dropLast_forPairs src site site' (b :: rest)
    simp only [List.dropLast_cons_cons, ints, List.map_cons, takeE, forPairs]
    have : idxE src (Int.ofNat a) site = getE src a site := idxE_nat src a site
    rw [this]
    cases hg : src[a]? with
    | none =>
      simp [getE, hg, Sim]
    | some v =>
      simp only [getE, hg]
      simp only [ints] at ih
      cases h1 : takeE src site (List.map Int.ofNat (b :: rest).dropLast) <;>
        cases h2 : forPairs (fun cur _ => getE src cur site') (b :: rest) <;>
        simp_all [Sim, consE, getE]

/-- `src[spans[1:] - 1]` against `for cur, next in pairs: src[next - 1]`, all span ends positive -/
theorem takeE_tail_forPairs (src : List Int) (site site' : String) :
    ∀ sp : List Nat, (∀ x ∈ sp.tail, 0 < x) →
      Sim (takeE src site ((ints sp.tail).map (· - 1))) (forPairs (fun _ next => getWrapE src ((next : Int) - 1) site') sp)
  | [], _ => by simp [takeE, forPairs, Sim]
  | [_], _ => by simp [takeE, forPairs, Sim]
  | a :: b :: rest, hpos => by
    have ih := takeE_tail_forPairs src site site' (b :: rest) (fun x hx => hpos x (by simp at hx ⊢; exact Or.inr hx))
    have hb : 0 < b := hpos b (by simp)
    simp only [List.tail_cons, ints, List.map_cons, takeE, forPairs]
    have h0 : (0 : Int) ≤ Int.ofNat b - 1 := by
      have : (Int.ofNat b) = (b : Int) := rfl
      omega
    have hidx : idxE src (Int.ofNat b - 1) site = getE src (b - 1) site := by
      have : (Int.ofNat b - 1).toNat = b - 1 := by
        have : (Int.ofNat b) = (b : Int) := rfl
        omega
      unfold idxE
      rw [if_pos h0, this]
    have hwrap : getWrapE src ((b : Int) - 1) site' = getE src (b - 1) site' := by
      have h0' : (0 : Int) ≤ (b : Int) - 1 := by omega
      have : ((b : Int) - 1).toNat = b - 1 := by omega
      unfold getWrapE
      rw [if_pos h0', this]
    rw [hidx, hwrap]
    cases hg : src[b - 1]? with
    | none => simp [getE, hg, Sim]
    | some v =>
      simp only [getE, hg]
      simp only [ints, List.tail_cons] at ih
      cases h1 : takeE src site (List.map (· - 1) (List.map Int.ofNat rest)) <;>
        cases h2 : forPairs (fun _ next => getWrapE src ((next : Int) - 1) site') (b :: rest) <;>
        simp_all [Sim, consE, getE]

theorem forPairs_length {β} (f : Nat → Nat → Except Err β) :
    ∀ (sp : List Nat) (r : List β), forPairs f sp = .ok r → r.length = sp.length - 1
  | [], r, h => by simp [forPairs] at h; simp [← h]
  | [_], r, h => by simp [forPairs] at h; simp [← h]
  | a :: b :: rest, r, h => by
    simp only [forPairs] at h
    cases hf : f a b with
    | error e => simp [hf] at h
    | ok v =>
      simp only [hf] at h
      cases hr : forPairs f (b :: rest) with
      | error e => simp [hr, consE] at h
      | ok r' =>
        simp only [hr, consE, Except.ok.injEq] at h
        have := forPairs_length f (b :: rest) r' hr
        subst h
        simp at this ⊢
        omega

theorem apply_spans_first_refines (sp : List Nat) (src : List Int) :
    Sim (apply_spans_first.run (ints sp) src none) (applySpansFirst sp src) := by
  unfold apply_spans_first.run applySpansFirst forSpans
  cases sp with
  | nil => simp [pyLen, npZeros, Sim]
  | cons a t =>
    have hlen : (pyLen (ints (a :: t)) - 1) = ((t.length : Nat) : Int) := by simp [pyLen]
    simp only [hlen, npZeros_nat, bindE_ok, List.isEmpty_cons, Bool.false_eq_true, if_false,
      pySlice_dropLast]
    have hd : (ints (a :: t)).dropLast = ints (a :: t).dropLast := by simp [ints, List.map_dropLast]
    rw [hd]
    have h := takeE_dropLast_forPairs src "p1[p0[:-1]]" "src_array[spans[:-1]]" (a :: t)
    cases h1 : takeE src "p1[p0[:-1]]" (ints (a :: t).dropLast) with
    | error e =>
      obtain ⟨e', h2, ht⟩ : ∃ e', forPairs (fun cur _ => getE src cur "src_array[spans[:-1]]") (a :: t) = .error e' ∧
          e.tag = e'.tag := by
        rw [h1] at h
        cases h2 : forPairs (fun cur _ => getE src cur "src_array[spans[:-1]]") (a :: t) <;> simp_all [Sim]
      simp [h2, Sim, ht]
    | ok r =>
      have h2 := h.ok_left h1
      have hl := forPairs_length _ _ _ h2
      simp only [bindE_ok, h2]
      rw [setSliceE_all _ _ (by simp at hl ⊢; omega)]
      simp [Sim]

/-- with every span end positive (true of every well-formed span array) -/
theorem apply_spans_last_refines (sp : List Nat) (src : List Int) (hpos : ∀ x ∈ sp.tail, 0 < x) :
    Sim (apply_spans_last.run (ints sp) src none) (applySpansLast sp src) := by
  unfold apply_spans_last.run applySpansLast forSpans
  cases sp with
  | nil => simp [pyLen, npZeros, Sim]
  | cons a t =>
    have hlen : (pyLen (ints (a :: t)) - 1) = ((t.length : Nat) : Int) := by simp [pyLen]
    simp only [hlen, npZeros_nat, bindE_ok, List.isEmpty_cons, Bool.false_eq_true, if_false,
      pySlice_tail]
    have hd : (ints (a :: t)).tail = ints (a :: t).tail := by simp [ints]
    rw [hd]
    have h := takeE_tail_forPairs src "p1[p0]" "src_array[spans[1:] - 1]" (a :: t) hpos
    cases h1 : takeE src "p1[p0]" ((ints (a :: t).tail).map (· - 1)) with
    | error e =>
      obtain ⟨e', h2, ht⟩ : ∃ e', forPairs (fun _ next => getWrapE src ((next : Int) - 1) "src_array[spans[1:] - 1]") (a :: t)
          = .error e' ∧ e.tag = e'.tag := by
        rw [h1] at h
        cases h2 : forPairs (fun _ next => getWrapE src ((next : Int) - 1) "src_array[spans[1:] - 1]") (a :: t) <;>
          simp_all [Sim]
      simp [h2, Sim, ht]
    | ok r =>
      have h2 := h.ok_left h1
      have hl := forPairs_length _ _ _ h2
      simp only [bindE_ok, h2]
      rw [setSliceE_all _ _ (by simp at hl ⊢; omega)]
      simp [Sim]

end Exetera.GenK
