/-!
  C10 — DOC JoinFlat
-/
namespace Exetera.KernelPaths

/-- the legacy join helpers (C19): path condition of every subscript occurrence -/
def joinFlatPaths : List (String × List (String × List String)) := [
  ("chunks", []),
  ("ordered_map_valid_partial_old", [
    ("R data_field[val - d]", ["while True", "val != invalid", "not (val >= d + len(data_field))"]),
    ("R map_field[i]", ["while True"]),
    ("W result[i]", ["while True", "val != invalid", "not (val >= d + len(data_field))"])]),
  ("generate_ordered_map_to_left_right_unique_partial_old", [
    ("R left[i]", ["while i < len(left) and j < len(right)"]),
    ("R left[i]", ["while i < len(left) and j < len(right)", "not (left[i] < right[j])"]),
    ("R right[j]", ["while i < len(left) and j < len(right)"]),
    ("R right[j]", ["while i < len(left) and j < len(right)", "not (left[i] < right[j])"]),
    ("W left_to_right[i]", ["while i < len(left) and j < len(right)", "left[i] < right[j]"]),
    ("W left_to_right[i]", ["while i < len(left) and j < len(right)", "not (left[i] < right[j])", "not (left[i] > right[j])"])]),
  ("generate_ordered_map_to_left_right_unique", [
    ("R first[i + 1]", ["not (len(first) != len(result))", "while i < len(first) and j < len(second)", "not (first[i] < second[j])", "not (first[i] > second[j])", "not (i + 1 >= len(first))"]),
    ("R first[i]", ["not (len(first) != len(result))", "while i < len(first) and j < len(second)"]),
    ("R first[i]", ["not (len(first) != len(result))", "while i < len(first) and j < len(second)", "not (first[i] < second[j])"]),
    ("R first[i]", ["not (len(first) != len(result))", "while i < len(first) and j < len(second)", "not (first[i] < second[j])", "not (first[i] > second[j])", "not (i + 1 >= len(first))"]),
    ("R second[j]", ["not (len(first) != len(result))", "while i < len(first) and j < len(second)"]),
    ("R second[j]", ["not (len(first) != len(result))", "while i < len(first) and j < len(second)", "not (first[i] < second[j])"]),
    ("W result[i]", ["not (len(first) != len(result))", "while i < len(first)"]),
    ("W result[i]", ["not (len(first) != len(result))", "while i < len(first) and j < len(second)", "first[i] < second[j]"]),
    ("W result[i]", ["not (len(first) != len(result))", "while i < len(first) and j < len(second)", "not (first[i] < second[j])", "not (first[i] > second[j])"])]),
  ("generate_ordered_map_to_left_both_unique", [
    ("R first[i]", ["not (len(first) != len(result))", "while i < len(first) and j < len(second)"]),
    ("R first[i]", ["not (len(first) != len(result))", "while i < len(first) and j < len(second)", "not (first[i] < second[j])"]),
    ("R second[j]", ["not (len(first) != len(result))", "while i < len(first) and j < len(second)"]),
    ("R second[j]", ["not (len(first) != len(result))", "while i < len(first) and j < len(second)", "not (first[i] < second[j])"]),
    ("W result[i]", ["not (len(first) != len(result))", "while i < len(first)"]),
    ("W result[i]", ["not (len(first) != len(result))", "while i < len(first) and j < len(second)", "first[i] < second[j]"]),
    ("W result[i]", ["not (len(first) != len(result))", "while i < len(first) and j < len(second)", "not (first[i] < second[j])", "not (first[i] > second[j])"])]),
  ("ordered_inner_map_result_size", [
    ("R left[i + 1]", ["while i < len(left) and j < len(right)", "not (left[i] < right[j])", "not (left[i] > right[j])", "i + 1 < len(left)"]),
    ("R left[i]", ["while i < len(left) and j < len(right)"]),
    ("R left[i]", ["while i < len(left) and j < len(right)", "not (left[i] < right[j])"]),
    ("R left[i]", ["while i < len(left) and j < len(right)", "not (left[i] < right[j])", "not (left[i] > right[j])", "i + 1 < len(left)"]),
    ("R right[j + 1]", ["while i < len(left) and j < len(right)", "not (left[i] < right[j])", "not (left[i] > right[j])", "j + 1 < len(right)"]),
    ("R right[j]", ["while i < len(left) and j < len(right)"]),
    ("R right[j]", ["while i < len(left) and j < len(right)", "not (left[i] < right[j])"]),
    ("R right[j]", ["while i < len(left) and j < len(right)", "not (left[i] < right[j])", "not (left[i] > right[j])", "j + 1 < len(right)"])]),
  ("ordered_inner_map_both_unique", [
    ("R left[i]", ["while i < len(left) and j < len(right)"]),
    ("R left[i]", ["while i < len(left) and j < len(right)", "not (left[i] < right[j])"]),
    ("R right[j]", ["while i < len(left) and j < len(right)"]),
    ("R right[j]", ["while i < len(left) and j < len(right)", "not (left[i] < right[j])"]),
    ("W left_to_inner[cur_m]", ["while i < len(left) and j < len(right)", "not (left[i] < right[j])", "not (left[i] > right[j])"]),
    ("W right_to_inner[cur_m]", ["while i < len(left) and j < len(right)", "not (left[i] < right[j])", "not (left[i] > right[j])"])]),
  ("ordered_inner_map_left_unique", [
    ("R left[i]", ["while i < len(left) and j < len(right)"]),
    ("R left[i]", ["while i < len(left) and j < len(right)", "not (left[i] < right[j])"]),
    ("R right[cur_j + 1]", ["while i < len(left) and j < len(right)", "not (left[i] < right[j])", "not (left[i] > right[j])", "cur_j + 1 < len(right)"]),
    ("R right[cur_j]", ["while i < len(left) and j < len(right)", "not (left[i] < right[j])", "not (left[i] > right[j])", "cur_j + 1 < len(right)"]),
    ("R right[j]", ["while i < len(left) and j < len(right)"]),
    ("R right[j]", ["while i < len(left) and j < len(right)", "not (left[i] < right[j])"]),
    ("W left_to_inner[cur_m]", ["while i < len(left) and j < len(right)", "not (left[i] < right[j])", "not (left[i] > right[j])", "for jj in range(j, cur_j + 1)"]),
    ("W right_to_inner[cur_m]", ["while i < len(left) and j < len(right)", "not (left[i] < right[j])", "not (left[i] > right[j])", "for jj in range(j, cur_j + 1)"])]),
  ("ordered_inner_map", [
    ("R left[cur_i + 1]", ["while i < len(left) and j < len(right)", "not (left[i] < right[j])", "not (left[i] > right[j])", "cur_i + 1 < len(left)"]),
    ("R left[cur_i]", ["while i < len(left) and j < len(right)", "not (left[i] < right[j])", "not (left[i] > right[j])", "cur_i + 1 < len(left)"]),
    ("R left[i]", ["while i < len(left) and j < len(right)"]),
    ("R left[i]", ["while i < len(left) and j < len(right)", "not (left[i] < right[j])"]),
    ("R right[cur_j + 1]", ["while i < len(left) and j < len(right)", "not (left[i] < right[j])", "not (left[i] > right[j])", "cur_j + 1 < len(right)"]),
    ("R right[cur_j]", ["while i < len(left) and j < len(right)", "not (left[i] < right[j])", "not (left[i] > right[j])", "cur_j + 1 < len(right)"]),
    ("R right[j]", ["while i < len(left) and j < len(right)"]),
    ("R right[j]", ["while i < len(left) and j < len(right)", "not (left[i] < right[j])"]),
    ("W left_to_inner[cur_m]", ["while i < len(left) and j < len(right)", "not (left[i] < right[j])", "not (left[i] > right[j])", "for ii in range(i, cur_i + 1)", "for jj in range(j, cur_j + 1)"]),
    ("W right_to_inner[cur_m]", ["while i < len(left) and j < len(right)", "not (left[i] < right[j])", "not (left[i] > right[j])", "for ii in range(i, cur_i + 1)", "for jj in range(j, cur_j + 1)"])])
]

end Exetera.KernelPaths
