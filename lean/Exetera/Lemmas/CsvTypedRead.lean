import Exetera.Lemmas.CsvTyped
import Exetera.Lemmas.CsvReadCsvG
/-! `read_csv_with_schema_dict` with a schema of typed columns: the budgets it computes from the importer definitions'
    `_field_size` are ≥ 1, the importers it builds are the family `typedF`, so `readFile_hom` applies (C05 ∘ C06). -/
namespace Exetera.Csv
open Exetera Spec Exetera.Transforms Exetera.Spec.Transforms

/-- a freshly built importer has consumed nothing -/
theorem typedSpec_nil (k : FieldKind) : typedSpec k [] = some { kind := k } := by
  cases k with
  | numeric p mode it iv => cases mode <;> simp [typedSpec, numericColumn]
  | indexed => simp [typedSpec, fieldOf', indexOf, bytesOf, offsetsFrom]
  | leaky cats => simp [typedSpec, offsets]
  | bool mode invalid => simp [typedSpec, numericColumn]
  | datetime => simp [typedSpec, timeColumn, cellsMapE, Except.toOption]
  | date => simp [typedSpec, timeColumn, cellsMapE, Except.toOption]
  | fixed n => simp [typedSpec]
  | categorical cats => simp [typedSpec, catColumn]

/-- the kind of file column `c` under a schema (columns missing from the schema are indexed strings) -/
def kindAt (names : List String) (schema : List (String × FieldKind)) (c : Nat) : FieldKind :=
  kindOf schema (names.getD c "")

theorem kindAt_idxOf (names : List String) (schema : List (String × FieldKind)) (k : String) (hk : k ∈ names) :
    kindAt names schema (names.idxOf k) = kindOf schema k := by
  have hlt : names.idxOf k < names.length := List.idxOf_lt_length_of_mem hk
  simp [kindAt, List.getD, List.getElem?_eq_getElem hlt, List.getElem_idxOf hlt]

/-- the value budgets `read_csv_with_schema_dict` starts with for a schema -/
def schemaOffsets (names : List String) (schema : List (String × FieldKind)) (crs : Nat) : List Nat :=
  columnOffsets (names.map (fun k => (kindOf schema k).fieldSize)) crs

theorem readCsv_typed {file : Bytes} {crs ncols : Nat} {hrow : List Cell} {rows : List (List Cell)}
    (names : List String) (schema : List (String × FieldKind)) (incl excl : Option (List String))
    (hnames : names.length = ncols)
    (hincl : ∀ l, incl = some l → ∀ k ∈ l, k ∈ names) (hexcl : ∀ l, excl = some l → ∀ k ∈ l, k ∈ names)
    (hisFile : IsFile file (render (hrow :: rows))) (hfile : file ≠ [])
    (hhdr : hrow.length = ncols ∧ ∀ c ∈ hrow, c.WF) (htab : ∀ r ∈ rows, r.length = ncols ∧ ∀ c ∈ r, c.WF)
    (hnc : 0 < ncols) (hcrs : 0 < crs)
    (hreg : ∀ l ∈ hrow :: rows, (renderCells l).length ≤ crs * Gen.Csv.CHUNK_ROW_FACTOR * ncols)
    (hkinds : ∀ k ∈ names, KindOK (kindOf schema k))
    (hok : ∀ k ∈ fieldsToUse names incl excl, ∀ cell ∈ column (values rows) (names.idxOf k),
      cellOK (kindOf schema k) cell)
    (fuel : Nat)
    (hfuel : rows.length + 2 +
      regrowthBound rows ncols (schemaOffsets names schema crs) (crs * Gen.Csv.CHUNK_ROW_FACTOR) ≤ fuel) :
    readCsv file names schema incl excl crs fuel =
      .ok ⟨rows.length, (fieldsToUse names incl excl).map
        (fun k => ⟨k, typedF (kindAt names schema) (names.idxOf k) (column (values rows) (names.idxOf k))⟩)⟩ := by
  generalize hsz : names.map (fun k => (kindOf schema k).fieldSize) = sizes at hfuel
  have hszlen : sizes.length = ncols := by rw [← hsz]; simp [hnames]
  have hoffs : schemaOffsets names schema crs = offsRec crs 0 sizes := by
    unfold schemaOffsets; rw [hsz, columnOffsets_eq]
  rw [hoffs] at hfuel
  have hstep : ∀ c, c < ncols → offAt (offsRec crs 0 sizes) c < offAt (offsRec crs 0 sizes) (c + 1) := by
    intro c hc
    rw [offsRec_step crs sizes 0 c (by omega)]
    have : 0 < max (sizes.getD c 0) 1 * crs := Nat.mul_pos (by omega) hcrs
    omega
  have huse : ∀ k ∈ fieldsToUse names incl excl, k ∈ names := by
    intro k hk
    unfold fieldsToUse at hk
    cases incl <;> cases excl <;> simp [List.mem_filter] at hk <;> first | exact hk | exact hk.1 | exact hk.1.1
  have st : SettingR file crs ncols ((fieldsToUse names incl excl).map (fun k => names.idxOf k)) hrow rows :=
    { isFile := hisFile, hdr := hhdr, tab := htab, nc := hnc, crsPos := hcrs, reg := hreg
      imOk := by
        intro c hc
        simp only [List.mem_map] at hc
        obtain ⟨k, hk, rfl⟩ := hc
        rw [← hnames]
        exact List.idxOf_lt_length_of_mem (huse k hk) }
  have hhom : ImpHom ncols (typedF (kindAt names schema)) (fun c => cellOK (kindAt names schema c)) := by
    apply impHom_typed
    intro c hc
    apply hkinds
    have hlt : c < names.length := by omega
    simp [List.getD, List.getElem?_eq_getElem hlt]
  have hgood : ∀ c ∈ (fieldsToUse names incl excl).map (fun k => names.idxOf k),
      ∀ cell ∈ column (values rows) c, cellOK (kindAt names schema c) cell := by
    intro c hc
    simp only [List.mem_map] at hc
    obtain ⟨k, hk, rfl⟩ := hc
    rw [kindAt_idxOf names schema k (huse k hk)]
    exact hok k hk
  obtain ⟨calls, hrf⟩ := readFile_hom (offs := offsRec crs 0 sizes) st hfile hhom hgood
    (by rw [offsRec_length, hszlen]) (offsRec_zero _ _ _) hstep fuel hfuel
  have himps : (fieldsToUse names incl excl).map (fun k => ({ kind := kindOf schema k } : Imp)) =
      ((fieldsToUse names incl excl).map (fun k => names.idxOf k)).map (fun c => typedF (kindAt names schema) c []) := by
    rw [List.map_map]
    apply List.map_congr_left
    intro k hk
    simp [typedF, typedSpec_nil, kindAt_idxOf names schema k (huse k hk)]
  have hbi : unknownName names incl = false := by
    cases incl with
    | none => rfl
    | some l => exact any_not_contains_false names l (hincl l rfl)
  have hbe : unknownName names excl = false := by
    cases excl with
    | none => rfl
    | some l => exact any_not_contains_false names l (hexcl l rfl)
  have hoffs' : columnOffsets (names.map (fun k => (kindOf schema k).fieldSize)) crs = offsRec crs 0 sizes := hoffs
  unfold readCsv
  simp only [hbi, hbe, Bool.false_eq_true, if_false, hoffs', himps, hnames, hrf]
  congr 2
  rw [List.map_map]
  exact zip_map_self (fieldsToUse names incl excl) _ (fun k i => (⟨k, i⟩ : Field))

end Exetera.Csv
