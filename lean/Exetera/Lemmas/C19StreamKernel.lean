import Exetera.Lemmas.JoinFlatSession
/-!
  C19, legacy streamed left map, part 1: the invariant of the re-slicing driver
  `generate_ordered_map_to_left_right_unique_streamed_old` and the kernel `…_partial_old` run on the driver's current
  views `lc = left[i:lc_range[1]]`, `rc = right[j:rc_range[1]]`.

  Positions are global: the kernel's local `(p.i, p.j)` stand for `(s.i + p.i, s.j + p.j)`; what the kernel has put into
  the scratch buffer, appended to what the driver has written, is the right column of the relational left join of the
  left rows consumed so far.
-/
namespace Exetera.JoinOld
open Exetera Exetera.Spec Exetera.Join Exetera.JoinFlat

theorem slice_drop {α} (xs : List α) (a b k : Nat) : (slice xs a b).drop k = slice xs (a + k) b := by
  simp only [slice, List.drop_take, List.drop_drop]
  congr 1
  omega

/-- invariant of the driver loop: the views are the unconsumed parts of the current chunks, the generators stand at the
    chunk ends, a chunk is never longer than the scratch buffer, and `out` is the join of the consumed left rows -/
structure SInv (L R : List Int) (cs : Nat) (inv : Int) (s : SO) : Prop where
  ilh : s.i ≤ s.lhi
  lhl : s.lhi ≤ L.length
  lcur : s.lcur = s.lhi
  lc : s.lc = slice L s.i s.lhi
  lne : s.i < s.lhi ∨ s.i = L.length
  lcs : s.lhi ≤ s.i + cs
  jrh : s.j ≤ s.rhi
  rhl : s.rhi ≤ R.length
  rcur : s.rcur = s.rhi
  rc : s.rc = slice R s.j s.rhi
  rne : s.j < s.rhi ∨ s.j = R.length
  rcs : s.rhi ≤ s.j + cs
  olen : s.out.length = s.i
  out : s.out ++ encR inv (rest L R s.i) = encR inv (leftJoin L R)
  below : Below L R s.i s.j

theorem SInv.lc_length {L R : List Int} {cs : Nat} {inv : Int} {s : SO} (h : SInv L R cs inv s) :
    s.lc.length = s.lhi - s.i := by
  have := h.lhl
  rw [h.lc, slice_length]
  omega

theorem SInv.rc_length {L R : List Int} {cs : Nat} {inv : Int} {s : SO} (h : SInv L R cs inv s) :
    s.rc.length = s.rhi - s.j := by
  have := h.rhl
  rw [h.rc, slice_length]
  omega

theorem SInv.lc_get {L R : List Int} {cs : Nat} {inv : Int} {s : SO} (h : SInv L R cs inv s) (k : Nat)
    (hk : k < s.lhi - s.i) : s.lc[k]? = L[s.i + k]? := by
  rw [h.lc]
  exact slice_getElem? L s.i s.lhi k hk

theorem SInv.rc_get {L R : List Int} {cs : Nat} {inv : Int} {s : SO} (h : SInv L R cs inv s) (k : Nat)
    (hk : k < s.rhi - s.j) : s.rc[k]? = R[s.j + k]? := by
  rw [h.rc]
  exact slice_getElem? R s.j s.rhi k hk

/-- invariant of one `…_partial_old` call on the views of driver state `s` -/
structure KInv (L R : List Int) (inv : Int) (s : SO) (p : PO) : Prop where
  ile : p.i ≤ s.lc.length
  jle : p.j ≤ s.rc.length
  blen : p.buf.length = p.i
  out : s.out ++ p.buf ++ encR inv (rest L R (s.i + p.i)) = encR inv (leftJoin L R)
  below : Below L R (s.i + p.i) (s.j + p.j)

def kmu (s : SO) (p : PO) : Nat := (s.lc.length - p.i) + (s.rc.length - p.j)

theorem partialOldBody_step {L R : List Int} {cs : Nat} {inv : Int} {s : SO} {p : PO} (hL : Sorted L)
    (hR : R.Pairwise (· < ·)) (hS : SInv L R cs inv s) (hK : KInv L R inv s p)
    (hg : (decide (p.i < s.lc.length) && decide (p.j < s.rc.length)) = true) :
    ∃ p', partialOldBody s.j s.lc s.rc cs inv p = .ok p' ∧ KInv L R inv s p' ∧ kmu s p' < kmu s p := by
  simp only [Bool.and_eq_true, decide_eq_true_eq] at hg
  obtain ⟨hi, hj⟩ := hg
  have hll := hS.lc_length
  have hrl := hS.rc_length
  have h1 := hS.lhl
  have h2 := hS.rhl
  have h3 := hS.lcs
  have hI : s.i + p.i < L.length := by omega
  have hJ : s.j + p.j < R.length := by omega
  have ha : L[s.i + p.i]? = some L[s.i + p.i] := get?_some_of_lt hI
  have hb : R[s.j + p.j]? = some R[s.j + p.j] := get?_some_of_lt hJ
  have hga : getE s.lc p.i "left[i]" = .ok L[s.i + p.i] :=
    getE_eq_ok.mpr (by rw [hS.lc_get p.i (by omega)]; exact ha)
  have hgb : getE s.rc p.j "right[j]" = .ok R[s.j + p.j] :=
    getE_eq_ok.mpr (by rw [hS.rc_get p.j (by omega)]; exact hb)
  have hcap : p.i < cs := by omega
  have hout := hK.out
  have hbl := hK.blen
  simp only [partialOldBody, hga, hgb, hcap, if_true]
  by_cases hlt : L[s.i + p.i] < R[s.j + p.j]
  · simp only [hlt, if_true]
    refine ⟨_, rfl, ⟨by simp only []; omega, hK.jle, by simp [hbl], ?_, ?_⟩, by simp only [kmu]; omega⟩
    · have hr := rest_unmatched (RU.sorted_of_strict hR) hK.below ha (by omega)
        (fun b hb' => by rw [hb] at hb'; cases hb'; exact hlt)
      rw [hr, encR_cons_none] at hout
      simpa [Nat.add_assoc] using hout
    · have := Below.step_left hL hK.below
      simpa [Nat.add_assoc] using this
  · simp only [hlt, if_false]
    by_cases hgt : L[s.i + p.i] > R[s.j + p.j]
    · simp only [hgt, if_true]
      refine ⟨_, rfl, ⟨hK.ile, by simp only []; omega, hbl, hout, ?_⟩, by simp only [kmu]; omega⟩
      have := Below.step_right hK.below (fun a b ha' hb' => by
        rw [ha] at ha'; rw [hb] at hb'; cases ha'; cases hb'; exact hgt)
      simpa [Nat.add_assoc] using this
    · simp only [hgt, if_false]
      have heq : R[s.j + p.j] = L[s.i + p.i] := by omega
      have hb' : R[s.j + p.j]? = some L[s.i + p.i] := by rw [hb, heq]
      have hr := rest_matched_unique hR hK.below ha hb'
      rw [hr, encR_cons_some] at hout
      refine ⟨_, rfl, ⟨by simp only []; omega, hK.jle, by simp [hbl], ?_, ?_⟩, by simp only [kmu]; omega⟩
      · have e : ((p.j + s.j : Nat) : Int) = ((s.j + p.j : Nat) : Int) := by rw [Nat.add_comm]
        simp only [e]
        simpa [Nat.add_assoc] using hout
      · have := Below.step_left hL hK.below
        simpa [Nat.add_assoc] using this

/-- **one `…_partial_old` call**: no out-of-bounds access, ends within its fuel with one of the two views consumed, and
    scratch buffer + driver output is the join of the consumed left rows -/
theorem runPartialOld_spec {L R : List Int} {cs : Nat} {inv : Int} {s : SO} (hL : Sorted L) (hR : R.Pairwise (· < ·))
    (hS : SInv L R cs inv s) :
    ∃ p, runPartialOld s.j s.lc s.rc cs inv = .ok p ∧ KInv L R inv s p ∧
      (p.i = s.lc.length ∨ p.j = s.rc.length) := by
  have h0 : KInv L R inv s ({} : PO) :=
    ⟨Nat.zero_le _, Nat.zero_le _, rfl, by simpa using hS.out, by simpa using hS.below⟩
  obtain ⟨p, hw, hK, hg⟩ := whileE_rule (fun p : PO => decide (p.i < s.lc.length) && decide (p.j < s.rc.length))
    (partialOldBody s.j s.lc s.rc cs inv) (KInv L R inv s) (kmu s)
    (fun p hK hg => partialOldBody_step hL hR hS hK hg) (s.lc.length + s.rc.length) {} h0 (by simp [kmu])
  refine ⟨p, hw, hK, ?_⟩
  have h1 := hK.ile
  have h2 := hK.jle
  simp only [Bool.and_eq_false_iff, decide_eq_false_iff_not] at hg
  omega

end Exetera.JoinOld
