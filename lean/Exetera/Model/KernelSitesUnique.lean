/-!
  C10 — access sites of the compiled `isin` / `unique` kernels of indexed strings that `Model/Unique.lean` models
  (owning property C14), frozen from the source the model was written against. `Props/C10/Unique.lean` proves that the
  shapes regenerated from the CURRENT source (`Gen/KernelShape.lean`) are these.

  Model ↔ site map:
  * `compare_arrays`: `a[i]`, `b[i]` = the two `getE` of `compareLoop` (`"compare_arrays:a[i]"`, `"compare_arrays:b[i]"`).
  * `isin_indexed_string_speedup`: `indices[i]`, `indices[i + 1]` = the two `getE` of `isinLoop`;
    `values[indices[i]:indices[i + 1]]` = `slice` (clamps); `test_elements[mid]` = the `mid < 0` test plus `getE` of
    `bsBody`; `result[i]` = the capacity check `i < cap` of `isinLoop` (`cap = len(indices) - 1`, the size the kernel
    allocates).
  * `get_indexed_string_unique`: `indices[i + 1]`, `indices[i]` = the two `getE` of `uniqueStep`;
    `values[indices[i]:indices[i + 1]]` = `slice`; `unique_counts[j] += 1` = `getE c j "unique:unique_counts[j]"`
    followed by `c.set j` (the same `j`, so the write is in range when the read is).
-/
namespace Exetera.KernelSites

/-- the isin / unique kernels of indexed strings (C14) -/
def uniqueSites : List (String × List String × List String) := [
  ("get_indexed_string_unique",
    ["for (j, unique_v) in enumerate(unique_result)", "for i in range(0, len(indices) - 1)"],
    ["R indices[i + 1]", "R indices[i]", "R values[indices[i]:indices[i + 1]]", "W unique_counts[j]"]),
  ("isin_indexed_string_speedup",
    ["for i in range(len(indices) - 1)", "while start <= end"],
    ["R indices[i + 1]", "R indices[i]", "R test_elements[mid]", "R values[indices[i]:indices[i + 1]]", "W result[i]"]),
  ("compare_arrays",
    ["for i in range(min(a.size, b.size))"],
    ["R a[i]", "R b[i]"])
]


end Exetera.KernelSites
