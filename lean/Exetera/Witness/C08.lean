import Exetera.Model.Spans
import Exetera.Spec.Spans
namespace Exetera.Witness.C08
end Exetera.Witness.C08
