import Exetera.Props.C04
import Exetera.Props.C05
import Exetera.Props.C08
import Exetera.Props.C09
import Exetera.Props.C16
import Exetera.Props.C17
import Exetera.Lemmas.RangeOffsets
/-!
# C11 — range lemmas for the kernels that compute indices and offsets (beyond the join maps of `Props/C11.lean`)

The models compute over unbounded `Int`/`Nat`; the compiled kernels store the same quantities into `int32`/`int64` arrays. Each
`range_safe_<kernel>` lemma derives, from the owning property's functional theorem (result = specification), that every STORED
value is a row number below the row count, or an offset between 0 and the number of bytes of the destination (or the kernel's
own marker) — so for row counts below 2^31 (int32 span/map arrays) resp. row and byte counts below 2^63 (int64 offsets) no
fixed-width wrap-around can occur, and JIT and interpreter, which differ in the model only by wrap-around, agree.
`FitsInt32`/`FitsInt64` are the value ranges of the numpy dtypes (`Lemmas/RangeOffsets.lean`).
Intermediate quantities of the kernels are differences of two stored offsets or of two row numbers of one window, hence bounded
by the same counts; buffer positions (`ri`, `rv`, `d_index_i`, …) are bounded by the buffer capacities because every write in
the models is a checked access (an `.ok` result excludes an overrun).
-/
namespace Exetera.Props.C11
open Exetera

/-! ## map-valid (C04) -/
section MapValid
open Exetera.MapValid Exetera.Spec

/-- **range_safe_map_indexed.** `ordered_map_valid_indexed_stream`: every offset written to the destination's `indices`
    (each is a value `ri_accum` took) lies between 0 and the number of bytes written to the destination's `values`; with fewer
    than 2^63 destination bytes they all fit int64. -/
theorem range_safe_map_indexed {β} (indices : List Int) (values : List β) (m : List Int) (inv : Int) (cs vf : Nat)
    (hok : IndexedOK indices values) (hcs : 1 ≤ cs) (hr : InRange (entries indices values).length m inv)
    (hcap : ∀ (r : Nat) (k : Int) (x : List β), m[r]? = some k → k ≠ inv →
      (entries indices values)[k.toNat]? = some x → x.length ≤ cs * vf) :
    ∃ out, orderedMapValidIndexedStream indices values m inv cs vf = .ok out ∧
      (∀ x ∈ out.1, 0 ≤ x ∧ x ≤ (out.2.length : Int)) ∧
      (out.2.length < 2 ^ 63 → ∀ x ∈ out.1, FitsInt64 x) := by
  obtain ⟨out, hrun, hspec⟩ := C04.map_indexed_stream_eq_any indices values m inv cs vf hok hcs hr hcap
  simp only [mapIndexedSpec, Option.map_eq_some_iff] at hspec
  obtain ⟨es, _, rfl⟩ := hspec
  have hrange : ∀ x ∈ (encodeIndexed es).1, 0 ≤ x ∧ x ≤ ((encodeIndexed es).2.length : Int) := by
    intro x hx
    have := offsetsFromI_range es 0 x hx
    simp only [encodeIndexed]
    omega
  exact ⟨_, hrun, hrange, fun hn x hx => FitsInt64.of_bounds (hrange x hx).1 (hrange x hx).2 hn⟩

/-- **range_safe_map_window.** The subscript `map[sm] - d_start` that `ordered_map_valid_partial` computes: inside every
    piece of the splitter, a later valid entry minus an earlier one lies in `[0, chunksize)` — it is an index into the source
    window of at most `chunksize` elements, whatever the marker and however large the row numbers themselves are. -/
theorem range_safe_map_window (m : List Int) (inv : Int) (cs : Nat) (hcs : 1 ≤ cs) :
    ∃ subs, subchunks m inv cs = .ok subs ∧
      ∀ t ∈ subs, ∀ (p q : Nat) (a b : Int), t.1 ≤ p → p ≤ q → q < t.2 → m[p]? = some a → m[q]? = some b →
        a ≠ inv → b ≠ inv → 0 ≤ b - a ∧ b - a < cs := by
  obtain ⟨subs, h1, _, hord⟩ := C04.subchunk_entries_ordered m inv cs hcs
  obtain ⟨subs', h1', _, hmade⟩ := subchunks_made m inv cs hcs
  rw [h1] at h1'
  cases h1'
  refine ⟨subs, h1, ?_⟩
  intro t ht p q a b hp hpq hq hpa hqb ha hb
  refine ⟨by have := hord t ht p q a b hp hpq hq hpa hqb ha hb; omega, ?_⟩
  have hq2 := hq
  rw [hmade t ht] at hq2
  exact nextMapSubchunk_span m t.1 inv cs p q a b hp (by omega) (by omega) hq2 hpa hqb ha hb

-- non-vacuity: the NC02a witness map (not ordered), chunk size 2; several value sub-chunks in the indexed stream
example : subchunks [0, 1, 2, 0, 1, 2] INVALID_INDEX_64 2 = .ok [(0, 2), (2, 3), (3, 5), (5, 6)] := by rfl
example : orderedMapValidIndexedStream [0, 1, 3, 6, 10] [1, 2, 2, 3, 3, 3, 4, 4, 4, (4 : Int)] [0, 1, -1, 2, 2, 3] (-1) 2 2
    = .ok ([0, 1, 3, 3, 6, 9, 13], [1, 2, 2, 3, 3, 3, 3, 3, 3, 4, 4, 4, 4]) := by rfl

end MapValid

/-! ## span kernels (C08) -/
section Spans
open Exetera.Spans Exetera.Spec

/-- **range_safe_spans.** Every value `get_spans_for_field` stores is a row position `≤` the row count: with fewer than 2^31
    rows the span array fits int32, with fewer than 2^63 rows int64. -/
theorem range_safe_spans {α} (ne : α → α → Bool) (xs : List α) :
    (∀ x ∈ getSpansForField ne xs, x ≤ xs.length) ∧
    (xs.length < 2 ^ 31 → ∀ x ∈ getSpansForField ne xs, FitsInt32 (x : Int)) ∧
    (xs.length < 2 ^ 63 → ∀ x ∈ getSpansForField ne xs, FitsInt64 (x : Int)) := by
  have h : ∀ x ∈ getSpansForField ne xs, x ≤ xs.length := by
    intro x hx
    rw [C08.get_spans_for_field_eq_spec] at hx
    exact le_getLast_of_pairwise' _ _ (spans_pairwise ne xs) (spans_getLast ne xs) x hx
  exact ⟨h, fun hn x hx => FitsInt32.of_nat_le (h x hx) hn, fun hn x hx => FitsInt64.of_nat_le (h x hx) hn⟩

/-- **range_safe_spans_int32** (`C08.span_values_fit_int32` lifted): whenever one of the three entry points CHOOSES int32 for
    the span array (threshold `INT64_INDEX_LENGTH = 2^31 - 1`), every stored value fits int32. -/
theorem range_safe_spans_int32 {α} (ne : α → α → Bool) (xs : List α)
    (hd : spanDtypeField INT64_INDEX_LENGTH xs.length = .i32 ∨ spanDtype2 INT64_INDEX_LENGTH xs.length xs.length = .i32 ∨
      spanDtypeMulti INT64_INDEX_LENGTH xs.length = .i32) :
    ∀ x ∈ getSpansForField ne xs, FitsInt32 (x : Int) := by
  intro x hx
  rw [C08.get_spans_for_field_eq_spec] at hx
  have := C08.span_values_fit_int32 ne xs hd x hx
  unfold FitsInt32
  omega

example : getSpansForField (fun (a b : Int) => a != b) [1, 2, 2, 1, 1, 1, 3] = [0, 1, 3, 6, 7] ∧
    spanDtypeField INT64_INDEX_LENGTH 7 = .i32 := by decide

end Spans

/-! ## filter / re-index of indexed strings (C09) -/
section FilterIndex
open Exetera.FilterIndex Exetera.Spec

/-- **range_safe_filter_indexed.** `apply_filter_to_index_values`: every offset stored in the destination index is between 0
    and the number of destination bytes, which is at most the number of source bytes. -/
theorem range_safe_filter_indexed (v : Variant) (es : List (List Nat)) (flt : List Bool) (h : flt.length = es.length) :
    ∃ out, applyFilterToIndexValues v flt (offsetsF es) es.flatten = .ok out ∧
      (∀ x ∈ out.1, x ≤ out.2.length) ∧ out.2.length ≤ es.flatten.length ∧
      (es.flatten.length < 2 ^ 63 → ∀ x ∈ out.1, FitsInt64 (x : Int)) := by
  refine ⟨_, C09.filter_indexed_eq v es flt h, ?_, ?_, ?_⟩
  · intro x hx
    have := offsetsFromF_range (filterBy flt es) 0 x hx
    show x ≤ (filterBy flt es).flatten.length
    omega
  · exact sublist_flatten_length_le (C09.filter_subset flt es)
  · intro hn x hx
    have h1 := offsetsFromF_range (filterBy flt es) 0 x hx
    have h2 := sublist_flatten_length_le (C09.filter_subset flt es)
    exact FitsInt64.of_nat_le (n := es.flatten.length) (by omega) hn

/-- **range_safe_index_indexed.** `apply_indices_to_index_values`: every offset stored in the destination index is between 0
    and the number of destination bytes (the gathered rows may repeat source rows, so the bound is the destination's size). -/
theorem range_safe_index_indexed (v : Variant) (es : List (List Nat)) (idx : List Int) (rows : List (List Nat))
    (h : gather es idx = some rows) :
    ∃ out, applyIndicesToIndexValues v idx (offsetsF es) es.flatten = .ok out ∧
      (∀ x ∈ out.1, x ≤ out.2.length) ∧ (out.2.length < 2 ^ 63 → ∀ x ∈ out.1, FitsInt64 (x : Int)) := by
  refine ⟨_, C09.index_indexed_eq v es idx rows h, ?_, ?_⟩
  · intro x hx
    have := offsetsFromF_range rows 0 x hx
    show x ≤ rows.flatten.length
    omega
  · intro hn x hx
    have h1 := offsetsFromF_range rows 0 x hx
    exact FitsInt64.of_nat_le (n := rows.flatten.length) (by omega) hn

example : applyFilterToIndexValues .repaired [true, false, true, true] (offsetsF [[97], [], [99, 99, 99], [100, 195, 169]])
    [97, 99, 99, 99, 100, 195, 169] = .ok ([0, 1, 4, 7], [97, 99, 99, 99, 100, 195, 169]) := by rfl
example : gather [[97], [], [99, 99]] [2, -3, 1, 2] = some [[99, 99], [97], [], [99, 99]] := by decide

end FilterIndex

/-! ## span concatenation (C16) -/
section Concat
open Exetera.Concat Exetera.Spec.CsvLine
variable {α : Type} [DecidableEq α]

/-- **range_safe_concat.** `Session.apply_spans_concat`: every offset stored in `dest.indices` (`d_index_v + dest_start_v`)
    is at most the number of bytes stored in `dest.values`. -/
theorem range_safe_concat (sep delim : α) (entries : List (List α)) (spans : List Nat) (srcChunk destChunk mult : Nat)
    (hbound : ∀ p ∈ spans, p ≤ entries.length) (hsc : 1 ≤ srcChunk) :
    ∃ d, applySpansConcat .repaired sep delim spans (offsets entries) entries.flatten srcChunk destChunk mult = .ok d ∧
      (∀ x ∈ d.indices, x ≤ d.values.length) ∧ (d.values.length < 2 ^ 63 → ∀ x ∈ d.indices, FitsInt64 (x : Int)) := by
  refine ⟨_, C16.concat_eq_spec sep delim entries spans srcChunk destChunk mult hbound hsc, ?_, ?_⟩
  · exact csvLine_storedIndices_range _
  · intro hn x hx
    exact FitsInt64.of_nat_le (csvLine_storedIndices_range _ x hx) hn

example : applySpansConcat .repaired (44 : Nat) 34 [0, 1, 4, 5] (offsets C16.exEntries) C16.exEntries.flatten 1 1 1
      = .ok ⟨[0, 1, 13, 15], [97, 34, 98, 44, 99, 34, 44, 34, 100, 34, 34, 101, 34, 195, 169]⟩ := by decide

end Concat

/-! ## journalling indices (C17) -/
section Journal
open Exetera.Journal Exetera.Spec.Journal

/-- **range_safe_journal_indices.** `ordered_generate_journalling_indices` on ascending old keys and a sorted, duplicate-free
    snapshot: every entry of the old map is `-1` or a row number of the old table, every entry of the new map is `-1` or a row
    number of the snapshot. -/
theorem range_safe_journal_indices {old new : List Int} (hso : old.Pairwise (· ≤ ·)) (hsn : new.Pairwise (· < ·)) :
    ∃ om nm, journalIndices old new = .ok (om, nm) ∧
      (∀ x ∈ om, x = -1 ∨ (0 ≤ x ∧ x < old.length)) ∧ (∀ x ∈ nm, x = -1 ∨ (0 ≤ x ∧ x < new.length)) ∧
      (old.length < 2 ^ 63 → new.length < 2 ^ 63 → ∀ x ∈ om ++ nm, FitsInt64 x) := by
  have hidx : ∀ (k : Int) (xs : List Int) (o : Option Nat), (∀ r, o = some r → r ∈ positions k xs) →
      idxOr o = -1 ∨ (0 ≤ idxOr o ∧ idxOr o < xs.length) := by
    intro k xs o ho
    cases o with
    | none => left; rfl
    | some r =>
      right
      have := positions_lt (ho r rfl)
      simp only [idxOr]; omega
  have h1 : ∀ x ∈ (indices old new).1, x = -1 ∨ (0 ≤ x ∧ x < old.length) := by
    intro x hx
    simp only [indices, List.mem_map] at hx
    obtain ⟨k, _, rfl⟩ := hx
    exact hidx k old _ (fun r hr => List.mem_of_getLast? hr)
  have h2 : ∀ x ∈ (indices old new).2, x = -1 ∨ (0 ≤ x ∧ x < new.length) := by
    intro x hx
    simp only [indices, List.mem_map] at hx
    obtain ⟨k, _, rfl⟩ := hx
    exact hidx k new _ (fun r hr => List.mem_of_head? hr)
  refine ⟨_, _, C17.journal_indices_spec hso hsn, h1, h2, ?_⟩
  intro ho hn x hx
  unfold FitsInt64
  rcases List.mem_append.mp hx with hx | hx
  · rcases h1 x hx with h | h <;> omega
  · rcases h2 x hx with h | h <;> omega

example : journalIndices [0, 0, 0, 1, 1, 2, 3, 3, 5, 5, 5] [0, 2, 3, 4, 5, 6] =
    .ok ([2, 4, 5, 7, -1, 10, -1], [0, -1, 1, 2, 3, 4, 5]) := by rfl

end Journal

/-! ## CSV column offsets (C05) -/
section Csv
open Exetera.Csv Exetera.Csv.Spec

/- FULL STATEMENT (not proved): the same for every supported file, including runs with regrowth of the staging buffers.
   Missing: C05's driver theorem without its two no-regrowth hypotheses. -/
/-- **range_safe_csv_offsets_partial.** `read_file_using_fast_csv_reader` (supported regime, no regrowth — the hypotheses of
    C05's driver theorem): in every imported indexed-string field every stored offset is at most the number of bytes stored
    in the field's `values`, and the row count is the number of records. -/
theorem range_safe_csv_offsets_partial {file : List Nat} {crs ncols : Nat} {offs : List Nat} {hrow : List Cell}
    {rows : List (List Cell)} (h : C05.Supported file crs ncols offs hrow rows) (im : List Nat) (him : ∀ c ∈ im, c < ncols)
    (fuel : Nat) (hfuel : rows.length + 2 ≤ fuel) :
    ∃ o, readFile file crs ncols offs im (im.map (fun _ => ({ kind := .indexed } : Imp))) fuel = .ok o ∧
      o.rows = rows.length ∧ (∀ f ∈ o.imps, ∀ x ∈ f.idx, x ≤ f.vals.length) ∧
      (∀ f ∈ o.imps, f.vals.length < 2 ^ 63 → ∀ x ∈ f.idx, FitsInt64 (x : Int)) := by
  obtain ⟨calls, hrun⟩ := C05.window_chunking_unobservable_partial h im him fuel hfuel
  have hr : ∀ f ∈ im.map (fun c => fieldOf (column (values rows) c)), ∀ x ∈ f.idx, x ≤ f.vals.length := by
    intro f hf x hx
    simp only [List.mem_map] at hf
    obtain ⟨c, _, rfl⟩ := hf
    simp only [fieldOf, indexOf, bytesOf] at hx ⊢
    have := csv_offsetsFrom_range _ 0 x hx
    omega
  exact ⟨_, hrun, rfl, hr, fun f hf hn x hx => FitsInt64.of_nat_le (hr f hf x hx) hn⟩

end Csv

end Exetera.Props.C11
