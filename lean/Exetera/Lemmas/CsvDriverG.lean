import Exetera.Lemmas.CsvLines
import Exetera.Lemmas.CsvKernelG
/-! `read_file_using_fast_csv_reader` with regrowth (C05): the driver iteration split at the kernel call, the driver invariant
    that allows enlarged buffers and a resumed window, and the text of the window the driver holds. -/
namespace Exetera.Csv
open Exetera Spec

/-- the part of a driver iteration that follows the kernel call (a copy of the text of `driverStep`) -/
def afterKernel (ncols : Nat) (indexMap : List Nat) (s : DS) (content : Bytes) (start : Nat) (o : KOut) : Except Err DS :=
  if o.written < 0 then .error (.valueError "no complete record in window")
  else
    match importAll o.inds o.vals s.offs o.written.toNat indexMap s.imps with
    | .error e => .error e
    | .ok imps =>
      let inds := if o.indsFull then zeros2 ncols (((o.inds.headD []).length - 1) * Gen.Csv.LARGER_FACTOR + 1) else o.inds
      let grow := o.valsFull && o.vfc.isSome
      let c := o.vfc.getD 0
      match (if grow then getE s.offs c "column_offsets[val_full_col_idx]" else .ok 0),
            (if grow then getE s.offs (c + 1) "column_offsets[val_full_col_idx+1]" else .ok 0) with
      | .error e, _ => .error e
      | _, .error e => .error e
      | .ok a, .ok b =>
        let offs := if grow then growOffs s.offs c ((b - a) * (Gen.Csv.LARGER_FACTOR - 1)) else s.offs
        let vals := if grow then List.replicate (offs.getLastD 0) 0 else o.vals
        let full := o.indsFull || o.valsFull
        if !full && o.nextPos == 0 then .error (.valueError "no complete record in window")
        else
          .ok { s with ci := if full then s.ci else s.ci + o.nextPos, hasHeader := false, rows := s.rows + o.written, inds := inds, vals := vals, offs := offs, indsFull := o.indsFull, valsFull := o.valsFull, content := content, start := if full then o.nextPos else start, imps := imps, calls := s.calls ++ [o.written] }

theorem driverStep_eq (file : Bytes) (w ncols : Nat) (im : List Nat) (s : DS) :
    driverStep file w ncols im s =
      (if (!s.indsFull && !s.valsFull) && (slice file s.ci (s.ci + w)).length == 0 then .ok { s with stop := true }
       else
         match fastCsvReader (if !s.indsFull && !s.valsFull then readWindow file s.ci w else s.content)
                 (if !s.indsFull && !s.valsFull then 0 else s.start) s.inds s.vals s.offs s.hasHeader with
         | .error e => .error e
         | .ok o => afterKernel ncols im s (if !s.indsFull && !s.valsFull then readWindow file s.ci w else s.content)
                      (if !s.indsFull && !s.valsFull then 0 else s.start) o) := by
  unfold driverStep afterKernel
  rfl

/-- the file and the import, without any assumption on the staging buffers -/
structure SettingR (file : Bytes) (crs ncols : Nat) (im : List Nat) (hrow : List Cell) (rows : List (List Cell)) :
    Prop where
  isFile : IsFile file (render (hrow :: rows))
  hdr : hrow.length = ncols ∧ ∀ c ∈ hrow, c.WF
  tab : ∀ r ∈ rows, r.length = ncols ∧ ∀ c ∈ r, c.WF
  nc : 0 < ncols
  crsPos : 0 < crs
  reg : ∀ l ∈ hrow :: rows, (renderCells l).length ≤ crs * Gen.Csv.CHUNK_ROW_FACTOR * ncols
  imOk : ∀ c ∈ im, c < ncols

/-- the driver between two kernel calls: the window starts at line `q`, `e ≥ q` lines (header line included) are consumed,
    the index buffer has `maxrow` rows; either the next call reads a fresh window (`e = q`) or it resumes inside the window
    that is held in `content`; importer `c` (the family `F`, see `ImpHom`) has consumed exactly the first `e - 1` records -/
structure DI (F : Nat → List Bytes → Imp) (file : Bytes) (w ncols : Nat) (im : List Nat) (hrow : List Cell) (rows : List (List Cell))
    (s : DS) (q e maxrow : Nat) : Prop where
  qe : q ≤ e
  el : e ≤ rows.length + 1
  ci : s.ci = bnd hrow rows q
  hh : s.hasHeader = (e == 0)
  rows_ : s.rows = ((e - 1 : Nat) : Int)
  stop : s.stop = false
  bud : ∀ c, c < ncols → offAt s.offs c < offAt s.offs (c + 1)
  maxpos : 0 < maxrow
  shape : Shape ncols maxrow s.offs s.inds s.vals
  zero : ∀ c, c < ncols → ∃ r, s.inds[c]? = some r ∧ r[0]? = some 0
  imps : s.imps = im.map (fun c => F c (doneCols rows (e - 1) c))
  win : (s.indsFull = false ∧ s.valsFull = false ∧ e = q) ∨
        ((s.indsFull || s.valsFull) = true ∧ 0 < e ∧ s.content = readWindow file (bnd hrow rows q) w ∧
          s.start = bnd hrow rows e - bnd hrow rows q ∧ bnd hrow rows q < file.length)
  inwin : bnd hrow rows e ≤ bnd hrow rows q + (readWindow file (bnd hrow rows q) w).length

theorem lines_ne {ncols : Nat} {hrow : List Cell} {rows : List (List Cell)} (hnc : 0 < ncols) (hhdr : hrow.length = ncols)
    (htab : ∀ r ∈ rows, r.length = ncols ∧ ∀ c ∈ r, c.WF) : ∀ r ∈ hrow :: rows, r ≠ [] := by
  intro r hr h
  rcases List.mem_cons.mp hr with h1 | h1
  · rw [h1] at h; rw [h] at hhdr; simp at hhdr; omega
  · have := (htab r h1).1; rw [h] at this; simp at this; omega

/-- the text of the window that starts at line `q`, seen from the end of line `e - 1`: the lines `q … e-1`, then (the header
    line,) complete records, then possibly the beginning of one more record -/
theorem window_decomp {file : Bytes} {crs ncols : Nat} {im : List Nat} {hrow : List Cell} {rows : List (List Cell)}
    (st : SettingR file crs ncols im hrow rows) {q e : Nat} (hqe : q ≤ e)
    (hlt : bnd hrow rows q < file.length)
    (hin : bnd hrow rows e ≤ bnd hrow rows q +
      (readWindow file (bnd hrow rows q) (crs * Gen.Csv.CHUNK_ROW_FACTOR * ncols)).length) :
    ∃ rowsW nxt,
      readWindow file (bnd hrow rows q) (crs * Gen.Csv.CHUNK_ROW_FACTOR * ncols) =
        render (((hrow :: rows).drop q).take (e - q)) ++
          (((if e = 0 then renderCells hrow else []) ++ render rowsW) ++ tailText nxt) ∧
      (∃ k, rowsW ++ tailRows nxt = (rows.drop (e - 1)).take k) ∧
      rowsW = (rows.drop (e - 1)).take rowsW.length ∧
      (∀ r m, nxt = some (r, m) → m < (renderCells r).length ∧ r ∈ rows) ∧
      (e = q → e ≠ 0 → rowsW ≠ []) := by
  generalize hw : crs * Gen.Csv.CHUNK_ROW_FACTOR * ncols = w at hin ⊢
  have hallne := lines_ne st.nc st.hdr.1 st.tab
  have hTnl : (render (hrow :: rows)).getLast? = some NL := render_getLast _ (by simp) hallne
  have hTlen := isFile_length st.isFile
  have hLsplit : (hrow :: rows).drop q = ((hrow :: rows).drop q).take (e - q) ++ (hrow :: rows).drop e := by
    have h := (List.take_append_drop (e - q) ((hrow :: rows).drop q)).symm
    rw [List.drop_drop] at h
    have : q + (e - q) = e := by omega
    rw [this] at h
    exact h
  have hdropq : (render (hrow :: rows)).drop (bnd hrow rows q) =
      render (((hrow :: rows).drop q).take (e - q)) ++
        ((if e = 0 then renderCells hrow else []) ++ render (rows.drop (e - 1))) := by
    rw [render_drop_bnd, hLsplit, render_append', render_lines_drop]
    congr 2
    rw [← hLsplit]
  have hprelen : (render (((hrow :: rows).drop q).take (e - q))).length = bnd hrow rows e - bnd hrow rows q := by
    have := bnd_add hrow rows q (e - q)
    have h2 : q + (e - q) = e := by omega
    rw [h2] at this
    omega
  have hbq := bnd_le_total hrow rows q
  have hlenq : (render (hrow :: rows)).length - bnd hrow rows q =
      (render (((hrow :: rows).drop q).take (e - q))).length +
        ((if e = 0 then renderCells hrow else []).length + (render (rows.drop (e - 1))).length) := by
    have := congrArg List.length hdropq
    simpa using this
  generalize hpre : render (((hrow :: rows).drop q).take (e - q)) = pre at hdropq hprelen hlenq ⊢
  generalize hH : (if e = 0 then renderCells hrow else []) = H at hdropq hlenq ⊢
  have hHfit : e = q → H.length ≤ w := by
    intro heq
    rw [← hH]
    split
    · rw [← hw]; exact st.reg hrow (by simp)
    · simp
  have hpre0 : e = q → pre = [] := by
    intro heq
    rw [← hpre, heq]; simp [render]
  by_cases hend : file.length ≤ bnd hrow rows q + w
  · -- the window reaches the end of the file
    have hwin := readWindow_last st.isFile hTnl hlt hend
    refine ⟨rows.drop (e - 1), none, ?_,
      ⟨(rows.drop (e - 1)).length, by simp only [tailRows, List.append_nil]; exact (List.take_length).symm⟩,
      (List.take_length).symm, ?_, ?_⟩
    · rw [hwin, hdropq]; simp [tailText]
    · intro r m h; cases h
    · intro heq he0 hnil
      rw [hnil] at hlenq
      have h1 := hpre0 heq
      have h2 : H = [] := by rw [← hH]; simp [he0]
      rw [h1, h2] at hlenq
      have hr0 : (render ([] : List (List Cell))).length = 0 := rfl
      simp only [List.length_nil, hr0] at hlenq
      omega
  · -- the window ends inside the file
    have hin' : bnd hrow rows q + w < file.length := by omega
    have hwin := readWindow_inside st.isFile hin'
    have hwlen : (readWindow file (bnd hrow rows q) w).length = w := by
      rw [hwin]; simp; omega
    rw [hwlen] at hin
    have hprew : pre.length ≤ w := by omega
    obtain ⟨w1, hw1⟩ : ∃ w1, w = pre.length + w1 := ⟨w - pre.length, by omega⟩
    have hHw1 : H.length ≤ w1 := by
      by_cases heq : e = q
      · have := hHfit heq
        rw [hpre0 heq] at hw1
        simp at hw1
        omega
      · have : e ≠ 0 := by omega
        rw [← hH]; simp [this]
    obtain ⟨w2, hw2⟩ : ∃ w2, w1 = H.length + w2 := ⟨w1 - H.length, by omega⟩
    have hlong : w2 < (render (rows.drop (e - 1))).length := by omega
    obtain ⟨a, r, m, hra, hsplit, hm, hfitA, hpos1⟩ := window_split (rows.drop (e - 1)) w2 hlong
    have hale : a < (rows.drop (e - 1)).length := lt_len_of_get hra
    have hlenA : ((rows.drop (e - 1)).take a).length = a := by
      rw [List.length_take]; omega
    have hrmem : r ∈ rows := List.mem_of_mem_drop (List.mem_of_getElem? hra)
    refine ⟨(rows.drop (e - 1)).take a, some (r, m), ?_, ⟨a + 1, ?_⟩, ?_, ?_, ?_⟩
    · rw [hwin, hdropq, hw1, take_len_add, hw2, take_len_add, hsplit]
      simp [tailText]
    · simp only [tailRows]
      exact (take_succ_of_get hra).symm
    · rw [hlenA]
    · intro r' m' h
      simp only [Option.some.injEq, Prod.mk.injEq] at h
      obtain ⟨h1, h2⟩ := h
      subst h1; subst h2
      exact ⟨hm, hrmem⟩
    · intro heq he0 hnil
      have h1 := hpre0 heq
      have h2 : H = [] := by rw [← hH]; simp [he0]
      rw [h1] at hw1
      rw [h2] at hw2
      simp at hw1 hw2
      cases hrd : rows.drop (e - 1) with
      | nil => rw [hrd] at hale; simp at hale
      | cons r0 rs =>
        have hr0 : r0 ∈ rows := List.mem_of_mem_drop (by rw [hrd]; simp)
        have hfit := st.reg r0 (by simp [hr0])
        have := hpos1 r0 rs hrd (by omega)
        have hlen0 := hlenA
        rw [hnil] at hlen0
        simp at hlen0
        omega

end Exetera.Csv
