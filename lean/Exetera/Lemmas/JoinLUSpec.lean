import Exetera.Lemmas.JoinGeneral
/-!
  Spec-side lemmas for the left-unique join kernels (`generate_ordered_map_to_{left,inner}_left_unique_*`).

  The kernel pairs ONE left row `I` with each right row of the run of equal keys in turn, so its state can be *inside* a
  right run. `tailRows a R I J` are the rows of left row `I` (key `a`) against the right rows `≥ J`; `pendU L R I J` are the
  spec rows still to be emitted when the kernel is at the merge position `(I, J)`.
-/
namespace Exetera.Join.LU
open Exetera Exetera.Spec Exetera.Join

/-- rows of left row `I` (key `a`) against the matching right rows with index `≥ J` -/
def tailRows (a : Int) (R : List Int) (I J : Nat) : List (Nat × Option Nat) :=
  (matchRows a (R.drop J) J).map (fun j => (I, some j))

/-- spec rows not yet emitted at merge position `(I, J)`: if `L[I] = R[J]` the kernel is at (or inside) the right run of
    left row `I`, otherwise nothing of left row `I` has been emitted yet -/
def pendU (L R : List Int) (I J : Nat) : List (Nat × Option Nat) :=
  match L[I]?, R[J]? with
  | some a, some b => if a = b then tailRows a R I J ++ rest L R (I + 1) else rest L R I
  | _, _ => rest L R I

theorem pendU_match {L R : List Int} {I J : Nat} {a : Int} (ha : L[I]? = some a) (hb : R[J]? = some a) :
    pendU L R I J = tailRows a R I J ++ rest L R (I + 1) := by
  simp [pendU, ha, hb]

theorem tailRows_step {a : Int} {R : List Int} {I J : Nat} (hb : R[J]? = some a) :
    tailRows a R I J = (I, some J) :: tailRows a R I (J + 1) := by
  obtain ⟨hJ, rfl⟩ := List.getElem?_eq_some_iff.mp hb
  simp only [tailRows]
  rw [List.drop_eq_getElem_cons hJ]
  simp [matchRows]

/-- past the end of the run nothing matches any more -/
theorem tailRows_nil {a : Int} {R : List Int} (hR : Sorted R) {I J : Nat} (h : ∀ b, R[J]? = some b → a < b) :
    tailRows a R I J = [] := by
  simp only [tailRows]
  rw [matchRows_eq_nil]
  · rfl
  · intro x hx
    obtain ⟨i, hi, rfl⟩ := List.getElem_of_mem hx
    simp only [List.length_drop] at hi
    rw [List.getElem_drop]
    have h0 := h _ (get?_some_of_lt (by omega : J < R.length))
    have hle := hR.le_of_lt (i := J) (j := J + i) (by omega) (by omega)
    omega

/-- at the start of the run of `L[I]` in `R` (everything before `J` is smaller) the spec rows of left row `I` are
    exactly its pairs with the right rows from `J` on -/
theorem rest_enter {L R : List Int} {a : Int} {I J : Nat} (ha : L[I]? = some a) (hb : R[J]? = some a)
    (hlt : ∀ j b, j < J → R[j]? = some b → b < a) :
    rest L R I = tailRows a R I J ++ rest L R (I + 1) := by
  obtain ⟨hI, haL⟩ := List.getElem?_eq_some_iff.mp ha
  obtain ⟨hJ, hbR⟩ := List.getElem?_eq_some_iff.mp hb
  rw [rest_unfold L R hI, haL]
  have hm : matchRows a R 0 = matchRows a (R.drop J) J := by
    have hsplit : matchRows a R 0 = matchRows a (R.take J ++ R.drop J) 0 := by rw [List.take_append_drop]
    rw [hsplit, matchRows_append, matchRows_eq_nil]
    · simp only [List.length_take, List.nil_append]
      congr 1; omega
    · intro x hx
      obtain ⟨i, hi, rfl⟩ := List.getElem_of_mem hx
      simp only [List.length_take] at hi
      rw [List.getElem_take]
      exact Int.ne_of_lt (hlt i _ (by omega) (get?_some_of_lt (by omega)))
  rw [hm]
  simp only [tailRows]
  rw [List.drop_eq_getElem_cons hJ]
  simp [matchRows, hbR, leftRow]

/-- nothing of left row `I` has been consumed: the pending rows are all spec rows from `I` on -/
theorem pendU_fresh {L R : List Int} {I J : Nat}
    (h : ∀ a, L[I]? = some a → ∀ j b, j < J → R[j]? = some b → b < a) :
    pendU L R I J = rest L R I := by
  unfold pendU
  split
  · rename_i a b ha hb
    split
    · rename_i hab
      subst hab
      exact (rest_enter ha hb (h a ha)).symm
    · rfl
  · rfl

theorem strict_get? {xs : List Int} (h : xs.Pairwise (· < ·)) {i j : Nat} {a b : Int} (hij : i < j)
    (ha : xs[i]? = some a) (hb : xs[j]? = some b) : a < b := by
  obtain ⟨hi, rfl⟩ := List.getElem?_eq_some_iff.mp ha
  obtain ⟨hj, rfl⟩ := List.getElem?_eq_some_iff.mp hb
  exact (List.pairwise_iff_getElem.mp h) i j hi hj hij

theorem sorted_of_strict {xs : List Int} (h : xs.Pairwise (· < ·)) : Sorted xs :=
  List.Pairwise.imp (fun hab => Int.le_of_lt hab) h

end Exetera.Join.LU
