import Exetera.Model.MapValid
import Exetera.Spec.MapValid
import Exetera.Lemmas.MapValidStream
import Exetera.Lemmas.MapValidIndexed4
import Exetera.Lemmas.MapValidFlat2
import Exetera.Lemmas.MapValidWindow
/-!
  C04 — Mapping a column through a join map gives the mapped value or the empty value.

  The theorems are about the executable model `Exetera.MapValid.*` that the driver `Driver/C04.lean` runs
  (operations.py with fixes D5, D9, D10/D12, D11, NC04a applied) and the specification `Exetera.Spec.mapSpec`.
  They quantify over all sources, maps, marker values and chunk sizes; there is no size bound.
-/
namespace Exetera.Props.C04

open Exetera Exetera.MapValid Exetera.Spec

/-! ## the non-indexed stream -/

/-- **Functional correctness of `ordered_map_valid_stream`.** For every chunk size ≥ 1, every marker value `inv`, every
    source and every map whose non-marker entries are row numbers of the source in non-decreasing order (markers
    anywhere): the stream terminates within its fuel, performs no out-of-bounds access (`.ok`), and the destination is
    exactly the specified column: row `r` is `src[map[r]]`, or `empty` where `map[r] = inv`. -/
theorem map_stream_eq {α} (src : List α) (m : List Int) (inv : Int) (cs : Nat) (empty : α)
    (hcs : 1 ≤ cs) (hr : InRange src.length m inv) (hm : ValidMonotone m inv) :
    ∃ out, orderedMapValidStream src m inv cs empty = .ok out ∧ mapSpec src inv empty m = some out :=
  stream_spec src m inv cs empty hcs hr hm

/-- row-wise reading of `map_stream_eq`: the destination has the map's length and row `r` is the looked-up value -/
theorem map_stream_rows {α} (src : List α) (m : List Int) (inv : Int) (cs : Nat) (empty : α)
    (hcs : 1 ≤ cs) (hr : InRange src.length m inv) (hm : ValidMonotone m inv) :
    ∃ out, orderedMapValidStream src m inv cs empty = .ok out ∧ out.length = m.length ∧
      ∀ (r : Nat) (k : Int), m[r]? = some k →
        (k = inv → out[r]? = some empty) ∧ (k ≠ inv → out[r]? = src[k.toNat]?) := by
  obtain ⟨out, h1, h2⟩ := stream_spec src m inv cs empty hcs hr hm
  refine ⟨out, h1, mapSpec_length _ _ _ _ _ h2, ?_⟩
  intro r k hk
  have h3 := mapSpec_getElem? _ _ _ _ _ h2 r k hk
  constructor
  · intro hki; simp [h3, lookup, hki]
  · intro hki
    have := (hr r k hk hki).1
    simp [h3, lookup, hki, this]

/-- **Chunk size is unobservable.** -/
theorem chunk_unobservable {α} (src : List α) (m : List Int) (inv : Int) (cs cs' : Nat) (empty : α)
    (hcs : 1 ≤ cs) (hcs' : 1 ≤ cs') (hr : InRange src.length m inv) (hm : ValidMonotone m inv) :
    orderedMapValidStream src m inv cs empty = orderedMapValidStream src m inv cs' empty := by
  obtain ⟨out, h1, h2⟩ := stream_spec src m inv cs empty hcs hr hm
  obtain ⟨out', h1', h2'⟩ := stream_spec src m inv cs' empty hcs' hr hm
  rw [h1, h1']
  rw [h2] at h2'
  cases h2'
  rfl

/-- re-encode the marker of a map -/
def remark (inv inv' : Int) (m : List Int) : List Int := m.map (fun k => if k = inv then inv' else k)

theorem mapSpec_remark {α} (src : List α) (inv inv' : Int) (empty : α) :
    ∀ (m : List Int), (∀ (i : Nat) (k : Int), m[i]? = some k → k ≠ inv → k ≠ inv') →
      mapSpec src inv' empty (remark inv inv' m) = mapSpec src inv empty m := by
  intro m
  induction m with
  | nil => intro _; rfl
  | cons k ks ih =>
    intro h
    have hk := h 0 k (by simp)
    have htl := ih (fun i k' hk' => h (i + 1) k' (by simpa using hk'))
    have hl : lookup src inv' empty (if k = inv then inv' else k) = lookup src inv empty k := by
      by_cases hki : k = inv
      · simp [lookup, hki]
      · have := hk hki
        simp [lookup, hki, this]
    simp only [remark, List.map_cons, mapSpec] at htl ⊢
    rw [hl, htl]

/-- **Marker parametric.** The result is the same function of "which rows are unmatched" whatever value encodes
    "unmatched": replacing the marker `inv` by any `inv'` that is not a row number of the source (for instance `-1`,
    `INVALID_INDEX_32`, `INVALID_INDEX_64` for sources shorter than 2^31-1) leaves the destination unchanged — also
    across different chunk sizes. -/
theorem marker_parametric {α} (src : List α) (m : List Int) (inv inv' : Int) (cs cs' : Nat) (empty : α)
    (hcs : 1 ≤ cs) (hcs' : 1 ≤ cs') (hr : InRange src.length m inv) (hm : ValidMonotone m inv)
    (hinv' : inv' < 0 ∨ (src.length : Int) ≤ inv') :
    orderedMapValidStream src (remark inv inv' m) inv' cs' empty = orderedMapValidStream src m inv cs empty := by
  have hfresh : ∀ (i : Nat) (k : Int), m[i]? = some k → k ≠ inv → k ≠ inv' := by
    intro i k hk hki
    have := hr i k hk hki
    omega
  have hr' : InRange src.length (remark inv inv' m) inv' := by
    intro i k hk hki
    simp only [remark, List.getElem?_map] at hk
    cases hmi : m[i]? with
    | none => simp [hmi] at hk
    | some a =>
      simp only [hmi, Option.map_some, Option.some.injEq] at hk
      by_cases ha : a = inv
      · simp [ha] at hk; exact absurd hk.symm hki
      · simp [ha] at hk; subst hk; exact hr i a hmi ha
  have hm' : ValidMonotone (remark inv inv' m) inv' := by
    intro i j a b hij hi hj ha hb
    simp only [remark, List.getElem?_map] at hi hj
    cases hmi : m[i]? with
    | none => simp [hmi] at hi
    | some x =>
      cases hmj : m[j]? with
      | none => simp [hmj] at hj
      | some y =>
        simp only [hmi, hmj, Option.map_some, Option.some.injEq] at hi hj
        by_cases hx : x = inv
        · simp [hx] at hi; exact absurd hi.symm ha
        · by_cases hy : y = inv
          · simp [hy] at hj; exact absurd hj.symm hb
          · simp [hx] at hi; simp [hy] at hj; subst hi; subst hj
            exact hm i j x y hij hmi hmj hx hy
  obtain ⟨out, h1, h2⟩ := stream_spec src m inv cs empty hcs hr hm
  obtain ⟨out', h1', h2'⟩ := stream_spec src (remark inv inv' m) inv' cs' empty hcs' hr' hm'
  rw [mapSpec_remark src inv inv' empty m hfresh, h2] at h2'
  cases h2'
  rw [h1, h1']

/-! ### non-vacuity: the hypotheses are met by the trailing-unmatched-rows map that `DataFrame.merge` produces
    (the D9/D10 witness), and the model computes the specified column on it -/

theorem inRange_of_all {n : Nat} {m : List Int} {inv : Int}
    (h : m.all (fun k => k == inv || (decide (0 ≤ k) && decide (k < (n : Int)))) = true) : InRange n m inv := by
  intro i k hk hki
  have hmem : k ∈ m := List.mem_of_getElem? hk
  have := List.all_eq_true.mp h k hmem
  simp [hki] at this
  exact this

theorem validMonotone_of_pairwise {m : List Int} {inv : Int}
    (h : List.Pairwise (fun a b => a ≠ inv → b ≠ inv → a ≤ b) m) : ValidMonotone m inv := by
  intro i j a b hij hi hj ha hb
  obtain ⟨hil, hia⟩ := List.getElem?_eq_some_iff.mp hi
  obtain ⟨hjl, hjb⟩ := List.getElem?_eq_some_iff.mp hj
  by_cases heq : i = j
  · subst heq; rw [hia] at hjb; omega
  · have := List.pairwise_iff_getElem.mp h i j hil hjl (by omega)
    rw [hia, hjb] at this
    exact this ha hb

example : InRange 3 [0, 1, INVALID_INDEX_32, INVALID_INDEX_32] INVALID_INDEX_32 ∧
    ValidMonotone [0, 1, INVALID_INDEX_32, INVALID_INDEX_32] INVALID_INDEX_32 :=
  ⟨inRange_of_all (by decide), validMonotone_of_pairwise (by decide)⟩

example : orderedMapValidStream [10, 20, 30] [0, 1, INVALID_INDEX_32, INVALID_INDEX_32] INVALID_INDEX_32 4 (0 : Int)
    = .ok [10, 20, 0, 0] := by rfl

example : mapSpec [10, 20, 30] INVALID_INDEX_32 (0 : Int) [0, 1, INVALID_INDEX_32, INVALID_INDEX_32]
    = some [10, 20, 0, 0] := by decide

/-- markers leading, alternating and filling whole chunks; a gap larger than the chunk; chunk size 2 -/
example : InRange 9 [-1, -1, 0, -1, 0, 7, -1, -1, -1, 8] (-1) ∧ ValidMonotone [-1, -1, 0, -1, 0, 7, -1, -1, -1, 8] (-1) :=
  ⟨inRange_of_all (by decide), validMonotone_of_pairwise (by decide)⟩

example : orderedMapValidStream [1, 2, 3, 4, 5, 6, 7, 8, 9] [-1, -1, 0, -1, 0, 7, -1, -1, -1, 8] (-1) 2 (0 : Int)
    = .ok [0, 0, 1, 0, 1, 8, 0, 0, 0, 9] := by rfl

/-- `marker_parametric`: the -1 map above re-marked with the 64-bit sentinel -/
example : remark (-1) INVALID_INDEX_64 [-1, 0, 2] = [INVALID_INDEX_64, 0, 2] := by decide

/-! ## the indexed-string stream -/

/-- **Functional correctness of `ordered_map_valid_indexed_stream`.** For a well-formed indexed source (offsets from 0,
    non-decreasing, ending at the number of bytes), every chunk size ≥ 1, every marker, every `value_factor` whose
    value buffer `chunksize * value_factor` can hold every entry the map refers to, and every map whose non-marker
    entries are row numbers of the source in non-decreasing order: the stream terminates within its fuel with no
    out-of-bounds access and without the D5 `ValueError`, and the destination's `indices` and `values` are exactly the
    stored form (offsets, concatenated bytes) of the specified column of entries — `[]` where the map holds the marker. -/
theorem map_indexed_stream_eq {β} (indices : List Int) (values : List β) (m : List Int) (inv : Int) (cs vf : Nat)
    (hok : IndexedOK indices values) (hcs : 1 ≤ cs)
    (hr : InRange (entries indices values).length m inv) (hm : ValidMonotone m inv)
    (hcap : ∀ (r : Nat) (k : Int) (x : List β), m[r]? = some k → k ≠ inv →
      (entries indices values)[k.toNat]? = some x → x.length ≤ cs * vf) :
    ∃ out, orderedMapValidIndexedStream indices values m inv cs vf = .ok out ∧
      mapIndexedSpec indices values inv m = some out :=
  indexed_stream_spec indices values m inv cs vf hok hcs hr hm hcap

/-- the property's own phrasing: the value buffer can hold the longest entry of the source -/
theorem map_indexed_stream_eq_longest {β} (indices : List Int) (values : List β) (m : List Int) (inv : Int) (cs vf : Nat)
    (hok : IndexedOK indices values) (hcs : 1 ≤ cs)
    (hr : InRange (entries indices values).length m inv) (hm : ValidMonotone m inv)
    (hcap : ∀ e ∈ entries indices values, e.length ≤ cs * vf) :
    ∃ out, orderedMapValidIndexedStream indices values m inv cs vf = .ok out ∧
      mapIndexedSpec indices values inv m = some out :=
  indexed_stream_spec indices values m inv cs vf hok hcs hr hm
    (fun _ _ x _ _ hx => hcap x (List.mem_of_getElem? hx))

/-- **Chunk size and value-buffer size are unobservable** for the indexed stream. -/
theorem indexed_chunk_unobservable {β} (indices : List Int) (values : List β) (m : List Int) (inv : Int)
    (cs vf cs' vf' : Nat) (hok : IndexedOK indices values) (hcs : 1 ≤ cs) (hcs' : 1 ≤ cs')
    (hr : InRange (entries indices values).length m inv) (hm : ValidMonotone m inv)
    (hcap : ∀ e ∈ entries indices values, e.length ≤ cs * vf)
    (hcap' : ∀ e ∈ entries indices values, e.length ≤ cs' * vf') :
    orderedMapValidIndexedStream indices values m inv cs vf = orderedMapValidIndexedStream indices values m inv cs' vf' := by
  obtain ⟨out, h1, h2⟩ := map_indexed_stream_eq_longest indices values m inv cs vf hok hcs hr hm hcap
  obtain ⟨out', h1', h2'⟩ := map_indexed_stream_eq_longest indices values m inv cs' vf' hok hcs' hr hm hcap'
  rw [h2] at h2'
  cases h2'
  rw [h1, h1']

/-- **Never spins, never reads out of bounds (D5 as repaired, in full).** On a well-formed source and an ordered in-range
    map, for every chunk size ≥ 1, marker and value factor the indexed stream has exactly two outcomes: every mapped
    entry fits the value buffer and the result is the specified column; or some mapped entry is longer than
    `chunksize * value_factor` and the result is the `ValueError` — never `outOfFuel`, never an index error. -/
theorem indexed_stream_terminates {β} (indices : List Int) (values : List β) (m : List Int) (inv : Int) (cs vf : Nat)
    (hok : IndexedOK indices values) (hcs : 1 ≤ cs)
    (hr : InRange (entries indices values).length m inv) (hm : ValidMonotone m inv) :
    (∃ out, orderedMapValidIndexedStream indices values m inv cs vf = .ok out ∧
      mapIndexedSpec indices values inv m = some out) ∨
    (orderedMapValidIndexedStream indices values m inv cs vf = .error (.valueError "entry does not fit the value buffer") ∧
      ∃ (r : Nat) (k : Int) (x : List β), m[r]? = some k ∧ k ≠ inv ∧ (entries indices values)[k.toNat]? = some x ∧
        cs * vf < x.length) := by
  rcases indexed_stream_total indices values m inv cs vf hok hcs hr hm with
    ⟨out, es, hrun, hspec, hout, _⟩ | ⟨e, hrun, herr, p, k, x, hpk, hki, _, hent, hbig⟩
  · exact Or.inl ⟨out, hrun, by simp [mapIndexedSpec, hspec, hout]⟩
  · exact Or.inr ⟨by rw [hrun, herr], p, k, x, hpk, hki, hent, hbig⟩

/-- a mapped entry longer than the value buffer always ends the stream with the clear error -/
theorem oversize_entry_clear_error {β} (indices : List Int) (values : List β) (m : List Int) (inv : Int) (cs vf : Nat)
    (hok : IndexedOK indices values) (hcs : 1 ≤ cs)
    (hr : InRange (entries indices values).length m inv) (hm : ValidMonotone m inv)
    (r : Nat) (k : Int) (x : List β) (hk : m[r]? = some k) (hki : k ≠ inv)
    (hx : (entries indices values)[k.toNat]? = some x) (hbig : cs * vf < x.length) :
    orderedMapValidIndexedStream indices values m inv cs vf
      = .error (.valueError "entry does not fit the value buffer") :=
  indexed_stream_oversize indices values m inv cs vf hok hcs hr hm r k x hk hki hx hbig

/-- the design-time D5 witness (source `["abcdefghij","b"]`, map `[0,1]`, chunksize 2, value_factor 2): a clear error,
    not `outOfFuel` -/
example :
    orderedMapValidIndexedStream [0, 10, 11] [97, 98, 99, 100, 101, 102, 103, 104, 105, 106, 98] [0, 1] (-1) 2 2
      = .error (.valueError "entry does not fit the value buffer") := by rfl

/-- the hypotheses of `oversize_entry_clear_error` on that witness: row 0 maps to a 10-byte entry, the buffer has 4 -/
example : IndexedOK [0, 10, 11] [97, 98, 99, 100, 101, 102, 103, 104, 105, 106, (98 : Int)] ∧
    (entries [0, 10, 11] [97, 98, 99, 100, 101, 102, 103, 104, 105, 106, (98 : Int)])[(0 : Int).toNat]?
      = some [97, 98, 99, 100, 101, 102, 103, 104, 105, 106] ∧ 2 * 2 < 10 :=
  ⟨by unfold IndexedOK; decide, by decide, by decide⟩

/-! ## maps that are not ordered (NC02a)

The map of the side that does not drive a join repeats a run of row numbers once per duplicate key of the driving side
(`[0,1,2,0,1,2]`), so it is not non-decreasing. Since the repair of `next_map_subchunk` (a sub-chunk ends where the map
steps back) both streams compute the specified column for EVERY in-range map; the ordering hypothesis of the theorems
above is no longer needed. -/

/-- `ordered_map_valid_stream` on any in-range map, ordered or not, every chunk size ≥ 1, every marker. -/
theorem map_stream_eq_any {α} (src : List α) (m : List Int) (inv : Int) (cs : Nat) (empty : α)
    (hcs : 1 ≤ cs) (hr : InRange src.length m inv) :
    ∃ out, orderedMapValidStream src m inv cs empty = .ok out ∧ mapSpec src inv empty m = some out :=
  stream_spec_any src m inv cs empty hcs hr

/-- `ordered_map_valid_indexed_stream` on any in-range map, ordered or not. -/
theorem map_indexed_stream_eq_any {β} (indices : List Int) (values : List β) (m : List Int) (inv : Int) (cs vf : Nat)
    (hok : IndexedOK indices values) (hcs : 1 ≤ cs)
    (hr : InRange (entries indices values).length m inv)
    (hcap : ∀ (r : Nat) (k : Int) (x : List β), m[r]? = some k → k ≠ inv →
      (entries indices values)[k.toNat]? = some x → x.length ≤ cs * vf) :
    ∃ out, orderedMapValidIndexedStream indices values m inv cs vf = .ok out ∧
      mapIndexedSpec indices values inv m = some out :=
  indexed_stream_spec_any indices values m inv cs vf hok hcs hr hcap

/-- every piece of the splitter has non-decreasing valid entries, whatever the map: the source window
    `[first valid, last valid]` read for a piece therefore contains every row the piece refers to. -/
theorem subchunk_entries_ordered (m : List Int) (inv : Int) (cs : Nat) (hcs : 1 ≤ cs) :
    ∃ subs, subchunks m inv cs = .ok subs ∧ Tiles subs 0 m.length ∧
      ∀ t ∈ subs, ∀ (i j : Nat) (a b : Int), t.1 ≤ i → i ≤ j → j < t.2 → m[i]? = some a → m[j]? = some b →
        a ≠ inv → b ≠ inv → a ≤ b :=
  subchunks_mono m inv cs hcs

/-- the NC02a witness: right map of `left=[2,2]`, `right=[2,2,2]`, chunk size 2 -/
example : InRange 3 [0, 1, 2, 0, 1, 2] INVALID_INDEX_64 ∧ ¬ ValidMonotone [0, 1, 2, 0, 1, 2] INVALID_INDEX_64 :=
  ⟨inRange_of_all (by decide), fun h => absurd (h 2 3 2 0 (by decide) rfl rfl (by decide) (by decide)) (by decide)⟩
example : subchunks [0, 1, 2, 0, 1, 2] INVALID_INDEX_64 2 = .ok [(0, 2), (2, 3), (3, 5), (5, 6)] := by rfl
example : orderedMapValidStream [500, 501, 502] [0, 1, 2, 0, 1, 2] INVALID_INDEX_64 2 (0 : Int)
    = .ok [500, 501, 502, 500, 501, 502] := by rfl
example : orderedMapValidIndexedStream [0, 1, 3, 6] [97, 98, 98, 99, 99, 99] [0, 1, 2, 0, 1, 2] INVALID_INDEX_64 2 2
    = .ok ([0, 1, 3, 6, 7, 9, 12], [97, 98, 98, 99, 99, 99, 97, 98, 98, 99, 99, 99]) := by rfl

/-! ## the non-streaming helpers give the same answer -/

/-- `safe_map_values` with the filter "entry is not the marker" returns the specified column (empty value: the
    caller's, or the dtype's zero) -/
theorem safe_map_values_eq {α} (data : List α) (m : List Int) (inv : Int) (e : Option α) (zero : α)
    (hr : InRange data.length m inv) :
    ∃ out, safeMapValues data m (m.map (fun k => k != inv)) e zero = .ok out ∧
      mapSpec data inv (e.getD zero) m = some out :=
  safeMapValues_mapSpec data m inv e zero hr

/-- `safe_map_values` with an arbitrary filter of the map's length (what `_unordered_merge` passes): rows whose filter is
    set get `data[map[i]]`, all others the empty value; no out-of-bounds access -/
theorem safe_map_values_rows {α} (data : List α) (m : List Int) (filt : List Bool) (e : Option α) (zero : α)
    (hlen : filt.length = m.length)
    (hr : ∀ (i : Nat) (k : Int), m[i]? = some k → filt[i]? = some true → 0 ≤ k ∧ k < data.length) :
    ∃ out, safeMapValues data m filt e zero = .ok out ∧ out.length = m.length ∧
      ∀ (i : Nat) (k : Int) (b : Bool), m[i]? = some k → filt[i]? = some b →
        out[i]? = if b then data[k.toNat]? else some (e.getD zero) :=
  safeMapValues_spec data m filt e zero hlen hr

/-- `map_valid` allocating its result returns the specified column with the dtype's zero as empty value -/
theorem map_valid_eq {α} (data : List α) (m : List Int) (inv : Int) (zero : α) (hr : InRange data.length m inv) :
    ∃ out, mapValid data m none inv zero = .ok out ∧ mapSpec data inv zero m = some out :=
  mapValid_mapSpec data m inv zero hr

/-- `map_valid` writing into a caller-supplied array of the map's length: marker rows keep what the array held -/
theorem map_valid_rows {α} (data : List α) (m : List Int) (result : List α) (inv : Int) (zero : α)
    (hres : result.length = m.length) (hr : InRange data.length m inv) :
    ∃ out, mapValid data m (some result) inv zero = .ok out ∧ out.length = m.length ∧
      ∀ (i : Nat) (k : Int), m[i]? = some k → out[i]? = if k = inv then result[i]? else data[k.toNat]? := by
  obtain ⟨out, h1, h2, h3⟩ := mapValid_spec data m (some result) inv zero (by intro r h; cases h; exact hres) hr
  exact ⟨out, h1, h2, by simpa using h3⟩

/-- `safe_map_indexed_values` with the filter "entry is not the marker" and no `empty_value` returns the stored form of
    the specified column of entries -/
theorem safe_map_indexed_values_eq {β} (indices : List Int) (values : List β) (m : List Int) (inv : Int)
    (hok : IndexedOK indices values) (hr : InRange (entries indices values).length m inv) :
    ∃ out, safeMapIndexedValues indices values m (m.map (fun k => k != inv)) [] = .ok out ∧
      mapIndexedSpec indices values inv m = some out :=
  safeMapIndexedValues_mapSpec indices values m inv hok hr

/-- **The non-streaming helpers agree with the streams** (on ordered maps, where both are defined). -/
theorem nonstream_agree {α} (src : List α) (m : List Int) (inv : Int) (cs : Nat) (zero : α)
    (hcs : 1 ≤ cs) (hr : InRange src.length m inv) (hm : ValidMonotone m inv) :
    orderedMapValidStream src m inv cs zero = safeMapValues src m (m.map (fun k => k != inv)) none zero ∧
    orderedMapValidStream src m inv cs zero = mapValid src m none inv zero := by
  obtain ⟨o1, a1, b1⟩ := stream_spec src m inv cs zero hcs hr hm
  obtain ⟨o2, a2, b2⟩ := safeMapValues_mapSpec src m inv none zero hr
  obtain ⟨o3, a3, b3⟩ := mapValid_mapSpec src m inv zero hr
  simp only [Option.getD_none] at b2
  rw [b1] at b2 b3
  cases b2; cases b3
  exact ⟨by rw [a1, a2], by rw [a1, a3]⟩

theorem nonstream_agree_indexed {β} (indices : List Int) (values : List β) (m : List Int) (inv : Int) (cs vf : Nat)
    (hok : IndexedOK indices values) (hcs : 1 ≤ cs)
    (hr : InRange (entries indices values).length m inv) (hm : ValidMonotone m inv)
    (hcap : ∀ e ∈ entries indices values, e.length ≤ cs * vf) :
    orderedMapValidIndexedStream indices values m inv cs vf
      = safeMapIndexedValues indices values m (m.map (fun k => k != inv)) [] := by
  obtain ⟨o1, a1, b1⟩ := map_indexed_stream_eq_longest indices values m inv cs vf hok hcs hr hm hcap
  obtain ⟨o2, a2, b2⟩ := safeMapIndexedValues_mapSpec indices values m inv hok hr
  rw [b1] at b2
  cases b2
  rw [a1, a2]

/-! ## the helper kernels (the facts the stream proofs rest on; also the memory-safety content for C10) -/

/-- `get_map_subchunks_based_on_index_lengths` terminates and partitions the map chunk into consecutive non-empty
    pieces, for every marker and every chunk size ≥ 1 -/
theorem subchunks_partition (m : List Int) (inv : Int) (cs : Nat) (hcs : 1 ≤ cs) :
    ∃ subs, subchunks m inv cs = .ok subs ∧ Tiles subs 0 m.length :=
  subchunks_tiles m inv cs hcs

/-- `get_valid_value_extents` on a non-empty range inside the chunk reads in bounds and returns the marker twice when
    the range holds no valid entry, else the first and the last valid entry -/
theorem extents_correct (m : List Int) (s e : Nat) (inv : Int) (hse : s < e) (he : e ≤ m.length) :
    ∃ d, getValidValueExtents m s e inv = .ok d ∧
      ((d.1 = inv ∧ ∀ p, s ≤ p → p < e → m[p]? = some inv) ∨
       (d.1 ≠ inv ∧ d.2 ≠ inv ∧ ∃ p0 p1, s ≤ p0 ∧ p0 ≤ p1 ∧ p1 < e ∧ m[p0]? = some d.1 ∧ m[p1]? = some d.2 ∧
          ∀ q x, s ≤ q → q < e → m[q]? = some x → x ≠ inv → p0 ≤ q ∧ q ≤ p1)) :=
  extents_spec m s e inv hse he

/-- `calculate_chunk_decomposition` reads in bounds, terminates, and partitions `[s, e)` -/
theorem decomposition_partition (indices : List Int) (budget : Int) (s e : Nat) (hse : s < e) (he : e < indices.length) :
    ∃ subs, chunkDecomp indices budget s e = .ok subs ∧ Tiles subs s e :=
  chunkDecomp_spec indices budget s e hse he

/-- **The source window of a sub-chunk is bounded by the chunk size, for every marker** (what the splitter is for, and
    what D9 broke for the sentinels `DataFrame.merge` passes): in every piece `(s, e)` returned by
    `get_map_subchunks_based_on_index_lengths` any two valid entries differ by less than `chunksize`, so the slice
    `data_field.data[first : last+1]` read for the piece has at most `chunksize` elements. -/
theorem source_window_bounded (m : List Int) (inv : Int) (cs : Nat) (hcs : 1 ≤ cs) (_hm : ValidMonotone m inv) :
    ∃ subs, subchunks m inv cs = .ok subs ∧
      ∀ t ∈ subs, ∀ (p q : Nat) (a b : Int), t.1 ≤ p → p < t.2 → t.1 ≤ q → q < t.2 →
        m[p]? = some a → m[q]? = some b → a ≠ inv → b ≠ inv → b - a < cs := by
  obtain ⟨subs, h1, _, h3⟩ := subchunks_made m inv cs hcs
  refine ⟨subs, h1, ?_⟩
  intro t ht p q a b hp1 hp2 hq1 hq2 hpa hqb ha hb
  rw [h3 t ht] at hp2 hq2
  exact nextMapSubchunk_span m t.1 inv cs p q a b hp1 hp2 hq1 hq2 hpa hqb ha hb

/-- with the 64-bit sentinel and chunksize 4 the trailing unmatched rows start a piece of their own instead of being
    treated as huge valid indices -/
example : subchunks [0, 1, 9, INVALID_INDEX_64, INVALID_INDEX_64, 10] INVALID_INDEX_64 4
    = .ok [(0, 2), (2, 3), (3, 6)] := by rfl

/-! ### non-vacuity of the indexed and non-streaming theorems -/

/-- source `["a","bb","ccc"]`, the D11 witness map, buffer of 4·1 bytes ≥ longest entry (3) -/
example : IndexedOK [0, 1, 3, 6] [97, 98, 98, 99, 99, 99] ∧
    InRange (entries [0, 1, 3, 6] [97, 98, 98, 99, 99, 99]).length [0, 1, INVALID_INDEX_32, INVALID_INDEX_32] INVALID_INDEX_32 ∧
    ValidMonotone [0, 1, INVALID_INDEX_32, INVALID_INDEX_32] INVALID_INDEX_32 ∧
    (∀ e ∈ entries [0, 1, 3, 6] [97, 98, 98, 99, 99, 99], e.length ≤ 4 * 1) :=
  ⟨by unfold IndexedOK; decide, inRange_of_all (by decide), validMonotone_of_pairwise (by decide), by decide⟩

example : orderedMapValidIndexedStream [0, 1, 3, 6] [97, 98, 98, 99, 99, 99]
    [0, 1, INVALID_INDEX_32, INVALID_INDEX_32] INVALID_INDEX_32 4 1 = .ok ([0, 1, 3, 3, 3], [97, 98, 98]) := by rfl

example : mapIndexedSpec [0, 1, 3, 6] [97, 98, 98, 99, 99, 99] INVALID_INDEX_32
    [0, 1, INVALID_INDEX_32, INVALID_INDEX_32] = some ([0, 1, 3, 3, 3], [97, 98, 98]) := by decide

/-- several value sub-chunks and buffer flushes: chunksize 2, value_factor 2, entries of 1, 2, 3 and 4 bytes -/
example : orderedMapValidIndexedStream [0, 1, 3, 6, 10] [1, 2, 2, 3, 3, 3, 4, 4, 4, 4] [0, 1, -1, 2, 2, 3] (-1) 2 2
    = .ok ([0, 1, 3, 3, 6, 9, 13], [1, 2, 2, 3, 3, 3, 3, 3, 3, 4, 4, 4, 4]) := by rfl

example : safeMapValues [10, 20, 30] [2, -1, 0] ([2, -1, 0].map (fun k => k != -1)) none (0 : Int) = .ok [30, 0, 10] := by rfl
example : mapValid [10, 20, 30] [2, -1, 0] (some [7, 7, 7]) (-1) (0 : Int) = .ok [30, 7, 10] := by rfl
example : safeMapIndexedValues [0, 1, 3] [97, 98, 99] [1, -1, 0] ([1, -1, 0].map (fun k => k != -1)) []
    = .ok ([0, 2, 2, 3], [98, 99, 97]) := by rfl
example : subchunks [0, 1, 5, 9, -1] (-1) 4 = .ok [(0, 2), (2, 3), (3, 5)] := by rfl
example : getValidValueExtents [-1, 1, 5, -1] 0 4 (-1) = .ok (1, 5) := by rfl
example : chunkDecomp [0, 1, 3, 6, 10, 15, 21, 28, 36, 45] 8 0 9 = .ok [(0, 2), (2, 4), (4, 5), (5, 6), (6, 7), (7, 8), (8, 9)] := by rfl

end Exetera.Props.C04
