import Exetera.Model.Basic
/-!
  Specification of C16 (span concatenation): what `Session.apply_spans_concat` must store.

  Strings are lists over an arbitrary alphabet `α` with decidable equality (bytes in the driver); `sep` is the
  separator (`,`), `delim` the quote character (`"`).

  * `field`       : one entry as it appears in a CSV line — quoted, inner quotes doubled, iff it contains `sep` or `delim`
  * `joinCsv`     : the entries of one line, separated by `sep`
  * `nonEmpty`    : drop the empty strings
  * `concatSpec`  : for every pair of consecutive span boundaries `(a, b)`: `joinCsv (nonEmpty entries[a:b])`
  * `offsets`     : the index array of an indexed string column (`0` followed by the running total of lengths)
  * `parseCsvLine`: a reader for one CSV line (RFC-4180 quoting, what Python's `csv.reader` does with a line)
-/
namespace Exetera.Spec.CsvLine

open Exetera

variable {α : Type} [DecidableEq α]

/-- does the entry contain a separator or a quote? -/
def needsQuote (sep delim : α) (x : List α) : Bool := x.any (fun c => c = sep || c = delim)

/-- every quote character doubled -/
def escape (delim : α) : List α → List α
  | [] => []
  | c :: cs => if c = delim then delim :: delim :: escape delim cs else c :: escape delim cs

/-- an entry as written into a CSV line -/
def field (sep delim : α) (x : List α) : List α :=
  if needsQuote sep delim x then delim :: (escape delim x ++ [delim]) else x

/-- `sep.join(xs)` -/
def joinWith (sep : α) : List (List α) → List α
  | [] => []
  | [x] => x
  | x :: y :: rest => x ++ sep :: joinWith sep (y :: rest)

def joinCsv (sep delim : α) (xs : List (List α)) : List α := joinWith sep (xs.map (field sep delim))

def nonEmpty (xs : List (List α)) : List (List α) := xs.filter (fun x => !x.isEmpty)

/-- consecutive boundaries `(spans[s], spans[s+1])` -/
def spanPairs (spans : List Nat) : List (Nat × Nat) := spans.zip spans.tail

/-- the output string of the span `[a, b)` -/
def spanOut (sep delim : α) (entries : List (List α)) (a b : Nat) : List α :=
  joinCsv sep delim (nonEmpty (slice entries a b))

/-- the strings `apply_spans_concat` must produce, one per span -/
def concatSpec (sep delim : α) (entries : List (List α)) (spans : List Nat) : List (List α) :=
  (spanPairs spans).map (fun p => spanOut sep delim entries p.1 p.2)

/-- running totals `base + |x₀|, base + |x₀| + |x₁|, …` -/
def offsetsFrom : Nat → List (List α) → List Nat
  | _, [] => []
  | base, x :: xs => (base + x.length) :: offsetsFrom (base + x.length) xs

/-- index array of an indexed string column holding `xs` -/
def offsets (xs : List (List α)) : List Nat := 0 :: offsetsFrom 0 xs

/-- what ends up in `dest.indices`: nothing at all is written when there is no span (the empty indexed field keeps
    `indices = []`, see D2 under C01), otherwise the offsets of the output strings -/
def storedIndices (outs : List (List α)) : List Nat := if outs.isEmpty then [] else offsets outs

/-- the strings stored by an (indices, values) pair: `values[indices[i] : indices[i+1]]` -/
def decode (indices : List Nat) (values : List α) : List (List α) :=
  (indices.zip indices.tail).map (fun p => slice values p.1 p.2)

/-! ### reading one CSV line -/

inductive PState where
  | start        -- at the beginning of a field
  | unquoted     -- inside an unquoted field
  | quoted       -- inside a quoted field
  | afterQuote   -- inside a quoted field, just after a quote character (closing quote or first half of a doubled one)
  deriving Repr, DecidableEq

/-- `cur` is the field read so far; the end of the line closes the current field -/
def parseGo (sep delim : α) : PState → List α → List α → List (List α)
  | _, cur, [] => [cur]
  | .start, cur, c :: cs =>
    if c = delim then parseGo sep delim .quoted cur cs
    else if c = sep then cur :: parseGo sep delim .start [] cs
    else parseGo sep delim .unquoted (cur ++ [c]) cs
  | .unquoted, cur, c :: cs =>
    if c = sep then cur :: parseGo sep delim .start [] cs
    else parseGo sep delim .unquoted (cur ++ [c]) cs
  | .quoted, cur, c :: cs =>
    if c = delim then parseGo sep delim .afterQuote cur cs
    else parseGo sep delim .quoted (cur ++ [c]) cs
  | .afterQuote, cur, c :: cs =>
    if c = delim then parseGo sep delim .quoted (cur ++ [delim]) cs
    else if c = sep then cur :: parseGo sep delim .start [] cs
    else parseGo sep delim .unquoted (cur ++ [c]) cs

/-- the fields of one CSV line; the empty line has no fields (as `csv.reader` yields `[]` for it) -/
def parseCsvLine (sep delim : α) (line : List α) : List (List α) :=
  if line.isEmpty then [] else parseGo sep delim .start [] line

end Exetera.Spec.CsvLine
