import Exetera.Lemmas.CsvTailCell
/-! A window that ends inside a record (C05). -/
namespace Exetera.Csv
open Exetera Spec

theorem dropWhile_take_length_le (p : Nat → Bool) (l : Bytes) : ∀ m, ((l.take m).dropWhile p).length ≤ (l.dropWhile p).length := by
  induction l with
  | nil => intro m; simp
  | cons x xs ih =>
    intro m
    cases m with
    | zero => simp
    | succ m =>
      cases hx : p x
      · simp [List.take, List.dropWhile, hx]
        exact Nat.min_le_right _ _
      · simpa [List.take, List.dropWhile, hx] using ih m

/-- every prefix of the content-and-closing-quote of a quoted cell is the escaped form of a prefix of the content,
    possibly followed by one more quote (the first of a doubled quote, or the closing one) -/
theorem take_escape (text : Bytes) : ∀ m, ∃ u tq, (escape text ++ [QUOTE]).take m = escape u ++ tq ∧
    (tq = [] ∨ tq = [QUOTE]) ∧ u.length ≤ text.length := by
  induction text with
  | nil =>
    intro m
    cases m with
    | zero => exact ⟨[], [], by simp [escape], Or.inl rfl, by simp⟩
    | succ m => exact ⟨[], [QUOTE], by simp [escape], Or.inr rfl, by simp⟩
  | cons b t ih =>
    intro m
    by_cases hb : b = QUOTE
    · subst hb
      cases m with
      | zero => exact ⟨[], [], by simp [escape], Or.inl rfl, by simp⟩
      | succ m =>
        cases m with
        | zero => exact ⟨[], [QUOTE], by simp [escape], Or.inr rfl, by simp⟩
        | succ m =>
          obtain ⟨u, tq, h1, h2, h3⟩ := ih m
          refine ⟨QUOTE :: u, tq, ?_, h2, by simp; omega⟩
          simp only [escape, if_true, List.cons_append, List.take_succ_cons]
          rw [h1]
    · cases m with
      | zero => exact ⟨[], [], by simp [escape], Or.inl rfl, by simp⟩
      | succ m =>
        obtain ⟨u, tq, h1, h2, h3⟩ := ih m
        refine ⟨b :: u, tq, ?_, h2, by simp; omega⟩
        simp only [escape, hb, if_false, List.cons_append, List.take_succ_cons]
        rw [h1]

/-- the cell text of `c` cut after `m ≤ |renderCell c|` bytes: the window ends before, in, or right after this cell -/
theorem cell_tail {src : Bytes} {offs : List Nat} {maxrow ncols : Nat} (c : Cell) (hwf : c.WF) (m : Nat) {s : KS}
    {A0 : Bytes} {j k np : Nat} {E E' : Nat → List Bytes} (hsrc : src = A0 ++ (renderCell c).take m)
    (hcs : CellStart src offs maxrow ncols s (A0 ++ ((renderCell c).take m).takeWhile isWs) j false k np E')
    (hext : Ext E E') (hcap : offAt offs j + (E' j).flatten.length + c.value.length < offAt offs (j + 1)) :
    ∃ n s', KSteps src offs maxrow n s s' ∧ WindowEnd offs maxrow ncols s' k np E := by
  have hsplit : src = (A0 ++ ((renderCell c).take m).takeWhile isWs) ++ ((renderCell c).take m).dropWhile isWs := by
    rw [List.append_assoc, List.takeWhile_append_dropWhile]; exact hsrc
  cases hq : c.quoted with
  | false =>
    have hr : renderCell c = c.text := by simp [renderCell, hq]
    have hv : c.value = stripLead c.text := by simp [Cell.value, hq]
    rw [hr] at hsplit hcs
    have hplain : ∀ b ∈ (c.text.take m).dropWhile isWs, b ≠ QUOTE ∧ b ≠ SEP ∧ b ≠ NL := by
      intro b hb
      have hb' : b ∈ c.text := List.mem_of_mem_take ((List.dropWhile_sublist _).subset hb)
      rcases hwf with h | h
      · rw [hq] at h; cases h
      · exact h b hb'
    have hlen : ((c.text.take m).dropWhile isWs).length ≤ c.value.length := by
      rw [hv]; exact dropWhile_take_length_le _ _ _
    exact cell_tail_bare hcs hext hsplit hplain (by omega)
  | true =>
    have hr : renderCell c = QUOTE :: (escape c.text ++ [QUOTE]) := by simp [renderCell, hq]
    have hv : c.value = c.text := by simp [Cell.value, hq]
    rw [hr] at hsplit hcs hsrc
    cases m with
    | zero =>
      simp only [List.take_zero, List.takeWhile_nil, List.append_nil] at hcs hsrc
      rw [← hsrc] at hcs
      exact ⟨0, s, .refl _, cell_tail_none hcs hext⟩
    | succ m =>
      obtain ⟨u, tq, h1, h2, h3⟩ := take_escape c.text m
      have hqw : isWs QUOTE = false := by decide
      have htk : (QUOTE :: (escape c.text ++ [QUOTE])).take (m + 1) = QUOTE :: (escape u ++ tq) := by
        rw [List.take_succ_cons, h1]
      rw [htk] at hcs hsrc
      have htw : (QUOTE :: (escape u ++ tq)).takeWhile isWs = [] := by simp [List.takeWhile_cons, hqw]
      rw [htw, List.append_nil] at hcs
      exact cell_tail_quoted hcs hext hsrc h2 (by rw [hv] at hcap; omega)

theorem take_len_add {α} (l1 l2 : List α) (k : Nat) : (l1 ++ l2).take (l1.length + k) = l1 ++ l2.take k := by
  induction l1 with
  | nil => simp
  | cons x xs ih => simp [Nat.succ_add, ih]

/-- the record text cut after `m < |renderCells cs|` bytes: the window ends inside this record -/
theorem row_tail {src : Bytes} {offs : List Nat} {maxrow ncols : Nat} {k np : Nat} {E : Nat → List Bytes} (cs : List Cell) :
    ∀ (m : Nat) (A0 : Bytes) (s : KS) (j : Nat) (E' : Nat → List Bytes),
      cs ≠ [] → (∀ c ∈ cs, c.WF) → j + cs.length = ncols → m < (renderCells cs).length →
      src = A0 ++ (renderCells cs).take m →
      CellStart src offs maxrow ncols s (A0 ++ ((renderCells cs).take m).takeWhile isWs) j false k np E' → Ext E E' →
      RowCap offs false E' j cs →
      ∃ n s', KSteps src offs maxrow n s s' ∧ WindowEnd offs maxrow ncols s' k np E := by
  induction cs with
  | nil => intro _ _ _ _ _ h; exact absurd rfl h
  | cons c cs ih =>
    intro m A0 s j E' _ hwf hlen hm hsrc hcs hext hcap
    have hwfc := hwf c (by simp)
    have hcapc := hcap.1 rfl
    by_cases hmc : m ≤ (renderCell c).length
    · -- the cut is in (or right behind) this cell
      have htk : (renderCells (c :: cs)).take m = (renderCell c).take m := by
        cases cs with
        | nil => simp only [renderCells]; exact List.take_append_of_le_length hmc
        | cons d ds => simp only [renderCells]; exact List.take_append_of_le_length hmc
      rw [htk] at hsrc hcs
      exact cell_tail c hwfc m hsrc hcs hext hcapc
    · cases cs with
      | nil =>
        simp only [renderCells, List.length_append, List.length_cons, List.length_nil] at hm
        omega
      | cons d ds =>
        have hm' : m = (renderCell c).length + ((m - (renderCell c).length - 1) + 1) := by omega
        have hrc : renderCells (c :: d :: ds) = renderCell c ++ SEP :: renderCells (d :: ds) := by simp [renderCells]
        have htk : (renderCells (c :: d :: ds)).take m =
            renderCell c ++ SEP :: (renderCells (d :: ds)).take (m - (renderCell c).length - 1) := by
          rw [hrc, hm', take_len_add]
          simp
        have hm2 : m - (renderCell c).length - 1 < (renderCells (d :: ds)).length := by
          rw [hrc] at hm; simp at hm; omega
        rw [htk] at hsrc hcs
        have hsrc' : src = (A0 ++ (renderCell c ++ SEP :: (renderCells (d :: ds)).take (m - (renderCell c).length - 1)).takeWhile isWs) ++
            (body c ++ SEP :: (renderCells (d :: ds)).take (m - (renderCell c).length - 1)) := by
          rw [List.append_assoc, ← lead_drop c SEP _ (Or.inl rfl), List.takeWhile_append_dropWhile]; exact hsrc
        obtain ⟨n1, s1, hsteps1, hcs1⟩ :=
          cell_sep (offs := offs) (maxrow := maxrow) c hwfc _ ((renderCells (d :: ds)).take (m - (renderCell c).length - 1))
            s j false k np E' hcs hsrc' (by simp at hlen; omega) hcap.1
        have hA : A0 ++ (renderCell c ++ SEP :: (renderCells (d :: ds)).take (m - (renderCell c).length - 1)).takeWhile isWs ++
            (body c ++ SEP :: ((renderCells (d :: ds)).take (m - (renderCell c).length - 1)).takeWhile isWs) =
            (A0 ++ (renderCell c ++ [SEP])) ++ ((renderCells (d :: ds)).take (m - (renderCell c).length - 1)).takeWhile isWs := by
          have := lead_split c SEP ((renderCells (d :: ds)).take (m - (renderCell c).length - 1)) (Or.inl rfl)
          simp only [List.append_assoc]
          rw [← List.append_assoc ((renderCell c ++ SEP :: (renderCells (d :: ds)).take (m - (renderCell c).length - 1)).takeWhile isWs), this]
          simp
        rw [hA] at hcs1
        have hsrc1 : src = (A0 ++ (renderCell c ++ [SEP])) ++ (renderCells (d :: ds)).take (m - (renderCell c).length - 1) := by
          rw [hsrc]; simp
        obtain ⟨n2, s2, hsteps2, hend⟩ :=
          ih (m - (renderCell c).length - 1) (A0 ++ (renderCell c ++ [SEP])) s1 (j + 1) (stage false E' j c.value) (by simp)
            (fun x hx => hwf x (by simp [hx])) (by simp at hlen ⊢; omega) hm2 hsrc1 hcs1 (hext.stage j c.value) hcap.2
        exact ⟨n1 + n2, s2, StepsN.trans hsteps1 hsteps2, hend⟩

end Exetera.Csv
