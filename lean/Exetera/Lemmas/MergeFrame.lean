import Exetera.Lemmas.MergeSpec
/-! Helper lemmas for C02, part 3: the destination frame as a whole — the sequential creation of destination fields
    (`addAll`), lookups in a frame with pairwise distinct names, the length of a selected column, and the identity selection
    (a stored indexed column re-encodes to itself). -/
namespace Exetera.Merge

open Exetera Exetera.Spec Exetera.MapValid

/-! ### `addAll`: sequential `create_like` -/

/-- **`addAll` succeeds and appends exactly the listed columns** when every listed column was produced without error
    and the names (those already in the destination and the new ones) are pairwise distinct -/
theorem addAll_ok : ∀ (cols : List (String × Col)) (d : Frame), (names d ++ cols.map (·.1)).Nodup →
    addAll (cols.map (fun e => (e.1, Except.ok e.2))) d = .ok (d ++ cols)
  | [], d, _ => by simp [addAll]
  | (n, c) :: rest, d, h => by
    have hn : ¬ n ∈ names d := by
      intro hmem
      have := (List.nodup_append.mp h).2.2 n hmem n (by simp)
      exact this rfl
    have hany : d.any (fun e => e.1 == n) = false := by
      rw [Bool.eq_false_iff]
      intro hc
      obtain ⟨e, he, hen⟩ := List.any_eq_true.mp hc
      exact hn (List.mem_map.mpr ⟨e, he, by simpa using hen⟩)
    have hrest : (names (d ++ [(n, c)]) ++ rest.map (·.1)).Nodup := by
      simpa [names, List.append_assoc] using h
    simp only [List.map_cons, addAll, hany, Bool.false_eq_true, if_false]
    rw [addAll_ok rest (d ++ [(n, c)]) hrest]
    simp [List.append_assoc]

/-- a list of entries none of which is an error is the image of a list of columns -/
theorem entries_all_ok : ∀ (es : List (String × Except Err Col)), (∀ e ∈ es, ∃ c, e.2 = .ok c) →
    ∃ cols : List (String × Col), es = cols.map (fun e => (e.1, Except.ok e.2))
  | [], _ => ⟨[], rfl⟩
  | (n, x) :: rest, h => by
    obtain ⟨c, hc⟩ := h (n, x) (by simp)
    obtain ⟨cols, hcols⟩ := entries_all_ok rest (fun e he => h e (by simp [he]))
    refine ⟨(n, c) :: cols, ?_⟩
    simp only [] at hc
    simp [hc, hcols]

/-- `addAll` on the empty destination: it succeeds, the destination has exactly the listed names in order, and a column
    is in the destination iff it was listed -/
theorem addAll_nil_ok (es : List (String × Except Err Col)) (hok : ∀ e ∈ es, ∃ c, e.2 = .ok c)
    (hnd : (es.map (·.1)).Nodup) :
    ∃ dest, addAll es [] = .ok dest ∧ names dest = es.map (·.1) ∧
      ∀ n c, (n, c) ∈ dest ↔ (n, Except.ok c) ∈ es := by
  obtain ⟨cols, rfl⟩ := entries_all_ok es hok
  have hn : (cols.map (fun e => (e.1, (Except.ok e.2 : Except Err Col)))).map (·.1) = cols.map (·.1) := by
    simp [List.map_map, Function.comp_def]
  rw [hn] at hnd
  refine ⟨cols, ?_, ?_, ?_⟩
  · have := addAll_ok cols [] (by simpa [names] using hnd)
    simpa using this
  · rw [hn]; rfl
  · intro n c
    constructor
    · intro h
      exact List.mem_map.mpr ⟨(n, c), h, rfl⟩
    · intro h
      obtain ⟨e, he, hee⟩ := List.mem_map.mp h
      simp only [Prod.mk.injEq, Except.ok.injEq] at hee
      obtain ⟨h1, h2⟩ := hee
      have : e = (n, c) := by cases e; simp_all
      rw [← this]; exact he

/-! ### lookups -/

theorem look_mem {f : Frame} {n : String} {c : Col} (h : look f n = some c) : (n, c) ∈ f := by
  simp only [look, Option.map_eq_some_iff] at h
  obtain ⟨e, he, rfl⟩ := h
  have hm := List.mem_of_find?_eq_some he
  have hn := List.find?_some he
  have : e.1 = n := by simpa using hn
  rw [← this]; exact hm

theorem look_of_mem : ∀ {f : Frame} {n : String} {c : Col}, (names f).Nodup → (n, c) ∈ f → look f n = some c
  | [], _, _, _, h => by simp at h
  | (m, d) :: rest, n, c, hnd, h => by
    have hnd' : ¬ m ∈ rest.map (·.1) ∧ (rest.map (·.1)).Nodup := List.nodup_cons.mp hnd
    rcases List.mem_cons.mp h with h | h
    · cases h
      simp [look, List.find?]
    · have hne : m ≠ n := by
        intro hmn
        apply hnd'.1
        rw [hmn]
        exact List.mem_map.mpr ⟨(n, c), h, rfl⟩
      have := look_of_mem (f := rest) hnd'.2 h
      simp only [look, List.find?] at this ⊢
      have hb : (m == n) = false := by simpa using hne
      simp only [hb]
      exact this

/-! ### lengths -/

theorem selectCells_length {α} (src : List α) (empty : α) : ∀ (sel : List (Option Nat)) (out : List α),
    selectCells src empty sel = some out → out.length = sel.length
  | [], out, h => by simp [selectCells] at h; subst h; rfl
  | none :: rest, out, h => by
    simp only [selectCells, Option.map_eq_some_iff] at h
    obtain ⟨o, ho, rfl⟩ := h
    simp [selectCells_length src empty rest o ho]
  | some i :: rest, out, h => by
    simp only [selectCells] at h
    cases h1 : src[i]? with
    | none => simp [h1] at h
    | some v =>
      cases h2 : selectCells src empty rest with
      | none => simp [h1, h2] at h
      | some vs =>
        simp only [h1, h2, Option.some.injEq] at h
        subst h
        simp [selectCells_length src empty rest vs h2]

theorem offsetsFromI_length {β} : ∀ (es : List (List β)) (base : Int), (offsetsFromI base es).length = es.length + 1
  | [], _ => rfl
  | e :: es, base => by simp [offsetsFromI, offsetsFromI_length es]

/-- a selected column has one row per selected row -/
theorem selectCol_len {col out : Col} {sel : List (Option Nat)} (h : selectCol col sel = some out) :
    out.len = sel.length := by
  cases col with
  | flat e vals =>
    simp only [selectCol, Option.map_eq_some_iff] at h
    obtain ⟨o, ho, rfl⟩ := h
    simpa [Col.len] using selectCells_length vals e sel o ho
  | indexed ix vs =>
    simp only [selectCol, Option.map_eq_some_iff] at h
    obtain ⟨es, hes, rfl⟩ := h
    have := selectCells_length (entries ix vs) [] sel es hes
    simp [Col.len, encodeIndexed, offsetsFromI_length, this]

/-! ### the identity selection -/

theorem le_getLast?_of_sorted : ∀ {l : List Int} {z : Int}, l.Pairwise (· ≤ ·) → l.getLast? = some z → ∀ x ∈ l, x ≤ z
  | [], _, _, h, _, _ => by simp at h
  | [a], z, _, h, x, hx => by
    simp only [List.getLast?_singleton, Option.some.injEq] at h
    simp only [List.mem_singleton] at hx
    omega
  | a :: b :: t, z, hp, h, x, hx => by
    rw [List.getLast?_cons_cons] at h
    have hp' := List.pairwise_cons.mp hp
    have ih := le_getLast?_of_sorted hp'.2 h
    rcases List.mem_cons.mp hx with hx | hx
    · subst hx
      have hb := hp'.1 b (by simp)
      have := ih b (by simp)
      omega
    · exact ih x hx

theorem encode_entries_aux {β} (vs : List β) : ∀ (ix : List Int) (a : Int), 0 ≤ a → (a :: ix).Pairwise (· ≤ ·) →
    (∀ x ∈ a :: ix, x ≤ vs.length) →
    offsetsFromI a (entries (a :: ix) vs) = a :: ix ∧
      ∀ z, (a :: ix).getLast? = some z → (entries (a :: ix) vs).flatten = (vs.drop a.toNat).take (z.toNat - a.toNat)
  | [], a, _, _, _ => by
    refine ⟨by simp [entries, offsetsFromI], ?_⟩
    intro z hz
    simp only [List.getLast?_singleton, Option.some.injEq] at hz
    subst hz
    simp [entries]
  | b :: rest, a, ha, hp, hb => by
    have hp' := List.pairwise_cons.mp hp
    have hab : a ≤ b := hp'.1 b (by simp)
    have hbv : b ≤ vs.length := hb b (by simp)
    obtain ⟨ih1, ih2⟩ := encode_entries_aux vs rest b (by omega) hp'.2 (fun x hx => hb x (by simp [hx]))
    have hent : entries (a :: b :: rest) vs
        = (vs.drop a.toNat).take (b.toNat - a.toNat) :: entries (b :: rest) vs := by
      simp [entries]
    have hlen : ((vs.drop a.toNat).take (b.toNat - a.toNat)).length = b.toNat - a.toNat := by
      simp only [List.length_take, List.length_drop]
      omega
    refine ⟨?_, ?_⟩
    · rw [hent]
      simp only [offsetsFromI, hlen]
      have : a + ((b.toNat - a.toNat : Nat) : Int) = b := by omega
      rw [this, ih1]
    · intro z hz
      rw [List.getLast?_cons_cons] at hz
      have hbz : b ≤ z := le_getLast?_of_sorted hp'.2 hz b (by simp)
      rw [hent, List.flatten_cons, ih2 z hz]
      have e : z.toNat - a.toNat = (b.toNat - a.toNat) + (z.toNat - b.toNat) := by omega
      rw [e, List.take_add, List.drop_drop]
      have e2 : a.toNat + (b.toNat - a.toNat) = b.toNat := by omega
      rw [e2]

/-- **a well-formed stored indexed column is the encoding of its own entries** -/
theorem encode_entries {β} {ix : List Int} {vs : List β} (hok : IndexedOK ix vs) :
    encodeIndexed (entries ix vs) = (ix, vs) := by
  obtain ⟨h0, hp, hl⟩ := hok
  cases ix with
  | nil => simp at h0
  | cons a rest =>
    simp only [List.head?_cons, Option.some.injEq] at h0
    subst h0
    obtain ⟨h1, h2⟩ := encode_entries_aux vs rest 0 (by omega) hp (le_getLast?_of_sorted hp hl)
    simp only [encodeIndexed, h1, h2 _ hl]
    simp

/-- selecting every row once, in order, returns the column itself -/
theorem selectCol_id {col : Col} {n cap : Nat} (hcol : ColOK col n cap) : selectCol col (idSel n) = some col := by
  cases col with
  | flat e vals =>
    have hl : vals.length = n := by simpa [Col.len] using hcol.len
    rw [← hl]
    simp [selectCol, selectCells_id]
  | indexed ix vs =>
    obtain ⟨hok, _⟩ := hcol.indexedOK ix vs rfl
    have hl := entries_len_of_ok n hcol.len hok
    rw [← hl]
    simp [selectCol, selectCells_id, encode_entries hok]

/-- the length of an integer / boolean auxiliary column -/
theorem intCol_len (xs : List Int) : (intCol xs).len = xs.length := by simp [intCol, Col.len]
theorem boolCol_len (xs : List Bool) : (boolCol xs).len = xs.length := by simp [boolCol, Col.len]

end Exetera.Merge
