import Exetera.Model.GroupBy
import Exetera.Spec.GroupBy
/-!
  Counterexample theorems for C07.

  * D20 (fixed: `fixes/D20_groupby_compares_key_columns_separately.patch`): as found `DataFrame.groupby` stacked the key
    columns into one numpy array; with an int64 and a float64 key column the int64 values were rounded to float64
    (`castF64`), with an integer and a string key column the integers were compared as decimal text (`castDec`). The
    as-found code is `groupbyStacked` (= `groupby .asFound`; `groupbyStacked .repaired` is the tree in which D18 / NC08b
    were already repaired and D20 was still open), which applies the per-column cast; these theorems show the group-by
    property failing on the witnesses of `corpus/C07/d18_d20.json` as found and holding with the repair.
  * D18 (fixed; owned by C08): the as-found `apply_spans_index_of_min_indexed` gives the wrong string minimum through
    `groupby(...).min`; the repaired variant gives the right one.
-/
namespace Exetera.Witness.C07
open Exetera Exetera.GroupBy Exetera.Spec Exetera.Spans

/-- float64 rounding is not injective: 2^53 and 2^53+1 are stacked to the same value … -/
theorem castF64_not_faithful : ¬ CastFaithful castF64 := by
  intro h
  have := h 9007199254740992 9007199254740993 (by decide)
  revert this; decide

/-- the hypothesis of the `_partial` theorems fails on the witness column -/
theorem d20_not_faithful_on : ¬ CastFaithfulOn castF64 [9007199254740993, 9007199254740992, 9007199254740993] := by
  intro h
  have := h 9007199254740992 (by simp) 9007199254740993 (by simp) (by decide)
  revert this; decide

/-- … so three rows with the two distinct keys (2^53+1, 0), (2^53, 0) come back as ONE group of 3 rows. -/
theorem d20_float_collapses_groups :
    groupbyCount .asFound [⟨castF64, [9007199254740993, 9007199254740992, 9007199254740993]⟩, ⟨id, [0, 0, 0]⟩] false =
      .ok ⟨[[9007199254740993], [0]], [.ints [3]]⟩ := rfl

/-- the same on the tree that had every other fix: what the stacked `groupby` hands to the aggregates is ONE span -/
theorem d20_float_collapses_groups_stacked :
    groupbyStacked .repaired [⟨castF64, [9007199254740993, 9007199254740992, 9007199254740993]⟩, ⟨id, [0, 0, 0]⟩] false =
      .ok ⟨none, [0, 3]⟩ := rfl

/-- repaired (fix D20): the first column is compared as int64, the frame is found unsorted and sorted, two groups -/
theorem d20_float_repaired_two_groups :
    groupbyCount .repaired [⟨castF64, [9007199254740993, 9007199254740992, 9007199254740993]⟩, ⟨id, [0, 0, 0]⟩] false =
      .ok ⟨[[9007199254740992, 9007199254740993], [0, 0]], [.ints [1, 2]]⟩ := by
  have hs : SortIndex.datasetSortIndex [[9007199254740993, 9007199254740992, 9007199254740993], [0, 0, 0]] (List.range 3) =
      .ok [1, 0, 2] := by
    simp [SortIndex.datasetSortIndex, SortIndex.sortLoop, SortIndex.sortPass, SortIndex.gather, SortIndex.argsortStable, getE,
      List.mergeSort, List.zipIdx, List.range, List.range.loop, SortIndex.leKey, List.MergeSort.Internal.splitInTwo]
  have h2 : keysSorted [[9007199254740993, 9007199254740992, 9007199254740993], [0, 0, 0]] = false := by decide
  simp only [groupbyCount, groupby, groupbyCols, readKeys, List.map, List.all, nrows, List.length, Nat.zero_add, Nat.reduceAdd, h2,
    BEq.rfl, Bool.and_self, if_true, Bool.or_self, Bool.false_eq_true, if_false, hs]
  rfl

/-- the property fails on that output: the key tuple (2^53, 0) of row 1 is missing from the result -/
theorem d20_float_violates_spec :
    ¬ DistinctAscending (keyRows 3 [[9007199254740993, 9007199254740992, 9007199254740993], [0, 0, 0]])
        (keyRows 1 [[9007199254740993], [0]]) := by
  intro h
  have := (h.2 [9007199254740992, 0]).2 (by decide)
  revert this; decide

/-- decimal text order is not the numeric order: "10" < "9" -/
theorem castDec_not_faithful : ¬ CastFaithful castDec := by
  intro h
  have := h 9 10 (by decide)
  revert this; decide

/-- … so the frame [(10, a), (9, a)] counts as sorted and the keys come back in the order 10, 9: not ascending -/
theorem d20_text_order_not_ascending :
    groupbyDistinct .asFound [⟨castDec, [10, 9]⟩, ⟨id, [0, 0]⟩] false = .ok ⟨[[10, 9], [0, 0]], []⟩ ∧
    ¬ DistinctAscending (keyRows 2 [[10, 9], [0, 0]]) (keyRows 2 [[10, 9], [0, 0]]) := by
  refine ⟨rfl, ?_⟩
  intro h
  have := h.1
  revert this; decide

/-- D18 as found: `groupby('k').min('t')` over the single group ["b", "ab", "a"] returns "ab"; repaired: "a" -/
theorem d18_string_min :
    groupbyAgg .asFound .min [⟨id, [0, 0, 0]⟩] true [.indexed [0, 1, 3, 4] [98, 97, 98, 97]] = .ok ⟨[[0]], [.strs [[97, 98]]]⟩ ∧
    groupbyAgg .repaired .min [⟨id, [0, 0, 0]⟩] true [.indexed [0, 1, 3, 4] [98, 97, 98, 97]] = .ok ⟨[[0]], [.strs [[97]]]⟩ :=
  ⟨rfl, rfl⟩

end Exetera.Witness.C07
