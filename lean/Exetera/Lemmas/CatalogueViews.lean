import Exetera.Lemmas.CatalogueStep
/-! What the client observes: the two views of the catalogue agree; rename refines the abstract renaming; handles. -/
namespace Exetera.Catalogue

theorem look_congr {t u : Table} (ht : (keys t).Nodup) (hu : (keys u).Nodup) (h : ∀ e, e ∈ t ↔ e ∈ u) (k : Key) :
    look t k = look u k := by
  cases hl : look t k with
  | none =>
    symm
    rw [look_eq_none] at hl ⊢
    intro hm
    obtain ⟨v, hv⟩ := mem_keys.1 hm
    exact hl (mem_keys_of_mem ((h _).2 hv))
  | some v =>
    symm
    rw [look_eq_some ht] at hl
    rw [look_eq_some hu]
    exact (h _).1 hl

/-- the catalogue the Python objects report is the catalogue stored in the file -/
theorem views_agree {s : State} (hI : Inv s) : absPy s = absH5 s := by
  funext d fn
  unfold absPy absH5
  rw [look_congr hI.dfsNodup hI.fileNodup hI.sameFrames]
  cases look s.file (d, fn) with
  | none => rfl
  | some g =>
    simp only [Option.map_some]
    congr 1
    funext n
    cases hc : look s.cols (g, n) with
    | none =>
      have : look s.links (g, n) = none := by
        rw [look_eq_none] at hc ⊢
        exact fun hm => hc ((hI.sameKeys _).2 hm)
      rw [this]; rfl
    | some h =>
      obtain ⟨hd, h1, _, _, _, _, h6⟩ := hI.sameObj _ _ (look_mem hc)
      rw [(look_eq_some hI.linksNodup).2 h6]
      simp [h1]

theorem look_renamed_links {s : State} (hI : InvCore s) {g : Nat} {dict : List (Name × Name)}
    (hok : RenameOk dict ((ownedBy s.cols g).map (·.1))) {k : Key} {o : Nat} (hk : (k, o) ∈ s.links) :
    look (renamedState s g dict).links (renKey g dict k) = some o := by
  rw [look_eq_some (renamedState_core hI g dict hok).linksNodup]
  exact mem_renamed_links.2 ⟨(k, o), hk, rfl⟩

/-- `rename` refines the abstract renaming of the frame, and leaves every other frame alone -/
theorem renamedState_refines {s : State} (hI : InvCore s) (g : Nat) (dict : List (Name × Name))
    (hok : RenameOk dict ((ownedBy s.cols g).map (·.1))) :
    Renamed dict (frameH5 s g) (frameH5 (renamedState s g dict) g) ∧
    ∀ g', g' ≠ g → frameH5 (renamedState s g dict) g' = frameH5 s g' := by
  have hobjs : (renamedState s g dict).objs = s.objs := rfl
  refine ⟨⟨?_, ?_⟩, ?_⟩
  · intro n c hc
    unfold frameH5 at hc ⊢
    cases hl : look s.links (g, n) with
    | none => rw [hl] at hc; simp at hc
    | some o =>
      rw [hl] at hc
      have := look_renamed_links hI hok (look_mem hl)
      simp only [renKey, if_true] at this
      rw [this, hobjs]; exact hc
  · intro n' c hc
    unfold frameH5 at hc ⊢
    cases hl : look (renamedState s g dict).links (g, n') with
    | none => rw [hl] at hc; simp at hc
    | some o =>
      rw [hl] at hc
      obtain ⟨e, he, heq⟩ := mem_renamed_links.1 (look_mem hl)
      obtain ⟨h1, h2⟩ := Prod.mk.inj heq
      have hf : e.1.1 = g := by
        have := congrArg Prod.fst h1; rw [renKey_frame] at this; exact this.symm
      refine ⟨e.1.2, ?_, ?_⟩
      · have : look s.links (g, e.1.2) = some o := by
          rw [look_eq_some hI.linksNodup, ← hf, h2]; exact he
        rw [this]; exact hc
      · have := congrArg Prod.snd h1
        simp only [renKey, hf, if_true] at this
        exact this.symm
  · intro g' hg'
    funext n
    unfold frameH5
    have : look (renamedState s g dict).links (g', n) = look s.links (g', n) := by
      cases hl : look s.links (g', n) with
      | none =>
        rw [look_eq_none] at hl ⊢
        intro hm
        obtain ⟨v, hv⟩ := mem_keys.1 hm
        obtain ⟨e, he, heq⟩ := mem_renamed_links.1 hv
        obtain ⟨h1, _⟩ := Prod.mk.inj heq
        have hf : e.1.1 = g' := by
          have := congrArg Prod.fst h1; rw [renKey_frame] at this; exact this.symm
        have : renKey g dict e.1 = e.1 := by simp [renKey, hf, hg']
        rw [this] at h1
        exact hl (h1 ▸ mem_keys_of_mem he)
      | some o =>
        have := look_renamed_links hI hok (look_mem hl)
        simpa [renKey, hg'] using this
    rw [this, hobjs]

/-- field objects held across a rename stay valid and report the new name -/
theorem handle_follows_rename {s : State} (hI : InvCore s) (g : Nat) (dict : List (Name × Name))
    (hok : RenameOk dict ((ownedBy s.cols g).map (·.1))) {h : Nat} {n : Name} (hc : ((g, n), h) ∈ s.cols) :
    viewHandle s h = .named n ∧ viewHandle (renamedState s g dict) h = .named (renOf dict n) := by
  obtain ⟨hd, h1, h2, h3, _, _, h6⟩ := hI.sameObj _ _ hc
  have hI' := renamedState_core hI g dict hok
  have hh' : (renamedState s g dict).handles[h]? = some hd := h1
  constructor
  · unfold viewHandle
    simp only [h1, h3, h2, Bool.false_eq_true, if_false, Bool.not_true]
    rw [(nameOfVal_eq_some hI.oidInj).2 ⟨g, h6⟩]
  · unfold viewHandle
    simp only [hh', h3, h2, Bool.false_eq_true, if_false, Bool.not_true]
    have : ((g, renOf dict n), hd.oid) ∈ (renamedState s g dict).links :=
      mem_renamed_links.2 ⟨((g, n), hd.oid), h6, by simp [renKey]⟩
    rw [(nameOfVal_eq_some hI'.oidInj).2 ⟨g, this⟩]

theorem dropField_handles (s : State) (g : Nat) (n : Name) : (dropField s g n).state.handles = s.handles := by
  unfold dropField; split
  · rfl
  simp only
  split <;> rfl

/-- a field object moved to another frame reports itself invalid afterwards -/
theorem moveField_cross_invalid {s s' : State} {h g : Nat} {n : Name} {hd : Handle}
    (hv : ensureValid s h = .ok hd) (hne : hd.owner ≠ some g) (hok : moveField .repaired s h g n = .ok () s') :
    viewHandle s' h = .invalid := by
  obtain ⟨hh, hc, _⟩ := ensureValid_ok hv
  unfold moveField at hok
  simp only [hv, hne, if_false] at hok
  cases hcp : copyField .repaired s h g n with
  | err e s1 => rw [hcp] at hok; simp [Res.andThen] at hok
  | ok a s1 =>
    rw [hcp] at hok
    simp only [Res.andThen] at hok
    have hh1 : s1.handles[h]? = some hd := by
      unfold copyField at hcp
      split at hcp
      · cases hcp
      · exact (addField_ok_shape hcp).2.2.2.2.1 h hd hh
    split at hok
    · cases hok
    · next og _ =>
      split at hok
      · cases hok
      · next k _ =>
        have hdh := dropField_handles s1 og k
        cases hdr : dropField s1 og k with
        | err e s2 => rw [hdr] at hok; cases hok
        | ok u s2 =>
          rw [hdr] at hok hdh
          simp only [Res.ok.injEq, true_and] at hok
          subst hok
          simp only [Res.state] at hdh
          unfold viewHandle
          simp only [invalidate, List.getElem?_modify, hdh, hh1, Option.map_eq_map, Option.map_some, if_true, hc,
            Bool.false_eq_true, if_false, Bool.not_false]

theorem look_snoc {t : Table} {k k' : Key} {v : Nat} (hk : k ∉ keys t) :
    look (t ++ [(k, v)]) k' = if k' = k then some v else look t k' := by
  induction t with
  | nil =>
    simp only [List.nil_append, look]
    by_cases h : k = k'
    · subst h; simp
    · have h' : ¬ k' = k := fun e => h e.symm
      simp [h, h']
  | cons e t ih =>
    obtain ⟨k0, v0⟩ := e
    simp only [keys_cons, List.mem_cons, not_or] at hk
    simp only [List.cons_append, look]
    by_cases h0 : k0 = k'
    · subst h0
      have : ¬ k0 = k := fun e => hk.1 e.symm
      simp [this]
    · simp only [h0, if_false]
      exact ih hk.2

theorem look_erase {t : Table} {k k' : Key} : look (erase t k) k' = if k' = k then none else look t k' := by
  induction t with
  | nil => simp [erase, look]
  | cons e t ih =>
    obtain ⟨k0, v0⟩ := e
    unfold erase at ih ⊢
    simp only [List.filter_cons]
    by_cases h0 : k0 = k
    · subst h0
      simp only [ne_eq, not_true_eq_false, decide_false, Bool.false_eq_true, if_false, ih, look]
      by_cases h1 : k' = k0
      · simp [h1]
      · have : ¬ k0 = k' := fun e => h1 e.symm
        simp [h1, this]
    · simp only [ne_eq, h0, not_false_eq_true, decide_true, if_true, look, ih]
      by_cases h1 : k0 = k'
      · subst h1; simp [h0]
      · simp [h1]

/-- a new column holds the given content; every other column of every frame keeps its type and data -/
theorem addField_refines {v : Variant} {s s' : State} (hI : InvCore s) {g : Nat} {n : Name} {c : Content} {a : Nat}
    (h : addField v s g n c = .ok a s') :
    ∀ g' n', frameH5 s' g' n' = if (g', n') = (g, n) then some c else frameH5 s g' n' := by
  unfold addField at h
  split at h
  · cases h
  split at h
  · cases h
  next _ hl =>
  simp only [Res.ok.injEq] at h
  obtain ⟨_, rfl⟩ := h
  intro g' n'
  simp only [frameH5, look_snoc hl]
  split
  · simp
  · next hne =>
    cases hlk : look s.links (g', n') with
    | none => rfl
    | some o =>
      simp only [Option.bind_some]
      have := hI.oidLt _ _ (look_mem hlk)
      rw [List.getElem?_append_left this]

/-- a deleted column is gone; every other column of every frame keeps its type and data -/
theorem delItem_refines {s s' : State} {g : Nat} {n : Name} (h : delItem s g n = .ok () s') :
    ∀ g' n', frameH5 s' g' n' = if (g', n') = (g, n) then none else frameH5 s g' n' := by
  unfold delItem at h
  split at h
  · cases h
  split at h
  · cases h
  simp only [Res.ok.injEq, true_and] at h
  subst h
  intro g' n'
  simp only [frameH5, look_erase]
  split <;> rfl

theorem dropField_refines {s s' : State} {g : Nat} {n : Name} (h : dropField s g n = .ok () s') :
    ∀ g' n', frameH5 s' g' n' = if (g', n') = (g, n) then none else frameH5 s g' n' := by
  unfold dropField at h
  split at h
  · cases h
  simp only at h
  split at h
  · cases h
  simp only [Res.ok.injEq, true_and] at h
  subst h
  intro g' n'
  simp only [frameH5, look_erase]
  split <;> rfl

/-- `dataframe.copy` / `df[n] = f` / `df.add(f)` store the type and data of the source field -/
theorem copyField_refines {v : Variant} {s s' : State} (hI : InvCore s) {h g : Nat} {n : Name} {a : Nat}
    (hc : copyField v s h g n = .ok a s') :
    ∃ c, fieldContent s h = .ok c ∧ ∀ g' n', frameH5 s' g' n' = if (g', n') = (g, n) then some c else frameH5 s g' n' := by
  unfold copyField at hc
  split at hc
  · cases hc
  · next c hfc => exact ⟨c, hfc, addField_refines hI hc⟩

end Exetera.Catalogue
