import Exetera.Lemmas.CsvImport
/-! `IndexedStringImporter.import_part` across several calls: offsets are rebased by `chunk_accumulated` (C05). -/
namespace Exetera.Csv
open Exetera Spec

theorem offsetsFrom_map_add (es : List Bytes) : ∀ (b a : Nat), (offsetsFrom b es).map (· + a) = offsetsFrom (b + a) es := by
  induction es with
  | nil => intro b a; simp [offsetsFrom]
  | cons e es ih =>
    intro b a
    simp only [offsetsFrom, List.map_cons, ih]
    congr 2; omega

theorem offsetsFrom_append (a c : List Bytes) : ∀ b,
    offsetsFrom b (a ++ c) = offsetsFrom b a ++ (offsetsFrom (b + a.flatten.length) c).drop 1 := by
  induction a with
  | nil => intro b; cases c <;> simp [offsetsFrom]
  | cons e es ih =>
    intro b
    simp only [List.cons_append, offsetsFrom, ih, List.flatten_cons, List.length_append]
    simp [Nat.add_assoc]

def fieldOf' (es : List Bytes) : Imp :=
  { kind := .indexed, idx := indexOf es, vals := bytesOf es, acc := (bytesOf es).length }

/-- `import_part` onto a field that already holds `es0`, when column `c` of the staging buffers holds `es` -/
theorem importPart_acc {offs : List Nat} {inds : List (List Nat)} {vals : List Nat} {c : Nat} {es0 es : List Bytes}
    (h : ColOK offs inds vals c es) (ho : offs[c]? = some (offAt offs c)) :
    Imp.importPart (fieldOf' es0) inds vals offs c es.length = .ok (fieldOf' (es0 ++ es)) := by
  obtain ⟨⟨r, hr, hk⟩, hat⟩ := h
  have htot : r[es.length]? = some es.flatten.length := by rw [hk _ (Nat.le_refl _), endOf_all]
  have hgo : getE offs c "column_offsets[col_idx]" = .ok (offAt offs c) := getE_eq_ok.mpr ho
  have hgt : getE r es.length "column_inds[col_idx,written_row_count]" = .ok es.flatten.length := getE_eq_ok.mpr htot
  simp only [Imp.importPart, fieldOf', hr, hgo, hgt, take_eq_offsets hk, slice_of_at hat]
  simp only [indexOf, bytesOf, offsetsFrom_map_add, offsetsFrom_append, Nat.zero_add, List.flatten_append,
    List.length_append]

theorem importAll_acc {offs : List Nat} {inds : List (List Nat)} {vals : List Nat} {ncols n : Nat}
    {D E : Nat → List Bytes} (hcols : ∀ c, c < ncols → ColOK offs inds vals c (E c))
    (hlen : ∀ c, c < ncols → (E c).length = n) (hoffs : offs.length = ncols + 1) :
    ∀ (im : List Nat), (∀ c ∈ im, c < ncols) →
      importAll inds vals offs n im (im.map (fun c => fieldOf' (D c))) = .ok (im.map (fun c => fieldOf' (D c ++ E c))) := by
  intro im
  induction im with
  | nil => intro _; rfl
  | cons c im ih =>
    intro h
    have hc := h c (by simp)
    have h1 := importPart_acc (es0 := D c) (hcols c hc) (offs_get hoffs (by omega))
    rw [hlen c hc] at h1
    simp only [List.map_cons, importAll, h1, ih (fun x hx => h x (by simp [hx]))]

end Exetera.Csv
