import Exetera.Props.C03
import Exetera.Lemmas.JoinBULoop
import Exetera.Lemmas.GenKernelsJoin
import Exetera.Lemmas.GenKernelsJoinGeneral
import Exetera.Lemmas.JoinGeneralLoop
/-!
  C03 over the TRANSLATED join kernels (`Gen/Kernels.lean`, regenerated from operations.py by tools/translate_njit.py on
  every run): `generate_ordered_map_to_left_both_unique_partial`, `generate_ordered_map_to_left_remaining`,
  `generate_ordered_map_to_left_right_unique_remaining`.

  The model (`Model/Join.lean`) keeps the two chunk-sized result buffers as the lists of values written so far; the translated
  kernels, like the code, write position `r` of fixed-size arrays.  `gen_*_ok`: every `.ok` run of the model's kernel loop
  is a run of the translated kernel (same fuel) on ANY buffer of the chunk capacity whose written prefix is the model's list —
  it returns the model's `i`, `j`, `r` and a buffer whose written prefix is the model's new list.  Hence what the streamed
  drivers flush (`result[:r]`) is, call for call, what the theorems of Props/C03 speak about.
-/
namespace Exetera.Props.C03Gen

open Exetera Exetera.Join Exetera.GenK Exetera.Gen.Kernels

theorem gen_both_unique_partial_ok (p : P) (k k' : K) (rbuf : List Int)
    (hr : rbuf.length = p.cap) (h2 : rbuf.take k.rb.length = k.rb) (h : runPartial .leftBU p k = .ok k') :
    ∃ rbuf', generate_ordered_map_to_left_both_unique_partial.run p.left p.right rbuf p.inv p.jOff k.i k.j k.rb.length
        (partialFuel p) = .ok ((k'.i : Int), (k'.j : Int), (k'.rb.length : Int), rbuf') ∧
      rbuf'.length = p.cap ∧ rbuf'.take k'.rb.length = k'.rb :=
  both_unique_partial_ok p k k' rbuf hr h2 h

theorem gen_left_remaining_ok (p : P) (k k' : K) (lbuf rbuf : List Int)
    (hl : lbuf.length = p.cap) (hr : rbuf.length = p.cap) (hlen : k.lb.length = k.rb.length)
    (h1 : lbuf.take k.rb.length = k.lb) (h2 : rbuf.take k.rb.length = k.rb)
    (h : runRemaining p k = .ok k') :
    ∃ lbuf' rbuf', generate_ordered_map_to_left_remaining.run p.iMax lbuf rbuf p.iOff k.i k.rb.length p.inv (p.iMax + 1)
        = .ok ((k'.i : Int), (k'.rb.length : Int), lbuf', rbuf') ∧
      lbuf'.length = p.cap ∧ rbuf'.length = p.cap ∧ lbuf'.take k'.rb.length = k'.lb ∧ rbuf'.take k'.rb.length = k'.rb :=
  left_remaining_ok p k k' lbuf rbuf hl hr hlen h1 h2 h

theorem gen_right_unique_remaining_ok (p : P) (k k' : K) (rbuf : List Int)
    (hr : rbuf.length = p.cap) (h2 : rbuf.take k.rb.length = k.rb) (h : runRemaining p k = .ok k') :
    ∃ rbuf', generate_ordered_map_to_left_right_unique_remaining.run p.iMax rbuf k.i k.rb.length p.inv (p.iMax + 1)
        = .ok ((k'.i : Int), (k'.rb.length : Int), rbuf') ∧
      rbuf'.length = p.cap ∧ rbuf'.take k'.rb.length = k'.rb :=
  right_unique_remaining_ok p k k' rbuf hr h2 h

/-- the general finite-state kernel (both keys may repeat; the `inner` cartesian-block state is carried between calls): every
    `.ok` run of the model's `_partial` loop is a run of the translated kernel with the model's indices, `r`, FSM registers and
    written prefixes -/
theorem gen_left_partial_ok (p : P) (k k' : K) (lbuf rbuf : List Int)
    (hl : lbuf.length = p.cap) (hr : rbuf.length = p.cap) (hlen : k.lb.length = k.rb.length)
    (h1 : lbuf.take k.rb.length = k.lb) (h2 : rbuf.take k.rb.length = k.rb)
    (h : runPartial .left p k = .ok k') :
    ∃ lbuf' rbuf', generate_ordered_map_to_left_partial.run p.left p.iMax p.right p.jMax lbuf rbuf p.inv p.iOff p.jOff k.i k.j
        k.rb.length k.ii k.jj k.iiMax k.jjMax k.inner (partialFuel p)
        = .ok ((k'.i : Int), (k'.j : Int), (k'.rb.length : Int), (k'.ii : Int), (k'.jj : Int), k'.iiMax, k'.jjMax, k'.inner,
               lbuf', rbuf') ∧
      lbuf'.length = p.cap ∧ rbuf'.length = p.cap ∧ lbuf'.take k'.rb.length = k'.lb ∧ rbuf'.take k'.rb.length = k'.rb :=
  left_partial_ok p k k' lbuf rbuf hl hr hlen h1 h2 h

/-- one `_partial` call of the GENERAL left driver executed by the TRANSLATED kernel: from any driver state satisfying the proof's
    global invariant, on result buffers of the chunk size holding the rows written since the last flush, the translated kernel
    returns normally (no subscript out of range or negative; the outer loop and both run-counting loops end within the fuel)
    with the model's state and written prefixes; the invariant is kept and the loop guard is false afterwards. -/
theorem gen_general_partial_call {L R : List Int} {cs : Nat} {inv : Int} (hL : Spec.Sorted L) (hR : Spec.Sorted R)
    (d : D) (hinv : GInv true L R cs inv d) (lbuf rbuf : List Int) (hl : lbuf.length = cs) (hr : rbuf.length = cs)
    (hlen : d.k.lb.length = d.k.rb.length) (h1 : lbuf.take d.k.rb.length = d.k.lb) (h2 : rbuf.take d.k.rb.length = d.k.rb) :
    ∃ k' lbuf' rbuf', generate_ordered_map_to_left_partial.run d.lch.data d.iMax d.rch.data d.jMax lbuf rbuf inv d.lch.lo d.rch.lo
        d.k.i d.k.j d.k.rb.length d.k.ii d.k.jj d.k.iiMax d.k.jjMax d.k.inner (partialFuel (mkP L R cs inv d))
        = .ok ((k'.i : Int), (k'.j : Int), (k'.rb.length : Int), (k'.ii : Int), (k'.jj : Int), k'.iiMax, k'.jjMax, k'.inner,
               lbuf', rbuf') ∧
      lbuf'.length = cs ∧ rbuf'.length = cs ∧ lbuf'.take k'.rb.length = k'.lb ∧ rbuf'.take k'.rb.length = k'.rb ∧
      GInv true L R cs inv { d with k := k' } ∧ partialGuard .left (mkP L R cs inv d) k' = false := by
  obtain ⟨k', hrun, hI, hg, _, _⟩ := general_partial (emit := true) hL hR d hinv
  have hv : gvariant true = Variant.left := rfl
  rw [hv] at hrun hg
  obtain ⟨lbuf', rbuf', hgen, hl', hr', ht1, ht2⟩ := left_partial_ok (mkP L R cs inv d) d.k k' lbuf rbuf hl hr hlen h1 h2 hrun
  exact ⟨k', lbuf', rbuf', hgen, hl', hr', ht1, ht2, hI, hg⟩

example : ∃ k', runPartial .left ⟨[1, 2, 2], [2, 2, 3], 3, 3, 8, 0, 10, -1⟩ {} = .ok k' ∧ k'.lb = [0, 1, 1, 2, 2] ∧
    k'.rb = [-1, 10, 11, 10, 11] := ⟨_, rfl, rfl, rfl⟩
example : generate_ordered_map_to_left_partial.run [1, 2, 2] 3 [2, 2, 3] 3 [7, 7, 7, 7, 7, 7, 7, 7] [8, 8, 8, 8, 8, 8, 8, 8] (-1) 0 10
    0 0 0 0 0 (-1) (-1) false 40 = .ok (3, 2, 5, 0, 0, -1, -1, false, [0, 1, 1, 2, 2, 7, 7, 7], [-1, 10, 11, 10, 11, 8, 8, 8]) := rfl

/-- one `_partial` call of the both-unique LEFT driver, as the code makes it, executed by the TRANSLATED kernel: from any driver
    state satisfying the proof's global invariant, on a result buffer of the chunk size holding the rows written since the
    last flush, the translated kernel returns normally (no subscript out of range or negative, the loop ends within its
    fuel) with the model's `i, j, r` and written prefix; the invariant is kept and the loop guard is false afterwards. -/
theorem gen_bu_partial_call {L R : List Int} {cs : Nat} {inv : Int} (hL : L.Pairwise (· < ·)) (hR : R.Pairwise (· < ·))
    (d : D) (hinv : BInv true L R cs inv d) (rbuf : List Int) (hr : rbuf.length = cs)
    (h2 : rbuf.take d.k.rb.length = d.k.rb) :
    ∃ k' rbuf', generate_ordered_map_to_left_both_unique_partial.run d.lch.data d.rch.data rbuf inv d.rch.lo d.k.i d.k.j
        d.k.rb.length (partialFuel (mkP L R cs inv d)) = .ok ((k'.i : Int), (k'.j : Int), (k'.rb.length : Int), rbuf') ∧
      rbuf'.length = cs ∧ rbuf'.take k'.rb.length = k'.rb ∧
      BInv true L R cs inv { d with k := k' } ∧ partialGuard .leftBU (mkP L R cs inv d) k' = false := by
  obtain ⟨k', hrun, hI, hg, _, _⟩ := bu_partial (emit := true) hL hR d hinv
  have hv : bvariant true = Variant.leftBU := rfl
  rw [hv] at hrun hg
  obtain ⟨rbuf', hgen, hlen, htake⟩ := both_unique_partial_ok (mkP L R cs inv d) d.k k' rbuf hr h2 hrun
  exact ⟨k', rbuf', hgen, hlen, htake, hI, hg⟩

example : generate_ordered_map_to_left_both_unique_partial.run [1, 3, 5] [3, 4, 5] [9, 9, 9, 9] (-1) 10 0 0 0 20
    = .ok (3, 3, 3, [-1, 10, 12, 9]) := rfl
example : generate_ordered_map_to_left_remaining.run 3 [9, 9] [9, 9] 100 1 0 (-1) 4 = .ok (3, 2, [101, 102], [-1, -1]) := rfl
example : generate_ordered_map_to_left_right_unique_remaining.run 3 [9, 9] 2 1 (-1) 4 = .ok (3, 2, [9, -1]) := rfl

/-- the hypotheses of the three transfer theorems are met by concrete runs of the model -/
example : ∃ k', runPartial .leftBU ⟨[1, 3, 5], [3, 4, 5], 3, 3, 4, 0, 10, -1⟩ {} = .ok k' ∧ k'.rb = [-1, 10, 12] := ⟨_, rfl, rfl⟩
example : ∃ k', runRemaining ⟨[], [], 3, 0, 2, 100, 0, -1⟩ { i := 1 } = .ok k' ∧ k'.lb = [101, 102] ∧ k'.rb = [-1, -1] :=
  ⟨_, rfl, rfl, rfl⟩

end Exetera.Props.C03Gen
