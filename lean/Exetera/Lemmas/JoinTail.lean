import Exetera.Lemmas.JoinGeneralDriver
/-! The tail loop of the left-join drivers: once the right column is exhausted every remaining left row is unmatched. -/
namespace Exetera.Join
open Exetera Exetera.Spec

variable {L R : List Int} {cs : Nat} {inv : Int}

/-- every right key is smaller than the left key at row `I` -/
def AllBelow (L R : List Int) (I : Nat) : Prop := ∀ j b a, j < R.length → R[j]? = some b → L[I]? = some a → b < a

theorem AllBelow.succ (hL : Sorted L) {I : Nat} (h : AllBelow L R I) : AllBelow L R (I + 1) := by
  intro j b a' hj hb ha'
  obtain ⟨hI1, _⟩ := List.getElem?_eq_some_iff.mp ha'
  have ha : L[I]? = some L[I] := get?_some_of_lt (by omega)
  have h1 := h j b _ hj hb ha
  have h2 := Sorted.le_get? hL (i := I) (j := I + 1) (by omega) ha ha'
  omega

theorem rest_allBelow (hR : Sorted R) {I : Nat} (hI : I < L.length) (h : AllBelow L R I) :
    rest L R I = (I, none) :: rest L R (I + 1) := by
  apply rest_lt hR hI (J := R.length) (Nat.le_refl _)
  · intro j hj
    exact h j _ _ hj (get?_some_of_lt hj) (get?_some_of_lt hI)
  · intro h; omega

/-- invariant of the tail loop (and of the `_remaining` kernel inside it) -/
structure TInv (L R : List Int) (cs : Nat) (inv : Int) (d : D) : Prop where
  lo_le : d.lch.lo ≤ d.lch.hi
  hi_le : d.lch.hi ≤ L.length
  ile : d.k.i ≤ d.lch.hi - d.lch.lo
  blen : d.k.lb.length = d.k.rb.length
  bcap : d.k.rb.length ≤ cs
  outL : d.lout ++ d.k.lb ++ encL (rest L R d.I) = encL (leftJoin L R)
  outR : d.rout ++ d.k.rb ++ encR inv (rest L R d.I) = encR inv (leftJoin L R)
  below : d.I < L.length → AllBelow L R d.I

theorem remaining_step (hL : Sorted L) (hR : Sorted R) (d : D) (h : TInv L R cs inv d)
    (hg : (decide (d.k.i < (mkP L R cs inv d).iMax) && decide (d.k.r < (mkP L R cs inv d).cap)) = true) :
    ∃ s', remainingBody (mkP L R cs inv d) d.k = .ok s' ∧ TInv L R cs inv { d with k := s' } ∧
      (mkP L R cs inv d).iMax - s'.i < (mkP L R cs inv d).iMax - d.k.i ∧ ({ d with k := s' } : D).I = d.I + 1 := by
  simp only [mkP, D.iMax, K.r, Bool.and_eq_true] at hg
  have hi := of_decide_eq_true hg.1
  have hr := of_decide_eq_true hg.2
  have hlo := h.lo_le
  have hhi := h.hi_le
  have hIlt : d.I < L.length := by simp only [D.I]; omega
  have hrest := rest_allBelow hR hIlt (h.below hIlt)
  have hoL := h.outL
  have hoR := h.outR
  rw [hrest] at hoL hoR
  refine ⟨{ d.k with lb := d.k.lb ++ [↑(d.lch.lo + d.k.i)], rb := d.k.rb ++ [inv], i := d.k.i + 1 }, ?_, ?_, ?_, ?_⟩
  · simp [remainingBody, mkP, push, hr, bind, Except.bind, pure, Except.pure]
  · have hI' : ({ d with k := { d.k with lb := d.k.lb ++ [↑(d.lch.lo + d.k.i)], rb := d.k.rb ++ [inv], i := d.k.i + 1 } } : D).I = d.I + 1 := by
      simp only [D.I]; omega
    refine ⟨hlo, hhi, by simp only; omega, by simp [h.blen], by simp only [List.length_append, List.length_singleton]; omega, ?_, ?_, ?_⟩
    · rw [hI', ← hoL]; simp [D.I]
    · rw [hI', ← hoR]; simp [encCell]
    · intro hlt; rw [hI'] at hlt ⊢
      exact (h.below hIlt).succ hL
  · simp only [mkP, D.iMax]; omega
  · simp only [D.I]; omega

/-- the `_remaining` kernel call -/
theorem remaining_run (hL : Sorted L) (hR : Sorted R) (d : D) (h : TInv L R cs inv d) :
    ∃ k', runRemaining (mkP L R cs inv d) d.k = .ok k' ∧ TInv L R cs inv { d with k := k' } ∧
      (decide (k'.i < (mkP L R cs inv d).iMax) && decide (k'.r < (mkP L R cs inv d).cap)) = false ∧
      d.I ≤ ({ d with k := k' } : D).I ∧
      ((decide (d.k.i < (mkP L R cs inv d).iMax) && decide (d.k.r < (mkP L R cs inv d).cap)) = true →
        d.I < ({ d with k := k' } : D).I) := by
  have hmk : ∀ s : K, mkP L R cs inv { d with k := s } = mkP L R cs inv d := fun s => rfl
  have key := whileE_rule (fun s => decide (s.i < (mkP L R cs inv d).iMax) && decide (s.r < (mkP L R cs inv d).cap))
    (remainingBody (mkP L R cs inv d))
    (fun s => TInv L R cs inv { d with k := s } ∧ d.I ≤ ({ d with k := s } : D).I ∧ (s ≠ d.k → d.I < ({ d with k := s } : D).I))
    (fun s => (mkP L R cs inv d).iMax - s.i)
    (by
      intro s ⟨hI, hle, hne⟩ hg
      obtain ⟨s', h1, h2, h3, h4⟩ := remaining_step hL hR { d with k := s } hI hg
      refine ⟨s', h1, ⟨h2, ?_, ?_⟩, h3⟩
      · have : ({ d with k := s' } : D).I = ({ d with k := s } : D).I + 1 := h4
        omega
      · intro _
        have : ({ d with k := s' } : D).I = ({ d with k := s } : D).I + 1 := h4
        omega)
    ((mkP L R cs inv d).iMax + 1) d.k ⟨h, Nat.le_refl _, fun hh => absurd rfl hh⟩ (by omega)
  obtain ⟨k', h1, ⟨h2, h3, h4⟩, h5⟩ := key
  refine ⟨k', h1, h2, h5, h3, ?_⟩
  intro hg
  apply h4
  intro heq
  rw [heq] at h5
  rw [h5] at hg
  cases hg

end Exetera.Join

namespace Exetera.Join
open Exetera Exetera.Spec

variable {L R : List Int} {cs : Nat} {inv : Int}

/-- invariant at the top of the tail loop -/
structure TTop (L R : List Int) (cs : Nat) (inv : Int) (d : D) : Prop where
  t : TInv L R cs inv d
  li : d.lch.lo + d.k.i < L.length → d.k.i < d.lch.hi - d.lch.lo
  flushed : d.k.rb = []

theorem TInv.flush {d : D} (h : TInv L R cs inv d) :
    TInv L R cs inv (flush d) ∧ (flush d).I = d.I ∧ (flush d).k.rb = [] ∧ (flush d).lch = d.lch ∧ (flush d).k.i = d.k.i := by
  unfold Join.flush
  split
  · refine ⟨⟨h.lo_le, h.hi_le, h.ile, by simp, by simp, ?_, ?_, h.below⟩, rfl, rfl, rfl, rfl⟩
    · have := h.outL; simpa [D.I] using this
    · have := h.outR; simpa [D.I] using this
  · rename_i hr
    have : d.k.rb = [] := by
      simp only [K.r] at hr
      cases hrb : d.k.rb with
      | nil => rfl
      | cons x xs => rw [hrb] at hr; simp at hr
    exact ⟨h, rfl, this, rfl, rfl⟩

theorem TInv.advance (hcs : 0 < cs) {d : D} (h : TInv L R cs inv d) :
    TInv L R cs inv (tailAdvance L cs d) ∧ (tailAdvance L cs d).I = d.I ∧
      ((tailAdvance L cs d).lch.lo + (tailAdvance L cs d).k.i < L.length →
        (tailAdvance L cs d).k.i < (tailAdvance L cs d).lch.hi - (tailAdvance L cs d).lch.lo) ∧
      (tailAdvance L cs d).k.rb = d.k.rb ∧ (tailAdvance L cs d).k.lb = d.k.lb ∧
      (tailAdvance L cs d).lout = d.lout ∧ (tailAdvance L cs d).rout = d.rout := by
  have hlo := h.lo_le
  have hhi := h.hi_le
  have hile := h.ile
  unfold tailAdvance
  split
  · rename_i hge
    simp only [D.iMax] at hge
    have h1 := nextChunk_fst d.lch.hi L.length cs
    have h2 := nextChunk_snd_le d.lch.hi L.length cs hhi
    have h3 := nextChunk_snd_ge d.lch.hi L.length cs hhi
    have hI' : ({ d with lch := ⟨(nextChunk d.lch.hi L.length cs).1, (nextChunk d.lch.hi L.length cs).2, []⟩,
                         k := { d.k with i := 0 } } : D).I = d.I := by
      simp only [D.I, h1]; omega
    refine ⟨⟨by simp only [h1]; exact h3, h2, by simp, h.blen, h.bcap, ?_, ?_, ?_⟩, hI', ?_, rfl, rfl, rfl, rfl⟩
    · rw [hI']; exact h.outL
    · rw [hI']; exact h.outR
    · rw [hI']; exact h.below
    · intro hlt
      simp only [h1] at hlt ⊢
      have := nextChunk_snd_gt d.lch.hi L.length cs (by omega) hcs
      omega
  · rename_i hlt
    refine ⟨h, rfl, ?_, rfl, rfl, rfl, rfl⟩
    intro _
    simp only [D.iMax] at hlt
    omega

theorem tail_step (hcs : 0 < cs) (hL : Sorted L) (hR : Sorted R) (d : D) (ht : TTop L R cs inv d)
    (hg : tailGuard L d = true) :
    ∃ d', tailBody L R cs inv d = .ok d' ∧ TTop L R cs inv d' ∧ L.length - d'.I < L.length - d.I := by
  simp only [tailGuard] at hg
  have hgi := of_decide_eq_true hg
  have hi0 := ht.li (by omega)
  obtain ⟨k', hk1, hk2, hk3, hk4, hk5⟩ := remaining_run hL hR d ht.t
  have hguard0 : (decide (d.k.i < (mkP L R cs inv d).iMax) && decide (d.k.r < (mkP L R cs inv d).cap)) = true := by
    simp [mkP, D.iMax, K.r, ht.flushed, hi0, hcs]
  have hlt := hk5 hguard0
  let d1 : D := { d with k := k', calls := d.calls + 1 }
  have hd1 : TInv L R cs inv d1 := ⟨hk2.lo_le, hk2.hi_le, hk2.ile, hk2.blen, hk2.bcap, hk2.outL, hk2.outR, hk2.below⟩
  have hd1I : d1.I = ({ d with k := k' } : D).I := rfl
  obtain ⟨ha1, ha2, ha3, ha4, ha5, ha6, ha7⟩ := TInv.advance hcs hd1
  obtain ⟨hf1, hf2, hf3, hf4, hf5⟩ := ha1.flush
  refine ⟨flush (tailAdvance L cs d1), ?_, ⟨hf1, ?_, hf3⟩, ?_⟩
  · simp only [tailBody, hk1, bind, Except.bind, pure, Except.pure]
    rfl
  · rw [hf4, hf5]
    exact ha3
  · rw [hf2, ha2, hd1I]
    have : d.I < L.length := by simp only [D.I]; omega
    omega

end Exetera.Join
