import Exetera.Lemmas.ExportApi
import Exetera.Spec.CsvRender
/-!
  C18 — counterexamples for the defects that are recorded, not repaired (the model / specification mirrors them), and the
  as-found behaviour of the repaired ones (kept so that a regression is recognised).
-/
namespace Exetera.Witness.C18
open Exetera Exetera.Export Exetera.Spec.Csv

/-- D30: a string with a leading blank does not survive export → re-import: `to_csv` writes it unquoted and ExeTera's reader
    dialect skips blanks at the start of a field. -/
theorem d30_leading_blank_lost :
    toCsv renderRow [⟨['s'], [[' ', 'a'], [' ', ' ']]⟩, ⟨['n'], [['1'], ['2']]⟩] .none .none 2
      = .ok ['s', ',', 'n', '\n', ' ', 'a', ',', '1', '\n', ' ', ' ', ',', '2', '\n'] ∧
    parse .exetera ['s', ',', 'n', '\n', ' ', 'a', ',', '1', '\n', ' ', ' ', ',', '2', '\n']
      = [[['s'], ['n']], [['a'], ['1']], [[], ['2']]] := by decide

/-- NC18a: a cell with a bare carriage return (and nothing that forces quotes) is written unquoted; a standard reader ends
    the record at the CR — while ExeTera's own reader dialect reads the cell back intact. -/
theorem nc18a_bare_cr_splits_record :
    toCsv renderRow [⟨['s'], [['i', '\r', 'j']]⟩, ⟨['n'], [['5']]⟩] .none .none 1
      = .ok ['s', ',', 'n', '\n', 'i', '\r', 'j', ',', '5', '\n'] ∧
    parse .std ['s', ',', 'n', '\n', 'i', '\r', 'j', ',', '5', '\n'] = [[['s'], ['n']], [['i']], [['j'], ['5']]] ∧
    parse .exetera ['s', ',', 'n', '\n', 'i', '\r', 'j', ',', '5', '\n'] = [[['s'], ['n']], [['i', '\r', 'j'], ['5']]] := by
  decide

/-- D30 / NC18a repaired (fixes/D30_NC18a): with ExeTera's own `_csv_record` both witnesses are written in quotes and both
    readers return them intact. -/
theorem d30_nc18a_repaired_cells_survive :
    toCsv csvRecord [⟨['s'], [[' ', 'a'], [' ', ' ']]⟩, ⟨['n'], [['1'], ['2']]⟩] .none .none 2
      = .ok ['s', ',', 'n', '\n', '"', ' ', 'a', '"', ',', '1', '\n', '"', ' ', ' ', '"', ',', '2', '\n'] ∧
    parse .exetera ['s', ',', 'n', '\n', '"', ' ', 'a', '"', ',', '1', '\n', '"', ' ', ' ', '"', ',', '2', '\n']
      = [[['s'], ['n']], [[' ', 'a'], ['1']], [[' ', ' '], ['2']]] ∧
    toCsv csvRecord [⟨['s'], [['i', '\r', 'j']]⟩, ⟨['n'], [['5']]⟩] .none .none 1
      = .ok ['s', ',', 'n', '\n', '"', 'i', '\r', 'j', '"', ',', '5', '\n'] ∧
    parse .std ['s', ',', 'n', '\n', '"', 'i', '\r', 'j', '"', ',', '5', '\n'] = [[['s'], ['n']], [['i', '\r', 'j'], ['5']]] := by
  decide

/-- NC18b as found (repaired by fixes/NC18b): `to_pandas` refused the row filters `to_csv` accepts — a Field, and a boolean
    filter shorter than the frame — and read an integer array as row numbers. The repaired variant returns the rows `to_csv`
    writes. -/
theorem nc18b_to_pandas_refuses_csv_filters :
    toPandas .asFound [⟨['s'], [['a'], ['b'], ['c']]⟩] (.field true [true, false, true]) .none
      = .error (.oob "only integers, slices, ... are valid indices") ∧
    toPandas .asFound [⟨['s'], [['a'], ['b'], ['c']]⟩] (.array [true, false]) .none
      = .error (.oob "boolean index did not match indexed array") ∧
    toPandas .asFound [⟨['s'], [['a'], ['b'], ['c']]⟩] (.intArray [1, 0, 1]) .none = .ok [(['s'], [['b'], ['a'], ['b']])] ∧
    toCsv renderRow [⟨['s'], [['a'], ['b'], ['c']]⟩] (.array [true, false]) .none 2 = .ok ['s', '\n', 'a', '\n'] ∧
    toCsv renderRow [⟨['s'], [['a'], ['b'], ['c']]⟩] (.intArray [1, 0, 1]) .none 2 = .ok ['s', '\n', 'a', '\n', 'c', '\n'] := by
  decide

/-- … on which the repaired variant returns the rows `to_csv` writes -/
theorem nc18b_repaired_selects_csv_rows :
    toPandas .repaired [⟨['s'], [['a'], ['b'], ['c']]⟩] (.field true [true, false, true]) .none = .ok [(['s'], [['a'], ['c']])] ∧
    toPandas .repaired [⟨['s'], [['a'], ['b'], ['c']]⟩] (.array [true, false]) .none = .ok [(['s'], [['a']])] ∧
    toPandas .repaired [⟨['s'], [['a'], ['b'], ['c']]⟩] (.intArray [1, 0, 1]) .none = .ok [(['s'], [['a'], ['c']])] := by decide

/-- without a column left to write (the frame's only column is the filter) the loop fails at `chunk_data[0]` (IndexError) -/
theorem no_columns_index_error :
    toCsv renderRow [⟨['b'], [['T']]⟩] (.field (some ['b']) true true [true]) .none 1 = .error (.oob "chunk_data[0]") := by decide

/-- NC18e as found (repaired by fixes/NC18e): the filter column was dropped *by name*, so a filter field of another frame that
    carries the name of a selected column removed that column from the export. -/
def filterColumnNameAsFound : RowFilter → Option Export.Cell
  | .field (some n) _ _ _ => some n
  | _ => Option.none

theorem nc18e_as_found_drops_foreign_named_column :
    filterColumnNameAsFound (.field (some ['b']) false true [true]) = some ['b'] ∧
    ([['s'], ['b']] : List Export.Cell).erase ['b'] = [['s']] ∧
    csvNames [⟨['s'], [['a']]⟩, ⟨['b'], [['7']]⟩] (.field (some ['b']) false true [true]) .none = .ok [['s'], ['b']] := by decide

end Exetera.Witness.C18
