import Exetera.Model.MapValid
import Exetera.Spec.MapValid
namespace Exetera.Props.C04
end Exetera.Props.C04
