/-!
  C10 — access sites of the compiled span-concatenation kernel `_apply_spans_concat_2` that `Model/Concat.lean` models
  (owning property C16), frozen from the source the model was written against. `Props/C10/Concat.lean` proves that the
  shape regenerated from the CURRENT source (`Gen/KernelShape.lean`) is this.

  Model ↔ site map:
  * `spans[s]`, `spans[s + 1]`, `src_index[sp_cur]`, `src_index[sp_next]` = the four `getE` of `oneSpan`;
  * `src_index[e]`, `src_index[e + 1]` = the `getE` pairs of `countNonEmpty` and `multiLoop`;
  * `src_values[i_c]` = `getE` in `scanFlags` (flag scan) and `copyEsc` (escaped copy);
  * `dest_values[d_index_v + delta]` = `pushV` (capacity check `length < capV`) — every one of the eight textual
    occurrences: opening / closing quote (`emitBody`), doubled quote and byte copy (`copyEsc`), separator (`multiLoop`);
  * `dest_index[d_index_i]` = the capacity check `st.ib.length < P.capI` of `oneSpan`.
  The batch driver `Session.apply_spans_concat` is plain Python (numpy slices and fancy indexing: `spanBound`).
-/
namespace Exetera.KernelSites

/-- the span-concatenation kernel (C16) -/
def concatSites : List (String × List String × List String) := [
  ("_apply_spans_concat_2",
    ["for e in range(sp_cur, sp_next)", "for i_c in range(cur_src_i, next_src_i)", "for i_c in range(src_start, src_end)", "for s in range(sp_start, sp_end)"],
    ["R spans[s + 1]", "R spans[s]", "R src_index[e + 1]", "R src_index[e]", "R src_index[sp_cur]", "R src_index[sp_next]", "R src_values[i_c]", "W dest_index[d_index_i]", "W dest_values[d_index_v + delta]"])
]


end Exetera.KernelSites
