import Exetera.Lemmas.LegacyStreamed
import Exetera.Lemmas.LegacyMapAgree
/-!
# C12 — the legacy re-slicing driver `generate_ordered_map_to_left_right_unique_streamed_old`

(used by `Session.ordered_merge_left/right` in their streamed form; model `Model/JoinOld.lean` with D17 / NC19a repaired).
The model runs the main loop with the budget `|L| + |R|`, each `_partial_old` call with `|lc| + |rc|` and the tail loop with
`|L|` — all written in the definitions, all linear. The theorems: on EVERY input (no sortedness or uniqueness needed for
termination) and every chunk size ≥ 1 the run ends in `.ok` within those budgets — in particular the driver's own
`ValueError("'i' has got ahead of current chunk")` and the generators' `StopIteration` cannot occur — and every iteration of the
main loop strictly advances `i + j`.
(C19 proves, under its guards — sorted left keys, duplicate-free right keys — that the result is the relational left map;
here no guard is needed because only termination is claimed.)

The second legacy driver, `ordered_map_valid_stream_old`, is modelled WITH the repair NC12a (`Model/LegacyMapFix.lean`,
`fixes/NC12a_map_valid_stream_old_unmapped_row.patch`): as found it spins on a map entry `≥ len(data_field)`
(`Witness.C12.nc12a_legacy_map_stream_spins`). Repaired, it never runs out of fuel on ANY input, and in the regime of C19's
theorem it is the as-found model and returns the specified column.
-/
namespace Exetera.Props.C12
open Exetera Exetera.JoinOld Exetera.JoinOld.Term

/-- **legacy_join_streamed_terminates.** Every input, every chunk size ≥ 1: `.ok` within the model's linear budgets
    (`1·|L| + 1·|R|` main-loop iterations, `|L|` tail iterations). -/
theorem legacy_join_streamed_terminates (left right : List Int) (inv : Int) (cs : Nat) (hcs : 1 ≤ cs) :
    ∃ r, streamedOld left right inv cs = .ok r ∧ streamedOld left right inv cs ≠ .error .outOfFuel := by
  obtain ⟨r, h⟩ := streamedOld_ok left right inv cs hcs
  exact ⟨r, h, by rw [h]; intro h'; cases h'⟩

/-- **legacy_join_streamed_never_spins.** From every state the driver reaches (`DInv`: both views are the current chunks
    re-sliced at the global positions, non-empty while rows remain), one iteration of the main loop ends in `.ok`, keeps the
    invariant, strictly decreases `(|L| - i) + (|R| - j)` — a `_partial_old` call consumes one of the two views completely —
    and only appends to the output. -/
theorem legacy_join_streamed_never_spins (left right : List Int) (cs : Nat) (inv : Int) (hcs : 1 ≤ cs) (s : SO)
    (hI : DInv left right cs s) (hi : s.i < left.length) (hj : s.j < right.length) :
    ∃ s', oldBody left right cs inv s = .ok s' ∧ DInv left right cs s' ∧
      (left.length - s'.i) + (right.length - s'.j) < (left.length - s.i) + (right.length - s.j) ∧ s.out <+: s'.out :=
  oldBody_step left right cs inv hcs s hI hi hj

/-- **legacy_map_stream_never_spins.** `ordered_map_valid_stream_old` with NC12a repaired, on EVERY input — any map, in range
    or not, ordered or not, any marker — and every chunk size ≥ 1: the run ends in `.ok` or in an error other than `outOfFuel`
    within the model's linear budget `1·|map| + 1·|data| + 1`: every iteration consumes a map entry, or moves to the next data
    chunk, or is the `ValueError` of the repair. -/
theorem legacy_map_stream_never_spins {α} (data : List α) (map_ : List Int) (inv : Int) (cs : Nat) (zero : α) (hcs : 1 ≤ cs) :
    mapValidStreamOldR data map_ inv cs zero ≠ .error .outOfFuel :=
  mapValidStreamOldR_not_fuel data map_ inv cs zero hcs

/-- one iteration of the repaired driver strictly decreases `(|map| - m) + (|data| - d_pos)` or raises an error that is not
    `outOfFuel` -/
theorem legacy_map_stream_progress {α} (data : List α) (map_ : List Int) (inv : Int) (cs : Nat) (zero : α) (hcs : 1 ≤ cs)
    (s : MO α) (hg : s.m < map_.length) :
    (∃ s', mapOldBodyR data map_ inv cs zero s = .ok s' ∧ mapMu data map_ s' < mapMu data map_ s) ∨
    (∃ e, mapOldBodyR data map_ inv cs zero s = .error e ∧ e ≠ .outOfFuel) := by
  rcases mapOldBodyR_step data map_ inv cs zero hcs s hg with h | ⟨e, h1, h2, _⟩
  · exact Or.inl h
  · exact Or.inr ⟨e, h1, h2⟩

/-- **legacy_map_stream_terminates.** In the regime of C19's theorem (in-range map with non-decreasing valid entries, marker
    outside the source's row numbers) the repair changes nothing: the repaired driver is the as-found one (the model the C19
    correspondence validates) and returns the specified column, for every chunk size ≥ 1. -/
theorem legacy_map_stream_terminates {α} (data : List α) (map_ : List Int) (inv : Int) (cs : Nat) (zero : α) (hcs : 1 ≤ cs)
    (hr : Spec.InRange data.length map_ inv) (hmono : Spec.ValidMonotone map_ inv)
    (hinv : inv < 0 ∨ (data.length : Int) ≤ inv) :
    mapValidStreamOldR data map_ inv cs zero = mapValidStreamOld data map_ inv cs zero ∧
      ∃ out, mapValidStreamOldR data map_ inv cs zero = .ok out ∧ Spec.mapSpec data inv zero map_ = some out :=
  mapValidStreamOldR_eq data map_ inv zero hcs hr hmono hinv

/-- the NC12a witness: as found it spins, repaired it is the clear error -/
example : mapValidStreamOld [10, 20, 30] [0, 7] (-1) 2 (0 : Int) = .error .outOfFuel ∧
    mapValidStreamOldR [10, 20, 30] [0, 7] (-1) 2 (0 : Int) = .error (.valueError "map entry is not a row of data_field") :=
  ⟨by rfl, by rfl⟩
/-- a valid run over several map and data chunks (chunk size 2) -/
example : mapValidStreamOldR [11, 14, 17, 20, 23] [-1, 0, 0, 1, 3, 3, -1, 4] (-1) 2 (0 : Int) = .ok [0, 11, 11, 14, 20, 20, 0, 23] := by
  rfl

-- chunk size 2, duplicate left keys spanning chunks, unmatched keys on both sides
example : streamedOld [1, 2, 2, 3, 5, 5, 6, 9] [2, 3, 4, 5, 9] (-1) 2 = .ok (true, [-1, 0, 0, 1, 3, 3, -1, 4]) := by rfl
example : streamedOld [1, 1, 1] [] (-1) 1 = .ok (true, [-1, -1, -1]) := by rfl

end Exetera.Props.C12
