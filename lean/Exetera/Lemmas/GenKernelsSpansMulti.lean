import Exetera.Gen.Kernels
import Exetera.Lemmas.GenKernels
import Exetera.Lemmas.GenKernelsSpans
import Exetera.Lemmas.GenKernelsSpans2Fields
/-!
  The TRANSLATED `_get_spans_for_multi_fields_njit` (2-D argument passed as the list of its rows; `for f_d in fields_data` with
  `break`; early `return spans[:1]`; stores into the caller-supplied `spans` buffer) refines the hand model
  `getSpansForMultiFieldsNjit .repaired` / `scanMulti` / `rowNe` of `Model/Spans.lean`, for every list of columns and EVERY buffer.
-/
namespace Exetera.GenK

open Exetera Exetera.PyRt Exetera.Spans Exetera.Gen.Kernels

namespace GMF

abbrev St := _get_spans_for_multi_fields_njit.St

abbrev inner (fs : List (List Int)) (s : St) : Except Err St :=
  forEachAux (fun s => s.brk2) (fun k s => _get_spans_for_multi_fields_njit.body_L2 { s with v4 := k }) fs s

/-- `for f_d in fields_data: if f_d[i] != f_d[i - 1]: not_equal = True; break` against `rowNe` -/
theorem rowNe_sim (i : Nat) (hi : 1 ≤ i) :
    ∀ (fs : List (List Int)) (s : St), s.v2 = (i : Int) → s.brk2 = false →
      match rowNe i fs with
      | .ok b => ∃ w4, inner fs s = .ok { s with v3 := (s.v3 || b), brk2 := b, v4 := w4 }
      | .error e => ∃ e', inner fs s = .error e' ∧ e'.tag = e.tag := by
  intro fs
  induction fs with
  | nil =>
    intro s _ hb
    simp only [rowNe, inner, forEachAux]
    refine ⟨s.v4, ?_⟩
    cases s
    simp only at hb
    subst hb
    simp
  | cons f fs ih =>
    intro s hv hb
    obtain ⟨q0, q1, w0, w1, w2, w3, w4, wb⟩ := s
    simp only at hv hb
    subst hv hb
    have ei : ((i : Int) - 1) = ((i - 1 : Nat) : Int) := by omega
    have hstep : ∀ s : St, inner (f :: fs) s
        = bindE (_get_spans_for_multi_fields_njit.body_L2 { s with v4 := f })
            (fun s' => if s'.brk2 then .ok s' else inner fs s') := by
      intro s
      simp only [inner, forEachAux]
      cases _get_spans_for_multi_fields_njit.body_L2 { s with v4 := f } <;> simp
    rw [hstep]
    generalize hL : (fun s' : St => if s'.brk2 then Except.ok s' else inner fs s') = L
    simp only [rowNe, _get_spans_for_multi_fields_njit.body_L2, ei, idxE_nat, getE]
    cases hx : f[i]? with
    | none => simp only [bindE_error]; exact ⟨_, rfl, rfl⟩
    | some x =>
      cases hx' : f[i - 1]? with
      | none => simp only [bindE_ok, bindE_error]; exact ⟨_, rfl, rfl⟩
      | some x' =>
        simp only [bindE_ok]
        by_cases hne : x = x'
        · have hne' : (x != x') = false := by simp [hne]
          simp only [hne', Bool.false_eq_true, if_false, bindE_ok]
          subst hL
          simp only [Bool.false_eq_true, if_false]
          have := ih ⟨q0, q1, w0, w1, (i : Int), w3, f, false⟩ rfl rfl
          cases hr : rowNe i fs with
          | error e => rw [hr] at this; exact this
          | ok b =>
            rw [hr] at this
            obtain ⟨w4', hw⟩ := this
            exact ⟨w4', hw⟩
        · have hne' : (x != x') = true := by simp [hne]
          simp only [hne', if_true, bindE_ok]
          subst hL
          exact ⟨f, by simp⟩

/-- what follows the loop: `spans[count + 1] = length; return spans[:count + 2]` -/
def fin (s : St) : Except Err (List Int × List Int) :=
  bindE (setIdxE s.p1 (s.v0 + 1) s.v1 "p1[v0 + 1]") fun t6 =>
  let s := { s with p1 := t6 }
  .ok ((pySlice s.p1 none (some (s.v0 + 2))), s.p1)

abbrev loop (k : Nat) (i : Int) (s : St) : Except Err St :=
  forRangeAux (fun _ => false) (fun k s => _get_spans_for_multi_fields_njit.body_L1 { s with v2 := k }) k i s

theorem scan_sim (fs : List (List Int)) (n cap : Nat) :
    ∀ (k i count : Nat) (s : St), 1 ≤ i → s.p0 = fs → s.v1 = (n : Int) → s.p1.length = cap → s.v0 = (count : Int) →
      s.brk2 = false →
      match scanMulti fs n cap k i count with
      | .ok vs => ∃ buf', bindE (loop k (i : Int) s) fin = .ok (s.p1.take (count + 1) ++ ints vs, buf')
      | .error e => ∃ e', bindE (loop k (i : Int) s) fin = .error e' ∧ e'.tag = e.tag := by
  intro k
  induction k with
  | zero =>
    intro i count s hi h0 h1 h2 hv hb
    have e1 : (count : Int) + 1 = ((count + 1 : Nat) : Int) := by omega
    have e2 : (count : Int) + 2 = ((count + 2 : Nat) : Int) := by omega
    simp only [scanMulti, loop, forRangeAux, bindE_ok, fin, hv, h1, e1, e2, setIdxE_nat, setE, h2]
    by_cases hc : count + 1 < cap
    · simp only [hc, if_true, bindE_ok, pySlice_take]
      refine ⟨s.p1.set (count + 1) (n : Int), ?_⟩
      rw [show count + 2 = (count + 1) + 1 from rfl, take_set_succ' _ _ _ (by omega)]
      rfl
    · simp only [hc, if_false, bindE_error]
      exact ⟨_, rfl, rfl⟩
  | succ k ih =>
    intro i count s hi h0 h1 h2 hv hb
    obtain ⟨q0, q1, w0, w1, w2, w3, w4, wb⟩ := s
    simp only at h0 h1 h2 hv hb
    subst h0 h1 hv hb
    have ei1 : ((i : Int) + 1) = ((i + 1 : Nat) : Int) := by omega
    have e1 : (count : Int) + 1 = ((count + 1 : Nat) : Int) := by omega
    have hstep : ∀ s : St, bindE (loop (k + 1) (i : Int) s) fin
        = bindE (_get_spans_for_multi_fields_njit.body_L1 { s with v2 := (i : Int) })
            (fun s' => bindE (loop k ((i + 1 : Nat) : Int) s') fin) := by
      intro s
      simp only [loop, forRangeAux, ei1]
      cases _get_spans_for_multi_fields_njit.body_L1 { s with v2 := (i : Int) } <;> simp
    rw [hstep]
    generalize hL : (fun s' => bindE (loop k ((i + 1 : Nat) : Int) s') fin) = L
    have hrow := rowNe_sim i hi q0 ⟨q0, q1, (count : Int), (n : Int), (i : Int), false, w4, false⟩ rfl rfl
    simp only [inner] at hrow
    simp only [scanMulti, _get_spans_for_multi_fields_njit.body_L1, forEachB]
    cases hr : rowNe i q0 with
    | error e =>
      rw [hr] at hrow
      obtain ⟨e', he, ht⟩ := hrow
      simp only [he, bindE_error]
      exact ⟨e', rfl, ht⟩
    | ok bb =>
      rw [hr] at hrow
      obtain ⟨w4', hw⟩ := hrow
      simp only [hw, bindE_ok, Bool.false_or]
      cases bb with
      | false =>
        simp only [Bool.false_eq_true, if_false, bindE_ok]
        subst hL
        exact ih (i + 1) count ⟨q0, q1, (count : Int), (n : Int), (i : Int), false, w4', false⟩ (by omega) rfl rfl h2 rfl rfl
      | true =>
        simp only [if_true, e1, setIdxE_nat, setE, h2]
        by_cases hc : count + 1 < cap
        · simp only [hc, if_true, bindE_ok]
          subst hL
          have := ih (i + 1) (count + 1)
            ⟨q0, q1.set (count + 1) (i : Int), ((count + 1 : Nat) : Int), (n : Int), (i : Int), true, w4', false⟩ (by omega) rfl rfl
            (by simpa using h2) rfl rfl
          cases hs : scanMulti q0 n cap k (i + 1) (count + 1) with
          | error e => rw [hs] at this; simpa using this
          | ok vs =>
            rw [hs] at this
            obtain ⟨buf', hb⟩ := this
            simp only [consE_ok]
            refine ⟨buf', ?_⟩
            rw [hb, take_set_succ' _ _ _ (by omega)]
            simp [ints]
        · simp only [hc, if_false, bindE_error]; exact ⟨_, rfl, rfl⟩

end GMF

/-- the translated kernel on ANY buffer `buf` against the model with `cap = len(buf)` -/
theorem get_spans_for_multi_fields_njit_refines (fs : List (List Int)) (buf : List Int) :
    Sim ((_get_spans_for_multi_fields_njit.run fs buf).map Prod.fst)
      ((getSpansForMultiFieldsNjit .repaired fs buf.length).map ints) := by
  unfold _get_spans_for_multi_fields_njit.run getSpansForMultiFieldsNjit
  cases fs with
  | nil => simp [idxE, getE, Sim, Except.map]
  | cons f0 ft =>
    have hget : idxE (f0 :: ft) 0 "p0[0]" = .ok f0 := by simp [idxE, getE]
    simp only [hget, bindE_ok]
    cases buf with
    | nil => simp [setIdxE, setE, Sim, Except.map]
    | cons b0 bt =>
      have hset : setIdxE (b0 :: bt) 0 0 "p1[0]" = .ok (0 :: bt) := by simp [setIdxE, setE]
      have hcap : ((b0 :: bt).length == 0) = false := by simp
      simp only [hset, bindE_ok, hcap, Bool.false_eq_true, if_false, pyLen]
      by_cases ha : f0.length = 0
      · have h1 : ((f0.length : Int) == 0) = true := by simp [ha]
        simp [ha, Sim, Except.map, pySlice, normBound, slice, ints]
      · have ha' : ((f0.length : Int) == 0) = false := by rw [beq_eq_false_iff_ne]; omega
        have ha'' : (Variant.repaired == Variant.repaired && f0.length == 0) = false := by simp [ha]
        simp only [ha', ha'', Bool.false_eq_true, if_false]
        have h := GMF.scan_sim (f0 :: ft) f0.length (b0 :: bt).length (f0.length - 1) 1 0
          { p0 := f0 :: ft, p1 := 0 :: bt, v0 := 0, v1 := (f0.length : Int), v2 := 0, v3 := false, v4 := [], brk2 := false }
          (by omega) rfl rfl (by simp) rfl rfl
        have hn : ((f0.length : Int) - 1).toNat = f0.length - 1 := by omega
        show Sim (Except.map Prod.fst (bindE (GMF.loop ((f0.length : Int) - 1).toNat ((1 : Nat) : Int)
          { p0 := f0 :: ft, p1 := 0 :: bt, v0 := 0, v1 := (f0.length : Int), v2 := 0, v3 := false, v4 := [], brk2 := false })
          GMF.fin)) _
        rw [hn]
        cases hs : scanMulti (f0 :: ft) f0.length (b0 :: bt).length (f0.length - 1) 1 0 with
        | error e =>
          rw [hs] at h
          obtain ⟨e', he, ht⟩ := h
          simp only [he, consE_error, Except.map, Sim, ht]
        | ok vs =>
          rw [hs] at h
          obtain ⟨buf', hb⟩ := h
          simp only [hb, consE_ok, Except.map, Sim]
          simp [ints]

end Exetera.GenK
