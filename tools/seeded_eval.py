#!/usr/bin/env python3
"""Evaluate a seeded breaking change against the checks.
usage: tools/seeded_eval.py <seeded/<id>> <Cxx> [<Cyy> ...] [--tier quick]
The directory holds patch.diff + demo.py (+ notes.md). Steps: demo exits 0 on the clean /repo; apply patch to /repo's working
tree; demo exits 1; run the named checks (they rebuild from /repo's working tree); ALWAYS undo the patch
(git -C /repo checkout -- .) and regenerate Gen from the clean tree; write meta.json (what it breaks, what it needs, what was
run, which checks reported a VIOLATION)."""
import json
import os
import subprocess
import sys
import time
from pathlib import Path

V = Path(__file__).resolve().parent.parent
REPO = "/repo"


def sh(cmd, cwd=None, env=None, timeout=None):
    p = subprocess.run(cmd, shell=True, cwd=cwd, env=env, stdout=subprocess.PIPE, stderr=subprocess.STDOUT, text=True,
                       timeout=timeout)
    return p.returncode, p.stdout


def main():
    d = Path(sys.argv[1]).resolve()
    args = [a for a in sys.argv[2:] if not a.startswith("--")]
    tier = "quick"
    if "--tier" in sys.argv:
        tier = sys.argv[sys.argv.index("--tier") + 1]
        args = [a for a in args if a != tier]
    props = args
    meta_p = d / "meta.json"
    meta = json.loads(meta_p.read_text()) if meta_p.exists() else {}
    rc, out = sh("git status --porcelain", cwd=REPO)
    if out.strip():
        sys.exit("/repo working tree is not clean")
    env = dict(os.environ, PYTHONPATH=REPO, PYTHONWARNINGS="ignore")
    rc0, o0 = sh(f"/venv/bin/python {d / 'demo.py'}", cwd=d, env=env, timeout=900)
    rc, out = sh(f"git apply {d / 'patch.diff'}", cwd=REPO)
    if rc != 0:
        sys.exit("patch does not apply: " + out)
    results = {}
    try:
        rc1, o1 = sh(f"/venv/bin/python {d / 'demo.py'}", cwd=d, env=env, timeout=900)
        for p in props:
            t0 = time.time()
            rcc, oc = sh(f"/venv/bin/python checks/run.py {p} --tier {tier}", cwd=V, timeout=7200)
            viol = [l for l in oc.splitlines() if l.startswith("VIOLATION")]
            results[p] = {"exit": rcc, "violation_lines": viol, "wall_s": round(time.time() - t0, 1),
                          "tail": oc.splitlines()[-1:] }
            print(p, "exit", rcc, viol[:2])
    finally:
        sh("git checkout -- .", cwd=REPO)
        sh("python3 tools/translate.py", cwd=V)
    meta.update({
        "demo_on_clean_tree_exit": rc0, "demo_with_patch_exit": rc1,
        "demo_with_patch_output": o1[-600:],
        "checks_run": {p: r for p, r in results.items()},
        "caught_by": [p for p, r in results.items() if r["exit"] == 1 and r["violation_lines"]],
        "evaluated_at_repo_commit": sh("git rev-parse --short HEAD", cwd=REPO)[1].strip(),
        "tier": tier,
    })
    meta_p.write_text(json.dumps(meta, indent=1))
    print("demo clean:", rc0, "demo patched:", rc1, "caught by:", meta["caught_by"])


if __name__ == "__main__":
    main()
