import Exetera.Lemmas.JoinFlatLeft
import Exetera.Lemmas.JoinFlatInner
import Exetera.Lemmas.MapValidFlat
import Exetera.Model.JoinOld
/-!
  Session level (C19): the join maps are in range of the payload columns, `_map_fields` maps every payload through
  `Spec.mapSpec`, and the non-streamed forms of `ordered_merge_left` / `ordered_merge_inner` compose kernel and mapping.
-/
namespace Exetera.JoinOld
open Exetera Exetera.Spec Exetera.Join Exetera.JoinFlat

theorem matchRows_bound (k : Int) : ∀ (r : List Int) (base j : Nat), j ∈ matchRows k r base → j < base + r.length
  | [], _, _, h => by simp [matchRows] at h
  | b :: bs, base, j, h => by
    simp only [matchRows] at h
    split at h
    · rcases List.mem_cons.mp h with h | h
      · subst h; simp
      · have := matchRows_bound k bs (base + 1) j h
        simp only [List.length_cons]; omega
    · have := matchRows_bound k bs (base + 1) j h
      simp only [List.length_cons]; omega

theorem leftJoinFrom_bound (r : List Int) : ∀ (l : List Int) (base : Nat) (p : Nat × Option Nat),
    p ∈ leftJoinFrom r l base → ∀ j, p.2 = some j → j < r.length
  | [], _, _, h => by simp [leftJoinFrom] at h
  | a :: as, base, p, h => by
    intro j hj
    simp only [leftJoinFrom, List.mem_append] at h
    rcases h with h | h
    · cases hm : matchRows a r 0 with
      | nil => rw [hm] at h; simp [leftRow] at h; subst h; simp at hj
      | cons x xs =>
        rw [hm] at h
        simp only [leftRow, List.mem_map] at h
        obtain ⟨y, hy, rfl⟩ := h
        simp only [Option.some.injEq] at hj
        subst hj
        have := matchRows_bound a r 0 y (by rw [hm]; exact hy)
        omega
    · exact leftJoinFrom_bound r as (base + 1) p h j hj

/-- the right map column of a left join addresses rows of the right column (or is the marker) -/
theorem inRange_encR (L R : List Int) (inv : Int) : InRange R.length (encR inv (leftJoin L R)) inv := by
  intro i k hk hne
  simp only [encR, List.getElem?_map, Option.map_eq_some_iff] at hk
  obtain ⟨p, hp, rfl⟩ := hk
  have hmem : p ∈ leftJoin L R := List.mem_of_getElem? hp
  cases h2 : p.2 with
  | none => simp [h2, encCell] at hne
  | some j =>
    have := leftJoinFrom_bound R L 0 p hmem j h2
    simp only [encCell]
    omega

theorem innerJoinFrom_bound (r : List Int) : ∀ (l : List Int) (base : Nat) (p : Nat × Nat),
    p ∈ innerJoinFrom r l base → base ≤ p.1 ∧ p.1 < base + l.length ∧ p.2 < r.length
  | [], _, _, h => by simp [innerJoinFrom] at h
  | a :: as, base, p, h => by
    simp only [innerJoinFrom, List.mem_append, List.mem_map] at h
    rcases h with ⟨y, hy, rfl⟩ | h
    · have := matchRows_bound a r 0 y hy
      simp only [List.length_cons]; omega
    · have := innerJoinFrom_bound r as (base + 1) p h
      simp only [List.length_cons]; omega

theorem inRange_inner_left (L R : List Int) (inv : Int) :
    InRange L.length ((innerJoin L R).map (fun p => (p.1 : Int))) inv := by
  intro i k hk _
  simp only [List.getElem?_map, Option.map_eq_some_iff] at hk
  obtain ⟨p, hp, rfl⟩ := hk
  have := innerJoinFrom_bound R L 0 p (List.mem_of_getElem? hp)
  omega

theorem inRange_inner_right (L R : List Int) (inv : Int) :
    InRange R.length ((innerJoin L R).map (fun p => (p.2 : Int))) inv := by
  intro i k hk _
  simp only [List.getElem?_map, Option.map_eq_some_iff] at hk
  obtain ⟨p, hp, rfl⟩ := hk
  have := innerJoinFrom_bound R L 0 p (List.mem_of_getElem? hp)
  omega

/-- the columns a list of numeric payloads is mapped to by the join map `m` -/
def MappedCols (m : List Int) (inv : Int) : List (List Int) → List (List Int) → Prop
  | [], [] => True
  | xs :: xss, col :: cols => mapSpec xs inv 0 m = some col ∧ MappedCols m inv xss cols
  | _, _ => False

theorem mapM_mapValid (m : List Int) (inv : Int) (n : Nat) (hr : InRange n m inv) :
    ∀ (xss : List (List Int)), (∀ xs ∈ xss, xs.length = n) →
      ∃ cols, mapM' (mapValidPayload m none inv) (xss.map Payload.numeric) = .ok cols ∧ MappedCols m inv xss cols
  | [], _ => ⟨[], rfl, trivial⟩
  | xs :: rest, h => by
    obtain ⟨col, h1, h2⟩ := MapValid.mapValid_mapSpec xs m inv (0 : Int) (by rw [h xs (by simp)]; exact hr)
    obtain ⟨cols, h3, h4⟩ := mapM_mapValid m inv n hr rest (fun x hx => h x (by simp [hx]))
    refine ⟨col :: cols, ?_, ⟨h2, h4⟩⟩
    simp only [List.map_cons, mapM', mapValidPayload, numericOf, h1, h3]

/-- `_map_fields` without sinks returns, and with field sinks writes, the mapped columns -/
theorem mapFields_none (m : List Int) (inv : Int) (n : Nat) (hr : InRange n m inv) (xss : List (List Int))
    (h : ∀ xs ∈ xss, xs.length = n) :
    ∃ cols, mapFields m (xss.map Payload.numeric) .none inv = .ok ⟨some cols, [], none⟩ ∧ MappedCols m inv xss cols := by
  obtain ⟨cols, h1, h2⟩ := mapM_mapValid m inv n hr xss h
  exact ⟨cols, by simp only [mapFields, h1], h2⟩

theorem mapFields_fields (m : List Int) (inv : Int) (n : Nat) (hr : InRange n m inv) (xss : List (List Int))
    (h : ∀ xs ∈ xss, xs.length = n) :
    ∃ cols, mapFields m (xss.map Payload.numeric) .fields inv = .ok ⟨none, cols, none⟩ ∧ MappedCols m inv xss cols := by
  obtain ⟨cols, h1, h2⟩ := mapM_mapValid m inv n hr xss h
  exact ⟨cols, by simp only [mapFields, h1], h2⟩

end Exetera.JoinOld

namespace Exetera.JoinOld
open Exetera Exetera.Spec Exetera.Join Exetera.JoinFlat

/-- the map every non-streamed form of `ordered_merge_left` computes: the flat kernel on zeros -/
theorem leftMap_flat (lu : Bool) {L R : List Int} (hL : Sorted L) (hR : R.Pairwise (· < ·))
    (hlu : lu = true → L.Pairwise (· < ·)) :
    ∃ u, generateLeft lu L R (List.replicate L.length 0) INVALID_INDEX = .ok (u, encR INVALID_INDEX (leftJoin L R)) :=
  generateLeft_eq lu _ INVALID_INDEX hL hR hlu (by simp)

/-- `ordered_merge_left`, any form that is not the streamed one, no sinks or field sinks: the same columns `cols` for
    every such form -/
theorem orderedMergeLeft_flat (lu : Bool) {L R : List Int} (xss : List (List Int))
    (hL : Sorted L) (hR : R.Pairwise (· < ·)) (hlu : lu = true → L.Pairwise (· < ·))
    (hne : xss ≠ []) (hlen : ∀ xs ∈ xss, xs.length = R.length) :
    ∃ cols, MappedCols (encR INVALID_INDEX (leftJoin L R)) INVALID_INDEX xss cols ∧
      ∀ (cs : Nat) (c : Cfg), streamable c = false →
        (c.sinks = .none → orderedMergeLeft cs c lu true L R (xss.map .numeric) = .ok ⟨some cols, [], none⟩) ∧
        (c.sinks = .fields → orderedMergeLeft cs c lu true L R (xss.map .numeric) = .ok ⟨none, cols, none⟩) := by
  obtain ⟨u, hmap⟩ := leftMap_flat lu hL hR hlu
  obtain ⟨cols, h1, h2⟩ := mapM_mapValid (encR INVALID_INDEX (leftJoin L R)) INVALID_INDEX R.length
    (inRange_encR L R INVALID_INDEX) xss hlen
  have hemp : (xss.map Payload.numeric).isEmpty = false := by
    cases xss with
    | nil => exact absurd rfl hne
    | cons x xs => rfl
  refine ⟨cols, h2, fun cs c hst => ⟨?_, ?_⟩⟩
  · intro hs
    simp only [orderedMergeLeft, hs, Sinks.count, Option.any_none, hemp, hst, Bool.not_true, Bool.and_false,
      Bool.false_eq_true, if_false, hmap, mapFields, h1]
  · intro hs
    simp only [orderedMergeLeft, hs, Sinks.count, Option.any_none, hemp, hst, Bool.not_true, Bool.and_false,
      Bool.false_eq_true, if_false, hmap, mapFields, h1]

/-- the two maps of `ordered_merge_inner` for every truthful flag combination -/
theorem innerMaps_eq (lu ru : Bool) {L R : List Int} (hL : Sorted L) (hR : Sorted R)
    (hlu : lu = true → L.Pairwise (· < ·)) (hru : ru = true → R.Pairwise (· < ·))
    (hsize : innerResultSize L R = .ok (innerJoin L R).length)
    (hswap : lu = false → ru = true →
      orderedInnerMap false true R L (List.replicate (innerJoin L R).length 0) (List.replicate (innerJoin L R).length 0)
        = .ok ((encodeInner (innerJoin L R)).2, (encodeInner (innerJoin L R)).1)) :
    innerMaps lu ru L R = .ok (encodeInner (innerJoin L R)) := by
  have hz : ∀ n, List.drop n (List.replicate n (0 : Int)) = [] := by intro n; simp
  have key : ∀ (sl sr : Bool), (sl = false → L.Pairwise (· < ·)) → (sr = false → R.Pairwise (· < ·)) →
      orderedInnerMap sl sr L R (List.replicate (innerJoin L R).length 0) (List.replicate (innerJoin L R).length 0)
        = .ok (encodeInner (innerJoin L R)) := by
    intro sl sr h1 h2
    rw [orderedInnerMap_eq sl sr _ _ hL hR h1 h2 (by simp) (by simp), hz]
    simp
  simp only [innerMaps, hsize]
  cases lu <;> cases ru
  · simpa using key true true (by simp) (by simp)
  · simp only [Bool.not_false, Bool.not_true, if_true, Bool.false_eq_true, if_false, hswap rfl rfl]
  · simpa using key false true (fun _ => hlu rfl) (by simp)
  · simpa using key false false (fun _ => hlu rfl) (fun _ => hru rfl)

end Exetera.JoinOld
