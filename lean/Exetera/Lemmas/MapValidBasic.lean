import Exetera.Model.MapValid
import Exetera.Spec.MapValid
import Exetera.Lemmas.While
/-! Helper lemmas for C04, part 1: loop rules for `forE`/`foldE`, tilings, the sub-chunk splitter and
    `get_valid_value_extents`. Core Lean only. -/
namespace Exetera.MapValid

open Exetera

/-! ### loop rules -/

/-- Hoare rule for a counted loop: an invariant indexed by the loop counter -/
theorem forE_rule {σ} (body : Nat → σ → Except Err σ) (Inv : Nat → σ → Prop) :
    ∀ (n i0 : Nat) (s0 : σ), Inv i0 s0 →
      (∀ i s, i0 ≤ i → i < i0 + n → Inv i s → ∃ s', body i s = .ok s' ∧ Inv (i + 1) s') →
      ∃ s', forE body i0 n s0 = .ok s' ∧ Inv (i0 + n) s' := by
  intro n
  induction n with
  | zero => intro i0 s0 h0 _; exact ⟨s0, rfl, by simpa using h0⟩
  | succ n ih =>
    intro i0 s0 h0 hstep
    obtain ⟨s1, hb, h1⟩ := hstep i0 s0 (Nat.le_refl _) (by omega) h0
    obtain ⟨s2, hf, h2⟩ := ih (i0 + 1) s1 h1 (fun i s hi hlt hI => hstep i s (by omega) (by omega) hI)
    refine ⟨s2, ?_, ?_⟩
    · simp only [forE, hb]; exact hf
    · have : i0 + 1 + n = i0 + (n + 1) := by omega
      rw [← this]; exact h2

/-- a list of `(start, end)` pairs tiles `[a, b)`: consecutive, non-empty pieces -/
def Tiles : List (Nat × Nat) → Nat → Nat → Prop
  | [], a, b => a = b
  | se :: rest, a, b => se.1 = a ∧ a < se.2 ∧ Tiles rest se.2 b

theorem Tiles.le : ∀ {subs : List (Nat × Nat)} {a b : Nat}, Tiles subs a b → a ≤ b
  | [], _, _, h => by simp [Tiles] at h; omega
  | _ :: rest, _, _, h => by
    obtain ⟨h1, h2, h3⟩ := h
    have := Tiles.le h3
    omega

theorem Tiles.append_one : ∀ {subs : List (Nat × Nat)} {a b c : Nat}, Tiles subs a b → b < c →
    Tiles (subs ++ [(b, c)]) a c
  | [], a, b, c, h, hbc => by
    simp only [Tiles] at h; subst h
    simp [Tiles, hbc]
  | se :: rest, a, b, c, h, hbc => by
    obtain ⟨h1, h2, h3⟩ := h
    exact ⟨h1, h2, Tiles.append_one h3 hbc⟩

theorem Tiles.append : ∀ {l1 l2 : List (Nat × Nat)} {a b c : Nat}, Tiles l1 a b → Tiles l2 b c →
    Tiles (l1 ++ l2) a c
  | [], l2, a, b, c, h1, h2 => by
    simp only [Tiles] at h1; subst h1; simpa using h2
  | se :: rest, l2, a, b, c, h1, h2 => by
    obtain ⟨x, y, z⟩ := h1
    exact ⟨x, y, Tiles.append z h2⟩

/-- Hoare rule for `for (s, e) in tiles`: a predicate indexed by the position reached -/
theorem foldE_tiles {σ} (body : Nat × Nat → σ → Except Err σ) (P : Nat → σ → Prop) (b : Nat) :
    ∀ (subs : List (Nat × Nat)) (a : Nat) (s : σ), Tiles subs a b → P a s →
      (∀ x y s, a ≤ x → x < y → y ≤ b → P x s → ∃ s', body (x, y) s = .ok s' ∧ P y s') →
      ∃ s', foldE body subs s = .ok s' ∧ P b s' := by
  intro subs
  induction subs with
  | nil =>
    intro a s ht hp _
    simp only [Tiles] at ht; subst ht
    exact ⟨s, rfl, hp⟩
  | cons se rest ih =>
    intro a s ht hp hstep
    obtain ⟨h1, h2, h3⟩ := ht
    have hle := Tiles.le h3
    obtain ⟨s1, hb, hp1⟩ := hstep a se.2 s (Nat.le_refl _) h2 hle hp
    have hse : se = (a, se.2) := by cases se; simp_all
    obtain ⟨s2, hf, hp2⟩ := ih se.2 s1 h3 hp1 (fun x y s hx hxy hy hP => hstep x y s (by omega) hxy hy hP)
    refine ⟨s2, ?_, hp2⟩
    rw [hse]
    simp only [foldE, hb]
    exact hf


/-! ### loop rules with an admitted error outcome -/

/-- total-correctness rule for `whileE` when an iteration may also fail with an error satisfying `Q`
    (an iteration that fails still needs one unit of fuel: `0 < μ s`) -/
theorem whileE_rule_err {σ} (guard : σ → Bool) (body : σ → Except Err σ) (Inv : σ → Prop) (Q : Err → Prop) (μ : σ → Nat)
    (step : ∀ s, Inv s → guard s = true →
      (∃ s', body s = .ok s' ∧ Inv s' ∧ μ s' < μ s) ∨ (∃ e, body s = .error e ∧ Q e ∧ 0 < μ s)) :
    ∀ (n : Nat) (s : σ), Inv s → μ s ≤ n →
      (∃ s', whileE guard body n s = .ok s' ∧ Inv s' ∧ guard s' = false) ∨
      (∃ e, whileE guard body n s = .error e ∧ Q e) := by
  intro n
  induction n with
  | zero =>
    intro s hI hμ
    cases hg : guard s with
    | false => exact Or.inl ⟨s, by simp [whileE, hg], hI, hg⟩
    | true =>
      rcases step s hI hg with ⟨s', _, _, hlt⟩ | ⟨e, _, _, hpos⟩
      · omega
      · omega
  | succ n ih =>
    intro s hI hμ
    cases hg : guard s with
    | false => exact Or.inl ⟨s, by simp [whileE, hg], hI, hg⟩
    | true =>
      rcases step s hI hg with ⟨s', hb, hI', hlt⟩ | ⟨e, hb, hq, _⟩
      · rcases ih s' hI' (by omega) with ⟨s'', hw, hI'', hg''⟩ | ⟨e, hw, hq⟩
        · exact Or.inl ⟨s'', by simp [whileE, hg, hb, hw], hI'', hg''⟩
        · exact Or.inr ⟨e, by simp [whileE, hg, hb, hw], hq⟩
      · exact Or.inr ⟨e, by simp [whileE, hg, hb], hq⟩

/-- `foldE_tiles` when a piece may also fail with an error satisfying `Q` -/
theorem foldE_tiles_err {σ} (body : Nat × Nat → σ → Except Err σ) (P : Nat → σ → Prop) (Q : Err → Prop) (b : Nat) :
    ∀ (subs : List (Nat × Nat)) (a : Nat) (s : σ), Tiles subs a b → P a s →
      (∀ x y s, a ≤ x → x < y → y ≤ b → P x s →
        (∃ s', body (x, y) s = .ok s' ∧ P y s') ∨ (∃ e, body (x, y) s = .error e ∧ Q e)) →
      (∃ s', foldE body subs s = .ok s' ∧ P b s') ∨ (∃ e, foldE body subs s = .error e ∧ Q e) := by
  intro subs
  induction subs with
  | nil =>
    intro a s ht hp _
    simp only [Tiles] at ht; subst ht
    exact Or.inl ⟨s, rfl, hp⟩
  | cons se rest ih =>
    intro a s ht hp hstep
    obtain ⟨h1, h2, h3⟩ := ht
    have hle := Tiles.le h3
    have hse : se = (a, se.2) := by cases se; simp_all
    rcases hstep a se.2 s (Nat.le_refl _) h2 hle hp with ⟨s1, hb, hp1⟩ | ⟨e, hb, hq⟩
    · rcases ih se.2 s1 h3 hp1 (fun x y s hx hxy hy hP => hstep x y s (by omega) hxy hy hP) with
        ⟨s2, hf, hp2⟩ | ⟨e, hf, hq⟩
      · refine Or.inl ⟨s2, ?_, hp2⟩
        rw [hse]; simp only [foldE, hb]; exact hf
      · refine Or.inr ⟨e, ?_, hq⟩
        rw [hse]; simp only [foldE, hb]; exact hf
    · refine Or.inr ⟨e, ?_, hq⟩
      rw [hse]; simp only [foldE, hb]

/-- `foldE_tiles` whose step may use that the piece is one of the list -/
theorem foldE_tiles_mem {σ} (body : Nat × Nat → σ → Except Err σ) (P : Nat → σ → Prop) (b : Nat) :
    ∀ (subs : List (Nat × Nat)) (a : Nat) (s : σ), Tiles subs a b → P a s →
      (∀ x y s, (x, y) ∈ subs → a ≤ x → x < y → y ≤ b → P x s → ∃ s', body (x, y) s = .ok s' ∧ P y s') →
      ∃ s', foldE body subs s = .ok s' ∧ P b s' := by
  intro subs
  induction subs with
  | nil =>
    intro a s ht hp _
    simp only [Tiles] at ht; subst ht
    exact ⟨s, rfl, hp⟩
  | cons se rest ih =>
    intro a s ht hp hstep
    obtain ⟨h1, h2, h3⟩ := ht
    have hle := Tiles.le h3
    have hse : se = (a, se.2) := by cases se; simp_all
    obtain ⟨s1, hb, hp1⟩ := hstep a se.2 s (by rw [← hse]; exact List.mem_cons_self) (Nat.le_refl _) h2 hle hp
    obtain ⟨s2, hf, hp2⟩ := ih se.2 s1 h3 hp1
      (fun x y s hmem hx hxy hy hP => hstep x y s (List.mem_cons_of_mem _ hmem) (by omega) hxy hy hP)
    refine ⟨s2, ?_, hp2⟩
    rw [hse]
    simp only [foldE, hb]
    exact hf

/-- `foldE_tiles_err` whose step may use that the piece is one of the list -/
theorem foldE_tiles_err_mem {σ} (body : Nat × Nat → σ → Except Err σ) (P : Nat → σ → Prop) (Q : Err → Prop) (b : Nat) :
    ∀ (subs : List (Nat × Nat)) (a : Nat) (s : σ), Tiles subs a b → P a s →
      (∀ x y s, (x, y) ∈ subs → a ≤ x → x < y → y ≤ b → P x s →
        (∃ s', body (x, y) s = .ok s' ∧ P y s') ∨ (∃ e, body (x, y) s = .error e ∧ Q e)) →
      (∃ s', foldE body subs s = .ok s' ∧ P b s') ∨ (∃ e, foldE body subs s = .error e ∧ Q e) := by
  intro subs
  induction subs with
  | nil =>
    intro a s ht hp _
    simp only [Tiles] at ht; subst ht
    exact Or.inl ⟨s, rfl, hp⟩
  | cons se rest ih =>
    intro a s ht hp hstep
    obtain ⟨h1, h2, h3⟩ := ht
    have hle := Tiles.le h3
    have hse : se = (a, se.2) := by cases se; simp_all
    rcases hstep a se.2 s (by rw [← hse]; exact List.mem_cons_self) (Nat.le_refl _) h2 hle hp with
      ⟨s1, hb, hp1⟩ | ⟨e, hb, hq⟩
    · rcases ih se.2 s1 h3 hp1
          (fun x y s hmem hx hxy hy hP => hstep x y s (List.mem_cons_of_mem _ hmem) (by omega) hxy hy hP) with
        ⟨s2, hf, hp2⟩ | ⟨e, hf, hq⟩
      · refine Or.inl ⟨s2, ?_, hp2⟩
        rw [hse]; simp only [foldE, hb]; exact hf
      · refine Or.inr ⟨e, ?_, hq⟩
        rw [hse]; simp only [foldE, hb]; exact hf
    · refine Or.inr ⟨e, ?_, hq⟩
      rw [hse]; simp only [foldE, hb]

/-- the valid (non-marker) entries at the positions `[s, e)` of a map chunk are non-decreasing — what one sub-chunk of
    the splitter guarantees for ANY map (NC02a), and all that the per-sub-chunk mapping needs -/
def MonoOn (m : List Int) (inv : Int) (s e : Nat) : Prop :=
  ∀ (i j : Nat) (a b : Int), s ≤ i → i ≤ j → j < e → m[i]? = some a → m[j]? = some b → a ≠ inv → b ≠ inv → a ≤ b

theorem MonoOn.of_validMonotone {m : List Int} {inv : Int} (h : Spec.ValidMonotone m inv) (s e : Nat) : MonoOn m inv s e :=
  fun i j a b _ hij _ hi hj ha hb => h i j a b hij hi hj ha hb

/-! ### `next_map_subchunk` -/

theorem scanWhile_ge (p : Int → Bool) : ∀ (l : List Int) (sm : Nat), sm ≤ scanWhile p l sm
  | [], sm => by simp [scanWhile]
  | x :: xs, sm => by
    simp only [scanWhile]
    split
    · have := scanWhile_ge p xs (sm + 1); omega
    · omega

theorem scanWhile_le (p : Int → Bool) : ∀ (l : List Int) (sm : Nat), scanWhile p l sm ≤ sm + l.length
  | [], sm => by simp [scanWhile]
  | x :: xs, sm => by
    simp only [scanWhile, List.length_cons]
    split
    · have := scanWhile_le p xs (sm + 1); omega
    · omega

theorem scanWhile_head_true (p : Int → Bool) (x : Int) (xs : List Int) (sm : Nat) (h : p x = true) :
    sm + 1 ≤ scanWhile p (x :: xs) sm := by
  simp only [scanWhile, h, if_true]
  exact scanWhile_ge p xs (sm + 1)

theorem scanAsc_ge (inv start : Int) (cs : Nat) : ∀ (l : List Int) (prev : Int) (sm : Nat),
    sm ≤ scanAsc inv start cs prev l sm
  | [], _, sm => by simp [scanAsc]
  | x :: xs, prev, sm => by
    simp only [scanAsc]
    split
    · split
      · split
        · omega
        · have := scanAsc_ge inv start cs xs x (sm + 1); omega
      · have := scanAsc_ge inv start cs xs prev (sm + 1); omega
    · omega

theorem scanAsc_le (inv start : Int) (cs : Nat) : ∀ (l : List Int) (prev : Int) (sm : Nat),
    scanAsc inv start cs prev l sm ≤ sm + l.length
  | [], _, sm => by simp [scanAsc]
  | x :: xs, prev, sm => by
    simp only [scanAsc, List.length_cons]
    split
    · split
      · split
        · omega
        · have := scanAsc_le inv start cs xs x (sm + 1); omega
      · have := scanAsc_le inv start cs xs prev (sm + 1); omega
    · omega

/-- the first entry of the second loop is `start` itself (`prev = start`): it is always taken when `chunksize ≥ 1` -/
theorem scanAsc_head (inv start : Int) (cs : Nat) (xs : List Int) (sm : Nat) (hcs : 1 ≤ cs) :
    sm + 1 ≤ scanAsc inv start cs start (start :: xs) sm := by
  have h0 : start - start < (cs : Int) := by omega
  simp only [scanAsc, h0, if_true, Int.lt_irrefl, if_false]
  split
  · exact scanAsc_ge inv start cs xs start (sm + 1)
  · exact scanAsc_ge inv start cs xs start (sm + 1)

/-- the splitter always makes progress (for `chunksize ≥ 1`) and stays inside the map chunk -/
theorem nextMapSubchunk_bounds (m : List Int) (sm : Nat) (inv : Int) (cs : Nat) (hsm : sm < m.length) (hcs : 1 ≤ cs) :
    sm < nextMapSubchunk m sm inv cs ∧ nextMapSubchunk m sm inv cs ≤ m.length := by
  have heq : nextMapSubchunk m sm inv cs =
      match m[scanWhile (fun x => x == inv) (m.drop sm) sm]? with
      | none => scanWhile (fun x => x == inv) (m.drop sm) sm
      | some start => scanAsc inv start cs start
          (m.drop (scanWhile (fun x => x == inv) (m.drop sm) sm)) (scanWhile (fun x => x == inv) (m.drop sm) sm) := rfl
  rw [heq]
  have h1 := scanWhile_ge (fun x => x == inv) (m.drop sm) sm
  have h2 := scanWhile_le (fun x => x == inv) (m.drop sm) sm
  simp only [List.length_drop] at h2
  generalize scanWhile (fun x => x == inv) (m.drop sm) sm = sm1 at h1 h2 ⊢
  have hsm1le : sm1 ≤ m.length := by omega
  split
  · rename_i hg
    have : m.length ≤ sm1 := by simpa using hg
    omega
  · rename_i start hg
    have hlt : sm1 < m.length := (List.getElem?_eq_some_iff.mp hg).1
    have hd : m.drop sm1 = start :: m.drop (sm1 + 1) := by
      rw [List.drop_eq_getElem_cons hlt, (List.getElem?_eq_some_iff.mp hg).2]
    have h4 := scanAsc_le inv start cs (m.drop sm1) start sm1
    simp only [List.length_drop] at h4
    have h5 := scanAsc_head inv start cs (m.drop (sm1 + 1)) sm1 hcs
    rw [← hd] at h5
    omega

/-- `get_map_subchunks_based_on_index_lengths` returns a tiling of the map chunk -/
theorem subchunks_tiles (m : List Int) (inv : Int) (cs : Nat) (hcs : 1 ≤ cs) :
    ∃ subs, subchunks m inv cs = .ok subs ∧ Tiles subs 0 m.length := by
  have h := whileE_rule (fun s : SC => decide (s.sm < m.length)) (subchunksBody m inv cs)
    (fun s => Tiles s.acc 0 s.sm ∧ s.sm ≤ m.length) (fun s => m.length - s.sm)
    (by
      intro s ⟨ht, _⟩ hg
      have hg' : s.sm < m.length := by simpa using hg
      have hb := nextMapSubchunk_bounds m s.sm inv cs hg' hcs
      refine ⟨_, rfl, ⟨Tiles.append_one ht hb.1, hb.2⟩, ?_⟩
      simp only []
      omega)
    m.length ⟨0, []⟩ ⟨by simp [Tiles], by simp⟩ (by simp)
  obtain ⟨s', hw, ⟨ht, hle⟩, hg⟩ := h
  have hge : m.length ≤ s'.sm := by simpa using hg
  have : s'.sm = m.length := by omega
  refine ⟨s'.acc, ?_, ?_⟩
  · simp only [subchunks, hw]
  · rw [← this]; exact ht

/-! ### `get_valid_value_extents` -/

theorem firstValidFrom_spec (m : List Int) (inv : Int) :
    ∀ (n i : Nat), i + n ≤ m.length →
      (firstValidFrom m inv i n = .ok none ∧ ∀ p, i ≤ p → p < i + n → m[p]? = some inv) ∨
      (∃ p x, firstValidFrom m inv i n = .ok (some (p, x)) ∧ i ≤ p ∧ p < i + n ∧ m[p]? = some x ∧ x ≠ inv ∧
        ∀ q, i ≤ q → q < p → m[q]? = some inv) := by
  intro n
  induction n with
  | zero =>
    intro i _
    left
    exact ⟨rfl, fun p h1 h2 => by omega⟩
  | succ n ih =>
    intro i hle
    have hi : i < m.length := by omega
    have hget : m[i]? = some m[i] := List.getElem?_eq_getElem hi
    by_cases hx : m[i] = inv
    · have hstep : firstValidFrom m inv i (n + 1) = firstValidFrom m inv (i + 1) n := by
        simp [firstValidFrom, hget, hx]
      rcases ih (i + 1) (by omega) with ⟨h1, h2⟩ | ⟨p, x, h1, h2, h3, h4, h5, h6⟩
      · left
        refine ⟨by rw [hstep]; exact h1, ?_⟩
        intro p hp1 hp2
        by_cases hpi : p = i
        · subst hpi; rw [hget, hx]
        · exact h2 p (by omega) (by omega)
      · right
        refine ⟨p, x, by rw [hstep]; exact h1, by omega, by omega, h4, h5, ?_⟩
        intro q hq1 hq2
        by_cases hqi : q = i
        · subst hqi; rw [hget, hx]
        · exact h6 q (by omega) hq2
    · right
      refine ⟨i, m[i], ?_, Nat.le_refl _, by omega, hget, hx, fun q h1 h2 => by omega⟩
      simp [firstValidFrom, hget, hx]

theorem lastValidDown_spec (m : List Int) (inv : Int) (i : Nat) :
    ∀ (n : Nat), i + n ≤ m.length →
      (lastValidDown m inv i n = .ok none ∧ ∀ p, i ≤ p → p < i + n → m[p]? = some inv) ∨
      (∃ p x, lastValidDown m inv i n = .ok (some x) ∧ i ≤ p ∧ p < i + n ∧ m[p]? = some x ∧ x ≠ inv ∧
        ∀ q, p < q → q < i + n → m[q]? = some inv) := by
  intro n
  induction n with
  | zero =>
    intro _
    left
    exact ⟨rfl, fun p h1 h2 => by omega⟩
  | succ n ih =>
    intro hle
    have hi : i + n < m.length := by omega
    have hget : m[i + n]? = some m[i + n] := List.getElem?_eq_getElem hi
    by_cases hx : m[i + n] = inv
    · have hstep : lastValidDown m inv i (n + 1) = lastValidDown m inv i n := by
        simp [lastValidDown, hget, hx]
      rcases ih (by omega) with ⟨h1, h2⟩ | ⟨p, x, h1, h2, h3, h4, h5, h6⟩
      · left
        refine ⟨by rw [hstep]; exact h1, ?_⟩
        intro p hp1 hp2
        by_cases hpi : p = i + n
        · subst hpi; rw [hget, hx]
        · exact h2 p hp1 (by omega)
      · right
        refine ⟨p, x, by rw [hstep]; exact h1, h2, by omega, h4, h5, ?_⟩
        intro q hq1 hq2
        by_cases hqi : q = i + n
        · subst hqi; rw [hget, hx]
        · exact h6 q hq1 (by omega)
    · right
      refine ⟨i + n, m[i + n], ?_, by omega, by omega, hget, hx, fun q h1 h2 => by omega⟩
      simp [lastValidDown, hget, hx]

/-- `get_valid_value_extents` on a non-empty range inside the chunk: either every entry is the marker and the marker
    is returned, or the values at the first and the last valid position are returned -/
theorem extents_spec (m : List Int) (s e : Nat) (inv : Int) (hse : s < e) (he : e ≤ m.length) :
    ∃ d, getValidValueExtents m s e inv = .ok d ∧
      ((d.1 = inv ∧ ∀ p, s ≤ p → p < e → m[p]? = some inv) ∨
       (d.1 ≠ inv ∧ d.2 ≠ inv ∧ ∃ p0 p1, s ≤ p0 ∧ p0 ≤ p1 ∧ p1 < e ∧ m[p0]? = some d.1 ∧ m[p1]? = some d.2 ∧
          ∀ q x, s ≤ q → q < e → m[q]? = some x → x ≠ inv → p0 ≤ q ∧ q ≤ p1)) := by
  unfold getValidValueExtents
  have hnot : ¬ e ≤ s := by omega
  simp only [hnot, if_false]
  rcases firstValidFrom_spec m inv (e - s) s (by omega) with ⟨h1, h2⟩ | ⟨p0, x0, h1, h2, h3, h4, h5, h6⟩
  · -- all invalid
    have hall : ∀ p, s ≤ p → p < e → m[p]? = some inv := fun p a b => h2 p a (by omega)
    rw [h1]
    simp only []
    rcases lastValidDown_spec m inv (e - 1) (e - (e - 1)) (by omega) with ⟨g1, _⟩ | ⟨p, x, _, g2, g3, g4, g5, _⟩
    · rw [g1]
      exact ⟨(inv, inv), rfl, Or.inl ⟨rfl, hall⟩⟩
    · exfalso
      have := hall p (by omega) (by omega)
      rw [g4] at this
      exact g5 (by simpa using this)
  · rw [h1]
    simp only []
    have hp0e : p0 < e := by omega
    rcases lastValidDown_spec m inv p0 (e - p0) (by omega) with ⟨g1, g2⟩ | ⟨p1, x1, g1, g2, g3, g4, g5, g6⟩
    · exfalso
      have := g2 p0 (Nat.le_refl _) (by omega)
      rw [h4] at this
      exact h5 (by simpa using this)
    · rw [g1]
      refine ⟨(x0, x1), rfl, Or.inr ⟨h5, g5, p0, p1, h2, g2, by omega, h4, g4, ?_⟩⟩
      intro q x hq1 hq2 hqx hxinv
      constructor
      · by_cases hlt : q < p0
        · have := h6 q hq1 hlt
          rw [hqx] at this
          exact absurd (by simpa using this) hxinv
        · omega
      · by_cases hgt : p1 < q
        · have := g6 q hgt (by omega)
          rw [hqx] at this
          exact absurd (by simpa using this) hxinv
        · omega

end Exetera.MapValid
