"""C13 — Gen/FieldOpsShape.lean: the BODIES of the helpers every field operator runs through, and the numpy-protocol
attributes of the field classes, read off exetera/core/fields.py (+ DataFrame.__setitem__ from exetera/core/dataframe.py) as data.

1. `FieldDataOps._binary_op`, `FieldDataOps._unary_op` and every FieldDataOps method an operator dunder of the six field
   classes calls that does NOT just delegate to one of those two (today: `numeric_divmod`) are rendered as a straight-line
   program over numbered slots (slot k < #operands = operand parameter k; every defining statement appends one slot per value
   it binds):

     if isinstance(P, Field): X = P.data[:]  else: X = P        ->  .unwrap slot(P)
     R = function(A, B)          (function = the parameter)     ->  .apply none [slot A, slot B] 1
     R1, R2 = np.divmod(A, B)    (a literal np.* / operator.*)  ->  .apply (some "np.divmod") [slot A, slot B] 2
     F = NumericMemField(session, dtype_to_str(R.dtype))        ->  .newField "NumericMemField" slot(R)
     F.data.write(R)                                            ->  .write slot(F) slot(R)
     return F  /  return F1, F2                                 ->  .ret [slot F, ...]

   Nothing else is accepted: any other statement, a keyword argument, a different constructor signature, a different unwrap
   (e.g. `np.asarray(P)`), code after the return ... makes the extraction FAIL (exit status 1 = broken tie, checks/run.py then
   searches the implementation for a failing input). What the statements MEAN is `Model/FieldOps.lean` (`step`, `runProg`).

2. per field class: the class attributes `__array_ufunc__` / `__array_priority__` (looked up through the base classes defined in
   fields.py), i.e. what makes `ndarray <op> field` return NotImplemented so that Python calls the field's reflected dunder.

3. `DataFrame.__setitem__`: the statements of the non-indexed path as a record (create_like(self, name) -> data.write(data[:]) ->
   self._columns[name] = new field), and of `FieldDataOps.numeric_field_create_like` the dataframe branch
   (`group.create_numeric(name, nformat, ts)` with `nformat = source._nformat`)."""
import ast
from pathlib import Path

FIELD_CLASSES = ["NumericMemField", "CategoricalMemField", "TimestampMemField",
                 "NumericField", "CategoricalField", "TimestampField"]
HELPERS = ["_binary_op", "_unary_op"]


def fail(msg):
    raise SystemExit("TRANSLATE-FAIL: fieldops: " + msg)


def lean_str(s):
    return '"' + s.replace("\\", "\\\\").replace('"', '\\"') + '"'


def dotted(node):
    if isinstance(node, ast.Name):
        return node.id
    if isinstance(node, ast.Attribute):
        b = dotted(node.value)
        return None if b is None else b + "." + node.attr
    return None


def strip_doc(body):
    return [s for s in body if not (isinstance(s, ast.Expr) and isinstance(s.value, ast.Constant) and isinstance(s.value.value, str))]


def is_full_slice(node):
    return isinstance(node, ast.Slice) and node.lower is None and node.upper is None and node.step is None


def program(fn, where):
    """the body of a helper as a list of instructions (see module doc)"""
    deco = [dotted(d) for d in fn.decorator_list]
    params = [a.arg for a in fn.args.args]
    if fn.args.vararg or fn.args.kwarg or fn.args.kwonlyargs or fn.args.defaults:
        fail(f"{where}: unexpected parameter list")
    if "classmethod" in deco:
        if not params or params[0] != "cls":
            fail(f"{where}: classmethod without cls")
        params = params[1:]
    elif "staticmethod" not in deco:
        fail(f"{where}: neither staticmethod nor classmethod")
    if not params or params[0] != "session":
        fail(f"{where}: first parameter is not `session`")
    has_function = params[-1] == "function"
    operands = params[1:-1] if has_function else params[1:]
    if not operands or "function" in operands or "session" in operands:
        fail(f"{where}: cannot tell the operand parameters: {params}")
    slot = {p: k for k, p in enumerate(operands)}
    n = len(operands)
    prog = []
    body = strip_doc(fn.body)
    for k, st in enumerate(body):
        last = k == len(body) - 1
        src = ast.unparse(st).splitlines()[0]
        if isinstance(st, ast.If):
            t = st.test
            ok = (isinstance(t, ast.Call) and dotted(t.func) == "isinstance" and len(t.args) == 2 and not t.keywords
                  and isinstance(t.args[0], ast.Name) and t.args[0].id in operands and dotted(t.args[1]) == "Field"
                  and len(st.body) == 1 and len(st.orelse) == 1
                  and isinstance(st.body[0], ast.Assign) and isinstance(st.orelse[0], ast.Assign))
            if not ok:
                fail(f"{where}: not an unwrap `if isinstance(P, Field): X = P.data[:] else: X = P`: {src}")
            p = t.args[0].id
            a, b = st.body[0], st.orelse[0]
            ok = (len(a.targets) == 1 and len(b.targets) == 1 and isinstance(a.targets[0], ast.Name)
                  and isinstance(b.targets[0], ast.Name) and a.targets[0].id == b.targets[0].id
                  and isinstance(a.value, ast.Subscript) and dotted(a.value.value) == p + ".data" and is_full_slice(a.value.slice)
                  and isinstance(b.value, ast.Name) and b.value.id == p)
            if not ok:
                fail(f"{where}: unwrap of `{p}` is not `X = {p}.data[:]` / `X = {p}`: {src}")
            prog.append(f".unwrap {slot[p]}")
            slot[a.targets[0].id] = n
            n += 1
        elif isinstance(st, ast.Assign):
            if len(st.targets) != 1 or not isinstance(st.value, ast.Call) or st.value.keywords:
                fail(f"{where}: unsupported assignment: {src}")
            tgt = st.targets[0]
            if isinstance(tgt, ast.Name):
                names = [tgt.id]
            elif isinstance(tgt, ast.Tuple) and all(isinstance(e, ast.Name) for e in tgt.elts):
                names = [e.id for e in tgt.elts]
            else:
                fail(f"{where}: unsupported assignment target: {src}")
            call = st.value
            f = dotted(call.func)
            if f == "function" and has_function or (f and (f.startswith("np.") or f.startswith("operator."))):
                if not all(isinstance(a, ast.Name) and a.id in slot for a in call.args) or not call.args:
                    fail(f"{where}: arguments of the applied function are not local values: {src}")
                sym = "none" if f == "function" else f"(some {lean_str(f)})"
                prog.append(f".apply {sym} [{', '.join(str(slot[a.id]) for a in call.args)}] {len(names)}")
                for nm in names:
                    slot[nm] = n
                    n += 1
            elif isinstance(call.func, ast.Name) and len(names) == 1:
                a = call.args
                ok = (len(a) == 2 and isinstance(a[0], ast.Name) and a[0].id == "session" and isinstance(a[1], ast.Call)
                      and dotted(a[1].func) == "dtype_to_str" and len(a[1].args) == 1 and not a[1].keywords
                      and isinstance(a[1].args[0], ast.Attribute) and a[1].args[0].attr == "dtype"
                      and isinstance(a[1].args[0].value, ast.Name) and a[1].args[0].value.id in slot)
                if not ok:
                    fail(f"{where}: result field is not built as `Cls(session, dtype_to_str(R.dtype))`: {src}")
                prog.append(f".newField {lean_str(call.func.id)} {slot[a[1].args[0].value.id]}")
                slot[names[0]] = n
                n += 1
            else:
                fail(f"{where}: unsupported call: {src}")
        elif isinstance(st, ast.Expr):
            c = st.value
            ok = (isinstance(c, ast.Call) and not c.keywords and len(c.args) == 1 and isinstance(c.args[0], ast.Name)
                  and c.args[0].id in slot and isinstance(c.func, ast.Attribute) and c.func.attr == "write"
                  and isinstance(c.func.value, ast.Attribute) and c.func.value.attr == "data"
                  and isinstance(c.func.value.value, ast.Name) and c.func.value.value.id in slot)
            if not ok:
                fail(f"{where}: unsupported statement (only `F.data.write(R)` is understood): {src}")
            prog.append(f".write {slot[c.func.value.value.id]} {slot[c.args[0].id]}")
        elif isinstance(st, ast.Return):
            if not last:
                fail(f"{where}: code after a return")
            v = st.value
            if isinstance(v, ast.Name) and v.id in slot:
                vals = [v.id]
            elif isinstance(v, ast.Tuple) and all(isinstance(e, ast.Name) and e.id in slot for e in v.elts):
                vals = [e.id for e in v.elts]
            else:
                fail(f"{where}: unsupported return value: {src}")
            prog.append(f".ret [{', '.join(str(slot[x]) for x in vals)}]")
        else:
            fail(f"{where}: unsupported statement: {src}")
    if not prog or not prog[-1].startswith(".ret"):
        fail(f"{where}: does not end in a return")
    return len(operands), prog


def delegating(fn):
    """does the method consist of `return cls._binary_op(...)` / `_unary_op` (possibly after nested defs)?"""
    body = [s for s in strip_doc(fn.body) if not isinstance(s, ast.FunctionDef)]
    if len(body) == 1 and isinstance(body[0], ast.Return) and isinstance(body[0].value, ast.Call):
        f = dotted(body[0].value.func)
        return f in ("cls._binary_op", "cls._unary_op", "FieldDataOps._binary_op", "FieldDataOps._unary_op")
    return False


def class_attr(classes, cname, attr, seen=None):
    """value (as source text) of a class attribute assigned in the class body or in a base class defined in the module"""
    seen = seen or set()
    if cname in seen or cname not in classes:
        return None
    seen.add(cname)
    for st in classes[cname].body:
        if isinstance(st, ast.Assign) and any(isinstance(t, ast.Name) and t.id == attr for t in st.targets):
            return st.value
        if isinstance(st, ast.AnnAssign) and isinstance(st.target, ast.Name) and st.target.id == attr and st.value is not None:
            return st.value
        if isinstance(st, ast.FunctionDef) and st.name == attr:
            return st
    for b in classes[cname].bases:
        r = class_attr(classes, dotted(b) or "", attr, seen)
        if r is not None:
            return r
    return None


def protocol_rows(classes):
    rows = []
    for c in FIELD_CLASSES:
        if c not in classes:
            fail(f"class {c} not found")
        u = class_attr(classes, c, "__array_ufunc__")
        p = class_attr(classes, c, "__array_priority__")
        us = "absent" if u is None else ("<def>" if isinstance(u, ast.FunctionDef) else ast.unparse(u))
        ps, pos = "absent", False
        if p is not None:
            if isinstance(p, ast.FunctionDef):
                fail(f"{c}.__array_priority__ is not a literal")
            ps = ast.unparse(p)
            try:
                pos = float(ast.literal_eval(p)) > 0.0
            except Exception:
                fail(f"{c}.__array_priority__ is not a numeric literal: {ps}")
        rows.append((c, us, ps, pos))
    return rows


def setitem_shape(repo):
    """DataFrame.__setitem__ (non-indexed path) and numeric_field_create_like (dataframe branch) as checked statements"""
    tree = ast.parse((repo / "exetera/core/dataframe.py").read_text())
    fn = None
    for c in tree.body:
        if isinstance(c, ast.ClassDef):
            for m in c.body:
                if isinstance(m, ast.FunctionDef) and m.name == "__setitem__":
                    if fn is not None:
                        fail("more than one __setitem__ in dataframe.py")
                    fn, owner = m, c.name
    if fn is None:
        fail("DataFrame.__setitem__ not found")
    params = [a.arg for a in fn.args.args]
    if len(params) != 3 or params[0] != "self":
        fail("__setitem__: unexpected parameters")
    _, pname, pfield = params
    body = strip_doc(fn.body)
    guards = []
    while body and isinstance(body[0], ast.If) and len(body[0].body) == 1 and isinstance(body[0].body[0], ast.Raise) \
            and not body[0].orelse:
        t = body[0].test
        if not (isinstance(t, ast.UnaryOp) and isinstance(t.op, ast.Not) and isinstance(t.operand, ast.Call)
                and dotted(t.operand.func) == "isinstance"):
            fail("__setitem__: unexpected guard " + ast.unparse(t))
        exc = body[0].body[0].exc
        guards.append((ast.unparse(t.operand), dotted(exc.func) if isinstance(exc, ast.Call) else ast.unparse(exc)))
        body = body[1:]
    want_guards = [(f"isinstance({pname}, str)", "TypeError"), (f"isinstance({pfield}, fld.Field)", "TypeError")]
    if guards != want_guards:
        fail(f"__setitem__: guards are {guards}, expected {want_guards}")
    if len(body) != 3:
        fail("__setitem__: expected `nfield = field.create_like(self, name)`, the copy, `self._columns[name] = nfield`")
    s0, s1, s2 = body
    if ast.unparse(s0) != f"nfield = {pfield}.create_like(self, {pname})":
        fail("__setitem__: first statement is " + ast.unparse(s0))
    if not (isinstance(s1, ast.If) and ast.unparse(s1.test) == f"{pfield}.indexed" and len(s1.orelse) == 1
            and ast.unparse(s1.orelse[0]) == f"nfield.data.write({pfield}.data[:])"):
        fail("__setitem__: the non-indexed copy is not `nfield.data.write(field.data[:])`")
    if ast.unparse(s2) != f"self._columns[{pname}] = nfield":
        fail("__setitem__: last statement is " + ast.unparse(s2))
    # numeric_field_create_like
    ftree = ast.parse((repo / "exetera/core/fields.py").read_text())
    fdo = next((n for n in ftree.body if isinstance(n, ast.ClassDef) and n.name == "FieldDataOps"), None)
    cl = next((n for n in fdo.body if isinstance(n, ast.FunctionDef) and n.name == "numeric_field_create_like"), None) if fdo else None
    if cl is None:
        fail("FieldDataOps.numeric_field_create_like not found")
    src = [ast.unparse(s) for s in strip_doc(cl.body)]
    want = ["if group is None and name is not None:\n    raise ValueError(\"if 'group' is None, 'name' must also be 'None'\")",
            "ts = source.timestamp if timestamp is None else timestamp",
            "nformat = source._nformat",
            "if group is None:\n    return NumericMemField(source._session, nformat)",
            "if isinstance(group, h5py.Group):\n    numeric_field_constructor(source._session, group, name, nformat, ts, source.chunksize)\n"
            "    return NumericField(source._session, group[name], None, write_enabled=True)\nelse:\n"
            "    return group.create_numeric(name, nformat, ts)"]
    if src != want:
        fail("numeric_field_create_like no longer has the modelled shape")
    # which class routes create_like to numeric_field_create_like
    classes = {n.name: n for n in ftree.body if isinstance(n, ast.ClassDef)}
    routes = []
    for c in FIELD_CLASSES:
        m = next((x for x in classes[c].body if isinstance(x, ast.FunctionDef) and x.name == "create_like"), None)
        if m is None:
            fail(f"{c}.create_like not found")
        b = [x for x in strip_doc(m.body) if ast.unparse(x) != "self._ensure_valid()"]
        if len(b) != 1 or not isinstance(b[0], ast.Return) or not isinstance(b[0].value, ast.Call):
            fail(f"{c}.create_like is not a single delegating return")
        callee = dotted(b[0].value.func)
        args = [ast.unparse(a) for a in b[0].value.args]
        if not callee or not callee.startswith("FieldDataOps.") or args != ["self", "group", "name", "timestamp"]:
            fail(f"{c}.create_like: unexpected delegation {ast.unparse(b[0].value)}")
        routes.append((c, callee.split(".", 1)[1]))
    return owner, routes


def run(repo, out):
    repo = Path(repo)
    tree = ast.parse((repo / "exetera/core/fields.py").read_text())
    classes = {n.name: n for n in tree.body if isinstance(n, ast.ClassDef)}
    if "FieldDataOps" not in classes:
        fail("class FieldDataOps not found")
    methods = {n.name: n for n in classes["FieldDataOps"].body if isinstance(n, ast.FunctionDef)}
    # FieldDataOps methods reached from the operator dunders of the six classes
    reached = []
    for c in FIELD_CLASSES:
        if c not in classes:
            fail(f"class {c} not found")
        for fn in classes[c].body:
            if isinstance(fn, ast.FunctionDef) and (fn.name.startswith("__") or fn.name == "logical_not"):
                b = strip_doc(fn.body)
                if b and isinstance(b[-1], ast.Return) and isinstance(b[-1].value, ast.Call):
                    f = dotted(b[-1].value.func) or ""
                    m = f.split(".", 1)[1] if f.startswith("FieldDataOps.") else None
                    if m in methods and not m.startswith("apply_") and not m.startswith("_") and not m.endswith("create_like") \
                            and m not in reached:
                        reached.append(m)
    direct = sorted(m for m in reached if not delegating(methods[m]))
    progs = []
    for h in HELPERS + direct:
        if h not in methods:
            fail(f"FieldDataOps.{h} not found")
        nops, prog = program(methods[h], "FieldDataOps." + h)
        progs.append((h, nops, prog))
    proto = protocol_rows(classes)
    owner, routes = setitem_shape(repo)
    L = ["-- generated by tools/translate_fieldops.py from exetera/core/fields.py and exetera/core/dataframe.py; do not edit",
         "namespace Exetera.Gen", "",
         "/-- one statement of a FieldDataOps helper body over numbered slots (slot k < #operands = operand parameter k; each",
         "    defining statement appends one slot per value it binds):",
         "    `unwrap p`        `if isinstance(P, Field): X = P.data[:]  else: X = P`",
         "    `apply f as n`    `R… = f(A…)` binding `n` values; `f = none` is the helper's `function` parameter",
         "    `newField c r`    `F = c(session, dtype_to_str(R.dtype))`",
         "    `write f r`       `F.data.write(R)`",
         "    `ret fs`          `return F…` -/",
         "inductive FInstr where",
         "  | unwrap (src : Nat)",
         "  | apply (sym : Option String) (args : List Nat) (nres : Nat)",
         "  | newField (cls : String) (dtypeOf : Nat)",
         "  | write (fld val : Nat)",
         "  | ret (vals : List Nat)",
         "  deriving Repr, DecidableEq", "",
         "/-- (helper / direct FieldDataOps method, number of operand parameters, body) -/",
         "def helperProgs : List (String × Nat × List FInstr) := ["]
    L.append(",\n".join(f"  ({lean_str(h)}, {k}, [{', '.join(p)}])" for h, k, p in progs))
    L += ["]", "",
          "/-- (field class, `__array_ufunc__` as written or \"absent\", `__array_priority__` as written or \"absent\", priority > 0) -/",
          "def arrayProtocol : List (String × String × String × Bool) := ["]
    L.append(",\n".join(f"  ({lean_str(c)}, {lean_str(u)}, {lean_str(p)}, {'true' if pos else 'false'})" for c, u, p, pos in proto))
    L += ["]", "",
          "/-- `DataFrame.__setitem__(self, name, field)` has the shape: two isinstance guards raising TypeError;",
          "    `nfield = field.create_like(self, name)`; non-indexed: `nfield.data.write(field.data[:])`; `self._columns[name] = nfield`",
          "    (the class it was read from) -/",
          f"def setItemOwner : String := {lean_str(owner)}", "",
          "/-- (field class, the FieldDataOps function its `create_like(self, group, name, timestamp)` delegates to);",
          "    `numeric_field_create_like` has the modelled shape (nformat = source._nformat; dataframe → `group.create_numeric(name, nformat, ts)`) -/",
          "def createLikeRoute : List (String × String) := ["]
    L.append(",\n".join(f"  ({lean_str(c)}, {lean_str(m)})" for c, m in routes))
    L += ["]", "", "end Exetera.Gen", ""]
    (Path(out) / "FieldOpsShape.lean").write_text("\n".join(L))
