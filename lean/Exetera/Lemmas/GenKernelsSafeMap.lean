import Exetera.Gen.Kernels
import Exetera.Model.MapValid
import Exetera.Lemmas.GenKernels
import Exetera.Lemmas.GenKernelsMapValid
/-!
  The TRANSLATED `safe_map_values` (optional scalar parameter `empty_value`, tested with `is not None` inside the loop) against
  `MapValid.safeMapValues` — transfer form: every `.ok` run of the model is a run of the translated kernel with the same result,
  provided no mapped row number is negative where the filter is set (the model wraps a negative subscript, the translation rejects it).
-/
namespace Exetera.GenK

open Exetera Exetera.PyRt Exetera.Gen.Kernels
open Exetera.MapValid (forE getI safeMapValuesStep safeMapValues)

namespace SMV

abbrev St := safe_map_values.St

theorem step (data m : List Int) (filt : List Bool) (e : Option Int) (i : Nat) (res res' : List Int) (s : St)
    (h0 : s.p0 = data) (h1 : s.p1 = m) (h2 : s.p2 = filt) (h3 : s.p3 = e.getD 0) (h3s : s.p3_some = e.isSome) (hv : s.v0 = res)
    (hpos : ∀ k, filt[i]? = some true → m[i]? = some k → 0 ≤ k)
    (h : safeMapValuesStep data m filt e i res = .ok res') :
    safe_map_values.body_L1 { s with v1 := (i : Int) } = .ok { s with v1 := (i : Int), v0 := res' } := by
  obtain ⟨q0, q1, q2, q3, q3s, w0, w1⟩ := s
  simp only at h0 h1 h2 h3 h3s hv
  subst h0 h1 h2 h3 h3s hv
  unfold safeMapValuesStep at h
  cases hf : q2[i]? with
  | none => simp [hf] at h
  | some f =>
    simp only [hf] at h
    have hgf : ∀ site, getE q2 i site = .ok f := fun site => by simp [getE, hf]
    simp only [safe_map_values.body_L1, idxE_nat, hgf, bindE_ok]
    cases f with
    | true =>
      simp only [if_true] at h ⊢
      cases hm : q1[i]? with
      | none => simp [hm] at h
      | some k =>
        simp only [hm] at h
        have hgm : ∀ site, getE q1 i site = .ok k := fun site => by simp [getE, hm]
        simp only [hgm, bindE_ok]
        cases hg : getI q0 k "data_field[map_field[i]]" with
        | error er => simp [hg] at h
        | ok v =>
          simp only [hg] at h
          rw [getI_nonneg q0 k _ "p0[p1[v1]]" v (hpos k hf hm) hg]
          simp only [bindE_ok, setIdxE_nat]
          rw [setE_ok_site "v0[v1]" h]
          rfl
    | false =>
      simp only [Bool.false_eq_true, if_false] at h ⊢
      cases e with
      | none =>
        simp only [Except.ok.injEq] at h
        subst h
        simp only [Option.isSome_none, Bool.false_eq_true, if_false]
      | some ev =>
        simp only at h
        simp only [Option.isSome_some, if_true, readOptE, Option.getD_some, bindE_ok, setIdxE_nat]
        rw [setE_ok_site "v0[v1]" h]
        rfl

theorem loop (data m : List Int) (filt : List Bool) (e : Option Int)
    (hpos : ∀ (i : Nat) (k : Int), filt[i]? = some true → m[i]? = some k → 0 ≤ k) :
    ∀ (n i : Nat) (res r : List Int) (s : St), s.p0 = data → s.p1 = m → s.p2 = filt → s.p3 = e.getD 0 → s.p3_some = e.isSome →
      s.v0 = res → forE (safeMapValuesStep data m filt e) i n res = .ok r →
      ∃ s', forRangeAux (fun _ => false) (fun k s => safe_map_values.body_L1 { s with v1 := k }) n (i : Int) s = .ok s' ∧
        s'.v0 = r := by
  intro n
  induction n with
  | zero =>
    intro i res r s _ _ _ _ _ hv h
    simp only [forE, Except.ok.injEq] at h
    exact ⟨s, rfl, by rw [hv, h]⟩
  | succ n ih =>
    intro i res r s h0 h1 h2 h3 h3s hv h
    simp only [forE] at h
    cases hs : safeMapValuesStep data m filt e i res with
    | error er => simp [hs] at h
    | ok res' =>
      simp only [hs] at h
      have hb := step data m filt e i res res' s h0 h1 h2 h3 h3s hv (hpos i) hs
      have hc : ((i : Int) + 1) = ((i + 1 : Nat) : Int) := by omega
      simp only [forRangeAux, hb, Bool.false_eq_true, if_false, hc]
      exact ih (i + 1) res' r { s with v1 := (i : Int), v0 := res' } h0 h1 h2 h3 h3s rfl h

end SMV

theorem safe_map_values_ok (data m : List Int) (filt : List Bool) (e : Option Int) (r : List Int)
    (hpos : ∀ (i : Nat) (k : Int), filt[i]? = some true → m[i]? = some k → 0 ≤ k)
    (h : safeMapValues data m filt e 0 = .ok r) :
    safe_map_values.run data m filt e = .ok r := by
  unfold safeMapValues at h
  unfold safe_map_values.run
  simp only [forRangeE, pyLen, Int.sub_zero, Int.toNat_natCast]
  obtain ⟨s', hrun, hv⟩ := SMV.loop data m filt e hpos m.length 0 _ r
    (⟨data, m, filt, e.getD 0, e.isSome, List.replicate m.length 0, 0⟩ : SMV.St) rfl rfl rfl rfl rfl rfl h
  have hrun' : forRangeAux (fun _ => false) (fun k s => safe_map_values.body_L1 { s with v1 := k }) m.length (0 : Int)
      (⟨data, m, filt, e.getD 0, e.isSome, List.replicate m.length 0, 0⟩ : SMV.St) = .ok s' := hrun
  simp only [hrun', bindE_ok, hv]

end Exetera.GenK
