import Exetera.Lemmas.JoinFlatSpec
import Exetera.Lemmas.JoinInnerSpec
/-!
  Runs of equal keys as the flat inner kernels compute them (`runLen`), and the cartesian block of the relational join
  at a merge position where both keys are equal (C19).
-/
namespace Exetera.JoinFlat
open Exetera Exetera.Spec Exetera.Join

/-- `[k, k+n)` is the maximal run of the key `a` starting at `k` in a sorted column -/
structure IsRun (xs : List Int) (k n : Nat) (a : Int) : Prop where
  pos : 0 < n
  le : k + n ≤ xs.length
  eq : ∀ t, t < n → xs[k + t]? = some a
  gt : ∀ b, xs[k + n]? = some b → a < b

theorem runLen_isRun (scan : Bool) {xs : List Int} {k : Nat} {a : Int} (hs : Sorted xs)
    (hu : scan = false → xs.Pairwise (· < ·)) (hk : xs[k]? = some a) :
    ∃ n, runLen scan xs k = .ok n ∧ IsRun xs k n a := by
  obtain ⟨hkl, hka⟩ := List.getElem?_eq_some_iff.mp hk
  cases scan with
  | false =>
    refine ⟨1, rfl, ⟨by omega, by omega, ?_, ?_⟩⟩
    · intro t ht
      have : t = 0 := by omega
      subst this; exact hk
    · intro b hb
      exact RU.strict_get? (hu rfl) (i := k) (j := k + 1) (by omega) hk hb
  | true =>
    obtain ⟨e, h1, h2, h3, h4⟩ := runCount_spec xs xs.length (Nat.le_refl _) xs.length k 1 hkl (by omega)
    refine ⟨1 + e, h1, ⟨by omega, by omega, ?_, ?_⟩⟩
    · intro t ht
      rw [h3 t (by omega)]; exact hk
    · intro b hb
      have hlt : k + (1 + e) < xs.length := (List.getElem?_eq_some_iff.mp hb).1
      have hne := h4 (by omega)
      have e1 : k + e + 1 = k + (1 + e) := by omega
      rw [e1, hb, hk] at hne
      have hle := Sorted.le_get? hs (i := k) (j := k + (1 + e)) (by omega) hk hb
      have : b ≠ a := fun h => hne (by rw [h])
      omega

/-- at a merge position with equal keys the next spec rows are the cartesian block of the two runs, and the merge
    invariant holds again after both runs -/
theorem rest_run {L R : List Int} {I J n m : Nat} {a : Int} (hL : Sorted L) (hR : Sorted R) (h : Below L R I J)
    (hl : IsRun L I n a) (hr : IsRun R J m a) :
    rest L R I = blockRows I J m n ++ rest L R (I + n) ∧ Below L R (I + n) (J + m) := by
  have hI : L[I]? = some a := by simpa using hl.eq 0 hl.pos
  constructor
  · apply rest_block hR hr.pos hr.le (a := a)
    · intro j hj
      exact h j _ a hj (get?_some_of_lt (by have := hr.le; omega)) hI
    · intro t ht
      have := hr.eq t ht
      rw [get?_some_of_lt (by have := hr.le; omega)] at this
      exact Option.some.inj this
    · intro hlt
      exact hr.gt _ (get?_some_of_lt hlt)
    · intro t ht
      have := hl.eq t ht
      rw [get?_some_of_lt (by have := hl.le; omega)] at this
      exact Option.some.inj this
    · exact hl.le
  · intro j b a' hj hb ha'
    have haa' : a < a' := hl.gt a' ha'
    by_cases hjJ : j < J
    · have := h j b a hjJ hb hI; omega
    · have := hr.eq (j - J) (by omega)
      have e1 : J + (j - J) = j := by omega
      rw [e1, hb] at this
      cases this; exact haa'

theorem blockRows_length (I J m : Nat) : ∀ n, (blockRows I J m n).length = n * m
  | 0 => by simp [blockRows]
  | n + 1 => by
    have e : (n + 1) * m = m + n * m := by rw [Nat.succ_mul, Nat.add_comm]
    rw [blockRows, List.length_append, blockRows_length (I + 1) J m n, e]
    simp [blockRow]
  termination_by n => n
  decreasing_by all_goals omega

theorem encL_blockRows (J m : Nat) : ∀ n I, encL (blockRows I J m n) = blockL m I n
  | 0, _ => by simp [blockRows, blockL, encL]
  | n + 1, I => by
    have ih := encL_blockRows J m n (I + 1)
    simp only [encL] at ih
    simp only [blockRows, blockL, encL, List.map_append, ih, blockRow, List.map_map]
    congr 1
    rw [List.eq_replicate_iff]
    constructor
    · simp
    · intro b hb
      simp only [List.mem_map] at hb
      obtain ⟨_, _, rfl⟩ := hb
      rfl

theorem encR_blockRows (inv : Int) (J m : Nat) : ∀ n I, encR inv (blockRows I J m n) = blockR J m n
  | 0, _ => by simp [blockRows, blockR, encR]
  | n + 1, I => by
    have ih := encR_blockRows inv J m n (I + 1)
    simp only [encR] at ih
    simp only [blockRows, blockR, encR, List.map_append, ih, blockRow, List.map_map]
    congr 1

end Exetera.JoinFlat
