import Exetera.Lemmas.CsvLoopThm
/-! `read_csv_with_schema_dict`: budgets, `index_map`, include / exclude (C05). -/
namespace Exetera.Csv
open Exetera Spec

/-- `column_offsets` written recursively -/
def offsRec (crs : Nat) : Nat → List Nat → List Nat
  | b, [] => [b]
  | b, sz :: rest => b :: offsRec crs (b + max sz 1 * crs) rest

theorem offsRec_ne_nil (crs b : Nat) (sizes : List Nat) : offsRec crs b sizes ≠ [] := by
  cases sizes <;> simp [offsRec]

theorem getLastD_concat' (pre : List Nat) (b : Nat) : (pre ++ [b]).getLastD 0 = b := by
  rw [List.getLastD_eq_getLast?]; simp

theorem foldl_offs (crs : Nat) (sizes : List Nat) : ∀ (pre : List Nat) (b : Nat),
    sizes.foldl (fun acc sz => acc ++ [acc.getLastD 0 + max sz 1 * crs]) (pre ++ [b]) = pre ++ offsRec crs b sizes := by
  induction sizes with
  | nil => intro pre b; rfl
  | cons sz rest ih =>
    intro pre b
    simp only [List.foldl_cons, offsRec, getLastD_concat']
    rw [ih (pre ++ [b]) (b + max sz 1 * crs)]
    simp

theorem columnOffsets_eq (sizes : List Nat) (crs : Nat) : columnOffsets sizes crs = offsRec crs 0 sizes := by
  unfold columnOffsets
  exact foldl_offs crs sizes [] 0

theorem offsRec_length (crs : Nat) (sizes : List Nat) : ∀ b, (offsRec crs b sizes).length = sizes.length + 1 := by
  induction sizes with
  | nil => intro b; rfl
  | cons sz rest ih => intro b; simp [offsRec, ih]

theorem offsRec_step (crs : Nat) (sizes : List Nat) : ∀ (b c : Nat), c < sizes.length →
    offAt (offsRec crs b sizes) (c + 1) = offAt (offsRec crs b sizes) c + max (sizes.getD c 0) 1 * crs := by
  induction sizes with
  | nil => intro b c hc; simp at hc
  | cons sz rest ih =>
    intro b c hc
    cases c with
    | zero =>
      cases rest <;> simp [offsRec, offAt]
    | succ c =>
      have := ih (b + max sz 1 * crs) c (by simpa using hc)
      simpa [offsRec, offAt] using this

theorem offsRec_zero (crs b : Nat) (sizes : List Nat) : offAt (offsRec crs b sizes) 0 = b := by
  cases sizes <;> simp [offsRec, offAt]

theorem zip_map_self {α β γ} (l : List α) (g : α → β) (h : α → β → γ) :
    (l.zip (l.map g)).map (fun p => h p.1 p.2) = l.map (fun k => h k (g k)) := by
  induction l with
  | nil => rfl
  | cons x xs ih => simp [ih]

theorem any_not_contains_false (names l : List String) (h : ∀ k ∈ l, k ∈ names) :
    l.any (fun k => !names.contains k) = false := by
  rw [List.any_eq_false]
  intro k hk
  simp [h k hk]

/-- `read_csv_with_schema_dict` when every column is imported as an indexed string -/
theorem readCsv_windows {file : Bytes} {crs ncols : Nat} {hrow : List Cell} {rows : List (List Cell)}
    (names : List String) (schema : List (String × FieldKind)) (incl excl : Option (List String))
    (hall : ∀ k ∈ names, kindOf schema k = .indexed) (hnames : names.length = ncols)
    (hincl : ∀ l, incl = some l → ∀ k ∈ l, k ∈ names) (hexcl : ∀ l, excl = some l → ∀ k ∈ l, k ∈ names)
    (hisFile : IsFile file (render (hrow :: rows))) (hfile : file ≠ [])
    (hhdr : hrow.length = ncols ∧ ∀ c ∈ hrow, c.WF) (htab : ∀ r ∈ rows, r.length = ncols ∧ ∀ c ∈ r, c.WF)
    (hnc : 0 < ncols) (hcrs : 0 < crs)
    (hreg : ∀ l ∈ hrow :: rows, (renderCells l).length ≤ crs * Gen.Csv.CHUNK_ROW_FACTOR * ncols)
    (hmin : ∀ l ∈ hrow :: rows, ncols < (renderCells l).length)
    (hfit : ∀ c, c < ncols → (column (values rows) c).flatten.length < Gen.Csv.INDEXED_STRING_FIELD_SIZE * crs)
    (fuel : Nat) (hfuel : rows.length + 2 ≤ fuel) :
    readCsv file names schema incl excl crs fuel =
      .ok ⟨rows.length, (fieldsToUse names incl excl).map
        (fun k => ⟨k, fieldOf (column (values rows) (names.idxOf k))⟩)⟩ := by
  have hsizes : names.map (fun k => (kindOf schema k).fieldSize) = names.map (fun _ => Gen.Csv.INDEXED_STRING_FIELD_SIZE) := by
    apply List.map_congr_left
    intro k hk
    rw [hall k hk]; rfl
  have hoffs : columnOffsets (names.map (fun k => (kindOf schema k).fieldSize)) crs =
      offsRec crs 0 (names.map (fun _ => Gen.Csv.INDEXED_STRING_FIELD_SIZE)) := by
    rw [hsizes, columnOffsets_eq]
  have hslen : (names.map (fun _ => Gen.Csv.INDEXED_STRING_FIELD_SIZE)).length = ncols := by simp [hnames]
  have hstep : ∀ c, c < ncols →
      offAt (offsRec crs 0 (names.map (fun _ => Gen.Csv.INDEXED_STRING_FIELD_SIZE))) (c + 1) =
        offAt (offsRec crs 0 (names.map (fun _ => Gen.Csv.INDEXED_STRING_FIELD_SIZE))) c +
          Gen.Csv.INDEXED_STRING_FIELD_SIZE * crs := by
    intro c hc
    rw [offsRec_step crs _ 0 c (by omega)]
    have : (names.map (fun _ => Gen.Csv.INDEXED_STRING_FIELD_SIZE)).getD c 0 = Gen.Csv.INDEXED_STRING_FIELD_SIZE := by
      simp [List.getD, List.getElem?_map, List.getElem?_eq_getElem (show c < names.length by omega)]
    rw [this]; rfl
  have huse : ∀ k ∈ fieldsToUse names incl excl, k ∈ names := by
    intro k hk
    unfold fieldsToUse at hk
    cases incl <;> cases excl <;> simp [List.mem_filter] at hk <;> first | exact hk | exact hk.1 | exact hk.1.1
  have st : Setting file crs ncols (offsRec crs 0 (names.map (fun _ => Gen.Csv.INDEXED_STRING_FIELD_SIZE)))
      ((fieldsToUse names incl excl).map (fun k => names.idxOf k)) hrow rows :=
    { isFile := hisFile, hdr := hhdr, tab := htab, nc := hnc, crsPos := hcrs, reg := hreg, min := hmin
      offsLen := by rw [offsRec_length, hslen]
      offs0 := offsRec_zero _ _ _
      mono := fun c hc => by rw [hstep c hc]; omega
      fit := fun c hc => by rw [hstep c hc]; have := hfit c hc; omega
      imOk := by
        intro c hc
        simp only [List.mem_map] at hc
        obtain ⟨k, hk, rfl⟩ := hc
        rw [← hnames]
        exact List.idxOf_lt_length_of_mem (huse k hk) }
  obtain ⟨calls, hrf⟩ := readFile_windows st hfile fuel hfuel
  have himps : (fieldsToUse names incl excl).map (fun k => ({ kind := kindOf schema k } : Imp)) =
      ((fieldsToUse names incl excl).map (fun k => names.idxOf k)).map (fun _ => ({ kind := .indexed } : Imp)) := by
    rw [List.map_map]
    apply List.map_congr_left
    intro k hk
    simp [hall k (huse k hk)]
  have hbi : unknownName names incl = false := by
    cases incl with
    | none => rfl
    | some l => exact any_not_contains_false names l (hincl l rfl)
  have hbe : unknownName names excl = false := by
    cases excl with
    | none => rfl
    | some l => exact any_not_contains_false names l (hexcl l rfl)
  unfold readCsv
  simp only [hbi, hbe, Bool.false_eq_true, if_false, hoffs, himps, hnames, hrf]
  congr 2
  rw [List.map_map]
  exact zip_map_self (fieldsToUse names incl excl) _ (fun k i => (⟨k, i⟩ : Field))

end Exetera.Csv
