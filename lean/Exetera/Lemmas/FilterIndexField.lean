import Exetera.Lemmas.FilterIndexKernel
/-! Field level: both kernels as theorems, what a payload holds, the three write modes. -/
namespace Exetera.FilterIndex
open Exetera Exetera.Spec

/-- both passes of the filter kernel: the result encodes exactly the selected entries (and no access left its array) -/
theorem filter_kernel_eq (v : Variant) (es : List (List Nat)) (flt : List Bool) (h : flt.length = es.length) :
    applyFilterToIndexValues v flt (offsetsF es) es.flatten =
      .ok (offsetsF (filterBy flt es), (filterBy flt es).flatten) := by
  have hg : ¬ (v = .repaired ∧ flt.length ≠ (offsetsF es).length - 1) := by
    simp [offsetsF, offsetsFrom_length, h]
  have h1 := filterPass1_spec es flt [] es rfl h 0 0
  have h2 := filterPass2_spec es flt [] es rfl h [] _ _ rfl rfl
  simp only [List.length_nil, Nat.zero_add, List.nil_append] at h1 h2
  unfold applyFilterToIndexValues
  rw [if_neg hg]
  simp only [h1, initP2_eq, h2, p2State_done]

theorem index_kernel_eq (v : Variant) (es : List (List Nat)) (idx : List Int) (rows : List (List Nat))
    (h : gather es idx = some rows) :
    applyIndicesToIndexValues v idx (offsetsF es) es.flatten = .ok (offsetsF rows, rows.flatten) := by
  have h1 := indexPass1_spec v es idx rows h 0 0
  have h2 := indexPass2_spec es idx rows h [] _ _ rfl rfl
  simp only [Nat.zero_add, List.nil_append] at h1 h2
  unfold applyIndicesToIndexValues
  simp only [h1, initP2_eq, h2, p2State_done]

theorem index_kernel_err (es : List (List Nat)) (idx : List Int) (h : gather es idx = none) :
    ∃ site, applyIndicesToIndexValues .repaired idx (offsetsF es) es.flatten = .error (.oob site) := by
  obtain ⟨site, hs⟩ := indexPass1_err es idx h 0 0
  exact ⟨site, by unfold applyIndicesToIndexValues; simp only [hs]⟩

/-! ### plain arrays -/

theorem boolSelect_eq {α} (bs : List Bool) (xs : List α) : boolSelect bs xs = filterBy bs xs := by
  induction bs generalizing xs with
  | nil => simp [boolSelect, filterBy]
  | cons b bs ih =>
    cases xs with
    | nil => simp [boolSelect, filterBy]
    | cons x xs => simp [boolSelect, filterBy, ih]

theorem getWrapE_eq_rowAt {α} (xs : List α) (i : Int) (site : String) :
    getWrapE xs i site = match rowAt xs i with
      | some x => .ok x
      | none => .error (.oob site) := by
  unfold getWrapE rowAt
  rw [normIdx_eq_wrapIdx]
  cases h : wrapIdx xs.length i with
  | none => rfl
  | some k =>
    simp only [getE]
    cases xs[k]? <;> rfl

theorem fancyIndex_ok {α} (xs : List α) (idx : List Int) (rows : List α) (h : gather xs idx = some rows) :
    fancyIndex xs idx = .ok rows := by
  induction idx generalizing rows with
  | nil => simp [gather] at h; subst h; rfl
  | cons i is ih =>
    simp only [gather] at h
    split at h
    · rename_i x r hx hr
      simp at h; subst h
      simp only [fancyIndex, getWrapE_eq_rowAt, hx, ih r hr]
    · simp at h

theorem fancyIndex_err {α} (xs : List α) (idx : List Int) (h : gather xs idx = none) :
    fancyIndex xs idx = .error (.oob "data[index]") := by
  induction idx with
  | nil => simp [gather] at h
  | cons i is ih =>
    cases hr : rowAt xs i with
    | none => simp only [fancyIndex, getWrapE_eq_rowAt, hr]
    | some x =>
      have hrest : gather xs is = none := by
        simp only [gather, hr] at h
        split at h
        · simp at h
        · rename_i h'
          cases hg : gather xs is with
          | none => rfl
          | some r => exact (h' x r rfl hg).elim
      simp only [fancyIndex, getWrapE_eq_rowAt, hr, ih hrest]

/-! ### what a stored payload holds -/

/-- `p` stores the column `c`. An indexed string field that was never written holds `indices = []` rather than `[0]`. -/
def Encodes : Payload → Column → Prop
  | .plain d, .nums xs => d = xs
  | .indexed i v, .strs es => (i = offsetsF es ∨ (es = [] ∧ i = [])) ∧ v = es.flatten
  | _, _ => False

theorem filterPayload_spec (v : Variant) (p : Payload) (c c' : Column) (bs : List Bool)
    (h : Encodes p c) (hc : c.filter bs = some c') :
    ∃ p', filterPayload v bs p = .ok p' ∧ Encodes p' c' := by
  cases p with
  | plain d =>
    cases c with
    | nums xs =>
      simp only [Encodes] at h; subst h
      simp only [Column.filter] at hc
      split at hc
      · rename_i hl
        simp at hc; subst hc
        exact ⟨.plain (filterBy bs d), by simp [filterPayload, boolIndex, hl, boolSelect_eq, Except.map], rfl⟩
      · simp at hc
    | strs es => simp [Encodes] at h
  | indexed i vals =>
    cases c with
    | nums xs => simp [Encodes] at h
    | strs es =>
      obtain ⟨hi, hv⟩ := h
      simp only [Column.filter] at hc
      split at hc
      · rename_i hl
        simp at hc; subst hc
        rcases hi with hi | ⟨he, hi⟩
        · subst hi hv
          exact ⟨.indexed (offsetsF (filterBy bs es)) (filterBy bs es).flatten,
            by simp [filterPayload, filter_kernel_eq v es bs hl, Except.map], Or.inl rfl, rfl⟩
        · subst he hi hv
          have : bs = [] := List.eq_nil_of_length_eq_zero (by simpa using hl)
          subst this
          refine ⟨.indexed [0] [], ?_, Or.inl rfl, rfl⟩
          cases v <;> rfl
      · simp at hc

theorem filterPayload_err (p : Payload) (c : Column) (bs : List Bool)
    (h : Encodes p c) (hc : c.filter bs = none) :
    ∃ site, filterPayload .repaired bs p = .error (.oob site) := by
  cases p with
  | plain d =>
    cases c with
    | nums xs =>
      simp only [Encodes] at h; subst h
      simp only [Column.filter] at hc
      split at hc
      · simp at hc
      · rename_i hl
        exact ⟨"boolean index did not match indexed array", by simp [filterPayload, boolIndex, hl, Except.map]⟩
    | strs es => simp [Encodes] at h
  | indexed i vals =>
    cases c with
    | nums xs => simp [Encodes] at h
    | strs es =>
      obtain ⟨hi, hv⟩ := h
      simp only [Column.filter] at hc
      split at hc
      · simp at hc
      · rename_i hl
        have hlen : bs.length ≠ i.length - 1 := by
          rcases hi with hi | ⟨he, hi⟩
          · subst hi; simpa [offsetsF, offsetsFrom_length] using hl
          · subst he hi; simpa using hl
        exact ⟨"len(index_filter) != len(indices) - 1",
          by simp [filterPayload, applyFilterToIndexValues, hlen, Except.map]⟩

theorem gather_nil_eq_some {α} (idx : List Int) (rows : List α) (h : gather ([] : List α) idx = some rows) :
    idx = [] ∧ rows = [] := by
  cases idx with
  | nil => simp [gather] at h; exact ⟨rfl, h⟩
  | cons i is =>
    have : rowAt ([] : List α) i = none := by
      unfold rowAt
      split
      · simp
      · rfl
    simp [gather, this] at h

theorem indexPayload_spec (v : Variant) (p : Payload) (c c' : Column) (idx : List Int)
    (h : Encodes p c) (hc : c.gather idx = some c') :
    ∃ p', indexPayload v idx p = .ok p' ∧ Encodes p' c' := by
  cases p with
  | plain d =>
    cases c with
    | nums xs =>
      simp only [Encodes] at h; subst h
      simp only [Column.gather, Option.map_eq_some_iff] at hc
      obtain ⟨rows, hr, rfl⟩ := hc
      exact ⟨.plain rows, by simp [indexPayload, fancyIndex_ok d idx rows hr, Except.map], rfl⟩
    | strs es => simp [Encodes] at h
  | indexed i vals =>
    cases c with
    | nums xs => simp [Encodes] at h
    | strs es =>
      obtain ⟨hi, hv⟩ := h
      simp only [Column.gather, Option.map_eq_some_iff] at hc
      obtain ⟨rows, hr, rfl⟩ := hc
      rcases hi with hi | ⟨he, hi⟩
      · subst hi hv
        exact ⟨.indexed (offsetsF rows) rows.flatten,
          by simp [indexPayload, index_kernel_eq v es idx rows hr, Except.map], Or.inl rfl, rfl⟩
      · subst he hi hv
        obtain ⟨rfl, rfl⟩ := gather_nil_eq_some idx rows hr
        refine ⟨.indexed [0] [], ?_, Or.inl rfl, rfl⟩
        cases v <;> rfl

theorem indexPayload_err (p : Payload) (c : Column) (idx : List Int)
    (h : Encodes p c) (hc : c.gather idx = none) :
    ∃ site, indexPayload .repaired idx p = .error (.oob site) := by
  cases p with
  | plain d =>
    cases c with
    | nums xs =>
      simp only [Encodes] at h; subst h
      simp only [Column.gather, Option.map_eq_none_iff] at hc
      exact ⟨"data[index]", by simp [indexPayload, fancyIndex_err d idx hc, Except.map]⟩
    | strs es => simp [Encodes] at h
  | indexed i vals =>
    cases c with
    | nums xs => simp [Encodes] at h
    | strs es =>
      obtain ⟨hi, hv⟩ := h
      simp only [Column.gather, Option.map_eq_none_iff] at hc
      rcases hi with hi | ⟨he, hi⟩
      · subst hi hv
        obtain ⟨site, hs⟩ := index_kernel_err es idx hc
        exact ⟨site, by simp [indexPayload, hs, Except.map]⟩
      · subst he hi hv
        cases idx with
        | nil => simp [gather] at hc
        | cons j js =>
          refine ⟨"index out of bounds for indexed field", ?_⟩
          have hg : indexGuard .repaired 0 j = .error (.oob "index out of bounds for indexed field") := by
            unfold indexGuard
            have : (j < -((0 : Nat) : Int) ∨ j ≥ ((0 : Nat) : Int)) := by omega
            simp
          simp [indexPayload, applyIndicesToIndexValues, indexPass1, hg, Except.map]

/-! ### the three write modes store the same thing -/

theorem Payload.clearWrite_eq (o n : Payload) : o.clearWrite n = n := by
  cases o <;> cases n <;> simp [Payload.clearWrite, FilterIndex.clearWrite]

theorem Payload.writeTarget_eq (o n : Payload) : o.writeTarget n = n := by
  cases o <;> cases n <;> simp [Payload.writeTarget, FilterIndex.writeTarget, FilterIndex.clearWrite]

theorem storeResult_inPlace (src : Field) (res : Payload) (hw : src.writeEnabled = true) :
    storeResult src res none true = .ok { src with payload := res } := by
  simp [storeResult, hw, Payload.clearWrite_eq]

theorem storeResult_target (src t : Field) (res : Payload) :
    storeResult src res (some t) false = .ok { t with payload := res } := by
  simp [storeResult, Payload.writeTarget_eq]

theorem storeResult_fresh (src : Field) (res : Payload) :
    storeResult src res none false = .ok { info := src.info, payload := res, writeEnabled := true } := by
  simp [storeResult]

end Exetera.FilterIndex
