/-!
  C10 — path conditions of the array subscripts of the ten streamed join kernels that `Model/Join.lean` models (owning property C03 / C12), frozen from the source the model
  was written against. `Props/C10.lean` (`access_paths_covered_join`) proves that the table regenerated from the CURRENT
  source (`Gen/KernelPaths.lean`) is this one: a test that dominates a subscript cannot be dropped, weakened or moved in the
  source without breaking the build.

  Each entry is (site, path condition): the tests passed on the way to that occurrence of the subscript, outermost first —
  `for …` / `while …` = an enclosing loop guard (the same strings as in `KernelSitesJoin`), a bare test = the `if` / `elif`
  branch taken or an `and` operand to the left of the subscript, `not (…)` = an `else` branch, the code after an early exit
  `if …: break | continue | return | raise`, or an `or` operand to the left. A condition is the text of a test that held
  when it was passed (a syntactic path, not an invariant). A site reached on several paths has one entry per path.
  Regenerate with `python3 tools/translate_kernels.py --paths /repo <kernel> …`.

  Which conjunct of the path condition the model's checked accessor relies on (accessor names as in `KernelSitesJoin`):
  * `l_result[r]`, `r_result[r]` (all kernels) = `push`, capacity check `r < cap`: relies on the conjunct `r < len(l_result)`
    (`r < len(r_result)`, `r < r_max` in the variants) of the enclosing `while` — the first entry of every write path. No `if`
    test stands for it: the three-way key comparison (`left[i] < right[j]` / `not (…)`, `not (left[i] > right[j])`) and
    `inner is False` only select the branch, which the model has too (`generalBody` / `uniqueBody`).
  * `left[i]`, `right[j]` = `getE`: rely on the conjuncts `i < i_max` (`i < len(left)`), `j < j_max` (`j < len(right)`) of the
    same guard.
  * `left[i_ + 1]`, `left[i_]`, `right[j_ + 1]`, `right[j_]` (general kernels, keys equal) = `runCount`: rely on the operand
    `i_ + 1 < i_max` / `j_ + 1 < j_max` to the left of the read inside the run-counting `while` test (last entry of the path).
  * `right[j + 1]` (left-unique kernels), `left[i + 1]` (right-unique kernels) = the look-ahead `getE` of `uniqueBody`: rely on
    the early exit `if j + 1 >= j_max: break` (`i + 1 >= i_max`) — the entry `not (j + 1 >= j_max)`; the model mirrors test
    and break.
  * the two `…_remaining` kernels write under `while i < i_max and r < len(…)` only (`remainingBody`: `push`).
-/
namespace Exetera.KernelPaths

/-- the join kernels: path condition of every subscript occurrence -/
def joinPaths : List (String × List (String × List String)) := [
  ("generate_ordered_map_to_left_remaining", [
    ("W l_result[r]", ["while i < i_max and r < len(l_result)"]),
    ("W r_result[r]", ["while i < i_max and r < len(l_result)"])]),
  ("generate_ordered_map_to_left_partial", [
    ("R left[i]", ["while i < i_max and j < j_max and (r < len(l_result))", "inner is False"]),
    ("R left[i]", ["while i < i_max and j < j_max and (r < len(l_result))", "inner is False", "not (left[i] < right[j])"]),
    ("R left[i_ + 1]", ["while i < i_max and j < j_max and (r < len(l_result))", "inner is False", "not (left[i] < right[j])", "not (left[i] > right[j])", "i_ + 1 < i_max"]),
    ("R left[i_]", ["while i < i_max and j < j_max and (r < len(l_result))", "inner is False", "not (left[i] < right[j])", "not (left[i] > right[j])", "i_ + 1 < i_max"]),
    ("R right[j]", ["while i < i_max and j < j_max and (r < len(l_result))", "inner is False"]),
    ("R right[j]", ["while i < i_max and j < j_max and (r < len(l_result))", "inner is False", "not (left[i] < right[j])"]),
    ("R right[j_ + 1]", ["while i < i_max and j < j_max and (r < len(l_result))", "inner is False", "not (left[i] < right[j])", "not (left[i] > right[j])", "j_ + 1 < j_max"]),
    ("R right[j_]", ["while i < i_max and j < j_max and (r < len(l_result))", "inner is False", "not (left[i] < right[j])", "not (left[i] > right[j])", "j_ + 1 < j_max"]),
    ("W l_result[r]", ["while i < i_max and j < j_max and (r < len(l_result))", "inner is False", "left[i] < right[j]"]),
    ("W l_result[r]", ["while i < i_max and j < j_max and (r < len(l_result))", "not (inner is False)"]),
    ("W r_result[r]", ["while i < i_max and j < j_max and (r < len(l_result))", "inner is False", "left[i] < right[j]"]),
    ("W r_result[r]", ["while i < i_max and j < j_max and (r < len(l_result))", "not (inner is False)"])]),
  ("generate_ordered_map_to_left_left_unique_partial", [
    ("R left[i]", ["while i < len(left) and j < j_max and (r < len(l_result))"]),
    ("R left[i]", ["while i < len(left) and j < j_max and (r < len(l_result))", "not (left[i] < right[j])"]),
    ("R right[j + 1]", ["while i < len(left) and j < j_max and (r < len(l_result))", "not (left[i] < right[j])", "not (left[i] > right[j])", "not (j + 1 >= j_max)"]),
    ("R right[j]", ["while i < len(left) and j < j_max and (r < len(l_result))"]),
    ("R right[j]", ["while i < len(left) and j < j_max and (r < len(l_result))", "not (left[i] < right[j])"]),
    ("R right[j]", ["while i < len(left) and j < j_max and (r < len(l_result))", "not (left[i] < right[j])", "not (left[i] > right[j])", "not (j + 1 >= j_max)"]),
    ("W l_result[r]", ["while i < len(left) and j < j_max and (r < len(l_result))", "left[i] < right[j]"]),
    ("W l_result[r]", ["while i < len(left) and j < j_max and (r < len(l_result))", "not (left[i] < right[j])", "not (left[i] > right[j])"]),
    ("W r_result[r]", ["while i < len(left) and j < j_max and (r < len(l_result))", "left[i] < right[j]"]),
    ("W r_result[r]", ["while i < len(left) and j < j_max and (r < len(l_result))", "not (left[i] < right[j])", "not (left[i] > right[j])"])]),
  ("generate_ordered_map_to_left_right_unique_partial", [
    ("R left[i + 1]", ["while i < i_max and j < len(right) and (r < len(r_result))", "not (left[i] < right[j])", "not (left[i] > right[j])", "not (i + 1 >= i_max)"]),
    ("R left[i]", ["while i < i_max and j < len(right) and (r < len(r_result))"]),
    ("R left[i]", ["while i < i_max and j < len(right) and (r < len(r_result))", "not (left[i] < right[j])"]),
    ("R left[i]", ["while i < i_max and j < len(right) and (r < len(r_result))", "not (left[i] < right[j])", "not (left[i] > right[j])", "not (i + 1 >= i_max)"]),
    ("R right[j]", ["while i < i_max and j < len(right) and (r < len(r_result))"]),
    ("R right[j]", ["while i < i_max and j < len(right) and (r < len(r_result))", "not (left[i] < right[j])"]),
    ("W r_result[r]", ["while i < i_max and j < len(right) and (r < len(r_result))", "left[i] < right[j]"]),
    ("W r_result[r]", ["while i < i_max and j < len(right) and (r < len(r_result))", "not (left[i] < right[j])", "not (left[i] > right[j])"])]),
  ("generate_ordered_map_to_left_both_unique_partial", [
    ("R left[i]", ["while i < i_max and j < j_max and (r < r_max)"]),
    ("R left[i]", ["while i < i_max and j < j_max and (r < r_max)", "not (left[i] < right[j])"]),
    ("R right[j]", ["while i < i_max and j < j_max and (r < r_max)"]),
    ("R right[j]", ["while i < i_max and j < j_max and (r < r_max)", "not (left[i] < right[j])"]),
    ("W r_result[r]", ["while i < i_max and j < j_max and (r < r_max)", "left[i] < right[j]"]),
    ("W r_result[r]", ["while i < i_max and j < j_max and (r < r_max)", "not (left[i] < right[j])", "not (left[i] > right[j])"])]),
  ("generate_ordered_map_to_left_right_unique_remaining", [
    ("W r_result[r]", ["while i < i_max and r < len(r_result)"])]),
  ("generate_ordered_map_to_inner_partial", [
    ("R left[i]", ["while i < i_max and j < j_max and (r < len(l_result))", "inner is False"]),
    ("R left[i]", ["while i < i_max and j < j_max and (r < len(l_result))", "inner is False", "not (left[i] < right[j])"]),
    ("R left[i_ + 1]", ["while i < i_max and j < j_max and (r < len(l_result))", "inner is False", "not (left[i] < right[j])", "not (left[i] > right[j])", "i_ + 1 < i_max"]),
    ("R left[i_]", ["while i < i_max and j < j_max and (r < len(l_result))", "inner is False", "not (left[i] < right[j])", "not (left[i] > right[j])", "i_ + 1 < i_max"]),
    ("R right[j]", ["while i < i_max and j < j_max and (r < len(l_result))", "inner is False"]),
    ("R right[j]", ["while i < i_max and j < j_max and (r < len(l_result))", "inner is False", "not (left[i] < right[j])"]),
    ("R right[j_ + 1]", ["while i < i_max and j < j_max and (r < len(l_result))", "inner is False", "not (left[i] < right[j])", "not (left[i] > right[j])", "j_ + 1 < j_max"]),
    ("R right[j_]", ["while i < i_max and j < j_max and (r < len(l_result))", "inner is False", "not (left[i] < right[j])", "not (left[i] > right[j])", "j_ + 1 < j_max"]),
    ("W l_result[r]", ["while i < i_max and j < j_max and (r < len(l_result))", "not (inner is False)"]),
    ("W r_result[r]", ["while i < i_max and j < j_max and (r < len(l_result))", "not (inner is False)"])]),
  ("generate_ordered_map_to_inner_left_unique_partial", [
    ("R left[i]", ["while i < i_max and j < j_max and (r < len(l_result))"]),
    ("R left[i]", ["while i < i_max and j < j_max and (r < len(l_result))", "not (left[i] < right[j])"]),
    ("R right[j + 1]", ["while i < i_max and j < j_max and (r < len(l_result))", "not (left[i] < right[j])", "not (left[i] > right[j])", "not (j + 1 >= j_max)"]),
    ("R right[j]", ["while i < i_max and j < j_max and (r < len(l_result))"]),
    ("R right[j]", ["while i < i_max and j < j_max and (r < len(l_result))", "not (left[i] < right[j])"]),
    ("R right[j]", ["while i < i_max and j < j_max and (r < len(l_result))", "not (left[i] < right[j])", "not (left[i] > right[j])", "not (j + 1 >= j_max)"]),
    ("W l_result[r]", ["while i < i_max and j < j_max and (r < len(l_result))", "not (left[i] < right[j])", "not (left[i] > right[j])"]),
    ("W r_result[r]", ["while i < i_max and j < j_max and (r < len(l_result))", "not (left[i] < right[j])", "not (left[i] > right[j])"])]),
  ("generate_ordered_map_to_inner_right_unique_partial", [
    ("R left[i + 1]", ["while i < i_max and j < j_max and (r < len(l_result))", "not (left[i] < right[j])", "not (left[i] > right[j])", "not (i + 1 >= i_max)"]),
    ("R left[i]", ["while i < i_max and j < j_max and (r < len(l_result))"]),
    ("R left[i]", ["while i < i_max and j < j_max and (r < len(l_result))", "not (left[i] < right[j])"]),
    ("R left[i]", ["while i < i_max and j < j_max and (r < len(l_result))", "not (left[i] < right[j])", "not (left[i] > right[j])", "not (i + 1 >= i_max)"]),
    ("R right[j]", ["while i < i_max and j < j_max and (r < len(l_result))"]),
    ("R right[j]", ["while i < i_max and j < j_max and (r < len(l_result))", "not (left[i] < right[j])"]),
    ("W l_result[r]", ["while i < i_max and j < j_max and (r < len(l_result))", "not (left[i] < right[j])", "not (left[i] > right[j])"]),
    ("W r_result[r]", ["while i < i_max and j < j_max and (r < len(l_result))", "not (left[i] < right[j])", "not (left[i] > right[j])"])]),
  ("generate_ordered_map_to_inner_both_unique_partial", [
    ("R left[i]", ["while i < i_max and j < j_max and (r < len(l_result))"]),
    ("R left[i]", ["while i < i_max and j < j_max and (r < len(l_result))", "not (left[i] < right[j])"]),
    ("R right[j]", ["while i < i_max and j < j_max and (r < len(l_result))"]),
    ("R right[j]", ["while i < i_max and j < j_max and (r < len(l_result))", "not (left[i] < right[j])"]),
    ("W l_result[r]", ["while i < i_max and j < j_max and (r < len(l_result))", "not (left[i] < right[j])", "not (left[i] > right[j])"]),
    ("W r_result[r]", ["while i < i_max and j < j_max and (r < len(l_result))", "not (left[i] < right[j])", "not (left[i] > right[j])"])])
]

end Exetera.KernelPaths
