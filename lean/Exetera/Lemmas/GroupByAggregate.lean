import Exetera.Lemmas.GroupByTheorems
/-!
  C07 helper lemmas, part 8: the specification determines the result; `Session.aggregate_*` on a sorted index.
-/
namespace Exetera.GroupBy
open Exetera Exetera.Spec Exetera.Spans Exetera.SortIndex List

/-- two strictly ascending lists of key tuples with the same elements are equal -/
theorem pairwise_tupleLt_ext : ∀ {l₁ l₂ : List (List Int)}, l₁.Pairwise (fun a b => tupleLt a b = true) →
    l₂.Pairwise (fun a b => tupleLt a b = true) → (∀ x, x ∈ l₁ ↔ x ∈ l₂) → l₁ = l₂
  | [], [], _, _, _ => rfl
  | [], b :: l₂, _, _, h => by have := (h b).2 (by simp); simp at this
  | a :: l₁, [], _, _, h => by have := (h a).1 (by simp); simp at this
  | a :: l₁, b :: l₂, h₁, h₂, h => by
    rw [pairwise_cons] at h₁ h₂
    have hab : a = b := by
      have ha := (h a).1 (by simp)
      have hb := (h b).2 (by simp)
      simp only [mem_cons] at ha hb
      rcases ha with ha | ha
      · exact ha
      · rcases hb with hb | hb
        · exact hb.symm
        · have h1 := h₁.1 b hb
          have h2 := h₂.1 a ha
          rw [tupleLt_asymm h1] at h2; cases h2
    subst hab
    congr 1
    apply pairwise_tupleLt_ext h₁.2 h₂.2
    intro x
    constructor
    · intro hx
      have := (h x).1 (by simp [hx])
      simp only [mem_cons] at this
      rcases this with rfl | this
      · have := h₁.1 x hx; rw [tupleLt_irrefl] at this; cases this
      · exact this
    · intro hx
      have := (h x).2 (by simp [hx])
      simp only [mem_cons] at this
      rcases this with rfl | this
      · have := h₂.1 x hx; rw [tupleLt_irrefl] at this; cases this
      · exact this

/-- the specification determines the result: the keys … -/
theorem distinctAscending_unique {rows k₁ k₂ : List (List Int)} (h₁ : DistinctAscending rows k₁)
    (h₂ : DistinctAscending rows k₂) : k₁ = k₂ :=
  pairwise_tupleLt_ext h₁.1 h₂.1 (fun x => (h₁.2 x).trans (h₂.2 x).symm)

/-- … and the values -/
theorem isGroupBy_unique {V} {rows : List (List Int)} {tgt : List V} {agg : List V → Option V} {k₁ k₂ : List (List Int)}
    {v₁ v₂ : List V} (h₁ : IsGroupBy rows tgt agg k₁ v₁) (h₂ : IsGroupBy rows tgt agg k₂ v₂) : k₁ = k₂ ∧ v₁ = v₂ := by
  have hk := distinctAscending_unique h₁.1 h₂.1
  subst hk
  refine ⟨rfl, ?_⟩
  have := h₁.2.trans h₂.2.symm
  exact (map_inj_right (fun _ _ h => Option.some.inj h)).1 this

/-- the kernel behind `apply_spans_<agg>`: no error, one aggregate per span -/
theorem plainKernel_spec (agg : Agg) (sp : List Nat) (Ts : List Int) (h : Wellformed sp Ts.length) :
    ∃ r, plainKernel agg sp Ts = .ok r ∧ r.map some = (pairs sp).map (fun p => aggSpec agg (slice Ts p.1 p.2)) := by
  cases agg with
  | min => exact Exetera.Props.C08.apply_spans_min_eq sp Ts h
  | max => exact Exetera.Props.C08.apply_spans_max_eq sp Ts h
  | first => exact Exetera.Props.C08.apply_spans_first_eq sp Ts h
  | last => exact Exetera.Props.C08.apply_spans_last_eq sp Ts h

theorem keyAt_single (index : List Int) (i : Nat) : keyAt [index] i = [index.getD i 0] := rfl

/-- spans of a numeric column = spans of its one-column key rows -/
theorem spans_single (index : List Int) :
    getSpansForField (fun (a b : Int) => a != b) index = spans neq (rowsBy [index] index.length) := by
  rw [getSpansForField_eq_spec]
  apply spans_congr
  · simp [rowsBy]
  · refine isBoundary_congr_rows _ _ _ _ (by simp [rowsBy]) ?_
    intro i h0 hi
    simp only [rowsBy, getElem_map, getElem_range, keyAt_single, neq]
    have h1 : i - 1 < index.length := by omega
    simp only [List.getD_eq_getElem?_getD, List.getElem?_eq_getElem hi, List.getElem?_eq_getElem h1, Option.getD_some]
    by_cases he : index[i - 1] = index[i]
    · rw [he]; simp
    · have : ¬ [index[i - 1]] = [index[i]] := by simpa using he
      rw [bne_iff_ne.2 he, bne_iff_ne.2 this]

theorem sortedRows_single (index : List Int) (hsorted : index.Pairwise (· ≤ ·)) : SortedRows [index] index.length := by
  intro i j hij hj
  rw [pairwise_iff_getElem] at hsorted
  have := hsorted i j (by omega) hj hij
  simp only [keyAt_single, tupleLt_cons, List.getD_eq_getElem?_getD, List.getElem?_eq_getElem hj,
    List.getElem?_eq_getElem (show i < index.length by omega), Option.getD_some, tupleLt, Bool.and_false,
    Bool.or_false, decide_eq_false_iff_not]
  omega

theorem rowsSorted_of_sortedRows (cols : List (List Int)) (n : Nat) (h : Rect n cols) (hs : SortedRows cols n) :
    RowsSorted (keyRows n cols) := by
  rw [keyRows_eq_rowsBy cols n h]
  unfold RowsSorted rowsBy
  rw [pairwise_map, pairwise_iff_getElem]
  intro i j hi hj hij
  simp only [length_range] at hi hj
  simpa using hs i j hij hj

/-- `Session.aggregate_count(index)` on a sorted numeric index: the number of rows of each distinct value, ascending -/
theorem aggregateCount_spec (index : List Int) (hsorted : index.Pairwise (· ≤ ·)) :
    ∃ counts outKeys, aggregateCount .repaired (.numeric index) = .ok counts ∧
      IsGroupCount (rowsBy [index] index.length) outKeys counts := by
  let n := index.length
  have hs := range_sorted_index [index] n (sortedRows_single index hsorted)
  let T := List.replicate n (0 : Int)
  have hT : T.length = n := by simp [T]
  obtain ⟨hda, hsel⟩ := groups_along_index [index] T 0 n (List.range n) (Perm.refl _) hs hT
  obtain ⟨c, hc, hceq, _⟩ := count_along [index] n (List.range n) (Perm.refl _)
  rw [colsAlong_range [index] n (by intro c hc; simp at hc; subst hc; rfl)] at hc
  refine ⟨c, _, ?_, hda, ?_⟩
  · simp only [aggregateCount, columnSpans, spans_single]; exact hc
  · rw [hceq, hsel, map_map]
    apply map_congr_left
    intro k _
    simp only [Function.comp]
    rw [select_length _ _ _ (by simp [T, rowsBy, n])]

/-- **`Session.aggregate_min|max|first|last(index, target)` on a sorted numeric index** is the group-by of `target` by
    `index`: no error (spans, length check, kernel), one value per distinct index value in ascending order -/
theorem aggregate_spec (agg : Agg) (index T : List Int) (hT : T.length = index.length)
    (hsorted : index.Pairwise (· ≤ ·)) :
    ∃ vals outKeys, aggregate .repaired agg (.numeric index) (some T) = .ok vals ∧
      IsGroupBy (rowsBy [index] index.length) T (aggSpec agg) outKeys vals := by
  let n := index.length
  have hsr : SortedRows [index] n := sortedRows_single index hsorted
  have hs := range_sorted_index [index] n hsr
  obtain ⟨hda, hsel⟩ := groups_along_index [index] T 0 n (List.range n) (Perm.refl _) hs hT
  have hw : Wellformed (spans neq (rowsBy [index] n)) T.length := by
    have := spans_wellformed' neq (rowsBy [index] n)
    rw [show (rowsBy [index] n).length = T.length from by simp [rowsBy, hT, n]] at this
    exact this
  obtain ⟨r, hr, hrm⟩ := plainKernel_spec agg _ T hw
  obtain ⟨_, hc2⟩ := frame_core [index] T n hT
  rw [zip_rowsBy [index] T 0 n hT] at hc2
  refine ⟨r, _, ?_, hda, ?_⟩
  · simp only [aggregate, columnSpans, spans_single]
    rw [Exetera.Props.C08.session_apply_spans_transparent _ _ _ hw]
    exact hr
  · have e : ∀ (l : List (List Int)), l.map (fun k => aggSpec agg (select (rowsBy [index] index.length) T k)) =
        (l.map (select (rowsBy [index] n) T)).map (aggSpec agg) := by
      intro l; rw [map_map]; rfl
    rw [hrm, e, ← hsel, ← hc2, map_map]; rfl

end Exetera.GroupBy
