/-!
  C10 — DOC MapValid
-/
namespace Exetera.KernelPaths

/-- the map-valid kernels (C04): path condition of every subscript occurrence -/
def mapValidPaths : List (String × List (String × List String)) := [
  ("get_valid_value_extents", [
    ("R chunk[i]", ["for i in range(start, end)"]),
    ("R chunk[i]", ["for i in range(start, end)", "chunk[i] != invalid"]),
    ("R chunk[j]", ["while j >= i"]),
    ("R chunk[j]", ["while j >= i", "chunk[j] != invalid"])]),
  ("safe_map_indexed_values", [
    ("R data_indices[map_field[i] + 1]", ["for i in range(len(map_field))", "map_filter[i]"]),
    ("R data_indices[map_field[i]]", ["for i in range(len(map_field))", "map_filter[i]"]),
    ("R data_values[sst:sse]", ["for i in range(len(map_field))", "map_filter[i]"]),
    ("R map_field[i]", ["for i in range(len(map_field))", "map_filter[i]"]),
    ("R map_filter[i]", ["for i in range(len(map_field))"]),
    ("W i_result[0]", []),
    ("W i_result[i + 1]", ["for i in range(len(map_field))", "map_filter[i]"]),
    ("W i_result[i + 1]", ["for i in range(len(map_field))", "not (map_filter[i])"]),
    ("W v_result[dst:dse]", ["for i in range(len(map_field))", "map_filter[i]"]),
    ("W v_result[dst:dse]", ["for i in range(len(map_field))", "not (map_filter[i])", "empty_value is not None"])]),
  ("safe_map_values", [
    ("R data_field[map_field[i]]", ["for i in range(len(map_field))", "map_filter[i]"]),
    ("R map_field[i]", ["for i in range(len(map_field))", "map_filter[i]"]),
    ("R map_filter[i]", ["for i in range(len(map_field))"]),
    ("W result[i]", ["for i in range(len(map_field))", "map_filter[i]"]),
    ("W result[i]", ["for i in range(len(map_field))", "not (map_filter[i])", "empty_value is not None"])]),
  ("map_valid", [
    ("R data_field[map_field[i]]", ["for i in range(len(map_field))", "map_field[i] != invalid"]),
    ("R map_field[i]", ["for i in range(len(map_field))"]),
    ("R map_field[i]", ["for i in range(len(map_field))", "map_field[i] != invalid"]),
    ("W result[i]", ["for i in range(len(map_field))", "map_field[i] != invalid"])]),
  ("next_map_subchunk", [
    ("R map_[sm]", ["sm < len(map_)"]),
    ("R map_[sm]", ["while sm < len(map_) and map_[sm] - start < chunksize"]),
    ("R map_[sm]", ["while sm < len(map_) and map_[sm] - start < chunksize", "map_[sm] != invalid"]),
    ("R map_[sm]", ["while sm < len(map_) and map_[sm] - start < chunksize", "map_[sm] != invalid", "not (map_[sm] < prev)"])]),
  ("ordered_map_valid_partial", [
    ("R map_values[sm]", ["while sm < sm_end"]),
    ("R map_values[sm]", ["while sm < sm_end", "not (map_values[sm] == invalid)"]),
    ("R values[map_values[sm] - d_start]", ["while sm < sm_end", "not (map_values[sm] == invalid)"]),
    ("W result_data[sm]", ["while sm < sm_end", "map_values[sm] == invalid"]),
    ("W result_data[sm]", ["while sm < sm_end", "not (map_values[sm] == invalid)"])]),
  ("ordered_map_valid_indexed_partial", [
    ("R indices[i + 1]", ["while sm < sm_end", "not (sm_values[sm] == invalid)", "not (i >= i_max)"]),
    ("R indices[i]", ["while sm < sm_end", "not (sm_values[sm] == invalid)", "not (i >= i_max)"]),
    ("R indices[i_start]", []),
    ("R sm_values[sm]", ["while sm < sm_end"]),
    ("R sm_values[sm]", ["while sm < sm_end", "not (sm_values[sm] == invalid)"]),
    ("R values[v]", ["while sm < sm_end", "not (sm_values[sm] == invalid)", "not (i >= i_max)", "not (rv + v_end - v_start > len(result_values))", "for v in range(v_start, v_end)"]),
    ("W result_indices[ri]", ["while sm < sm_end", "not (sm_values[sm] == invalid)", "not (i >= i_max)", "not (rv + v_end - v_start > len(result_values))"]),
    ("W result_indices[ri]", ["while sm < sm_end", "sm_values[sm] == invalid"]),
    ("W result_values[rv]", ["while sm < sm_end", "not (sm_values[sm] == invalid)", "not (i >= i_max)", "not (rv + v_end - v_start > len(result_values))", "for v in range(v_start, v_end)"])])
]

end Exetera.KernelPaths
