"""C10 — compiled kernels never touch memory outside their arrays.
The cases of every property that owns modelled kernels are re-run with bounds checking (NUMBA_BOUNDSCHECK=1) and in
interpreted mode (USE_NUMBA=false): an IndexError on a valid input is a violation; the model's `.error (oob …)` must
coincide with it (model checked accessors = the code's subscripts, tied by Gen/KernelShape; the tests that dominate each
subscript, tied by Gen/KernelPaths)."""
from checks.harness import meta

PROPERTY = "C10"
LEVEL = "proof"
LEAN_MODULES = ["Exetera.Props.C10"]
BASES = ["c03", "c04", "c08", "c09", "c14", "c16", "c17", "c06", "c05", "c19"]
MODES = {"quick": ["bounds", "nojit"], "thorough": ["bounds", "nojit", "jit"], "search": ["bounds", "nojit"]}
EXHAUSTIVE = {"quick": False, "thorough": False}
TECHNIQUE = ("Lean 4: per kernel family, `no_oob_*` corollaries of the owning property's `= .ok` refinement theorems (models read and "
             "write arrays only through checked accessors) + `access_sites_covered_*`: kernel-checked equality of the regenerated "
             "loop-guard / subscript table of every modelled @exetera_njit kernel with the table the model was written against + "
             "`access_paths_covered_*`: the same for the regenerated PATH CONDITION of every subscript occurrence (enclosing loop "
             "guards, `if` / `elif` tests, negated `else` branches and early exits, `and` / `or` operands to the left) + "
             "`kernel_inventory_complete`, `kernel_paths_sites_match_shape` + bounds-checked (NUMBA_BOUNDSCHECK=1) and interpreted (USE_NUMBA=false) differential runs "
             "of the owning properties' cases")
LEVEL_TEXT = ("Proof, for the models' access sets, of 64 of the 69 compiled kernels in 11 families: the eight streamed join generators "
              "(every chunk size >= 1); ordered_map_valid_stream / _indexed_stream with their partial kernels, next_map_subchunk, "
              "get_valid_value_extents, safe_map_values, safe_map_indexed_values, map_valid (every in-range map, chunk size >= 1, every "
              "value factor: `.ok` or the D5 ValueError, never an index error); span detection (2 fields, multi fields, indexed, "
              "by-spans merge) and all 15 apply_spans_* kernels incl. the _filter forms; apply_filter_to_index_values / "
              "apply_indices_to_index_values (with the converse: an `.oob` occurs iff the filter length / a subscript is invalid); "
              "compare_arrays, isin_indexed_string_speedup, get_indexed_string_unique; _apply_spans_concat_2 and its batch driver (every "
              "src_chunksize >= 1, every dest_chunksize and multiplier); the six journalling kernels and journal_table; "
              "categorical / leaky categorical / numeric_bool / fixed_string transforms and transform_to_values on every well-formed "
              "chunk; fast_csv_reader on every window of the supported regime and its driver over any number of windows; the six flat "
              "legacy join kernels, the two `_old` streamed join drivers (every chunk size >= 1), Session.ordered_merge_left / right in "
              "every covered form and Session.join; check_if_sorted_for_multi_fields and "
              "the group-by kernel pipeline. Each `no_oob_*` theorem states, under exactly the validity predicate of the owning "
              "theorem, that for every site the model run is not `.error (.oob site)`. Buffer statements for ALL arguments: a checked "
              "write is refused exactly when the position is not below the buffer size (push_oob_iff, pushV_oob_iff, setE_oob_iff), and no "
              "normally returning call of ordered_map_valid_indexed_partial / _apply_spans_concat_2 leaves more elements in a result "
              "buffer than it has slots, whatever the ratio of output to buffer size (also safe_map_indexed_step_bounded for the two "
              "result arrays safe_map_indexed_values allocates itself; numeric_bool_transform_oob_of_short_elements: a result array "
              "shorter than the row count IS the model's out-of-bounds write). The loop guards and subscripts of all 64 kernels "
              "are regenerated from the source on every run and proved equal to the tables the models were written against "
              "(access_sites_covered_<family>, 11 theorems), and so is, for every occurrence of every subscript, its path condition: "
              "the ordered list of enclosing loop guards, `if` / `elif` tests, negated `else` branches, negated early exits "
              "(`if ...: break | continue | return | raise`) and short-circuit operands under which it executes "
              "(access_paths_covered_<family>, 11 theorems over Gen/KernelPaths.lean; kernel_paths_sites_match_shape: both generated "
              "tables list the same subscripts) - dropping, weakening or moving a test that dominates a subscript breaks the build. "
              "Every compiled kernel of the source is in a table or in the explicit not-modelled list (kernel_inventory_complete). "
              "The models check EVERY subscript of the modelled kernels, including the column subscript of column_offsets[col_idx] / "
              "column_inds[col_idx, .] in the five import transforms (in range because the importer is called with an element of "
              "index_map), elements[row_idx] / validity[row_idx] of numeric_bool_transform (capacities are parameters; the caller "
              "allocates written_row_count) and i_result / v_result of safe_map_indexed_values. Partial (`_partial` theorems, hypotheses inherited from the owners): CSV "
              "driver without buffer regrowth; indexed unique without trailing NULs (NC14a); group-by with a faithful stacking cast "
              "(D20). Partial by nature: what a stray write would do to the heap "
              "is not modelled.")
LEVEL_NOTE = ("Trusted: Lean kernel; tools/translate_kernels.py (AST extraction, per @exetera_njit function, of loop guards, subscripts "
              "and the syntactic path condition of every subscript occurrence; a path condition is the text of the tests passed on "
              "the way, not an invariant: that the model's accessor is safe UNDER these tests is what the `no_oob_*` theorems prove "
              "about the model, and that the model has the same tests is pinned by the tables and validated by the differential "
              "runs; a test whose removal changes no behaviour on valid inputs - e.g. `if j < len(span1)` in "
              "_get_spans_for_2_fields_by_spans - still breaks access_paths_covered_spans and is reported, without a failing "
              "input); the hand-written models (validated by the differential runs under "
              "NUMBA_BOUNDSCHECK=1 and USE_NUMBA=false, where numba / numpy raise IndexError on any out-of-range scalar access). "
              "The bounds-checked / interpreted re-runs of this check take the cases of C03, C04, C05, C06, C08, C09, C14, C16, C17; the "
              "kernels owned by C07 and C19 run bounds-checked in those properties' own thorough tiers. "
              "Differential runs only: the 5 kernels without a model (ordered_left_map_result_size, "
              "ordered_outer_map_result_size_both_unique, ordered_inner_map_left_unique_partial, ordered_get_last_as_filter, "
              "streaming_sort_partial - none has a caller in the library); the "
              "buffer-full early return and regrowth of fast_csv_reader. The `.oob` branches of the column subscript (col_idx >= number "
              "of columns) are exercised by Lean examples only: the JIT-compiled kernels cannot be run on such an input without "
              "undefined behaviour, so no differential case has it.")
RULE = ("cases of the owning properties' generators (valid inputs only), a seeded sample per property, each executed under "
        "NUMBA_BOUNDSCHECK=1 and USE_NUMBA=false; non-trivial/distinct as defined by the owning harness")
ASSUMPTIONS = ["NUMBA_BOUNDSCHECK=1 makes numba raise IndexError on out-of-range indexing; interpreted numpy raises IndexError on "
               "out-of-range scalar indexing (negative indices wrap: the models use Nat indices, wrap is excluded separately)"]
TRUSTED = ["Lean 4.33 kernel", "axioms propext/Classical.choice/Quot.sound only", "tools/translate_kernels.py", "checks/harness/*.py"]


def gen_cases(tier, rng):
    per = {"quick": 400, "thorough": 6000, "search": 3000}[tier]

    def keep(n, b, c):
        sel = getattr(b, "select_for_mode", None)
        return sel(c, "nojit", "thorough") if sel else True

    def prefer(n, b, c):
        # cases built around a buffer boundary (flagged by the owning harness) are always included
        return bool(c.get("unsafe") or c.get("_why") or c.get("_boundary"))
    return meta.gen_cases(BASES, tier, rng, per, keep, prefer)


impl = meta.impl
to_model = meta.to_model
classify = meta.classify
nontrivial = meta.nontrivial


def compare(case, io, mo, mode):
    return meta.compare(case, io, mo, mode)


def check_spec(case, io, mode):
    if io.get("err") != "index_error":
        return None
    b = meta.base(case["_h"])
    if b.check_spec(case, io, mode) is None:
        return None     # the owning property's oracle accepts this raise: an invalid input rejected by an explicit check
    mf = getattr(b, "match_finding", None)
    if mf and mf(case, io, mode):
        return None     # counted under the owning property's open finding
    return f"IndexError under {mode} on a valid input: {io.get('msg', '')}"


def select_for_mode(case, mode, tier):
    return True


# ------------------------------------------------------------------------------------------------------------------
# worker warm-up: the owning harnesses are imported lazily by `meta.base` — inside the per-case alarm of checks/worker.py.
# Importing them here happens before the alarm is armed: an alarm firing inside an import or a numba compilation leaves the
# worker process broken for every following case (seen under heavy machine load).
# ------------------------------------------------------------------------------------------------------------------
import sys  # noqa: E402
if sys.argv and sys.argv[0].endswith("worker.py"):
    for _n in meta.available(BASES):
        try:
            _b = meta.base(_n)
            _w = getattr(_b, "warm_up", None)
            if _w:
                _w()
        except Exception:   # noqa
            pass


# KT4C: the translated kernels that have no caller in the library (dead code) are validated against the real compiled kernels here
# (translator validation only: no theorem about them is an obligation; checks/harness/genkernels.py, owner "C10")
from checks.harness import genkernels  # noqa: E402
genkernels.install(globals(), "C10", gen_module=False)
