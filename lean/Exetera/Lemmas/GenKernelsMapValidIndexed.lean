import Exetera.Gen.Kernels
import Exetera.Model.MapValid
import Exetera.Lemmas.While
import Exetera.Lemmas.GenKernels
import Exetera.Lemmas.GenKernelsJoin
import Exetera.Lemmas.GenKernelsMapValid
import Exetera.Lemmas.GenKernelsSpansIdxMinIndexed
/-!
  The TRANSLATED `ordered_map_valid_indexed_partial` (a `while` loop with two `break`s around the byte-copy `for` loop; five
  scalars and two caller-supplied buffers carried between calls) against the guard / body model `MapValid.indexedPartial` — transfer
  form by `whileE` simulation. The model keeps the written PREFIXES of `result_indices` / `result_values` (`ri`, `rv`) and their
  capacities; the kernel keeps the buffers and the positions: `Rel` says that the buffer's first `len(prefix)` entries are the prefix.
  The model wraps negative subscripts (`getI`), the translation rejects them: hence the hypotheses that a valid map entry of the
  window is not below `mv_start` and that the offsets it reads are not below `indices[i_start]`.
-/
namespace Exetera.GenK

open Exetera Exetera.PyRt Exetera.Gen.Kernels
open Exetera.MapValid (getI readRange IP IPar ipGuard ipBody indexedPartial)

namespace IPK

abbrev St := ordered_map_valid_indexed_partial.St

abbrev loop2 (n : Nat) (k : Int) (s : St) : Except Err St :=
  forRangeAux (fun _ => false) (fun k s => ordered_map_valid_indexed_partial.body_L2 { s with v5 := k }) n k s

structure Rel (p : IPar Int) (sm0 : Nat) (s : St) (t : IP Int) : Prop where
  h0 : s.p0 = p.map_
  h2 : s.p2 = (p.smEnd : Int)
  h3 : s.p3 = p.indices
  h5 : s.p5 = (p.iMax : Int)
  h6 : s.p6 = p.values
  h7 : s.p7 = p.mvStart
  h10 : s.p10 = p.inv
  hv1 : s.v1 = p.vOffset
  hI : s.p8.length = p.capI
  hIt : s.p8.take t.ri.length = t.ri
  h12 : s.p12 = (t.ri.length : Int)
  hV : s.p9.length = p.capV
  hVt : s.p9.take t.rv.length = t.rv
  h13 : s.p13 = (t.rv.length : Int)
  h11 : s.p11 = (t.sm : Int)
  h14 : s.p14 = t.accum
  hv0 : s.v0 = t.need
  hb : s.brk1 = t.brk
  hsm : sm0 ≤ t.sm

theorem take_set_snoc {α} (xs : List α) (n : Nat) (v : α) (h : n < xs.length) : (xs.set n v).take (n + 1) = xs.take n ++ [v] := by
  rw [List.take_add_one]
  simp [h, List.take_set_of_le]

/-- the copy loop `for v in range(v_start, v_end): result_values[rv] = values[v]; rv += 1` against `readRange` -/
theorem copy_sim (values : List Int) :
    ∀ (n v rv : Nat) (bytes : List Int) (s : St), s.p6 = values → s.p13 = (rv : Int) → rv + n ≤ s.p9.length →
      readRange values (v : Int) n = .ok bytes →
      ∃ b9 k5, loop2 n (v : Int) s = .ok { s with p9 := b9, p13 := ((rv + n : Nat) : Int), v5 := k5 } ∧
        b9.length = s.p9.length ∧ b9.take (rv + n) = s.p9.take rv ++ bytes ∧ bytes.length = n := by
  intro n
  induction n with
  | zero =>
    intro v rv bytes s _ h13 _ h
    simp only [readRange, Except.ok.injEq] at h
    subst h
    refine ⟨s.p9, s.v5, ?_, rfl, by simp, rfl⟩
    simp only [loop2, forRangeAux, Nat.add_zero, ← h13]
  | succ n ih =>
    intro v rv bytes s h6 h13 hroom h
    simp only [readRange] at h
    cases hg : getI values (v : Int) "values[v]" with
    | error e => rw [hg] at h; simp at h
    | ok b =>
      rw [hg] at h
      simp only [] at h
      have e3 : ((v : Int) + 1) = ((v + 1 : Nat) : Int) := by omega
      rw [e3] at h
      cases hr : readRange values ((v + 1 : Nat) : Int) n with
      | error e => rw [hr] at h; simp at h
      | ok bs =>
        rw [hr] at h
        simp only [Except.ok.injEq] at h
        subst h
        have hidx : idxE values (v : Int) "p6[v5]" = .ok b := getI_nonneg values _ _ _ b (by omega) hg
        have hlt : rv < s.p9.length := by omega
        obtain ⟨b9, k5, hrun, hlen, htake, hbl⟩ := ih (v + 1) (rv + 1) bs
          { s with p9 := s.p9.set rv b, p13 := ((rv + 1 : Nat) : Int), v5 := (v : Int) } h6 rfl (by simp; omega) hr
        refine ⟨b9, k5, ?_, by simpa using hlen, ?_, by simp [hbl]⟩
        · have e4 : ((rv : Int) + 1) = ((rv + 1 : Nat) : Int) := by omega
          rw [loop2, forRangeAux_succ, e3]
          generalize hL : (fun s' : St => if (fun _ : St => false) s' = true then Except.ok s' else
            forRangeAux (fun _ => false) (fun k s => ordered_map_valid_indexed_partial.body_L2 { s with v5 := k }) n
              ((v + 1 : Nat) : Int) s') = L
          simp only [ordered_map_valid_indexed_partial.body_L2, h6, h13, hidx, bindE_ok, setIdxE_nat, setE, hlt, if_true, e4]
          subst hL
          simp only [Bool.false_eq_true, if_false]
          simp only [loop2, h6] at hrun
          rw [hrun]
          simp only [Nat.add_assoc, Nat.add_comm 1 n]
        · have : rv + (n + 1) = rv + 1 + n := by omega
          rw [this, htake]
          simp only [take_set_snoc _ _ _ hlt, List.append_assoc, List.singleton_append]

theorem guard_eq (p : IPar Int) (sm0 : Nat) (s : St) (t : IP Int) (hR : Rel p sm0 s t) :
    ordered_map_valid_indexed_partial.guard_L1 s = ipGuard p t := by
  simp only [ordered_map_valid_indexed_partial.guard_L1, ipGuard, hR.hb, hR.h11, hR.h2, Int.ofNat_lt, Bool.and_comm]

/-- one iteration of `while sm < sm_end` -/
theorem step (p : IPar Int) (sm0 : Nat)
    (hpos : ∀ (q : Nat) (k : Int), sm0 ≤ q → q < p.smEnd → p.map_[q]? = some k → k ≠ p.inv → 0 ≤ k - p.mvStart)
    (hvs : ∀ (q : Nat) (k a : Int), sm0 ≤ q → q < p.smEnd → p.map_[q]? = some k → k ≠ p.inv →
      p.indices[(k - p.mvStart).toNat]? = some a → p.vOffset ≤ a)
    (s : St) (t t' : IP Int) (hR : Rel p sm0 s t) (hg : ipGuard p t = true) (hb : ipBody p t = .ok t') :
    ∃ s', ordered_map_valid_indexed_partial.body_L1 s = .ok s' ∧ Rel p sm0 s' t' := by
  simp only [ipGuard, Bool.and_eq_true, decide_eq_true_eq, Bool.not_eq_true'] at hg
  obtain ⟨hlt, hbrk⟩ := hg
  obtain ⟨q0, q1, q2, q3, q4, q5, q6, q7, q8, q9, q10, q11, q12, q13, q14, w0, w1, w2, w3, w4, w5, b1⟩ := s
  obtain ⟨tsm, tri, trv, tacc, tneed, tbrk⟩ := t
  obtain ⟨h0, h2, h3, h5, h6, h7, h10, hv1, hI, hIt, h12, hV, hVt, h13, h11, h14, hv0, hbk, hsm⟩ := hR
  simp only at h0 h2 h3 h5 h6 h7 h10 hv1 hI hIt h12 hV hVt h13 h11 h14 hv0 hbk hsm hlt hbrk
  subst h0 h2 h3 h5 h6 h7 h10 hv1 h12 h13 h11 h14 hv0 hbk hbrk
  have e11 : (tsm : Int) + 1 = ((tsm + 1 : Nat) : Int) := by omega
  have e12 : (tri.length : Int) + 1 = ((tri.length + 1 : Nat) : Int) := by omega
  simp only [ipBody] at hb
  cases hm : p.map_[tsm]? with
  | none => simp [hm] at hb
  | some k =>
    simp only [hm] at hb
    have hget : ∀ site, idxE p.map_ (tsm : Int) site = .ok k := by
      intro site; rw [idxE_nat]; simp [getE, hm]
    simp only [ordered_map_valid_indexed_partial.body_L1, hget, bindE_ok]
    by_cases hk : k = p.inv
    · have hk' : (k == p.inv) = true := by simp [hk]
      simp only [hk', if_true] at hb ⊢
      split at hb
      · rename_i hcap
        simp only [Except.ok.injEq] at hb
        subst hb
        have hlt8 : tri.length < q8.length := by rw [hI]; exact hcap
        simp only [setIdxE_nat, setE, hlt8, if_true, bindE_ok, Bool.false_eq_true, if_false, e11, e12]
        refine ⟨_, rfl, ?_⟩
        constructor <;> (try simp only) <;> (first | rfl | assumption | skip)
        · simp [hI]
        · simp only [List.length_append, List.length_singleton]
          rw [take_set_snoc _ _ _ hlt8, hIt]
        · simp
        · omega
      · simp at hb
    · have hk' : (k == p.inv) = false := by simp [hk]
      simp only [hk', Bool.false_eq_true, if_false] at hb ⊢
      have hi0 : 0 ≤ k - p.mvStart := hpos tsm k hsm hlt hm hk
      by_cases hmax : k - p.mvStart ≥ (p.iMax : Int)
      · simp only [hmax, if_true, Except.ok.injEq] at hb
        subst hb
        have hd : decide (k - p.mvStart ≥ (p.iMax : Int)) = true := decide_eq_true hmax
        simp only [hd, if_true, bindE_ok]
        refine ⟨_, rfl, ?_⟩
        constructor <;> (try simp only) <;> (first | rfl | assumption | skip)
      · simp only [hmax, if_false] at hb
        have hd : decide (k - p.mvStart ≥ (p.iMax : Int)) = false := decide_eq_false hmax
        simp only [hd, Bool.false_eq_true, if_false, bindE_ok]
        cases ha : getI p.indices (k - p.mvStart) "indices[i]" with
        | error e => simp [ha] at hb
        | ok a =>
          cases hbb : getI p.indices (k - p.mvStart + 1) "indices[i+1]" with
          | error e => simp [ha, hbb] at hb
          | ok b =>
            simp only [ha, hbb] at hb
            have ha' : ∀ site, idxE p.indices (k - p.mvStart) site = .ok a := by
              intro site; exact getI_nonneg _ _ _ _ a hi0 ha
            have hb' : ∀ site, idxE p.indices (k - p.mvStart + 1) site = .ok b := by
              intro site; exact getI_nonneg _ _ _ _ b (by omega) hbb
            simp only [ha', hb', bindE_ok, pyLen, hV]
            by_cases hroom : (trv.length : Int) + (b - p.vOffset) - (a - p.vOffset) > (p.capV : Int)
            · simp only [hroom, if_true, Except.ok.injEq] at hb
              subst hb
              have hd2 : decide ((trv.length : Int) + (b - p.vOffset) - (a - p.vOffset) > (p.capV : Int)) = true :=
                decide_eq_true hroom
              simp only [hd2, if_true, bindE_ok]
              refine ⟨_, rfl, ?_⟩
              constructor <;> (try simp only) <;> (first | rfl | assumption | skip)
            · simp only [hroom, if_false] at hb
              have hd2 : decide ((trv.length : Int) + (b - p.vOffset) - (a - p.vOffset) > (p.capV : Int)) = false :=
                decide_eq_false hroom
              simp only [hd2, Bool.false_eq_true, if_false, bindE_ok]
              cases hrd : readRange p.values (a - p.vOffset) ((b - p.vOffset) - (a - p.vOffset)).toNat with
              | error e => simp [hrd] at hb
              | ok bytes =>
                simp only [hrd] at hb
                split at hb
                · rename_i hcap
                  simp only [Except.ok.injEq] at hb
                  subst hb
                  have hao : p.vOffset ≤ a := by
                    have hga : p.indices[(k - p.mvStart).toNat]? = some a := by
                      simp only [getI, hi0, if_true, getE] at ha
                      cases hx : p.indices[(k - p.mvStart).toNat]? with
                      | none => simp [hx] at ha
                      | some x => simp only [hx, Except.ok.injEq] at ha; rw [ha]
                    exact hvs tsm k a hsm hlt hm hk hga
                  have hroom' : (trv.length : Int) + ((b - p.vOffset) - (a - p.vOffset)) ≤ (p.capV : Int) := by omega
                  have hA0 : 0 ≤ a - p.vOffset := by omega
                  generalize hA : a - p.vOffset = A at *
                  generalize hB : b - p.vOffset = B at *
                  have hrvle : trv.length ≤ p.capV := by
                    have := congrArg List.length hVt
                    simp only [List.length_take] at this
                    omega
                  obtain ⟨An, hAn⟩ : ∃ An : Nat, A = (An : Int) := ⟨A.toNat, by omega⟩
                  subst hAn
                  obtain ⟨b9, k5, hrun, hlen9, htake9, hbl⟩ := copy_sim p.values (B - (An : Int)).toNat An trv.length bytes
                    ⟨p.map_, q1, (p.smEnd : Int), p.indices, q4, (p.iMax : Int), p.values, p.mvStart, q8, q9, p.inv, (tsm : Int),
                      (tri.length : Int), (trv.length : Int), q14, w0, p.vOffset, k - p.mvStart, (An : Int), B, w5, false⟩
                    rfl rfl (by simp only [hV]; omega) hrd
                  simp only [loop2] at hrun
                  simp only [forRangeE]
                  rw [hrun]
                  have hlt8 : tri.length < q8.length := by rw [hI]; exact hcap
                  simp only [bindE_ok, setIdxE_nat, setE, hlt8, if_true, Bool.false_eq_true, if_false, e11, e12]
                  refine ⟨_, rfl, ?_⟩
                  constructor <;> (try simp only) <;> (first | rfl | assumption | skip)
                  · simp [hI]
                  · simp only [List.length_append, List.length_singleton]
                    rw [take_set_snoc _ _ _ hlt8, hIt]
                  · simp
                  · rw [hlen9]; exact hV
                  · simp only [List.length_append, hbl]
                    rw [htake9, hVt]
                  · simp only [List.length_append, hbl]
                  · omega
                · simp at hb

end IPK

/-- every `.ok` run of the model is a run of the translated kernel on buffers whose first `len(ri)` / `len(rv)` entries are the
    model's prefixes, with the same five scalars and buffers that again start with the model's prefixes; any fuel that covers the
    rest of the window plus one -/
theorem ordered_map_valid_indexed_partial_ok (map_ : List Int) (smStart : Int) (smEnd : Nat) (indices : List Int) (iStart iMax : Nat)
    (values : List Int) (mvStart : Int) (bufI bufV : List Int) (inv : Int) (sm : Nat) (ri rv : List Int) (accum : Int)
    (r : IP Int) (fuel : Nat) (hfuel : smEnd - sm + 1 ≤ fuel)
    (hIt : bufI.take ri.length = ri) (hVt : bufV.take rv.length = rv)
    (hpos : ∀ (q : Nat) (k : Int), sm ≤ q → q < smEnd → map_[q]? = some k → k ≠ inv → 0 ≤ k - mvStart)
    (hvs : ∀ (vo : Int), indices[iStart]? = some vo → ∀ (q : Nat) (k a : Int), sm ≤ q → q < smEnd → map_[q]? = some k → k ≠ inv →
      indices[(k - mvStart).toNat]? = some a → vo ≤ a)
    (h : indexedPartial map_ smEnd indices iStart iMax values mvStart bufI.length bufV.length inv sm ri rv accum = .ok r) :
    ∃ bI bV, ordered_map_valid_indexed_partial.run map_ smStart smEnd indices iStart iMax values mvStart bufI bufV inv sm ri.length
        rv.length accum fuel = .ok ((r.sm : Int), (r.ri.length : Int), (r.rv.length : Int), r.accum, r.need, bI, bV) ∧
      bI.length = bufI.length ∧ bI.take r.ri.length = r.ri ∧ bV.length = bufV.length ∧ bV.take r.rv.length = r.rv := by
  unfold indexedPartial at h
  cases hvo : indices[iStart]? with
  | none => simp [getE, hvo] at h
  | some vo =>
    simp only [getE, hvo] at h
    let p : IPar Int := ⟨map_, smEnd, indices, iMax, values, mvStart, bufI.length, bufV.length, inv, vo⟩
    obtain ⟨s', hrun, hR⟩ := whileE_sim (fun (s : IPK.St) (t : IP Int) => IPK.Rel p sm s t)
      ordered_map_valid_indexed_partial.guard_L1 ordered_map_valid_indexed_partial.body_L1 (ipGuard p) (ipBody p)
      (fun s t hR => IPK.guard_eq p sm s t hR)
      (fun s t t' hR hg hb => IPK.step p sm hpos (hvs vo hvo) s t t' hR hg hb)
      (smEnd - sm + 1)
      ⟨map_, smStart, (smEnd : Int), indices, (iStart : Int), (iMax : Int), values, mvStart, bufI, bufV, inv, (sm : Int),
        (ri.length : Int), (rv.length : Int), accum, false, vo, 0, 0, 0, 0, false⟩
      ⟨sm, ri, rv, accum, false, false⟩ r
      ⟨rfl, rfl, rfl, rfl, rfl, rfl, rfl, rfl, rfl, hIt, rfl, rfl, hVt, rfl, rfl, rfl, rfl, rfl, Nat.le_refl _⟩ h
    have hrun' := whileE_mono _ _ _ _ _ hrun fuel hfuel
    refine ⟨s'.p8, s'.p9, ?_, hR.hI, hR.hIt, hR.hV, hR.hVt⟩
    unfold ordered_map_valid_indexed_partial.run
    simp only [idxE_nat, getE, hvo, bindE_ok, hrun', hR.h11, hR.h12, hR.h13, hR.h14, hR.hv0]

end Exetera.GenK
