import Exetera.Lemmas.CatalogueRefine
/-! Refinement, part 2: the building blocks (`copyAll`, `createFrame`, `copyFrame`, unlink, frame rename, field move, rename)
    against the abstract catalogue. -/
namespace Exetera.Catalogue

theorem withFrame_ok {α} {s : State} {d : Nat} {fn : Name} {k : Nat → Res α} {a : α} {s' : State}
    (h : withFrame s d fn k = .ok a s') : ∃ g, getFrame s d fn = .ok g ∧ k g = .ok a s' := by
  unfold withFrame at h
  split at h
  · cases h
  · next g hg => exact ⟨g, hg, h⟩

theorem withField_ok {α} {s : State} {r : FRef} {k : Nat → Res α} {a : α} {s' : State}
    (h : withField s r k = .ok a s') : ∃ hh, getField s r = .ok hh ∧ k hh = .ok a s' := by
  unfold withField at h
  split at h
  · cases h
  · next hh hg => exact ⟨hh, hg, h⟩

theorem void_ok {α} {r : Res α} {u : Unit} {s' : State} (h : r.void = .ok u s') : ∃ a, r = .ok a s' := by
  cases r with
  | ok a s1 => simp only [Res.void, Res.ok.injEq] at h; exact ⟨a, by rw [h.2]⟩
  | err e s1 => cases h

theorem getFrame_file {s : State} (hI : Inv s) {d : Nat} {fn : Name} {g : Nat} (h : getFrame s d fn = .ok g) :
    ((d, fn), g) ∈ s.file := (hI.sameFrames _).1 (getFrame_ok hI h).1

/-- a frame id that is not yet allocated has no links -/
theorem fresh_frame_nolinks {s : State} (hI : InvCore s) {g : Nat} (hg : s.fname.length ≤ g) : frameH5 s g = Frame.empty := by
  funext n
  simp only [frameH5, Frame.empty]
  cases hl : look s.links (g, n) with
  | none => rfl
  | some o =>
    exfalso
    obtain ⟨e, he, hee⟩ := List.mem_map.1 (hI.linkFrame _ _ (look_mem hl))
    have := (List.getElem?_eq_some_iff.1 (hI.frameName e.1 e.2 he)).1
    simp only at hee
    omega

theorem registered_lt {s : State} (hI : InvCore s) {k : Key} {g : Nat} (h : (k, g) ∈ s.file) : g < s.fname.length :=
  (List.getElem?_eq_some_iff.1 (hI.frameName k g h)).1

/-- a name that is not a column shows nothing in the file either -/
theorem frameH5_none_of_not_col {s : State} (hI : InvCore s) {g : Nat} {n : Name} (h : (g, n) ∉ keys s.cols) : frameH5 s g n = none := by
  have : look s.links (g, n) = none := look_eq_none.2 (fun hm => h ((hI.sameKeys _).2 hm))
  simp only [frameH5, this, Option.bind_none]

theorem frameH5_some_of_col {s : State} (hI : InvCore s) {g : Nat} {n : Name} (h : (g, n) ∈ keys s.cols) : ∃ c, frameH5 s g n = some c := by
  obtain ⟨o, ho⟩ := mem_keys.1 ((hI.sameKeys _).1 h)
  have hlt := hI.oidLt _ _ ho
  refine ⟨s.objs[o], ?_⟩
  simp only [frameH5, (look_eq_some hI.linksNodup).2 ho, Option.bind_some, List.getElem?_eq_getElem hlt]

/-! ### copying all columns of a frame into another -/

theorem copyField_shape {v : Variant} {s s1 : State} {h g : Nat} {n : Name} {a : Nat} (hc : copyField v s h g n = .ok a s1) :
    s1.file = s.file ∧ (∀ e, e ∈ s.cols → e ∈ s1.cols) ∧ (∀ e, e ∈ s.links → e ∈ s1.links) ∧
    (∀ (j : Nat) (x : Handle), s.handles[j]? = some x → s1.handles[j]? = some x) := by
  unfold copyField at hc
  split at hc
  · cases hc
  · have := addField_ok_shape hc
    exact ⟨this.1, this.2.2.2.2.2.2.1, this.2.2.2.2.2.1, this.2.2.2.2.1⟩

theorem copyAll_refines (g sg : Nat) (hne : sg ≠ g) (cs : List (Name × Nat)) (s s' : State) (hI : InvCore s)
    (hg : g ∈ s.file.map (·.2)) (hsrc : ∀ e ∈ cs, ((sg, e.1), e.2) ∈ s.cols) (hc : copyAll .repaired g cs s = .ok () s') :
    ∀ g' n', frameH5 s' g' n' = if g' = g ∧ n' ∈ cs.map (·.1) then frameH5 s sg n' else frameH5 s g' n' := by
  induction cs generalizing s with
  | nil =>
    simp only [copyAll, Res.ok.injEq, true_and] at hc
    subst hc
    intro g' n'; simp
  | cons e cs ih =>
    obtain ⟨n, h⟩ := e
    simp only [copyAll] at hc
    cases hcf : copyField .repaired s h g n with
    | err e1 s1 => rw [hcf] at hc; cases hc
    | ok a s1 =>
      rw [hcf] at hc
      simp only at hc
      have hI1 : InvCore s1 := by have := copyField_inv hI h g n hg; rw [hcf] at this; exact this
      obtain ⟨hfile, hcols, _, _⟩ := copyField_shape hcf
      obtain ⟨c, hfc, href⟩ := copyField_refines hI hcf
      have hsrc0 : ((sg, n), h) ∈ s.cols := hsrc (n, h) List.mem_cons_self
      have hcont : frameH5 s sg n = some c := by
        obtain ⟨hd, h1, h2, h3, _, _, h6⟩ := hI.sameObj _ _ hsrc0
        have hv : ensureValid s h = .ok hd := by
          unfold ensureValid; simp only [h1, h3, h2, Bool.false_eq_true, if_false, if_true]
        exact fieldContent_linked hI hv h6 hfc
      have ih' := ih s1 hI1 (by rw [hfile]; exact hg)
        (fun e he => hcols _ (hsrc e (List.mem_cons_of_mem _ he))) hc
      intro g' n'
      rw [ih' g' n', href sg n', href g' n']
      have hsg : ¬ (sg, n') = (g, n) := fun e => hne (Prod.mk.inj e).1
      simp only [hsg, if_false, List.map_cons, List.mem_cons]
      by_cases hg' : g' = g
      · subst hg'
        by_cases hm : n' ∈ cs.map (·.1)
        · simp [hm]
        · by_cases hn : n' = n
          · subst hn; simp [hm, hcont]
          · simp [hm, hn]
      · simp [hg']

/-- copying all columns of `sg` into a frame that has none makes it a copy of `sg`; nothing else changes -/
theorem copyAll_into_fresh {g sg : Nat} (hne : sg ≠ g) {s s' : State} (hI : InvCore s) (hg : g ∈ s.file.map (·.2))
    (hempty : frameH5 s g = Frame.empty) (hc : copyAll .repaired g (ownedBy s.cols sg) s = .ok () s') :
    frameH5 s' g = frameH5 s sg ∧ ∀ g', g' ≠ g → frameH5 s' g' = frameH5 s g' := by
  have h := copyAll_refines g sg hne (ownedBy s.cols sg) s s' hI hg (fun e he => mem_ownedBy.1 he) hc
  constructor
  · funext n'
    rw [h g n']
    by_cases hm : n' ∈ (ownedBy s.cols sg).map (·.1)
    · simp [hm]
    · simp only [hm, and_false, if_false]
      rw [hempty, frameH5_none_of_not_col hI (fun hk => hm (mem_cur.2 hk))]
      rfl
  · intro g' hg'
    funext n'
    rw [h g' n']; simp [hg']

/-! ### creating a frame -/

theorem newGroup_shape2 {s s1 : State} {d : Nat} {fn : Name} {g : Nat} (hn : newGroup s d fn = .ok g s1) :
    s1.links = s.links ∧ s1.objs = s.objs ∧ s1.fname = s.fname ++ [fn] := by
  unfold newGroup at hn; split at hn
  · cases hn
  · simp only [Res.ok.injEq] at hn; obtain ⟨_, rfl⟩ := hn; exact ⟨rfl, rfl, rfl⟩

/-- `create_dataframe(name[, dataframe=src])` that returns: a new group, holding a copy of the source frame's columns -/
theorem createFrame_refines {s s' : State} (hI : Inv s) {d : Nat} {fn : Name} {src : Option Nat} {g : Nat}
    (hsrc : ∀ sg, src = some sg → sg ∈ s.file.map (·.2)) (hc : createFrame .repaired s d fn src = .ok g s') :
    s'.file = s.file ++ [((d, fn), g)] ∧ (d, fn) ∉ keys s.file ∧ g = s.fname.length ∧
    (∀ g', g' ≠ g → frameH5 s' g' = frameH5 s g') ∧
    frameH5 s' g = (match src with | none => Frame.empty | some sg => frameH5 s sg) := by
  unfold createFrame at hc
  cases hn : newGroup s d fn with
  | err e s1 => rw [hn] at hc; cases hc
  | ok g1 s1 =>
    rw [hn] at hc
    simp only [Res.andThen] at hc
    obtain ⟨hfresh, hgdef, hfile, _, hcols⟩ := newGroup_shape hn
    obtain ⟨hlinks, hobjs, hfname⟩ := newGroup_shape2 hn
    have hI1 : InvCore s1 := by have := newGroup_core hI.toInvCore d fn; rw [hn] at this; exact this
    have hfr1 : frameH5 s1 = frameH5 s := frameH5_congr hlinks hobjs
    have hg1 : g1 ∈ s1.file.map (·.2) := by rw [hfile]; simp
    have hempty : frameH5 s1 g1 = Frame.empty := by
      rw [hfr1]; exact fresh_frame_nolinks hI.toInvCore (by omega)
    cases hfill : fillFrame .repaired g1 src s1 with
    | err e s2 => rw [hfill] at hc; cases hc
    | ok u s2 =>
      rw [hfill] at hc
      simp only [Res.ok.injEq] at hc
      obtain ⟨rfl, rfl⟩ := hc
      cases src with
      | none =>
        simp only [fillFrame, Res.ok.injEq, true_and] at hfill
        subst hfill
        refine ⟨hfile, hfresh, hgdef, ?_, ?_⟩
        · intro g' _; show frameH5 s1 g' = _; rw [hfr1]
        · exact hempty
      | some sg =>
        simp only [fillFrame] at hfill
        have hsglt : sg < s.fname.length := by
          obtain ⟨e, he, hee⟩ := List.mem_map.1 (hsrc sg rfl)
          have := registered_lt hI.toInvCore he
          omega
        have hne : sg ≠ g1 := by omega
        obtain ⟨h1, h2⟩ := copyAll_into_fresh hne hI1 hg1 hempty hfill
        have hfr := copyAll_frames .repaired g1 (ownedBy s1.cols sg) s1
        rw [hfill] at hfr
        simp only [Res.state] at hfr
        refine ⟨?_, hfresh, hgdef, ?_, ?_⟩
        · show s2.file = _; rw [hfr.2.1, hfile]
        · intro g' hg'; show frameH5 s2 g' = _; rw [h2 g' hg', hfr1]
        · show frameH5 s2 g1 = _; rw [h1, hfr1]

theorem createFrame_abs {s s' : State} (hI : Inv s) {d : Nat} {fn : Name} {src : Option Nat} {g : Nat}
    (hsrc : ∀ sg, src = some sg → sg ∈ s.file.map (·.2)) (hc : createFrame .repaired s d fn src = .ok g s') :
    absH5 s' = (absH5 s).setFrame d fn (some (match src with | none => Frame.empty | some sg => frameH5 s sg)) := by
  obtain ⟨hfile, hfresh, _, hoth, hnew⟩ := createFrame_refines hI hsrc hc
  refine absH5_addFrame hfile hfresh hnew ?_
  intro k g' hk
  have := registered_lt hI.toInvCore hk
  exact hoth g' (by
    have hg := (createFrame_refines hI hsrc hc).2.2.1
    omega)

/-- module-level `dataset.copy` that returns: the destination is a copy of the source frame -/
theorem copyFrame_abs {s s' : State} (hI : Inv s) {sg d : Nat} {fn : Name} (hsg : sg ∈ s.file.map (·.2))
    (hc : copyFrame .repaired s sg d fn = .ok () s') : absH5 s' = (absH5 s).setFrame d fn (some (frameH5 s sg)) := by
  unfold copyFrame at hc
  split at hc
  · cases hc
  cases hcf : createFrame .repaired s d fn none with
  | err e s1 => rw [hcf] at hc; cases hc
  | ok g s1 =>
    rw [hcf] at hc
    simp only [Res.andThen] at hc
    have hI1 : Inv s1 := by have := createFrame_inv hI d fn none; rw [hcf] at this; exact this
    obtain ⟨hfile, hfresh, hgdef, hoth, hnew⟩ := createFrame_refines hI (by intro sg h; cases h) hcf
    simp only at hnew
    have hg1 : g ∈ s1.file.map (·.2) := by rw [hfile]; simp
    have hsglt : sg < s.fname.length := by
      obtain ⟨e, he, hee⟩ := List.mem_map.1 hsg
      have := registered_lt hI.toInvCore he
      omega
    have hne : sg ≠ g := by omega
    cases hca : copyAll .repaired g (ownedBy s1.cols sg) s1 with
    | err e s2 => rw [hca] at hc; cases hc
    | ok u s2 =>
      rw [hca] at hc
      simp only [Res.ok.injEq, true_and] at hc
      subst hc
      obtain ⟨h1, h2⟩ := copyAll_into_fresh hne hI1.toInvCore hg1 hnew hca
      have hfr := copyAll_frames .repaired g (ownedBy s1.cols sg) s1
      rw [hca] at hfr
      simp only [Res.state] at hfr
      refine absH5_addFrame (s' := { s2 with dfs := dictSet s2.dfs (d, fn) g }) (by show s2.file = _; rw [hfr.2.1, hfile]) hfresh
        (by show frameH5 s2 g = _; rw [h1, hoth sg hne]) ?_
      intro k g' hk
      have := registered_lt hI.toInvCore hk
      have hg' : g' ≠ g := by omega
      show frameH5 s2 g' = _
      rw [h2 g' hg', hoth g' hg']

/-! ### deleting and renaming a frame -/

theorem unlink_abs {s s' : State} (hI : Inv s) {d : Nat} {fn : Name} (hk : (d, fn) ∈ keys s.dfs)
    (hc : unlinkGroup { s with dfs := erase s.dfs (d, fn) } d fn = .ok () s') : absH5 s' = (absH5 s).setFrame d fn none := by
  obtain ⟨g, hg⟩ := mem_keys.1 hk
  have hf := (hI.sameFrames _).1 hg
  unfold unlinkGroup at hc
  simp only [(look_eq_some hI.fileNodup).2 hf, Res.ok.injEq, true_and] at hc
  subst hc
  refine absH5_delFrame hI.toInvCore hf rfl ?_
  intro g' hg'
  funext n
  simp only [frameH5, look_dropOwner, hg', if_false]

theorem dropFrame_abs {s s' : State} (hI : Inv s) {d : Nat} {fn : Name} (hc : dropFrame s d fn = .ok () s') :
    absH5 s' = (absH5 s).setFrame d fn none := by
  unfold dropFrame at hc
  split at hc
  · cases hc
  · next h => exact unlink_abs hI (Decidable.not_not.1 h) hc

theorem delFrame_abs {s s' : State} (hI : Inv s) {d : Nat} {fn : Name} (hc : delFrame s d fn = .ok () s') :
    absH5 s' = (absH5 s).setFrame d fn none := by
  unfold delFrame at hc
  split at hc
  · cases hc
  · next h => exact unlink_abs hI (Decidable.not_not.1 h) hc

theorem setFrame_abs {s s' : State} (hI : Inv s) {d : Nat} {fn : Name} {sd sg : Nat} {sfn : Name}
    (hsg : ((sd, sfn), sg) ∈ s.dfs) (hc : setFrame .repaired s d fn sd sg = .ok () s') :
    absH5 s' = if sd = d then ((absH5 s).setFrame d sfn none).setFrame d fn (absH5 s d sfn)
               else (absH5 s).setFrame d fn (absH5 s sd sfn) := by
  have hf := (hI.sameFrames _).1 hsg
  have hA : absH5 s sd sfn = some (frameH5 s sg) := by
    rw [absH5_apply, (look_eq_some hI.fileNodup).2 hf]; rfl
  unfold setFrame at hc
  split at hc
  · next hsd =>
    subst hsd
    have hname : nameOfVal s.file sg = some sfn := (nameOfVal_eq_some hI.frameInj).2 ⟨sd, hf⟩
    simp only [moveGroup, hname] at hc
    split at hc
    · cases hc
    · next hfresh =>
      simp only [Res.andThen, renameEntry, hI.frameName _ _ hf] at hc
      have hk : (sd, sfn) ∈ keys s.dfs := mem_keys_of_mem hsg
      simp only [hk, not_true_eq_false, if_false, Res.ok.injEq, true_and] at hc
      subst hc
      simp only [if_true]
      exact absH5_renameFrame hI.toInvCore hfresh rfl rfl
  · next hsd =>
    simp only [hsd, if_false]
    rw [hA]
    exact copyFrame_abs hI (List.mem_map.2 ⟨_, hf, rfl⟩) hc

theorem moveFrame_abs {s s' : State} (hI : Inv s) {sd sg d : Nat} {fn sfn : Name} (hsg : ((sd, sfn), sg) ∈ s.dfs)
    (hc : moveFrame .repaired s sd sg d fn = .ok () s') :
    absH5 s' = ((absH5 s).setFrame d fn (absH5 s sd sfn)).setFrame sd sfn none := by
  have hf := (hI.sameFrames _).1 hsg
  have hA : absH5 s sd sfn = some (frameH5 s sg) := by
    rw [absH5_apply, (look_eq_some hI.fileNodup).2 hf]; rfl
  unfold moveFrame at hc
  cases hcp : copyFrame .repaired s sg d fn with
  | err e s1 => rw [hcp] at hc; cases hc
  | ok u s1 =>
    rw [hcp] at hc
    simp only [Res.andThen] at hc
    have hI1 : Inv s1 := by have := copyFrame_inv hI sg d fn; rw [hcp] at this; exact this
    obtain ⟨_, x, hfn⟩ := copyFrame_ok_shape hI hcp
    have hname : s.fname[sg]? = some sfn := hI.frameName _ _ hf
    have hname1 : s1.fname[sg]? = some sfn := by
      rw [hfn, List.getElem?_append_left (List.getElem?_eq_some_iff.1 hname).1]; exact hname
    simp only [hname1] at hc
    rw [dropFrame_abs hI1 hc, copyFrame_abs hI (List.mem_map.2 ⟨_, hf, rfl⟩) hcp, hA]

/-! ### rename -/

theorem renOf_of_mem {dict : List (Name × Name)} (hkn : (dict.map (·.1)).Nodup) {p : Name × Name} (hp : p ∈ dict) :
    renOf dict p.1 = p.2 := by
  simp only [renOf, lookN_of_mem hkn (show (p.1, p.2) ∈ dict from hp), Option.getD_some]

theorem renOf_not_key {dict : List (Name × Name)} {n : Name} (h : n ∉ dict.map (·.1)) : renOf dict n = n := by
  simp only [renOf, lookN_eq_none.2 h, Option.getD_none]

theorem renOf_key_is_val {dict : List (Name × Name)} {n : Name} (h : n ∈ dict.map (·.1)) : renOf dict n ∈ dict.map (·.2) := by
  cases hl : lookN dict n with
  | none => exact absurd h (lookN_eq_none.1 hl)
  | some t =>
    simp only [renOf, hl, Option.getD_some]
    exact List.mem_map.2 ⟨(n, t), lookN_mem hl, rfl⟩

/-- the relational and the functional description of a rename agree -/
theorem renamed_eq_renFrame {dict : List (Name × Name)} {F F' : Frame} (hkn : (dict.map (·.1)).Nodup)
    (hvn : (dict.map (·.2)).Nodup) (hpres : ∀ k ∈ dict.map (·.1), ∃ c, F k = some c) (hr : Renamed dict F F') :
    F' = renFrame dict F := by
  funext n'
  unfold renFrame
  cases hfind : dict.find? (fun p => p.2 == n') with
  | some p =>
    have hp : p ∈ dict := List.mem_of_find?_eq_some hfind
    have hp2 : p.2 = n' := by simpa using List.find?_some hfind
    obtain ⟨c, hc⟩ := hpres p.1 (List.mem_map.2 ⟨p, hp, rfl⟩)
    have := hr.fwd p.1 c hc
    rw [renOf_of_mem hkn hp, hp2] at this
    simp only [this, hc]
  | none =>
    have hnv : n' ∉ dict.map (·.2) := by
      intro hm
      obtain ⟨p, hp, hp2⟩ := List.mem_map.1 hm
      have := List.find?_eq_none.1 hfind p hp
      simp [hp2] at this
    simp only
    -- nothing else is renamed to n'
    have honly : ∀ n c, F n = some c → renOf dict n = n' → n = n' ∧ n' ∉ dict.map (·.1) := by
      intro n c _ hren
      by_cases hk : n ∈ dict.map (·.1)
      · exact absurd (hren ▸ renOf_key_is_val hk) hnv
      · rw [renOf_not_key hk] at hren; subst hren; exact ⟨rfl, hk⟩
    split
    · next hk =>
      cases hF' : F' n' with
      | none => rfl
      | some c =>
        obtain ⟨n, hn, hren⟩ := hr.bwd n' c hF'
        exact absurd hk (honly n c hn hren).2
    · next hk =>
      cases hF : F n' with
      | some c =>
        have := hr.fwd n' c hF
        rw [renOf_not_key hk] at this; exact this
      | none =>
        cases hF' : F' n' with
        | none => rfl
        | some c =>
          obtain ⟨n, hn, hren⟩ := hr.bwd n' c hF'
          have := (honly n c hn hren).1
          subst this
          rw [hF] at hn; cases hn

/-- `rename` that returns: the frame is the renamed frame, every other frame is untouched -/
theorem renameFields_abs {s s' : State} (hI : Inv s) {d : Nat} {fn : Name} {g : Nat} (hg : ((d, fn), g) ∈ s.file)
    {dict : List (Name × Name)} (hkn : (dict.map (·.1)).Nodup) (hc : renameFields .repaired s g dict = .ok () s') :
    absH5 s' = (absH5 s).setFrame d fn ((absH5 s d fn).map (renFrame dict)) := by
  by_cases hok : RenameOk dict ((ownedBy s.cols g).map (·.1))
  · rw [renameFields_ok hI.toInvCore g dict hok] at hc
    simp only [Res.ok.injEq, true_and] at hc
    subst hc
    obtain ⟨hren, hoth⟩ := renamedState_refines hI.toInvCore g dict hok
    have hpres : ∀ k ∈ dict.map (·.1), ∃ c, frameH5 s g k = some c :=
      fun k hk => frameH5_some_of_col hI.toInvCore (mem_cur.1 (hok.keysPresent k hk))
    have hF := renamed_eq_renFrame hok.keysNodup hok.valsNodup hpres hren
    have hA : absH5 s d fn = some (frameH5 s g) := by
      rw [absH5_apply, (look_eq_some hI.fileNodup).2 hg]; rfl
    rw [hA]
    exact absH5_setFrame_same (s' := renamedState s g dict) hI.toInvCore rfl hg hF hoth
  · obtain ⟨e, he⟩ := renameFields_fail .repaired s g dict hkn hok
    rw [he] at hc; cases hc

end Exetera.Catalogue
