#!/bin/bash
# usage: tools/ingest_seed.sh Cxx <first free number> <slot>   — copies /tmp/seed2-out/Cxx/{A,B} to seeded/Cxx-n, Cxx-(n+1),
# removes the seeding agent's scratch worktree, commits, and evaluates both in isolation (tools/seeded_eval_iso.py, with suite).
set -e
cd /verif
p=$1; n=$2; slot=$3; shift 3; extra="$@"
ids=""
for x in A B; do
  [ -f /tmp/seed2-out/$p/$x/patch.diff ] || continue
  d=seeded/$p-$n; mkdir -p $d
  cp /tmp/seed2-out/$p/$x/patch.diff /tmp/seed2-out/$p/$x/demo.py /tmp/seed2-out/$p/$x/notes.md $d/
  ids="$ids $p-$n"; n=$((n+1))
done
git -C /repo worktree remove --force /tmp/seed2-$p 2>/dev/null || true
rm -rf /tmp/seed2-out/$p
for try in 1 2 3 4 5 6; do if git add seeded 2>/dev/null && git commit -qm "seeded: candidates$ids" 2>/dev/null; then break; fi; sleep $((RANDOM % 7 + 2)); done
mkdir -p /tmp/se
for id in $ids; do
  python3 tools/seeded_eval_iso.py $slot seeded/$id $p $extra > /tmp/se/$id.log 2>&1 || true
  tail -n 1 /tmp/se/$id.log
done
