import Exetera.Lemmas.CsvImport
/-! `IndexedStringImporter.import_part` across several calls: offsets are rebased by `chunk_accumulated` (C05). -/
namespace Exetera.Csv
open Exetera Spec

theorem offsetsFrom_map_add (es : List Bytes) : ∀ (b a : Nat), (offsetsFrom b es).map (· + a) = offsetsFrom (b + a) es := by
  induction es with
  | nil => intro b a; simp [offsetsFrom]
  | cons e es ih =>
    intro b a
    simp only [offsetsFrom, List.map_cons, ih]
    congr 2; omega

theorem offsetsFrom_append (a c : List Bytes) : ∀ b,
    offsetsFrom b (a ++ c) = offsetsFrom b a ++ (offsetsFrom (b + a.flatten.length) c).drop 1 := by
  induction a with
  | nil => intro b; cases c <;> simp [offsetsFrom]
  | cons e es ih =>
    intro b
    simp only [List.cons_append, offsetsFrom, ih, List.flatten_cons, List.length_append]
    simp [Nat.add_assoc]

def fieldOf' (es : List Bytes) : Imp :=
  { kind := .indexed, idx := indexOf es, vals := bytesOf es, acc := (bytesOf es).length }

/-- `import_part` onto a field that already holds `es0`, when column `c` of the staging buffers holds `es` -/
theorem importPart_acc {offs : List Nat} {inds : List (List Nat)} {vals : List Nat} {c : Nat} {es0 es : List Bytes}
    (h : ColOK offs inds vals c es) (ho : offs[c]? = some (offAt offs c)) :
    Imp.importPart (fieldOf' es0) inds vals offs c es.length = .ok (fieldOf' (es0 ++ es)) := by
  obtain ⟨⟨r, hr, hk⟩, hat⟩ := h
  have htot : r[es.length]? = some es.flatten.length := by rw [hk _ (Nat.le_refl _), endOf_all]
  have hgo : getE offs c "column_offsets[col_idx]" = .ok (offAt offs c) := getE_eq_ok.mpr ho
  have hgt : getE r es.length "column_inds[col_idx,written_row_count]" = .ok es.flatten.length := getE_eq_ok.mpr htot
  simp only [Imp.importPart, fieldOf', hr, hgo, hgt, take_eq_offsets hk, slice_of_at hat]
  simp only [indexOf, bytesOf, offsetsFrom_map_add, offsetsFrom_append, Nat.zero_add, List.flatten_append,
    List.length_append]

theorem importAll_acc {offs : List Nat} {inds : List (List Nat)} {vals : List Nat} {ncols n : Nat}
    {D E : Nat → List Bytes} (hcols : ∀ c, c < ncols → ColOK offs inds vals c (E c))
    (hlen : ∀ c, c < ncols → (E c).length = n) (hoffs : offs.length = ncols + 1) :
    ∀ (im : List Nat), (∀ c ∈ im, c < ncols) →
      importAll inds vals offs n im (im.map (fun c => fieldOf' (D c))) = .ok (im.map (fun c => fieldOf' (D c ++ E c))) := by
  intro im
  induction im with
  | nil => intro _; rfl
  | cons c im ih =>
    intro h
    have hc := h c (by simp)
    have h1 := importPart_acc (es0 := D c) (hcols c hc) (offs_get hoffs (by omega))
    rw [hlen c hc] at h1
    simp only [List.map_cons, importAll, h1, ih (fun x hx => h x (by simp [hx]))]

/-- The importers of the driver as a family of append homomorphisms: `F c D` is the state of the importer of file column `c`
    once it has consumed the entries `D`. One `import_part` call on staging buffers whose column `c` holds the entries `E`
    (strictly inside the column's value budget, every entry acceptable to the importer: `good c`) leaves the importer in the
    state `F c (D ++ E)` — whatever (acceptable) `D` was, so the result of a sequence of calls depends only on the concatenation of the
    blocks, not on where they were cut. -/
def ImpHom (ncols : Nat) (F : Nat → List Bytes → Imp) (good : Nat → Bytes → Prop) : Prop :=
  ∀ (offs : List Nat) (inds : List (List Nat)) (vals : List Nat) (maxrow c : Nat) (D E : List Bytes), c < ncols →
    Shape ncols maxrow offs inds vals → ColOK offs inds vals c E →
    offAt offs c + E.flatten.length < offAt offs (c + 1) → (∀ cell ∈ D, good c cell) → (∀ cell ∈ E, good c cell) →
    Imp.importPart (F c D) inds vals offs c E.length = .ok (F c (D ++ E))

/-- the indexed string importer is such a family (every entry is acceptable) -/
theorem impHom_indexed (ncols : Nat) : ImpHom ncols (fun _ => fieldOf') (fun _ _ => True) := by
  intro offs inds vals maxrow c D E hc hsh hcol _ _ _
  exact importPart_acc hcol (offs_get hsh.offsLen (by omega))

theorem importAll_hom {offs : List Nat} {inds : List (List Nat)} {vals : List Nat} {ncols maxrow n : Nat}
    {F : Nat → List Bytes → Imp} {good : Nat → Bytes → Prop} (hhom : ImpHom ncols F good)
    {D E : Nat → List Bytes} (hsh : Shape ncols maxrow offs inds vals)
    (hcols : ∀ c, c < ncols → ColOK offs inds vals c (E c))
    (hcaps : ∀ c, c < ncols → offAt offs c + (E c).flatten.length < offAt offs (c + 1))
    (hlen : ∀ c, c < ncols → (E c).length = n) :
    ∀ (im : List Nat), (∀ c ∈ im, c < ncols) → (∀ c ∈ im, ∀ cell ∈ D c, good c cell) →
      (∀ c ∈ im, ∀ cell ∈ E c, good c cell) →
      importAll inds vals offs n im (im.map (fun c => F c (D c))) = .ok (im.map (fun c => F c (D c ++ E c))) := by
  intro im
  induction im with
  | nil => intro _ _ _; rfl
  | cons c im ih =>
    intro h hd hg
    have hc := h c (by simp)
    have h1 := hhom offs inds vals maxrow c (D c) (E c) hc hsh (hcols c hc) (hcaps c hc) (hd c (by simp)) (hg c (by simp))
    rw [hlen c hc] at h1
    simp only [List.map_cons, importAll, h1,
      ih (fun x hx => h x (by simp [hx])) (fun x hx => hd x (by simp [hx])) (fun x hx => hg x (by simp [hx]))]

end Exetera.Csv
