import Exetera.Model.Basic
/-!
  Model of filter / re-index / sort (C09):

    operations.py   apply_filter_to_index_values, apply_indices_to_index_values            (compiled two-pass kernels)
    validation.py   validate_filter
    fields.py       FieldDataOps.apply_filter_to_field / apply_index_to_field / *_to_indexed_field (three write modes),
                    FieldDataOps.*_create_like
    dataframe.py    DataFrame.apply_filter / apply_index / sort_values
    session.py      Session.dataset_sort_index, Session.apply_filter / apply_index for array sources

  Conventions. Offsets (`indices`) and bytes (`values`) of an indexed string field are `List Nat`; every other field
  payload is `List Int` (fixed strings and timestamps are sent as order-isomorphic integers by the harness). Every
  subscript of the two kernels goes through `getE` / `sliceE` / `setSliceE` / `setE`, the output buffers are allocated
  with the sizes computed by pass 1 exactly as in the code, so an `.ok` result carries memory safety.
  `Variant.asFound` is the code before the fixes D8 (no filter-length guard) and NC09b (no index bounds guard);
  `Variant.repaired` is the code with `fixes/D8_*.patch` and `fixes/NC09b_*.patch` applied — the driver runs `repaired`.
  Offsets that decrease (`next_[i] < cur_[i]`) cannot be produced by any writer (C01); the model reports them as an
  error instead of following numpy into negative lengths.
-/
namespace Exetera.FilterIndex
open Exetera

inductive Variant where
  | asFound | repaired
  deriving DecidableEq, Repr, Inhabited

/-! ### subscripts and slices -/

/-- numba / numpy wrap-around of a possibly negative subscript into an array of length `n` -/
def normIdx (n : Nat) (i : Int) : Option Nat :=
  if 0 ≤ i then (if i.toNat < n then some i.toNat else none)
  else if (-i).toNat ≤ n then some (n - (-i).toNat) else none

/-- `xs[i]` with wrap-around, checked -/
def getWrapE {α} (xs : List α) (i : Int) (site : String) : Except Err α :=
  match normIdx xs.length i with
  | some k => getE xs k site
  | none => .error (.oob site)

/-- read `xs[a:b]`, insisting that the slice lies inside `xs` -/
def sliceE {α} (xs : List α) (a b : Nat) (site : String) : Except Err (List α) :=
  if a ≤ b ∧ b ≤ xs.length then .ok (slice xs a b) else .error (.oob site)

/-- `dest[a:b] = src`, insisting that the slice lies inside `dest` and has the length of `src` -/
def setSliceE {α} (dest : List α) (a b : Nat) (src : List α) (site : String) : Except Err (List α) :=
  if a ≤ b ∧ b ≤ dest.length ∧ src.length = b - a then .ok (dest.take a ++ src ++ dest.drop b)
  else .error (.oob site)

/-! ### the two kernels of operations.py -/

/-- `next_[i] - cur_[i]` (the byte length of entry `i`), both subscripts checked -/
def entryLen (cur nxt : List Nat) (i : Int) : Except Err Nat := do
  let n ← getWrapE nxt i "next_[i]"
  let c ← getWrapE cur i "cur_[i]"
  if c ≤ n then pure (n - c) else throw (.valueError "negative dimensions are not allowed")

/-- loop variables of pass 2 and the two output buffers -/
structure P2 where
  count : Nat
  total : Nat
  di : List Nat
  dv : List Nat
  deriving Repr, DecidableEq, Inhabited

/-- body of pass 2 for entry `i`:
    `n = next_[i]; c = cur_[i]; delta = n - c; dest_values[total:total+delta] = values[c:n]; total += delta;
     dest_indices[count] = total; count += 1` -/
def copyEntry (cur nxt values : List Nat) (i : Int) (s : P2) : Except Err P2 := do
  let n ← getWrapE nxt i "next_[i]"
  let c ← getWrapE cur i "cur_[i]"
  let src ← sliceE values c n "values[c:n]"
  let delta := n - c
  let dv ← setSliceE s.dv s.total (s.total + delta) src "dest_values[total:total+delta]"
  let total := s.total + delta
  let di ← setE s.di s.count total "dest_indices[count]"
  pure { count := s.count + 1, total := total, di := di, dv := dv }

/-- pass 1 of `apply_filter_to_index_values`: `for i in range(len(index_filter)): if index_filter[i]: …` -/
def filterPass1 (cur nxt : List Nat) : List Bool → Nat → Nat → Nat → Except Err (Nat × Nat)
  | [], _, count, total => .ok (count, total)
  | b :: bs, i, count, total =>
    if b then
      match entryLen cur nxt (i : Int) with
      | .ok d => filterPass1 cur nxt bs (i + 1) (count + 1) (total + d)
      | .error e => .error e
    else filterPass1 cur nxt bs (i + 1) count total

/-- pass 2 of `apply_filter_to_index_values` -/
def filterPass2 (cur nxt values : List Nat) : List Bool → Nat → P2 → Except Err P2
  | [], _, s => .ok s
  | b :: bs, i, s =>
    if b then
      match copyEntry cur nxt values (i : Int) s with
      | .ok s' => filterPass2 cur nxt values bs (i + 1) s'
      | .error e => .error e
    else filterPass2 cur nxt values bs (i + 1) s

/-- allocate `dest_indices = zeros(count+1)`, `dest_values = zeros(total)`, `dest_indices[0] = 0`, `count = 1`, `total = 0` -/
def initP2 (count total : Nat) : Except Err P2 := do
  let di ← setE (List.replicate (count + 1) 0) 0 0 "dest_indices[0]"
  pure { count := 1, total := 0, di := di, dv := List.replicate total 0 }

/-- `apply_filter_to_index_values(index_filter, indices, values)`; `index_filter` already boolean -/
def applyFilterToIndexValues (v : Variant) (flt : List Bool) (indices values : List Nat) :
    Except Err (List Nat × List Nat) :=
  -- fix D8: `if len(index_filter) != max(len(indices) - 1, 0): raise IndexError`
  if v = .repaired ∧ flt.length ≠ indices.length - 1 then .error (.oob "len(index_filter) != len(indices) - 1")
  else
    let cur := indices.dropLast      -- indices[:-1]
    let nxt := indices.drop 1        -- indices[1:]
    match filterPass1 cur nxt flt 0 0 0 with
    | .error e => .error e
    | .ok (count, total) =>
      match initP2 count total with
      | .error e => .error e
      | .ok s0 =>
        match filterPass2 cur nxt values flt 0 s0 with
        | .error e => .error e
        | .ok s => .ok (s.di, s.dv)

/-- fix NC09b: `if i < -len(cur_) or i >= len(cur_): raise IndexError` -/
def indexGuard (v : Variant) (n : Nat) (i : Int) : Except Err Unit :=
  if v = .repaired ∧ (i < -(n : Int) ∨ i ≥ (n : Int)) then .error (.oob "index out of bounds for indexed field")
  else .ok ()

/-- pass 1 of `apply_indices_to_index_values`: `for i in indices_to_apply: …` -/
def indexPass1 (v : Variant) (cur nxt : List Nat) : List Int → Nat → Nat → Except Err (Nat × Nat)
  | [], count, total => .ok (count, total)
  | i :: is, count, total =>
    match indexGuard v cur.length i with
    | .error e => .error e
    | .ok _ =>
      match entryLen cur nxt i with
      | .ok d => indexPass1 v cur nxt is (count + 1) (total + d)
      | .error e => .error e

/-- pass 2 of `apply_indices_to_index_values` -/
def indexPass2 (cur nxt values : List Nat) : List Int → P2 → Except Err P2
  | [], s => .ok s
  | i :: is, s =>
    match copyEntry cur nxt values i s with
    | .ok s' => indexPass2 cur nxt values is s'
    | .error e => .error e

/-- `apply_indices_to_index_values(indices_to_apply, indices, values)` -/
def applyIndicesToIndexValues (v : Variant) (idx : List Int) (indices values : List Nat) :
    Except Err (List Nat × List Nat) :=
  let cur := indices.dropLast
  let nxt := indices.drop 1
  match indexPass1 v cur nxt idx 0 0 with
  | .error e => .error e
  | .ok (count, total) =>
    match initP2 count total with
    | .error e => .error e
    | .ok s0 =>
      match indexPass2 cur nxt values idx s0 with
      | .error e => .error e
      | .ok s => .ok (s.di, s.dv)

/-! ### numpy indexing of a plain array -/

/-- `data[flt]` for a boolean `flt`: numpy insists on equal lengths -/
def boolSelect {α} : List Bool → List α → List α
  | b :: bs, x :: xs => if b then x :: boolSelect bs xs else boolSelect bs xs
  | _, _ => []

def boolIndex {α} (data : List α) (flt : List Bool) : Except Err (List α) :=
  if flt.length ≠ data.length then .error (.oob "boolean index did not match indexed array")
  else .ok (boolSelect flt data)

/-- `data[idx]` for an integer array `idx` (negative subscripts wrap, out of range raises IndexError) -/
def fancyIndex {α} (data : List α) : List Int → Except Err (List α)
  | [] => .ok []
  | i :: is =>
    match getWrapE data i "data[index]" with
    | .error e => .error e
    | .ok x =>
      match fancyIndex data is with
      | .error e => .error e
      | .ok r => .ok (x :: r)

/-! ### validate_filter -/

/-- what callers pass as a filter: a bool array, an array of a permitted numeric dtype, or anything else -/
inductive Filter where
  | bool (bs : List Bool)
  | num (xs : List Int)
  | bad
  deriving Repr, DecidableEq, Inhabited

/-- `validate_filter`: dtype check, then `filter != 0` unless already bool -/
def validateFilter : Filter → Except Err (List Bool)
  | .bool bs => .ok bs
  | .num xs => .ok (xs.map (fun x => x != 0))
  | .bad => .error (.other "Exception")

/-! ### fields -/

/-- what `create_like` copies -/
structure Meta where
  ftype : String
  nformat : String
  strlen : Nat
  key : List (Int × String)
  deriving Repr, DecidableEq, Inhabited

inductive Payload where
  | plain (data : List Int)
  | indexed (indices values : List Nat)
  deriving Repr, DecidableEq, Inhabited

structure Field where
  info : Meta
  payload : Payload
  writeEnabled : Bool
  deriving Repr, DecidableEq, Inhabited

/-- `len(field.data)` -/
def Payload.nrows : Payload → Nat
  | .plain d => d.length
  | .indexed i _ => i.length - 1

/-- `arr.clear(); arr.write(new)` -/
def clearWrite {α} (_old new : List α) : List α := ([] : List α) ++ new

/-- `if len(arr) == len(new): arr[:] = new  else: arr.clear(); arr.write(new)` -/
def writeTarget {α} (old new : List α) : List α :=
  if old.length == new.length then new else clearWrite old new

def Payload.clearWrite : Payload → Payload → Payload
  | .plain o, .plain n => .plain (FilterIndex.clearWrite o n)
  | .indexed oi ov, .indexed ni nv => .indexed (FilterIndex.clearWrite oi ni) (FilterIndex.clearWrite ov nv)
  | _, n => n

def Payload.writeTarget : Payload → Payload → Payload
  | .plain o, .plain n => .plain (FilterIndex.writeTarget o n)
  | .indexed oi ov, .indexed ni nv => .indexed (FilterIndex.writeTarget oi ni) (FilterIndex.writeTarget ov nv)
  | _, n => n

/-- the tail shared by the four `FieldDataOps.apply_*_to_*field` functions once the result arrays are computed -/
def storeResult (src : Field) (res : Payload) (target : Option Field) (inPlace : Bool) : Except Err Field :=
  if inPlace then
    if !src.writeEnabled then .error (.valueError "This field is marked read-only")
    else .ok { src with payload := src.payload.clearWrite res }
  else
    match target with
    | some t => .ok { t with payload := t.payload.writeTarget res }
    | none => .ok { info := src.info, payload := res, writeEnabled := true }   -- `source.create_like()` + write

/-- the result arrays of a filter, by kind of field -/
def filterPayload (v : Variant) (bs : List Bool) : Payload → Except Err Payload
  | .plain d => (boolIndex d bs).map .plain
  | .indexed i vals => (applyFilterToIndexValues v bs i vals).map (fun p => .indexed p.1 p.2)

def indexPayload (v : Variant) (idx : List Int) : Payload → Except Err Payload
  | .plain d => (fancyIndex d idx).map .plain
  | .indexed i vals => (applyIndicesToIndexValues v idx i vals).map (fun p => .indexed p.1 p.2)

/-- `field.apply_filter(filter_to_apply, target, in_place)` -/
def applyFilterField (v : Variant) (src : Field) (flt : Filter) (target : Option Field) (inPlace : Bool) :
    Except Err Field := do
  if inPlace ∧ target.isSome then throw (.valueError "if 'in_place is True, 'target' must be None")
  let bs ← validateFilter flt
  let res ← filterPayload v bs src.payload
  storeResult src res target inPlace

/-- `field.apply_index(index_to_apply, target, in_place)` -/
def applyIndexField (v : Variant) (src : Field) (idx : List Int) (target : Option Field) (inPlace : Bool) :
    Except Err Field := do
  if inPlace ∧ target.isSome then throw (.valueError "if 'in_place is True, 'target' must be None")
  let res ← indexPayload v idx src.payload
  storeResult src res target inPlace

/-! ### data frames -/

/-- `DataFrame._columns` (an OrderedDict) -/
abbrev Frame := List (String × Field)

def Frame.has (f : Frame) (name : String) : Bool := f.any (fun p => p.1 == name)

def emptyLike (f : Field) : Field :=
  { info := f.info,
    payload := match f.payload with
      | .plain _ => .plain []
      | .indexed _ _ => .indexed [] [],
    writeEnabled := true }

/-- `field.create_like(ddf, name)` -/
def createLike (ddf : Frame) (name : String) (f : Field) : Except Err Field :=
  if ddf.has name then .error (.valueError "Field already exists in group") else .ok (emptyLike f)

/-- `for name, field in self._columns.items(): newfld = field.create_like(ddf, name); field.op(arg, target=newfld)` -/
def colsTo (op : Field → Option Field → Bool → Except Err Field) : List (String × Field) → Frame → Except Err Frame
  | [], ddf => .ok ddf
  | (name, f) :: cols, ddf =>
    match createLike ddf name f with
    | .error e => .error e
    | .ok nf =>
      match op f (some nf) false with
      | .error e => .error e
      | .ok w => colsTo op cols (ddf ++ [(name, w)])

/-- `for field in self._columns.values(): field.op(arg, in_place=True)` -/
def colsInPlace (op : Field → Option Field → Bool → Except Err Field) : List (String × Field) → Except Err Frame
  | [] => .ok []
  | (name, f) :: cols =>
    match op f none true with
    | .error e => .error e
    | .ok w =>
      match colsInPlace op cols with
      | .error e => .error e
      | .ok r => .ok ((name, w) :: r)

/-- the dataframes of a dataset, by name -/
abbrev Store := List (String × Frame)

def Store.put (st : Store) (k : String) (f : Frame) : Store :=
  st.map (fun p => if p.1 == k then (k, f) else p)

def Store.frame (st : Store) (k : String) : Except Err Frame :=
  match st.lookup k with
  | some f => .ok f
  | none => .error (.keyError k)

/-- run a column-wise operation of frame `src` either into frame `ddf` or in place -/
def frameOp (st : Store) (src : String) (ddf : Option String)
    (op : Field → Option Field → Bool → Except Err Field) : Except Err Store := do
  let sf ← st.frame src
  match ddf with
  | some d =>
    let df ← st.frame d
    let df' ← colsTo op sf df
    pure (st.put d df')
  | none =>
    let sf' ← colsInPlace op sf
    pure (st.put src sf')

/-- `DataFrame.apply_filter(filter_to_apply, ddf)` -/
def dfApplyFilter (v : Variant) (st : Store) (src : String) (flt : Filter) (ddf : Option String) : Except Err Store := do
  let bs ← validateFilter flt
  frameOp st src ddf (fun f t ip => applyFilterField v f (.bool bs) t ip)

/-- `validate_all_field_length_in_df` -/
def allSameLength : List (String × Field) → Bool
  | [] => true
  | (_, f) :: cols => cols.all (fun p => p.2.payload.nrows == f.payload.nrows)

/-- `DataFrame.apply_index(index_to_apply, ddf)` -/
def dfApplyIndex (v : Variant) (st : Store) (src : String) (idx : List Int) (ddf : Option String) : Except Err Store := do
  let sf ← st.frame src
  if ddf.isNone ∧ !allSameLength sf then throw (.valueError "There are consistent lengths in dataframe")
  frameOp st src ddf (fun f t ip => applyIndexField v f idx t ip)

/-- NC09f, the code AS FOUND for `df.apply_index(df[own])` in place: the caller's index was the live Field `df[own]`, handed to
    every column in turn and re-read by each (`field.apply_index` reads `index.data[:]`), so once the column `own` itself had
    been rewritten every later column was re-ordered by the already permuted index. `rest` are the columns still to do,
    `done` the rewritten ones (in order). (Repaired: the Field index is read once up front — `dfApplyIndex` with its content.) -/
def colsInPlaceOwnAsFound (v : Variant) (own : String) : (done rest : List (String × Field)) → Except Err Frame
  | done, [] => .ok done
  | done, (name, f) :: rest =>
    match (done ++ (name, f) :: rest).lookup own with
    | some { payload := .plain idx, .. } =>
      match applyIndexField v f idx none true with
      | .error e => .error e
      | .ok w => colsInPlaceOwnAsFound v own (done ++ [(name, w)]) rest
    | _ => .error (.valueError "'index_to_apply' must be a numeric field of this dataframe")

/-! ### sorting -/

/-- `np.argsort(xs, kind='stable')`: positions `0..len-1` stably sorted by the value they hold -/
def argsortStable (xs : List Int) : List Nat :=
  (xs.zipIdx.mergeSort (fun a b => decide (a.1 ≤ b.1))).map (·.2)

/-- `xs[idx]` for an array of non-negative subscripts -/
def takeE {α} (xs : List α) : List Nat → Except Err (List α)
  | [] => .ok []
  | i :: is =>
    match getE xs i "raw_data[acc_index]" with
    | .error e => .error e
    | .ok x =>
      match takeE xs is with
      | .error e => .error e
      | .ok r => .ok (x :: r)

/-- `fdata = raw_data[acc_index]; index = np.argsort(fdata, kind='stable'); acc_index = acc_index[index]` -/
def sortPass (raw : List Int) (acc : List Nat) : Except Err (List Nat) := do
  let fdata ← takeE raw acc
  takeE acc (argsortStable fdata)

/-- the passes over `reversed(sort_indices)` -/
def sortPasses : List (List Int) → List Nat → Except Err (List Nat)
  | [], acc => .ok acc
  | r :: rs, acc =>
    match sortPass r acc with
    | .error e => .error e
    | .ok acc' => sortPasses rs acc'

/-- `Session.dataset_sort_index(sort_indices, index)` on arrays -/
def datasetSortIndex (keys : List (List Int)) (index : Option (List Nat)) : Except Err (List Nat) :=
  match keys.reverse with
  | [] => .error (.oob "readers[0]")
  | r0 :: rs =>
    let rawIndex := match index with
      | some ix => ix
      | none => List.range r0.length
    sortPasses (r0 :: rs) rawIndex

/-- bytewise lexicographic order on byte strings (a proper prefix is smaller); numpy orders `str` by code point, which is
    the order of the UTF-8 bytes -/
def bytesLt : List Nat → List Nat → Bool
  | [], [] => false
  | [], _ :: _ => true
  | _ :: _, [] => false
  | a :: as, b :: bs => a < b || (a == b && bytesLt as bs)

/-- the entries of an indexed string column: `values[indices[k] : indices[k+1]]` -/
def entriesOf (indices values : List Nat) : List (List Nat) :=
  (List.range (indices.length - 1)).map (fun k =>
    (values.drop (indices.getD k 0)).take (indices.getD (k + 1) 0 - indices.getD k 0))

/-- an order-isomorphic integer column for a string column: each entry's number of strictly smaller entries (equal strings
    get equal numbers, smaller strings smaller numbers), so that the stable argsort passes see the same comparisons as
    `np.argsort(np.asarray(list_of_str), kind='stable')` -/
def rankKeys (es : List (List Nat)) : List Int :=
  es.map (fun e => ((es.filter (fun d => bytesLt d e)).length : Int))

/-- `np.asarray(list_of_str)` is a `<U` array: fixed width, NUL padded, and numpy cannot tell padding from content — a
    string is seen without its trailing NUL characters (`'a\x00'` compares equal to `'a'`; NC09g, cf. NC14a) -/
def trimNul (e : List Nat) : List Nat := (e.reverse.dropWhile (· == 0)).reverse

/-- `validate_selected_keys` + lookup of the key columns. Since fix NC07b (`np.asarray(raw_data)` in
    `Session.dataset_sort_index`) an indexed string key is sorted as an array of `str`; before it the fancy-indexing of the
    python list raised TypeError. -/
def keyColumns (sf : Frame) : List String → Except Err (List (List Int))
  | [] => .ok []
  | k :: ks =>
    match sf.lookup k with
    | none => .error (.valueError "not an existing field")
    | some f =>
      match f.payload with
      | .indexed i vals =>
        match keyColumns sf ks with
        | .error e => .error e
        | .ok r => .ok (rankKeys ((entriesOf i vals).map trimNul) :: r)
      | .plain d =>
        match keyColumns sf ks with
        | .error e => .error e
        | .ok r => .ok (d :: r)

/-- every requested key exists (`validate_selected_keys` runs before anything else) -/
def keysExist (sf : Frame) (by_ : List String) : Bool := by_.all (fun k => sf.has k)

/-- `DataFrame.sort_values(by, ddf)` (axis=0, ascending, kind='stable') -/
def dfSortValues (v : Variant) (st : Store) (src : String) (by_ : List String) (ddf : Option String) :
    Except Err Store := do
  let sf ← st.frame src
  if by_.isEmpty then throw (.valueError "Selected field names should not be empty list")
  if !keysExist sf by_ then throw (.valueError "not an existing field")
  let n ← match sf.lookup (by_.headD "") with
    | some f => pure f.payload.nrows
    | none => throw (.valueError "not an existing field")
  let keys ← keyColumns sf by_
  let sorted ← datasetSortIndex keys (some (List.range n))
  dfApplyIndex v st src (sorted.map (fun (k : Nat) => (k : Int))) ddf

/-! ### Session.apply_filter / apply_index for a source that is a plain array (with fix NC09c) -/

/-- `reader_[validate_filter(filter_to_apply_)]`, appended to `dest` if given -/
def sessionFilterArray (flt : Filter) (src : List Int) (dest : Option (List Int)) :
    Except Err (List Int × Option (List Int)) := do
  let bs ← validateFilter flt
  let r ← boolIndex src bs
  pure (r, dest.map (· ++ r))

def sessionIndexArray (idx : List Int) (src : List Int) (dest : Option (List Int)) :
    Except Err (List Int × Option (List Int)) := do
  let r ← fancyIndex src idx
  pure (r, dest.map (· ++ r))

end Exetera.FilterIndex
