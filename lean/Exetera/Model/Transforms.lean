import Exetera.Model.Basic
import Exetera.Gen.BoolLiterals
/-!
# Model of the schema-typed import transforms (property C06)

Mirrors, with every fix of `fixes/{D28,D29,NC06a,NC06b,NC06c,NC06d}_*.patch` applied:

* `operations.get_byte_map`, `categorical_transform` (`categoricalTransformChecked`; the kernel as found before NC06d is
  kept as `categoricalTransform`), `CategoricalImporter.import_part`, `leaky_categorical_transform` and
  `LeakyCategoricalImporter.import_part` (free-text offsets accumulated across chunks),
* `numeric_bool_transform` (blank trimming, the regenerated literal table `Gen.boolLiterals`, validation modes,
  exception codes) and `NumericImporter.import_part` for `bool`,
* `transform_int` / `transform_float` (validation-mode branches; the text → number parser is a parameter),
* `fixed_string_transform` / `FixedStringImporter`,
* `parse_timestamp_bytes`, `DateTimeImporter.write_part`, `DateImporter.write_part` (CPython's `datetime` arithmetic
  `_ymd2ord` is mirrored; `int()` of a bytes slice is `parseIntPy`).

A `Chunk` is what an importer's `import_part` receives from the CSV reader for its column: the column subscript
`col_idx` and the number of columns of the staging arrays, the row offsets `column_inds[col_idx]`, the shared byte
buffer `column_vals`, the column's start `column_offsets[col_idx]`, its capacity and `written_row_count`. Bytes are
`Nat`s (only equality and membership in literal tables is used).
Every subscript of an `@exetera_njit` kernel goes through `getE` / `setE` / a capacity check; the column subscript (the
subscript of `column_offsets[col_idx]` and the first dimension of `column_inds[col_idx, ·]`) through `withCol`.
-/
namespace Exetera.Transforms

abbrev Bytes := List Nat

structure Chunk where
  inds : List Nat      -- column_inds[col_idx, :]   (may carry stale entries after index `rows`)
  vals : Bytes         -- column_vals               (all columns, flat)
  off  : Nat           -- column_offsets[col_idx]
  cap  : Nat           -- column_offsets[col_idx + 1] - column_offsets[col_idx]
  rows : Nat           -- written_row_count
  col  : Nat           -- col_idx / i_c : the column subscript the importer passes on
  ncols : Nat          -- column_inds.shape[0] = len(column_offsets) - 1 : the number of columns of the staging arrays
  deriving Repr

/-- the column subscript of a kernel call. Every import transform starts with `col_offset = column_offsets[col_idx]`
    (`column_offsets` has `ncols + 1` entries) and then subscripts the first dimension of `column_inds` (`ncols` rows) with
    the same `col_idx`, which is a parameter that no kernel assigns: the first such subscript is out of bounds exactly when
    every later one is, so the check is made once, where the kernel evaluates the first of them — unconditionally in the two
    categorical kernels (`len(column_inds[i_c])` is evaluated before the row loop), at the first row read in the others
    (`readsInds` = "the row loop is entered"). `k` is the rest of the kernel. -/
def withCol {α} (c : Chunk) (readsInds : Bool) (site : String) (k : Except Err α) : Except Err α :=
  if c.ncols < c.col then .error (.oob "column_offsets[col_idx]")
  else if readsInds && c.ncols ≤ c.col then .error (.oob site)
  else k

/-- running offsets `[b, b+l₀, b+l₀+l₁, …]` -/
def offsets (b : Nat) : List Nat → List Nat
  | [] => [b]
  | l :: ls => b :: offsets (b + l) ls

/-! ## get_byte_map -/

structure ByteMap where
  keys : Bytes          -- byte_map_keys         : all keys packed
  index : List Nat      -- byte_map_key_indices  : start of each key, plus the total   (int64 after D28)
  values : List Int     -- byte_map_value        : (int64 after NC06a)
  deriving Repr

/-- lexicographic `≤` on byte strings (Python sorts the `str` keys by code point, which is the UTF-8 byte order) -/
def bytesLe : Bytes → Bytes → Bool
  | [], _ => true
  | _ :: _, [] => false
  | a :: as, b :: bs => if a < b then true else if b < a then false else bytesLe as bs

/-- the packed table of a key-sorted list of categories -/
def packTable (sorted : List (Bytes × Int)) : ByteMap :=
  { keys := (sorted.map (·.1)).flatten
    index := offsets 0 (sorted.map (·.1.length))
    values := sorted.map (·.2) }

def getByteMap (cats : List (Bytes × Int)) : ByteMap :=
  packTable (cats.mergeSort (fun a b => bytesLe a.1 b.1))

/-! ## categorical_transform -/

/-- the `for j in range(key_len)` loop: `true` when all `n` bytes agree (`index` stays `i`), `false` at the first
    mismatch (`index = -1; break`) -/
def keyEq (vals keys : Bytes) : (n p q : Nat) → Except Err Bool
  | 0, _, _ => .ok true
  | n + 1, p, q =>
    match getE vals p "column_vals[col_offset+key_start+j]" with
    | .error e => .error e
    | .ok a =>
      match getE keys q "cat_keys[entry_start+j]" with
      | .error e => .error e
      | .ok b => if a != b then .ok false else keyEq vals keys n (p + 1) (q + 1)

/-- the `for i in range(len(cat_index) - 1)` loop for one cell starting at `vals[p]` of length `keyLen`; `acc` is the
    value written so far (`none`: nothing written). There is no `break`: a later match would overwrite. -/
def scanKeys (bm : ByteMap) (vals : Bytes) (p : Nat) (keyLen : Int) : (n i : Nat) → Option Int → Except Err (Option Int)
  | 0, _, acc => .ok acc
  | n + 1, i, acc =>
    match getE bm.index (i + 1) "cat_index[i+1]" with
    | .error e => .error e
    | .ok hi =>
      match getE bm.index i "cat_index[i]" with
      | .error e => .error e
      | .ok lo =>
        if keyLen != (hi : Int) - (lo : Int) then scanKeys bm vals p keyLen n (i + 1) acc
        else
          match keyEq vals bm.keys keyLen.toNat p lo with
          | .error e => .error e
          | .ok false => scanKeys bm vals p keyLen n (i + 1) acc
          | .ok true =>
            match getE bm.values i "cat_values[index]" with
            | .error e => .error e
            | .ok v => scanKeys bm vals p keyLen n (i + 1) (some v)

/-- the table scan of one row: reads the row's bounds and scans all keys -/
def matchRow (bm : ByteMap) (c : Chunk) (i : Nat) : Except Err (Nat × Nat × Option Int) :=
  match getE c.inds i "column_inds[i_c,row_idx]" with
  | .error e => .error e
  | .ok s =>
    match getE c.inds (i + 1) "column_inds[i_c,row_idx+1]" with
    | .error e => .error e
    | .ok e' =>
      match scanKeys bm c.vals (c.off + s) ((e' : Int) - (s : Int)) (bm.index.length - 1) 0 none with
      | .error e => .error e
      | .ok r => .ok (s, e', r)

/-- `for row_idx in range(len(column_inds[i_c]) - 1): if row_idx >= chunk.shape[0]: break; …` -/
def catRows (bm : ByteMap) (c : Chunk) : (n i : Nat) → List Int → Except Err (List Int)
  | 0, _, chunk => .ok chunk
  | n + 1, i, chunk =>
    if i ≥ chunk.length then .ok chunk
    else
      match matchRow bm c i with
      | .error e => .error e
      | .ok (_, _, none) => catRows bm c n (i + 1) chunk
      | .ok (_, _, some v) =>
        match setE chunk i v "chunk[row_idx]" with
        | .error e => .error e
        | .ok chunk' => catRows bm c n (i + 1) chunk'

/-- **as found** (before `fixes/NC06d_*.patch`): the kernel returned nothing; a row that matches no key keeps the `0` the
    staging array was created with. Kept for the witness of NC06d (`Witness/C06.lean`); the kernel of the repaired code is
    `categoricalTransformChecked`, which writes the very same array (`Lemmas/TransformsCatChecked.lean`). -/
def categoricalTransform (bm : ByteMap) (c : Chunk) : Except Err (List Int) :=
  withCol c true "column_inds[i_c]" (catRows bm c (c.inds.length - 1) 0 (List.replicate c.rows 0))

/-- **as found**: `CategoricalImporter` wrote whatever the kernel left in the staging array -/
def categoricalImport (cats : List (Bytes × Int)) : List Chunk → List Int → Except Err (List Int)
  | [], data => .ok data
  | c :: cs, data =>
    match categoricalTransform (getByteMap cats) c with
    | .error e => .error e
    | .ok chunk => categoricalImport cats cs (data ++ chunk)

/-! ### categorical_transform / CategoricalImporter with fix NC06d: a cell that equals no key is refused -/

/-- the row loop with fix NC06d: besides `chunk` it carries `first_unmatched` (`none` = the code's `-1`), set by
    `if not matched and first_unmatched == -1: first_unmatched = row_idx` at the end of every row. `matched` is "the key scan
    wrote a value" (`matchRow` returns `some`). -/
def catRowsChecked (bm : ByteMap) (c : Chunk) : (n i : Nat) → List Int → Option Nat → Except Err (List Int × Option Nat)
  | 0, _, chunk, fu => .ok (chunk, fu)
  | n + 1, i, chunk, fu =>
    if i ≥ chunk.length then .ok (chunk, fu)
    else
      match matchRow bm c i with
      | .error e => .error e
      | .ok (_, _, none) => catRowsChecked bm c n (i + 1) chunk (if fu.isNone then some i else fu)
      | .ok (_, _, some v) =>
        match setE chunk i v "chunk[row_idx]" with
        | .error e => .error e
        | .ok chunk' => catRowsChecked bm c n (i + 1) chunk' fu

/-- `categorical_transform` (fix NC06d): the filled staging array and the number of the first row of the chunk whose text
    equals none of the keys (`return first_unmatched`) -/
def categoricalTransformChecked (bm : ByteMap) (c : Chunk) : Except Err (List Int × Option Nat) :=
  withCol c true "column_inds[i_c]" (catRowsChecked bm c (c.inds.length - 1) 0 (List.replicate c.rows 0) none)

/-- what `CategoricalImporter.import_part` raises for a cell that is no category (a `ValueError` naming field, text, row) -/
def notACategory : Err := .valueError "is not one of the categories"

/-- `CategoricalImporter.import_part` (fix NC06d): `unmatched = ops.categorical_transform(…)`; `if unmatched != -1: raise
    ValueError(…)`; otherwise the chunk is written. (The message is built from `column_inds[col_idx, unmatched]`,
    `[…, unmatched + 1]` and the slice of `column_vals` between them — subscripts the kernel has just read.) -/
def categoricalImportPart (bm : ByteMap) (c : Chunk) : Except Err (List Int) :=
  match categoricalTransformChecked bm c with
  | .error e => .error e
  | .ok (_, some _) => .error notACategory
  | .ok (chunk, none) => .ok chunk

/-- `CategoricalImporter` (fix NC06d): the field's data after the given chunks, or the error of the first chunk that holds
    a cell which is no category -/
def categoricalImportChecked (cats : List (Bytes × Int)) : List Chunk → List Int → Except Err (List Int)
  | [], data => .ok data
  | c :: cs, data =>
    match categoricalImportPart (getByteMap cats) c with
    | .error e => .error e
    | .ok chunk => categoricalImportChecked cats cs (data ++ chunk)

/-! ## leaky_categorical_transform and LeakyCategoricalImporter -/

structure LeakyBuf where
  chunk : List Int      -- np.zeros(written_row_count)
  ftIdx : List Nat      -- freetext_indices_chunk : np.zeros(written_row_count + 1)
  ftVals : Bytes        -- freetext_values_chunk  : np.zeros(col_count)
  deriving Repr

/-- `dest[a : a + len src] = src` with both slices required to be in range (numpy would clamp and then reject the
    length mismatch) -/
def sliceAssign (dest : Bytes) (a : Nat) (src : Bytes) : Except Err Bytes :=
  if a + src.length ≤ dest.length then .ok (dest.take a ++ src ++ dest.drop (a + src.length))
  else .error (.oob "freetext_values[a:b]")

/-- `xs[a:b]` required to be in range -/
def sliceE (xs : Bytes) (a b : Nat) (site : String) : Except Err Bytes :=
  if b ≤ xs.length then .ok (slice xs a b) else .error (.oob site)

def leakyRows (bm : ByteMap) (c : Chunk) : (n i : Nat) → LeakyBuf → Except Err LeakyBuf
  | 0, _, st => .ok st
  | n + 1, i, st =>
    if i ≥ st.chunk.length then .ok st
    else
      match matchRow bm c i with
      | .error e => .error e
      | .ok (s, e', r) =>
        match getE st.ftIdx i "freetext_indices[row_idx]" with
        | .error e => .error e
        | .ok f =>
          match r with
          | some v =>
            match setE st.chunk i v "chunk[row_idx]" with
            | .error e => .error e
            | .ok chunk' =>
              match setE st.ftIdx (i + 1) f "freetext_indices[row_idx+1]" with
              | .error e => .error e
              | .ok idx' => leakyRows bm c n (i + 1) { st with chunk := chunk', ftIdx := idx' }
          | none =>
            match setE st.chunk i (-1) "chunk[row_idx]" with
            | .error e => .error e
            | .ok chunk' =>
              match setE st.ftIdx (i + 1) (f + (e' - s)) "freetext_indices[row_idx+1]" with
              | .error e => .error e
              | .ok idx' =>
                match sliceE c.vals (c.off + s) (c.off + e') "column_vals[col_offset+key_start:col_offset+key_end]" with
                | .error e => .error e
                | .ok src =>
                  match sliceAssign st.ftVals f src with
                  | .error e => .error e
                  | .ok vals' => leakyRows bm c n (i + 1) { chunk := chunk', ftIdx := idx', ftVals := vals' }

def leakyTransform (bm : ByteMap) (c : Chunk) : Except Err LeakyBuf :=
  withCol c true "column_inds[i_c]" (leakyRows bm c (c.inds.length - 1) 0
    { chunk := List.replicate c.rows 0, ftIdx := List.replicate (c.rows + 1) 0, ftVals := List.replicate c.cap 0 })

/-- the destination of a leaky categorical import: the categorical field, its `_freetext` companion (an indexed
    string: `indices` and `values`) and the importer's running offset -/
structure LeakyState where
  data : List Int
  ftIndices : List Nat
  ftValues : Bytes
  acc : Nat             -- freetext_index_accumulated
  deriving Repr

/-- `__init__`: `other_values_field.indices.write_part([0])` -/
def LeakyState.init : LeakyState := { data := [], ftIndices := [0], ftValues := [], acc := 0 }

/-- `LeakyCategoricalImporter.import_part` -/
def leakyImportPart (bm : ByteMap) (st : LeakyState) (c : Chunk) : Except Err LeakyState :=
  match leakyTransform bm c with
  | .error e => .error e
  | .ok buf =>
    match getE buf.ftIdx c.rows "freetext_indices_chunk[written_row_count]" with
    | .error e => .error e
    | .ok last =>
      .ok { data := st.data ++ buf.chunk
            ftIndices := st.ftIndices ++ (buf.ftIdx.map (· + st.acc)).tail
            ftValues := st.ftValues ++ buf.ftVals.take last
            acc := st.acc + last }

def leakyImport (cats : List (Bytes × Int)) : List Chunk → LeakyState → Except Err LeakyState
  | [], st => .ok st
  | c :: cs, st =>
    match leakyImportPart (getByteMap cats) st c with
    | .error e => .error e
    | .ok st' => leakyImport cats cs st'

/-! ## transform_to_values: the cells of a chunk as byte strings (`column_vals[start:end]` per row) -/

def cellsFrom (c : Chunk) : (n i : Nat) → Except Err (List Bytes)
  | 0, _ => .ok []
  | n + 1, i =>
    match getE c.inds i "column_inds[col_idx,row_idx]" with
    | .error e => .error e
    | .ok s =>
      match getE c.inds (i + 1) "column_inds[col_idx,row_idx+1]" with
      | .error e => .error e
      | .ok e' =>
        match sliceE c.vals (c.off + s) (c.off + e') "column_vals[start_idx:end_idx]" with
        | .error e => .error e
        | .ok cell =>
          match cellsFrom c n (i + 1) with
          | .error e => .error e
          | .ok rest => .ok (cell :: rest)

def cellsE (c : Chunk) : Except Err (List Bytes) :=
  withCol c (0 < c.rows) "column_inds[col_idx,row_idx]" (cellsFrom c c.rows 0)

/-! ## fixed_string_transform -/

/-- `for c in range(start_idx, end_idx): memory[a] = column_vals[c]; a += 1` -/
def copyBytes (vals : Bytes) : (n p a : Nat) → Bytes → Except Err Bytes
  | 0, _, _, mem => .ok mem
  | n + 1, p, a, mem =>
    match getE vals p "column_vals[c]" with
    | .error e => .error e
    | .ok b =>
      match setE mem a b "memory[a]" with
      | .error e => .error e
      | .ok mem' => copyBytes vals n (p + 1) (a + 1) mem'

def fixedRows (c : Chunk) (strlen : Nat) : (n i : Nat) → Bytes → Except Err Bytes
  | 0, _, mem => .ok mem
  | n + 1, i, mem =>
    match getE c.inds i "column_inds[col_idx,i]" with
    | .error e => .error e
    | .ok s =>
      match getE c.inds (i + 1) "column_inds[col_idx,i+1]" with
      | .error e => .error e
      | .ok e' =>
        let start := s + c.off
        let stop := min (e' + c.off) (start + strlen)
        match copyBytes c.vals (stop - start) start (i * strlen) mem with
        | .error e => .error e
        | .ok mem' => fixedRows c strlen n (i + 1) mem'

/-- the `S<strlen>` buffer of one chunk, flat -/
def fixedStringTransform (c : Chunk) (strlen : Nat) : Except Err Bytes :=
  withCol c (0 < c.rows) "column_inds[col_idx,i]" (fixedRows c strlen c.rows 0 (List.replicate (c.rows * strlen) 0))

def fixedImport (strlen : Nat) : List Chunk → Bytes → Except Err Bytes
  | [], data => .ok data
  | c :: cs, data =>
    match fixedStringTransform c strlen with
    | .error e => .error e
    | .ok m => fixedImport strlen cs (data ++ m)

/-! ## numeric_bool_transform -/

inductive Mode where
  | strict | allowEmpty | relaxed
  deriving Repr, DecidableEq

/-- `while byte_start_idx < length and column_vals[base + byte_start_idx] == 32: byte_start_idx += 1`
    (`n` = `length - byte_start_idx`) -/
def skipLead (vals : Bytes) (base : Nat) : (n s : Nat) → Except Err Nat
  | 0, s => .ok s
  | n + 1, s =>
    match getE vals (base + s) "column_vals[col_offset+row_start_idx+byte_start_idx]" with
    | .error e => .error e
    | .ok b => if b == Gen.boolBlank then skipLead vals base n (s + 1) else .ok s

/-- `while byte_end_idx >= 0 and column_vals[base + byte_end_idx] == 32: byte_end_idx -= 1`, with `e = byte_end_idx + 1` -/
def skipTrail (vals : Bytes) (base : Nat) : (e : Nat) → Except Err Nat
  | 0 => .ok 0
  | e + 1 =>
    match getE vals (base + e) "column_vals[col_offset+row_start_idx+byte_end_idx]" with
    | .error e => .error e
    | .ok b => if b == Gen.boolBlank then skipTrail vals base e else .ok (e + 1)

/-- does `val` pass the tests of one row of the literal table -/
def rowAccepts (row : Nat × List (List Nat) × Int) (val : Bytes) : Bool :=
  row.1 == val.length && row.2.1.length == val.length &&
    (List.zip row.2.1 val).all (fun ab => ab.1.contains ab.2)

/-- the `if actual_length == k: if … elif … else` cascade over a literal table: value of the first row that accepts -/
def boolLitIn (table : List (Nat × List (List Nat) × Int)) (val : Bytes) : Option Int :=
  (table.find? (fun row => rowAccepts row val)).map (·.2.2)

def boolLit (val : Bytes) : Option Int := boolLitIn Gen.boolLiterals val

/-- outcome of one cell: `(value, valid_input, empty)`; the subscripts are those of the two trimming loops and of the
    slice `val` -/
def boolCell (c : Chunk) (i : Nat) : Except Err (Option Int × Bool) :=
  match getE c.inds i "column_inds[col_idx,row_idx]" with
  | .error e => .error e
  | .ok s =>
    match getE c.inds (i + 1) "column_inds[col_idx,row_idx+1]" with
    | .error e => .error e
    | .ok e' =>
      let length := e' - s
      let base := c.off + s
      match skipLead c.vals base length 0 with
      | .error e => .error e
      | .ok bs =>
        match skipTrail c.vals base length with
        | .error e => .error e
        | .ok be =>
          if be ≤ bs then .ok (none, true)          -- actual_length <= 0 : empty
          else
            match sliceE c.vals (base + bs) (base + be) "column_vals[…:…+actual_length]" with
            | .error e => .error e
            | .ok val => .ok (boolLit val, false)

/-- `numeric_bool_transform`: `.ok (elements, validity)` — the rows the kernel has written, i.e. the first
    `written_row_count` elements of the two caller-supplied arrays, whose sizes are `capE = len(elements)` and
    `capV = len(validity)`: every row writes `elements[row_idx]` and then `validity[row_idx]` (checked against the
    capacities) BEFORE the validation mode is looked at. The two exception codes become the `Exception` that
    `raiseNumericException` raises. `invalid` is the truth value of `invalid_value` in the `bool` array. -/
def boolRows (c : Chunk) (mode : Mode) (invalid : Bool) (capE capV : Nat) :
    (n i : Nat) → List Bool → List Bool → Except Err (List Bool × List Bool)
  | 0, _, el, va => .ok (el, va)
  | n + 1, i, el, va =>
    match boolCell c i with
    | .error e => .error e
    | .ok (r, empty) =>
      if capE ≤ i then .error (.oob "elements[row_idx]")
      else if capV ≤ i then .error (.oob "validity[row_idx]")
      else
        match r with
        | some v => boolRows c mode invalid capE capV n (i + 1) (el ++ [v == 1]) (va ++ [true])
        | none =>
          -- exception_message 1 (empty, strict) / 2 (not parsable, strict or allow_empty): both raise `Exception`
          if mode = .strict then .error (.other "Exception")
          else if mode = .allowEmpty && !empty then .error (.other "Exception")
          else boolRows c mode invalid capE capV n (i + 1) (el ++ [invalid]) (va ++ [false])

def boolTransform (c : Chunk) (mode : Mode) (invalid : Bool) (capE capV : Nat) : Except Err (List Bool × List Bool) :=
  withCol c (0 < c.rows) "column_inds[col_idx,row_idx]" (boolRows c mode invalid capE capV c.rows 0 [] [])

/-- `NumericImporter.import_part` for `bool`: `elements = np.zeros(written_row_count)`,
    `validity = np.ones(written_row_count)` — both capacities are the chunk's row count -/
def boolImport (mode : Mode) (invalid : Bool) : List Chunk → List Bool × List Bool → Except Err (List Bool × List Bool)
  | [], st => .ok st
  | c :: cs, st =>
    match boolTransform c mode invalid c.rows c.rows with
    | .error e => .error e
    | .ok (el, va) => boolImport mode invalid cs (st.1 ++ el, st.2 ++ va)

/-! ## transform_int / transform_float: validation-mode branches, the parser is a parameter -/

/-- result of converting one text under a dtype: a value, not a number (`ValueError`), or out of the dtype's range
    (`OverflowError`; integers only) -/
inductive Parsed (V : Type) where
  | val (v : V) | bad | overflow
  deriving Repr, DecidableEq

def isSpaceByte (b : Nat) : Bool := b == 32 || (9 ≤ b && b ≤ 13)

/-- what reading an `S<width>` element back gives: trailing NULs are gone -/
def rstripNul (bs : Bytes) : Bytes := (bs.reverse.dropWhile (· == 0)).reverse

/-- `np.char.not_equal(elements, b'')` compares after dropping trailing whitespace and NULs -/
def npNonEmpty (bs : Bytes) : Bool := bs.any (fun b => !(isSpaceByte b || b == 0))

/-- `astype(data_type)` over the elements in order: the first failure raises -/
def astypeAll {V} (parse : Bytes → Parsed V) : List Bytes → Except Err (List V)
  | [] => .ok []
  | t :: ts =>
    match parse t with
    | .bad => .error (.valueError "cannot be converted")
    | .overflow => .error (.other "OverflowError")
    | .val v =>
      match astypeAll parse ts with
      | .error e => .error e
      | .ok vs => .ok (v :: vs)

/-- the `relaxed` loop: `int(elements[i])` / `float(elements[i])` under `try`, then the store into the typed array
    (which is where an out-of-range integer raises) -/
def relaxedAll {V} (parse : Bytes → Parsed V) (invalidVal : V) : List Bytes → Except Err (List V × List Bool)
  | [] => .ok ([], [])
  | t :: ts =>
    match parse t with
    | .overflow => .error (.other "OverflowError")
    | r =>
      match relaxedAll parse invalidVal ts with
      | .error e => .error e
      | .ok (vs, fs) =>
        match r with
        | .val v => .ok (v :: vs, true :: fs)
        | _ => .ok (invalidVal :: vs, false :: fs)

/-- `transform_int` / `transform_float` on the cells of one chunk. `invalidText` is `str(invalid_value).encode()`,
    `invalidVal` the value itself. (A chunk without rows gives empty arrays: D27, repaired by C05's fix of `widths.max()`.) -/
def transformNum {V} (parse : Bytes → Parsed V) (mode : Mode) (invalidText : Bytes) (invalidVal : V)
    (cells : List Bytes) : Except Err (List V × Option (List Bool)) :=
  let elements := cells.map rstripNul
  match mode with
  | .strict =>
    match astypeAll parse elements with
    | .error e => .error e
    | .ok vs => .ok (vs, none)
  | .allowEmpty =>
    let valids := elements.map npNonEmpty
    match astypeAll parse (elements.map (fun t => if npNonEmpty t then t else invalidText)) with
    | .error e => .error e
    | .ok vs => .ok (vs, some valids)
  | .relaxed =>
    match relaxedAll parse invalidVal elements with
    | .error e => .error e
    | .ok (vs, fs) => .ok (vs, some fs)

def numImport {V} (parse : Bytes → Parsed V) (mode : Mode) (invalidText : Bytes) (invalidVal : V) :
    List Chunk → List V × List Bool → Except Err (List V × List Bool)
  | [], st => .ok st
  | c :: cs, st =>
    match cellsE c with
    | .error e => .error e
    | .ok cells =>
      match transformNum parse mode invalidText invalidVal cells with
      | .error e => .error e
      | .ok (vs, fs) => numImport parse mode invalidText invalidVal cs (st.1 ++ vs, st.2 ++ fs.getD [])

/-! ### `int(b)` for a bytes object, base 10 (CPython `PyLong_FromString`) -/

def isDigit (b : Nat) : Bool := 48 ≤ b && b ≤ 57

/-- digits with single underscores between them; `prevDigit` says whether the previous byte was a digit -/
def digitsVal : Bytes → (acc : Nat) → (prevDigit : Bool) → Option Nat
  | [], acc, prev => if prev then some acc else none
  | b :: bs, acc, prev =>
    if isDigit b then digitsVal bs (acc * 10 + (b - 48)) true
    else if b == 95 && prev then
      match bs with
      | d :: _ => if isDigit d then digitsVal bs acc false else none
      | [] => none
    else none

def stripSpace (bs : Bytes) : Bytes := ((bs.dropWhile isSpaceByte).reverse.dropWhile isSpaceByte).reverse

def parseIntPy (bs : Bytes) : Option Int :=
  match stripSpace bs with
  | [] => none
  | 43 :: ds => (digitsVal ds 0 false).map (fun n => (n : Int))
  | 45 :: ds => (digitsVal ds 0 false).map (fun n => -(n : Int))
  | ds => (digitsVal ds 0 false).map (fun n => (n : Int))

/-- the integer parser of a dtype with range `[lo, hi]` -/
def parseIntRange (lo hi : Int) (bs : Bytes) : Parsed Int :=
  match parseIntPy bs with
  | none => .bad
  | some v => if lo ≤ v && v ≤ hi then .val v else .overflow

/-! ## parse_timestamp_bytes, DateTimeImporter, DateImporter -/

def isLeap (y : Int) : Bool := y % 4 == 0 && (y % 100 != 0 || y % 400 == 0)

def daysInMonth (y m : Int) : Int :=
  if m == 2 then (if isLeap y then 29 else 28)
  else if m == 4 || m == 6 || m == 9 || m == 11 then 30 else 31

/-- CPython `_days_before_year` -/
def daysBeforeYear (y : Int) : Int := (y - 1) * 365 + (y - 1) / 4 - (y - 1) / 100 + (y - 1) / 400

/-- CPython `_days_before_month` -/
def daysBeforeMonth (y m : Int) : Int :=
  let t : Int := match m with
    | 1 => 0 | 2 => 31 | 3 => 59 | 4 => 90 | 5 => 120 | 6 => 151 | 7 => 181 | 8 => 212 | 9 => 243 | 10 => 273
    | 11 => 304 | _ => 334
  t + (if m > 2 && isLeap y then 1 else 0)

/-- CPython `_ymd2ord`: 0001-01-01 is day 1 -/
def ymd2ord (y m d : Int) : Int := daysBeforeYear y + daysBeforeMonth y m + d

def epochOrd : Int := 719163   -- _ymd2ord(1970, 1, 1)

/-- `datetime(Y, M, D, h, mi, s, us, tzinfo=timezone(offset)).timestamp()` in microseconds; the constructor's range
    checks raise ValueError -/
def mkTimestamp (Y M D h mi s us offMin : Int) : Except Err Int :=
  if !(1 ≤ Y && Y ≤ 9999) then .error (.valueError "year out of range")
  else if !(1 ≤ M && M ≤ 12) then .error (.valueError "month must be in 1..12")
  else if !(1 ≤ D && D ≤ daysInMonth Y M) then .error (.valueError "day is out of range for month")
  else if !(0 ≤ h && h ≤ 23) then .error (.valueError "hour must be in 0..23")
  else if !(0 ≤ mi && mi ≤ 59) then .error (.valueError "minute must be in 0..59")
  else if !(0 ≤ s && s ≤ 59) then .error (.valueError "second must be in 0..59")
  else if !(0 ≤ us && us ≤ 999999) then .error (.valueError "microsecond must be in 0..999999")
  else .ok ((((ymd2ord Y M D - epochOrd) * 86400 + h * 3600 + mi * 60 + s - offMin * 60) * 1000000) + us)

/-- `int(value[a:b])` -/
def intAt (v : Bytes) (a b : Nat) : Except Err Int :=
  match parseIntPy (slice v a b) with
  | some n => .ok n
  | none => .error (.valueError "invalid literal for int()")

/-- the six leading fields every layout reads -/
def ymdhms (v : Bytes) : Except Err (Int × Int × Int × Int × Int × Int) :=
  match intAt v 0 4 with
  | .error e => .error e
  | .ok Y =>
    match intAt v 5 7 with
    | .error e => .error e
    | .ok M =>
      match intAt v 8 10 with
      | .error e => .error e
      | .ok D =>
        match intAt v 11 13 with
        | .error e => .error e
        | .ok h =>
          match intAt v 14 16 with
          | .error e => .error e
          | .ok mi =>
            match intAt v 17 19 with
            | .error e => .error e
            | .ok s => .ok (Y, M, D, h, mi, s)

/-- `parse_utc_offset_bytes` (D29 fix): minutes east of UTC written in the last six bytes `±HH:MM` -/
def utcOffsetMin (v : Bytes) : Except Err Int :=
  let n := v.length
  let sign := slice v (n - 6) (n - 5)
  if sign != [43] && sign != [45] then .error (.valueError "unexpected format")
  else
    match intAt v (n - 5) (n - 3) with
    | .error e => .error e
    | .ok hh =>
      match intAt v (n - 2) n with
      | .error e => .error e
      | .ok mm =>
        let off := hh * 60 + mm
        let off := if sign == [45] then -off else off
        -- timezone() requires |offset| < 24 h
        if -1440 < off && off < 1440 then .ok off else .error (.valueError "offset must be a timedelta strictly between")

/-- the six leading fields, the fraction `int(value[a:b]) * scale` (none when `a = b`) and the offset, in the order the
    `datetime(...)` call evaluates them -/
def stampWith (v : Bytes) (a b : Nat) (scale : Int) (off : Except Err Int) : Except Err Int :=
  match ymdhms v with
  | .error e => .error e
  | .ok (Y, M, D, h, mi, s) =>
    match (if a == b then .ok 0 else intAt v a b) with
    | .error e => .error e
    | .ok f =>
      match off with
      | .error e => .error e
      | .ok o => mkTimestamp Y M D h mi s (f * scale) o

/-- `parse_timestamp_bytes(value).timestamp()` in microseconds -/
def parseTimestamp (v : Bytes) : Except Err Int :=
  let n := v.length
  if slice v (n - 3) n == [85, 84, 67] then
    if n == 27 then stampWith v 20 23 1000 (.ok 0)
    else if n == 26 then stampWith v 20 22 10000 (.ok 0)
    else if n == 25 then stampWith v 20 22 100000 (.ok 0)
    else if n == 23 then stampWith v 0 0 0 (.ok 0)
    else .error (.valueError "unexpected format")
  else
    if n == 32 then stampWith v 20 26 1 (utcOffsetMin v)
    else if n == 25 then stampWith v 0 0 0 (utcOffsetMin v)
    else if n == 19 then stampWith v 0 0 0 (.ok 0)
    else .error (.valueError "unexpected format")

/-- zero-padded to `n` bytes after truncation (what an `S<n>` element holds) -/
def padTo (n : Nat) (bs : Bytes) : Bytes := bs.take n ++ List.replicate (n - bs.length) 0

/-- one cell of `DateTimeImporter.write_part`: `(timestamp µs, day text as S10, set flag)` -/
def datetimeCell (cell : Bytes) : Except Err (Int × Bytes × Bool) :=
  let v := stripSpace cell
  if v.isEmpty then .ok (0, padTo 10 [], false)
  else
    match parseTimestamp v with
    | .error e => .error e
    | .ok t => .ok (t, padTo 10 v, true)

/-- `%m` followed by `-`: regex `(1[0-2]|0[1-9]|[1-9])-`; returns the month and the rest -/
def strptimeMonth : Bytes → Option (Int × Bytes)
  | a :: 45 :: r => if 49 ≤ a && a ≤ 57 then some (((a - 48 : Nat) : Int), r) else none
  | a :: b :: 45 :: r =>
    if a == 49 && 48 ≤ b && b ≤ 50 then some (((10 + (b - 48) : Nat) : Int), r)
    else if a == 48 && 49 ≤ b && b ≤ 57 then some (((b - 48 : Nat) : Int), r)
    else none
  | _ => none

/-- `%d` up to the end of the text: regex `3[01]|[12]\d|0[1-9]|[1-9]| [1-9]` -/
def strptimeDay : Bytes → Option Int
  | [a] => if 49 ≤ a && a ≤ 57 then some ((a - 48 : Nat) : Int) else none
  | [a, b] =>
    if a == 51 && (b == 48 || b == 49) then some ((30 + (b - 48) : Nat) : Int)
    else if (a == 49 || a == 50) && isDigit b then some (((a - 48) * 10 + (b - 48) : Nat) : Int)
    else if (a == 48 || a == 32) && 49 ≤ b && b ≤ 57 then some ((b - 48 : Nat) : Int)
    else none
  | _ => none

/-- `datetime.strptime(text, '%Y-%m-%d')` on ASCII text: `(Y, M, D)` before range checking -/
def strptimeYmd (v : Bytes) : Option (Int × Int × Int) :=
  match v with
  | y1 :: y2 :: y3 :: y4 :: 45 :: rest =>
    if isDigit y1 && isDigit y2 && isDigit y3 && isDigit y4 then
      match strptimeMonth rest with
      | none => none
      | some (m, r) =>
        match strptimeDay r with
        | none => none
        | some d => some ((((y1 - 48) * 1000 + (y2 - 48) * 100 + (y3 - 48) * 10 + (y4 - 48) : Nat) : Int), m, d)
    else none
  | _ => none

/-- one cell of `DateImporter.write_part` -/
def dateCell (cell : Bytes) : Except Err (Int × Bytes × Bool) :=
  let v := stripSpace cell
  if v.isEmpty then .ok (0, padTo 10 [], false)
  else
    match strptimeYmd v with
    | none => .error (.valueError "does not match format '%Y-%m-%d'")
    | some (Y, M, D) =>
      match mkTimestamp Y M D 0 0 0 0 0 with
      | .error e => .error e
      | .ok t => .ok (t, padTo 10 v, true)

/-- all cells of one `write_part`, in order: the first failing cell raises -/
def cellsMapE {α} (f : Bytes → Except Err α) : List Bytes → Except Err (List α)
  | [] => .ok []
  | c :: cs =>
    match f c with
    | .error e => .error e
    | .ok a =>
      match cellsMapE f cs with
      | .error e => .error e
      | .ok as => .ok (a :: as)

/-- `DateTimeImporter` / `DateImporter` over chunks: main column, `_day`, `_set` -/
def timeImport (f : Bytes → Except Err (Int × Bytes × Bool)) :
    List Chunk → List Int × List Bytes × List Bool → Except Err (List Int × List Bytes × List Bool)
  | [], st => .ok st
  | c :: cs, st =>
    match cellsE c with
    | .error e => .error e
    | .ok cells =>
      match cellsMapE f cells with
      | .error e => .error e
      | .ok rs => timeImport f cs (st.1 ++ rs.map (·.1), st.2.1 ++ rs.map (·.2.1), st.2.2 ++ rs.map (·.2.2))

end Exetera.Transforms
