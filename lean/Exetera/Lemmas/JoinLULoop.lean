import Exetera.Lemmas.JoinLU
/-! Assembling the one-iteration lemmas of the left-unique kernels into the kernel loop (`_partial` call). -/
namespace Exetera.Join.LU
open Exetera Exetera.Spec Exetera.Join

variable {emit : Bool} {L R : List Int} {cs : Nat} {inv : Int}

/-- `leftLU` (left join) or `innerLU` (inner join) -/
def uvariant (emit : Bool) : Variant := if emit then .leftLU else .innerLU

theorem partialBody_u (emit : Bool) (p : P) (s : K) :
    partialBody (uvariant emit) p s = uniqueBody (uvariant emit) p s := by
  cases emit <;> rfl

/-- the left-join kernel tests `i < len(left)`, the inner-join kernel `i < i_max`; an untrimmed window is exactly the chunk -/
theorem partialGuard_u (emit : Bool) (p : P) (s : K) (h : p.left.length = p.iMax) :
    partialGuard (uvariant emit) p s = (decide (s.i < p.iMax) && decide (s.j < p.jMax) && decide (s.r < p.cap)) := by
  cases emit <;> simp [uvariant, partialGuard, h]

theorem uvariant_ltrim (emit : Bool) : (uvariant emit).ltrim = false := by cases emit <;> rfl
theorem uvariant_rtrim (emit : Bool) : (uvariant emit).rtrim = true := by cases emit <;> rfl
theorem uvariant_isLeft (emit : Bool) : (uvariant emit).isLeft = emit := by cases emit <;> rfl
theorem uvariant_hasL (emit : Bool) : (uvariant emit).hasL = true := by cases emit <;> rfl

/-- one iteration of a left-unique kernel preserves the global invariant and decreases both variants -/
theorem unique_step (hLs : L.Pairwise (· < ·)) (hR : Sorted R) (d : D) (hinv : UInv emit L R cs inv d)
    (hg : partialGuard (uvariant emit) (mkP L R cs inv d) d.k = true) :
    ∃ s', uniqueBody (uvariant emit) (mkP L R cs inv d) d.k = .ok s' ∧ UInv emit L R cs inv { d with k := s' } ∧
      ukmu { d with k := s' } < ukmu d ∧ ugmu L R { d with k := s' } < ugmu L R d := by
  have hL := sorted_of_strict hLs
  rw [partialGuard_u emit _ _ (by simp only [mkP, D.iMax]; exact hinv.llen)] at hg
  simp only [mkP, D.iMax, D.jMax, K.r, Bool.and_eq_true] at hg
  have hi := of_decide_eq_true hg.1.1
  have hj := of_decide_eq_true hg.1.2
  have hr := of_decide_eq_true hg.2
  obtain ⟨a, ha, hga⟩ := chunk_access hinv.lok hi "left[i]"
  obtain ⟨b, hb, hgb⟩ := chunk_access hinv.rok hj "right[j]"
  rcases Int.lt_trichotomy a b with hab | hab | hab
  · -- a < b
    cases emit with
    | true =>
      refine ⟨{ d.k with lb := d.k.lb ++ [↑(d.k.i + d.lch.lo)], rb := d.k.rb ++ [inv], i := d.k.i + 1 }, ?_, ?_⟩
      · simp [uniqueBody, uvariant, Variant.isLeft, mkP, hga, hgb, hab, push, hr, bind, Except.bind, pure, Except.pure]
      · exact step_lt hL hR hinv hi hr ha hb hab rfl rfl rfl rfl rfl rfl (by simp [D.I, Nat.add_comm]) (by simp)
    | false =>
      refine ⟨{ d.k with i := d.k.i + 1 }, ?_, ?_⟩
      · simp [uniqueBody, uvariant, Variant.isLeft, mkP, hga, hgb, hab, bind, Except.bind, pure, Except.pure]
      · exact step_lt hL hR hinv hi hr ha hb hab rfl rfl rfl rfl rfl rfl (by simp) (by simp)
  · -- a = b
    subst hab
    have hnlt : ¬ a < a := by omega
    by_cases hj1 : d.k.j + 1 < d.rch.hi - d.rch.lo
    · obtain ⟨b1, hb1, hgb1⟩ := chunk_access hinv.rok hj1 "right[j+1]"
      have hb1' : R[d.J + 1]? = some b1 := by rw [← hb1]; simp only [D.J]; congr 1
      have hnge : ¬ (d.rch.hi - d.rch.lo ≤ d.k.j + 1) := by omega
      by_cases hb1a : b1 = a
      · subst hb1a
        refine ⟨{ d.k with lb := d.k.lb ++ [↑(d.k.i + d.lch.lo)], rb := d.k.rb ++ [↑(d.k.j + d.rch.lo)], j := d.k.j + 1 }, ?_, ?_⟩
        · cases emit <;>
            simp [uniqueBody, uvariant, mkP, D.jMax, hga, hgb, hgb1, hnge, push, hr, bind, Except.bind, pure, Except.pure]
        · exact step_eq_stay hinv hj1 hr ha hb hb1' rfl rfl rfl rfl rfl rfl (by simp [D.I, Nat.add_comm]) (by simp [D.J, Nat.add_comm])
      · have hend : ∀ b, R[d.J + 1]? = some b → a < b := by
          intro b' hb'
          rw [hb1'] at hb'; cases hb'
          have := Sorted.le_get? hR (i := d.J) (j := d.J + 1) (by omega) hb hb1'
          omega
        refine ⟨{ d.k with lb := d.k.lb ++ [↑(d.k.i + d.lch.lo)], rb := d.k.rb ++ [↑(d.k.j + d.rch.lo)], i := d.k.i + 1, j := d.k.j + 1 }, ?_, ?_⟩
        · cases emit <;>
            simp [uniqueBody, uvariant, mkP, D.jMax, hga, hgb, hgb1, hnge, hb1a, push, hr, bind, Except.bind, pure, Except.pure]
        · exact step_eq_adv hLs hR hinv hi hj hr ha hb hend rfl rfl rfl rfl rfl rfl (by simp [D.I, Nat.add_comm]) (by simp [D.J, Nat.add_comm])
    · have hend : ∀ b, R[d.J + 1]? = some b → a < b := run_end hR hinv.rok hinv.rbd hj hj1 hb
      have hge : d.rch.hi - d.rch.lo ≤ d.k.j + 1 := by omega
      refine ⟨{ d.k with lb := d.k.lb ++ [↑(d.k.i + d.lch.lo)], rb := d.k.rb ++ [↑(d.k.j + d.rch.lo)], i := d.k.i + 1, j := d.k.j + 1 }, ?_, ?_⟩
      · cases emit <;>
          simp [uniqueBody, uvariant, mkP, D.jMax, hga, hgb, hge, push, hr, bind, Except.bind, pure, Except.pure]
      · exact step_eq_adv hLs hR hinv hi hj hr ha hb hend rfl rfl rfl rfl rfl rfl (by simp [D.I, Nat.add_comm]) (by simp [D.J, Nat.add_comm])
  · -- a > b
    refine ⟨{ d.k with j := d.k.j + 1 }, ?_, ?_⟩
    · have h1 : ¬ a < b := by omega
      cases emit <;> simp [uniqueBody, mkP, hga, hgb, h1, hab, bind, Except.bind, pure, Except.pure]
    · exact step_gt hinv hj ha hb hab rfl rfl rfl rfl rfl rfl rfl rfl

theorem ukmu_le_fuel (d : D) : ukmu d ≤ partialFuel (mkP L R cs inv d) := by
  simp only [ukmu, partialFuel, mkP, D.iMax, D.jMax]
  omega

/-- a whole `_partial` call: returns normally (no out-of-bounds access, within its fuel), keeps the global invariant,
    leaves its loop guard false, never increases the global variant and decreases it if it ran at all -/
theorem unique_partial (hLs : L.Pairwise (· < ·)) (hR : Sorted R) (d : D) (hinv : UInv emit L R cs inv d) :
    ∃ k', runPartial (uvariant emit) (mkP L R cs inv d) d.k = .ok k' ∧ UInv emit L R cs inv { d with k := k' } ∧
      partialGuard (uvariant emit) (mkP L R cs inv d) k' = false ∧
      ugmu L R { d with k := k' } ≤ ugmu L R d ∧
      (partialGuard (uvariant emit) (mkP L R cs inv d) d.k = true → ugmu L R { d with k := k' } < ugmu L R d) := by
  have hmk : ∀ s : K, mkP L R cs inv { d with k := s } = mkP L R cs inv d := fun s => rfl
  have key := whileE_rule (partialGuard (uvariant emit) (mkP L R cs inv d)) (partialBody (uvariant emit) (mkP L R cs inv d))
    (fun s => UInv emit L R cs inv { d with k := s } ∧ ugmu L R { d with k := s } ≤ ugmu L R d ∧
      (s ≠ d.k → ugmu L R { d with k := s } < ugmu L R d))
    (fun s => ukmu { d with k := s })
    (by
      intro s ⟨hI, hle, hne⟩ hg
      have := unique_step hLs hR { d with k := s } hI (by rw [hmk]; exact hg)
      obtain ⟨s', h1, h2, h3, h4⟩ := this
      rw [hmk] at h1
      refine ⟨s', by rw [partialBody_u]; exact h1, ⟨h2, ?_, ?_⟩, h3⟩
      · exact Nat.le_of_lt (Nat.lt_of_lt_of_le h4 hle)
      · intro _; exact Nat.lt_of_lt_of_le h4 hle)
    (partialFuel (mkP L R cs inv d)) d.k ⟨hinv, Nat.le_refl _, fun h => absurd rfl h⟩ (ukmu_le_fuel d)
  obtain ⟨k', h1, ⟨h2, h3, h4⟩, h5⟩ := key
  refine ⟨k', h1, h2, h5, h3, ?_⟩
  intro hg
  apply h4
  intro heq
  rw [heq] at h5
  rw [h5] at hg
  cases hg

end Exetera.Join.LU
