import Exetera.Lemmas.SpansScan
import Exetera.Lemmas.SpansApply
import Exetera.Lemmas.GroupByOrder
/-!
  Pure list lemmas behind C07:
  * `groupAdj` groups adjacent rows with equal keys; the spans of a column cut it exactly into these groups
    (`pairs_spans_eq_groupAdj`);
  * on a key-sorted list the groups are the distinct keys in ascending order, each with all the values of that key
    (`groupAdj_sorted`).
-/
namespace Exetera.GroupBy
open Exetera Exetera.Spec Exetera.Spans List

/-- adjacent rows with equal keys collected into one group, values in order -/
def groupAdj {K V} [DecidableEq K] : List (K × V) → List (K × List V)
  | [] => []
  | (k, v) :: rest =>
    match groupAdj rest with
    | [] => [(k, [v])]
    | (k', vs) :: gs => if k = k' then (k, v :: vs) :: gs else (k, [v]) :: (k', vs) :: gs

theorem groupAdj_eq_nil {K V} [DecidableEq K] : ∀ (l : List (K × V)), groupAdj l = [] → l = []
  | [], _ => rfl
  | (k, v) :: rest, h => by
    simp only [groupAdj] at h
    split at h
    · simp at h
    · split at h <;> simp at h

theorem groupAdj_head {K V} [DecidableEq K] : ∀ (l : List (K × V)), (groupAdj l).head?.map (·.1) = l.head?.map (·.1)
  | [] => rfl
  | (k, v) :: rest => by
    simp only [groupAdj]
    split
    · simp
    · split <;> simp

/-! ### spans cut a column into its adjacent groups -/

theorem spans_singleton {α} (ne : α → α → Bool) (x : α) : spans ne [x] = [0, 1] := by
  simp [spans, isBoundary]

theorem isBoundary_cons_succ {α} (ne : α → α → Bool) (x : α) (l : List α) (i : Nat) (hi : 1 ≤ i) :
    isBoundary ne (x :: l) (i + 1) = isBoundary ne l i := by
  obtain ⟨j, rfl⟩ : ∃ j, i = j + 1 := ⟨i - 1, by omega⟩
  rw [isBoundary_succ, isBoundary_succ]
  simp

/-- the spans of `x :: y :: rest` from the spans of `y :: rest` -/
theorem spans_cons_cons {α} (ne : α → α → Bool) (x y : α) (rest : List α) :
    spans ne (x :: y :: rest) =
      0 :: ((if ne x y then [1] else []) ++ ((spans ne (y :: rest)).tail).map (· + 1)) := by
  rw [spans_eq_range' ne (x :: y :: rest) (by simp), spans_eq_range' ne (y :: rest) (by simp)]
  simp only [length_cons, Nat.add_sub_cancel, tail_cons, map_append, map_cons, map_nil]
  rw [range'_succ, filter_cons]
  have h1 : isBoundary ne (x :: y :: rest) 1 = ne x y := by simp [isBoundary]
  have h2 : range' (1 + 1) rest.length = (range' 1 rest.length).map (· + 1) := by
    have := map_add_range' (a := 1) 1 rest.length 1
    rw [← this]; apply map_congr_left; intro a _; omega
  rw [h1, h2, filter_map]
  have h3 : filter (isBoundary ne (x :: y :: rest) ∘ fun x => x + 1) (range' 1 rest.length) =
      filter (isBoundary ne (y :: rest)) (range' 1 rest.length) := by
    apply filter_congr
    intro i hi
    rw [mem_range'_1] at hi
    exact isBoundary_cons_succ ne x (y :: rest) i hi.1
  rw [h3]
  split <;> simp

theorem pairs_cons_cons (a b : Nat) (l : List Nat) : pairs (a :: b :: l) = (a, b) :: pairs (b :: l) := rfl

theorem pairs_map_succ (l : List Nat) : pairs (l.map (· + 1)) = (pairs l).map (fun p => (p.1 + 1, p.2 + 1)) := by
  unfold pairs
  rw [← map_tail, zip_map]
  rfl

theorem slice_cons_succ {α} (t : α) (T : List α) (a b : Nat) : slice (t :: T) (a + 1) (b + 1) = slice T a b := by
  simp [slice]

theorem slice_cons_zero {α} (t : α) (T : List α) (b : Nat) : slice (t :: T) 0 (b + 1) = t :: slice T 0 b := by
  simp [slice]

theorem spans_shape {α} (ne : α → α → Bool) (y : α) (rest : List α) : ∃ b S, spans ne (y :: rest) = 0 :: b :: S := by
  rw [spans_eq_range' ne (y :: rest) (by simp)]
  cases h : filter (isBoundary ne (y :: rest)) (range' 1 ((y :: rest).length - 1)) with
  | nil => exact ⟨_, [], rfl⟩
  | cons b S => exact ⟨b, S ++ [(y :: rest).length], rfl⟩

/-- **spans = adjacent groups**: cutting key column `xs` and value column `T` at the spans of `xs` gives, span by
    span, the key and the values of the adjacent groups of `xs.zip T` -/
theorem pairs_spans_eq_groupAdj {K V} [DecidableEq K] [BEq K] [LawfulBEq K] : ∀ (xs : List K) (T : List V), T.length = xs.length →
    (pairs (spans neq xs)).map (fun p => (xs[p.1]?, slice T p.1 p.2)) =
      (groupAdj (xs.zip T)).map (fun g => (some g.1, g.2))
  | [], T, _ => by simp [spans, pairs, groupAdj]
  | [x], [t], _ => by simp [spans_singleton, pairs, groupAdj, slice]
  | [_], [], h => by simp at h
  | [_], _ :: _ :: _, h => by simp at h
  | _ :: _ :: _, [], h => by simp at h
  | x :: y :: rest, t :: T, h => by
    have hT : T.length = (y :: rest).length := by simpa using h
    have ih := pairs_spans_eq_groupAdj (y :: rest) T hT
    obtain ⟨b, S, hS⟩ := spans_shape (neq (α := K)) y rest
    rw [spans_cons_cons, hS]
    rw [hS] at ih
    simp only [tail_cons, map_cons]
    -- the first group of the tail
    cases hg : groupAdj ((y :: rest).zip T) with
    | nil => have := groupAdj_eq_nil _ hg; cases T <;> simp at this hT
    | cons g gs =>
      obtain ⟨k', vs⟩ := g
      rw [hg, pairs_cons_cons, map_cons, map_cons] at ih
      simp only [getElem?_cons_zero, cons.injEq, Prod.mk.injEq, Option.some.injEq] at ih
      obtain ⟨⟨hk, hvs⟩, ihrest⟩ := ih
      have hshift : ∀ (l : List (Nat × Nat)),
          (l.map (fun p => (p.1 + 1, p.2 + 1))).map (fun p => ((x :: y :: rest)[p.1]?, slice (t :: T) p.1 p.2)) =
            l.map (fun p => ((y :: rest)[p.1]?, slice T p.1 p.2)) := by
        intro l
        rw [map_map]
        apply map_congr_left
        intro p _
        simp [slice_cons_succ]
      have hgrp : groupAdj ((x :: y :: rest).zip (t :: T)) =
          if x = k' then (x, t :: vs) :: gs else (x, [t]) :: (k', vs) :: gs := by
        simp only [zip_cons_cons, groupAdj, hg]
      rw [hgrp]
      by_cases hxy : x = y
      · subst hxy
        have hne : neq x x = false := by simp [neq]
        simp only [hne, Bool.false_eq_true, if_false, nil_append, hk.symm, if_true]
        rw [pairs_cons_cons, map_cons]
        have : pairs ((b + 1) :: map (· + 1) S) = (pairs (b :: S)).map (fun p => (p.1 + 1, p.2 + 1)) := by
          rw [← pairs_map_succ]; rfl
        rw [this, hshift, ihrest]
        simp [slice_cons_zero, hvs]
      · have hne : neq x y = true := by simp [neq, hxy]
        have hxk : ¬ x = k' := by rw [← hk]; exact hxy
        simp only [hne, if_true, hxk, if_false, singleton_append]
        rw [pairs_cons_cons, map_cons]
        have : pairs (1 :: (b + 1) :: map (· + 1) S) = (pairs (0 :: b :: S)).map (fun p => (p.1 + 1, p.2 + 1)) := by
          rw [← pairs_map_succ]; rfl
        rw [this, hshift, pairs_cons_cons, map_cons, ihrest]
        have hvs' : take b T = vs := by simpa [slice] using hvs
        simp [slice, hk, hvs']

end Exetera.GroupBy
