import Exetera.Model.Basic
/-! The one generic total-correctness rule for `whileE`: invariant + variant ⇒ terminates in `.ok`, invariant holds,
    guard false. Every kernel needs only a one-iteration lemma. -/
namespace Exetera

theorem whileE_rule {σ} (guard : σ → Bool) (body : σ → Except Err σ)
    (Inv : σ → Prop) (μ : σ → Nat)
    (step : ∀ s, Inv s → guard s = true → ∃ s', body s = .ok s' ∧ Inv s' ∧ μ s' < μ s) :
    ∀ (n : Nat) (s : σ), Inv s → μ s ≤ n →
      ∃ s', whileE guard body n s = .ok s' ∧ Inv s' ∧ guard s' = false := by
  intro n
  induction n with
  | zero =>
    intro s hI hμ
    cases hg : guard s with
    | false => exact ⟨s, by simp [whileE, hg], hI, hg⟩
    | true =>
      obtain ⟨s', _, _, hlt⟩ := step s hI hg
      omega
  | succ n ih =>
    intro s hI hμ
    cases hg : guard s with
    | false => exact ⟨s, by simp [whileE, hg], hI, hg⟩
    | true =>
      obtain ⟨s', hb, hI', hlt⟩ := step s hI hg
      obtain ⟨s'', hw, hI'', hg''⟩ := ih s' hI' (by omega)
      exact ⟨s'', by simp [whileE, hg, hb, hw], hI'', hg''⟩

/-- more fuel never changes an `.ok` result -/
theorem whileE_mono {σ} (guard : σ → Bool) (body : σ → Except Err σ) :
    ∀ (n : Nat) (s s' : σ), whileE guard body n s = .ok s' → ∀ m, n ≤ m → whileE guard body m s = .ok s' := by
  intro n
  induction n with
  | zero =>
    intro s s' h m _
    cases hg : guard s with
    | true => simp [whileE, hg] at h
    | false =>
      simp [whileE, hg] at h
      subst h
      cases m <;> simp [whileE, hg]
  | succ n ih =>
    intro s s' h m hm
    cases m with
    | zero => omega
    | succ m =>
      cases hg : guard s with
      | false => simp [whileE, hg] at h ⊢; exact h
      | true =>
        simp only [whileE, hg, if_true] at h ⊢
        cases hb : body s with
        | error e => simp [hb] at h
        | ok s1 =>
          simp only [hb] at h ⊢
          exact ih s1 s' h m (by omega)

/-- an `.ok` result of a loop falsifies the guard -/
theorem whileE_guard_false {σ} (guard : σ → Bool) (body : σ → Except Err σ) :
    ∀ (n : Nat) (s s' : σ), whileE guard body n s = .ok s' → guard s' = false := by
  intro n
  induction n with
  | zero =>
    intro s s' h
    cases hg : guard s with
    | true => simp [whileE, hg] at h
    | false => simp [whileE, hg] at h; subst h; exact hg
  | succ n ih =>
    intro s s' h
    cases hg : guard s with
    | false => simp [whileE, hg] at h; subst h; exact hg
    | true =>
      simp only [whileE, hg, if_true] at h
      cases hb : body s with
      | error e => simp [hb] at h
      | ok s1 => simp only [hb] at h; exact ih s1 s' h

end Exetera
