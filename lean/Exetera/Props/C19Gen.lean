import Exetera.Props.C19
import Exetera.Lemmas.GenKernelsJoinFlat
import Exetera.Lemmas.GenKernelsJoinSize
import Exetera.Lemmas.GenKernelsJoinInnerLU
import Exetera.Lemmas.GenKernelsJoinInnerG
import Exetera.Lemmas.GenKernelsJoinOld
import Exetera.Lemmas.GenKernelsMapOld
import Exetera.Lemmas.GenKernelsChunks
/-!
  C19 over the TRANSLATED flat left-map kernels (`Gen/Kernels.lean`, regenerated from operations.py by tools/translate_njit.py on
  every run): `generate_ordered_map_to_left_both_unique`, `generate_ordered_map_to_left_right_unique`,
  `ordered_inner_map_both_unique`.

  * `gen_*_flat_ok` (transfer form): every `.ok` run of the guard/body model `generateLeft` is a run of the translated kernel
    (for every fuel ≥ len(first) + len(second)) with the same flag and the same `result` array. Transfer rather than `Sim`: the
    model keeps the written part of `result` as a list and checks capacity, the translation stores into the caller's array.
  * `gen_*_flat_eq`: the property statements `C19.left_both_unique_flat_eq` / `left_right_unique_flat_eq` for the translated
    kernels themselves.
-/
namespace Exetera.Props.C19Gen
open Exetera Exetera.Spec Exetera.Join Exetera.JoinFlat Exetera.GenK Exetera.Gen.Kernels

theorem gen_left_both_unique_flat_ok (first second result : List Int) (inv : Int) (r : Bool × List Int) (fuel : Nat)
    (hf : first.length + second.length ≤ fuel) (h : generateLeft true first second result inv = .ok r) :
    generate_ordered_map_to_left_both_unique.run first second result inv fuel = .ok r :=
  left_both_unique_flat_ok first second result inv r fuel hf h

theorem gen_left_right_unique_flat_ok (first second result : List Int) (inv : Int) (r : Bool × List Int) (fuel : Nat)
    (hf : first.length + second.length ≤ fuel) (h : generateLeft false first second result inv = .ok r) :
    generate_ordered_map_to_left_right_unique.run first second result inv fuel = .ok r :=
  left_right_unique_flat_ok first second result inv r fuel hf h

/-- both columns duplicate-free: the translated kernel returns normally (no subscript out of range or negative, both loops end
    within the fuel) and `result` is the right column of the relational left join -/
theorem gen_left_both_unique_flat_eq {L R : List Int} (result : List Int) (inv : Int) (hL : L.Pairwise (· < ·))
    (hR : R.Pairwise (· < ·)) (hres : result.length = L.length) (fuel : Nat) (hf : L.length + R.length ≤ fuel) :
    ∃ u, generate_ordered_map_to_left_both_unique.run L R result inv fuel = .ok (u, encR inv (leftJoin L R)) := by
  obtain ⟨u, hu⟩ := C19.left_both_unique_flat_eq result inv hL hR hres
  exact ⟨u, left_both_unique_flat_ok L R result inv _ fuel hf hu⟩

/-- sorted left keys, duplicate-free right column -/
theorem gen_left_right_unique_flat_eq {L R : List Int} (result : List Int) (inv : Int) (hL : Sorted L)
    (hR : R.Pairwise (· < ·)) (hres : result.length = L.length) (fuel : Nat) (hf : L.length + R.length ≤ fuel) :
    ∃ u, generate_ordered_map_to_left_right_unique.run L R result inv fuel = .ok (u, encR inv (leftJoin L R)) := by
  obtain ⟨u, hu⟩ := C19.left_right_unique_flat_eq result inv hL hR hres
  exact ⟨u, left_right_unique_flat_ok L R result inv _ fuel hf hu⟩

example : generate_ordered_map_to_left_both_unique.run [1, 3, 5] [3, 4, 5] [9, 9, 9] (-1) 6 = .ok (true, [-1, 0, 2]) := rfl
example : generate_ordered_map_to_left_right_unique.run [1, 3, 3, 5] [3, 4] [9, 9, 9, 9] (-1) 6 = .ok (true, [-1, 0, 0, -1]) := rfl
example : generateLeft false [1, 3, 3, 5] [3, 4] [9, 9, 9, 9] (-1) = .ok (true, [-1, 0, 0, -1]) := rfl
example : ([1, 3, 5] : List Int).Pairwise (· < ·) ∧ ([3, 4, 5] : List Int).Pairwise (· < ·) := by decide

/-! ## ordered_inner_map_both_unique (no `return`: the result is the pair of map arrays) -/

theorem gen_inner_map_both_unique_flat_ok (left right l2i r2i : List Int) (r : List Int × List Int) (fuel : Nat)
    (hf : left.length + right.length ≤ fuel) (h : orderedInnerMap false false left right l2i r2i = .ok r) :
    ordered_inner_map_both_unique.run left right l2i r2i fuel = .ok r :=
  inner_map_both_unique_flat_ok left right l2i r2i r fuel hf h

/-- both columns duplicate-free, arrays at least as long as the join: the translated kernel returns normally and the two arrays
    list exactly the matching pairs in (left, right) order, the rest of the arrays untouched -/
theorem gen_inner_map_both_unique_flat_eq {L R : List Int} (l2i r2i : List Int) (hL : L.Pairwise (· < ·))
    (hR : R.Pairwise (· < ·)) (hl : (innerJoin L R).length ≤ l2i.length) (hr : (innerJoin L R).length ≤ r2i.length)
    (fuel : Nat) (hf : L.length + R.length ≤ fuel) :
    ordered_inner_map_both_unique.run L R l2i r2i fuel =
      .ok ((encodeInner (innerJoin L R)).1 ++ l2i.drop (innerJoin L R).length,
           (encodeInner (innerJoin L R)).2 ++ r2i.drop (innerJoin L R).length) :=
  inner_map_both_unique_flat_ok L R l2i r2i _ fuel hf (C19.inner_map_both_unique_flat_eq l2i r2i hL hR hl hr)

example : ordered_inner_map_both_unique.run [1, 3, 5] [3, 4, 5] [9, 9, 9] [8, 8] 6 = .ok ([1, 2, 9], [0, 2]) := rfl

/-! ## ordered_inner_map_result_size (outer `while`, two run-counting `while` loops with subscripting conditions) -/

theorem gen_inner_result_size_ok (left right : List Int) (r fuel : Nat) (hfuel : left.length + right.length ≤ fuel)
    (h : innerResultSize left right = .ok r) :
    ordered_inner_map_result_size.run left right fuel = .ok (r : Int) :=
  ordered_inner_map_result_size_ok left right r fuel hfuel h

/-- the statement of `C19.inner_result_size_eq` for the translated kernel: on sorted keys it returns normally (no subscript out of
    range or negative, all three loops finish within `len(left) + len(right)` steps) the number of matching pairs -/
theorem gen_inner_result_size_eq {L R : List Int} (hL : Sorted L) (hR : Sorted R) (fuel : Nat) (hfuel : L.length + R.length ≤ fuel) :
    ordered_inner_map_result_size.run L R fuel = .ok (((innerJoin L R).length : Nat) : Int) :=
  ordered_inner_map_result_size_ok L R _ fuel hfuel (C19.inner_result_size_eq hL hR)

example : ordered_inner_map_result_size.run [1, 1, 2, 4, 4, 5] [1, 2, 2, 4, 6] 11 = .ok 6 := by decide

/-! ## ordered_inner_map_left_unique / ordered_inner_map (run-counting `while` loops, the block written by `for` loops) -/

theorem gen_inner_map_left_unique_flat_ok (left right l2i r2i : List Int) (r : List Int × List Int) (fuel : Nat)
    (hf : left.length + right.length ≤ fuel) (h : orderedInnerMap false true left right l2i r2i = .ok r) :
    ordered_inner_map_left_unique.run left right l2i r2i fuel = .ok r :=
  inner_map_left_unique_flat_ok left right l2i r2i r fuel hf h

theorem gen_inner_map_flat_ok (left right l2i r2i : List Int) (r : List Int × List Int) (fuel : Nat)
    (hf : left.length + right.length ≤ fuel) (h : orderedInnerMap true true left right l2i r2i = .ok r) :
    ordered_inner_map.run left right l2i r2i fuel = .ok r :=
  inner_map_flat_ok left right l2i r2i r fuel hf h

/-- duplicate-free left column, arrays at least as long as the join: the translated `ordered_inner_map_left_unique` returns normally
    and the two arrays list exactly the matching pairs in (left, right) order, the rest of the arrays untouched -/
theorem gen_inner_map_left_unique_flat_eq {L R : List Int} (l2i r2i : List Int) (hL : L.Pairwise (· < ·)) (hR : Sorted R)
    (hl : (innerJoin L R).length ≤ l2i.length) (hr : (innerJoin L R).length ≤ r2i.length)
    (fuel : Nat) (hf : L.length + R.length ≤ fuel) :
    ordered_inner_map_left_unique.run L R l2i r2i fuel =
      .ok ((encodeInner (innerJoin L R)).1 ++ l2i.drop (innerJoin L R).length,
           (encodeInner (innerJoin L R)).2 ++ r2i.drop (innerJoin L R).length) :=
  inner_map_left_unique_flat_ok L R l2i r2i _ fuel hf (C19.inner_map_left_unique_flat_eq l2i r2i hL hR hl hr)

/-- the general kernel (both columns may repeat), same statement -/
theorem gen_inner_map_flat_eq {L R : List Int} (l2i r2i : List Int) (hL : Sorted L) (hR : Sorted R)
    (hl : (innerJoin L R).length ≤ l2i.length) (hr : (innerJoin L R).length ≤ r2i.length)
    (fuel : Nat) (hf : L.length + R.length ≤ fuel) :
    ordered_inner_map.run L R l2i r2i fuel =
      .ok ((encodeInner (innerJoin L R)).1 ++ l2i.drop (innerJoin L R).length,
           (encodeInner (innerJoin L R)).2 ++ r2i.drop (innerJoin L R).length) :=
  inner_map_flat_ok L R l2i r2i _ fuel hf (C19.inner_map_flat_eq l2i r2i hL hR hl hr)

example : ordered_inner_map.run [1, 1, 2, 4, 4, 5] [1, 2, 2, 4, 6] [9, 9, 9, 9, 9, 9, 9] [8, 8, 8, 8, 8, 8] 11
    = .ok ([0, 1, 2, 2, 3, 4, 9], [0, 0, 1, 2, 3, 3]) := rfl
example : ordered_inner_map_left_unique.run [1, 2, 4] [1, 2, 2, 4, 6] [9, 9, 9, 9, 9] [8, 8, 8, 8] 8
    = .ok ([0, 1, 1, 2, 9], [0, 1, 2, 3]) := rfl

end Exetera.Props.C19Gen

/-! ## KT4C — the two `_old` kernels of the legacy streamed forms of `Session.ordered_merge_left / _right`

  `generate_ordered_map_to_left_right_unique_partial_old` (called by `generate_ordered_map_to_left_right_unique_streamed_old`) and
  `ordered_map_valid_partial_old` (called by `ordered_map_valid_stream_old`; a function that ends in `while True:` and is left by
  `return` only). `gen_*_ok`: transfer from the hand models `JoinOld.runPartialOld` / `JoinOld.partialOldMap`; `gen_*_call`: the
  lemma the driver proofs rest on (`runPartialOld_spec`, `partialOldMapFrom_spec`), restated for the translated kernel. -/
namespace Exetera.Props.C19Gen
open Exetera Exetera.Spec Exetera.Join Exetera.JoinFlat Exetera.JoinOld Exetera.GenK Exetera.Gen.Kernels

/-- every `.ok` run of the model `runPartialOld` (capacity = length of the caller's scratch array) is a run of the translated
    kernel for every fuel ≥ len(left) + len(right): same `(i, j, unmapped)`, the scratch array = the model's written prefix
    followed by the caller's untouched entries -/
theorem gen_lru_partial_old_ok (dj : Nat) (left right result : List Int) (inv : Int) (t : PO) (fuel : Nat)
    (hf : left.length + right.length ≤ fuel) (h : runPartialOld dj left right result.length inv = .ok t) :
    generate_ordered_map_to_left_right_unique_partial_old.run (dj : Int) left right result inv fuel
      = .ok ((t.i : Int), (t.j : Int), (t.unmapped : Int), t.buf ++ result.drop t.buf.length) :=
  lru_partial_old_ok dj left right result inv t fuel hf h

/-- **one call of the translated `…_partial_old` kernel as the legacy driver makes it** (driver invariant `SInv`: the views are
    the unconsumed parts of the current chunks, sorted left keys, duplicate-free right keys, a scratch array of `chunksize`
    slots): no subscript out of range or negative, it ends within len(lc) + len(rc) iterations with one of the two views
    consumed, and driver output + the written prefix of the scratch array is the left join of the consumed left rows (`KInv`) -/
theorem gen_lru_partial_old_call {L R : List Int} {cs : Nat} {inv : Int} {s : SO} (ltri : List Int) (hcap : ltri.length = cs)
    (hL : Sorted L) (hR : R.Pairwise (· < ·)) (hS : SInv L R cs inv s) (fuel : Nat) (hf : s.lc.length + s.rc.length ≤ fuel) :
    ∃ p : PO, generate_ordered_map_to_left_right_unique_partial_old.run (s.j : Int) s.lc s.rc ltri inv fuel
        = .ok ((p.i : Int), (p.j : Int), (p.unmapped : Int), p.buf ++ ltri.drop p.buf.length) ∧
      KInv L R inv s p ∧ (p.i = s.lc.length ∨ p.j = s.rc.length) := by
  obtain ⟨p, hrun, hK, hend⟩ := runPartialOld_spec (cs := cs) (inv := inv) hL hR hS
  rw [← hcap] at hrun
  exact ⟨p, lru_partial_old_ok s.j s.lc s.rc ltri inv p fuel hf hrun, hK, hend⟩

example : generate_ordered_map_to_left_right_unique_partial_old.run 10 [1, 2, 2, 5] [2, 3, 5] [7, 7, 7, 7, 7] (-1) 7
    = .ok (4, 2, 1, [-1, 10, 10, 12, 7]) := rfl
example : runPartialOld 10 [1, 2, 2, 5] [2, 3, 5] 5 (-1) = .ok ⟨4, 2, 1, [-1, 10, 10, 12]⟩ := by decide

/-- every `.ok` run of the model `partialOldMap` (numeric column, the zeroed scratch array of `cap` slots the driver hands over) is
    a run of the translated kernel for every fuel ≥ len(map_field), provided no valid map entry lies below the window start `d`
    (the model wraps the negative subscript `data_field[val - d]`, the translation rejects it): it returns
    `(len(values), val)` and the scratch array holds the model's values followed by the untouched zeros -/
theorem gen_map_valid_partial_old_ok (d : Nat) (dfc mfc : List Int) (inv : Int) (cap : Nat) (r : List Int × Int) (fuel : Nat)
    (hf : mfc.length ≤ fuel) (hpos : ∀ v ∈ mfc, v ≠ inv → (d : Int) ≤ v)
    (h : partialOldMap d dfc mfc inv (0 : Int) cap = .ok r) :
    ordered_map_valid_partial_old.run (d : Int) dfc mfc (List.replicate cap 0) inv fuel
      = .ok ((r.1.length : Int), r.2, MapOld.bufOf cap r.1) :=
  map_valid_partial_old_ok d dfc mfc inv cap r fuel hf hpos h

/-- **one call of the translated `ordered_map_valid_partial_old` as the legacy mapper makes it** (data view
    `dfc = data[d : d + len(dfc)]`, a non-empty map chunk that fits the zeroed scratch array, every valid entry a row of `data` not
    below the view): no subscript out of range or negative; it returns the number `n` of map entries consumed and the last
    entry looked at; the first `n` slots of the scratch array are the specified values (`Spec.mapSpec`) of the first `n` entries,
    the rest is untouched; either the whole chunk was consumed (and the last entry is the marker or a row of the view) or it
    stopped at a valid entry beyond the view and returns it -/
theorem gen_map_valid_partial_old_call (data : List Int) (d : Nat) (dfc mfc : List Int) (inv : Int) (cap : Nat)
    (hw : DWin data d dfc) (hne : mfc ≠ []) (hr : ∀ v ∈ mfc, v ≠ inv → (d : Int) ≤ v ∧ v < data.length)
    (hcap : mfc.length ≤ cap) (fuel : Nat) (hf : mfc.length ≤ fuel) :
    ∃ (ys : List Int) (last : Int),
      ordered_map_valid_partial_old.run (d : Int) dfc mfc (List.replicate cap 0) inv fuel
        = .ok ((ys.length : Int), last, ys ++ List.replicate (cap - ys.length) 0) ∧
      ys.length ≤ mfc.length ∧ mapSpec data inv 0 (mfc.take ys.length) = some ys ∧
      ((ys.length = mfc.length ∧ (last = inv ∨ last < ((d + dfc.length : Nat) : Int))) ∨
        (∃ v, mfc[ys.length]? = some v ∧ v ≠ inv ∧ ((d + dfc.length : Nat) : Int) ≤ v ∧ last = v)) := by
  cases mfc with
  | nil => exact absurd rfl hne
  | cons v vs =>
    obtain ⟨ys, last, hrun, hle, hspec, hcase⟩ :=
      partialOldMapFrom_spec data d dfc inv (0 : Int) cap hw (v :: vs) [] v hr (by simpa using hcap)
    have hm : partialOldMap d dfc (v :: vs) inv (0 : Int) cap = .ok (ys, last) := by
      simpa [partialOldMap] using hrun
    have hg := map_valid_partial_old_ok d dfc (v :: vs) inv cap (ys, last) fuel hf (fun u hu hui => (hr u hu hui).1) hm
    refine ⟨ys, last, ?_, hle, hspec, ?_⟩
    · rw [hg, MapOld.bufOf_of_le cap ys (by omega)]
    · rcases hcase with ⟨h1, _, h3⟩ | h
      · exact Or.inl ⟨h1, h3 (by simp)⟩
      · exact Or.inr h

example : ordered_map_valid_partial_old.run 2 [30, 40, 50] [2, -1, 4, 4, 7] [0, 0, 0, 0, 0, 0] (-1) 5
    = .ok (4, 7, [30, 0, 50, 50, 0, 0]) := rfl
example : partialOldMap 2 [30, 40, 50] [2, -1, 4, 4, 7] (-1) (0 : Int) 6 = .ok ([30, 0, 50, 50], 7) := by decide
example : DWin [10, 20, 30, 40, 50, 60, 70, 80] 2 [30, 40, 50] := ⟨by decide, fun k hk => by
  rcases k with _ | _ | _ | k <;> simp at hk ⊢
  omega⟩

end Exetera.Props.C19Gen

/-! ## KT4C — the generator `chunks(length, chunksize)` the legacy streamed drivers iterate over

  A generator is translated as the function returning the lists of the values it yields until exhaustion (starts, ends).
  `GenK.chunkList` iterates the hand model `JoinOld.nextRange` (`next(it)`), which the driver models of C19 call. -/
namespace Exetera.Props.C19Gen
open Exetera Exetera.JoinOld Exetera.GenK Exetera.Gen.Kernels

/-- for every length and every `chunksize ≥ 1` the translated generator is exhausted within `length` iterations and yields exactly
    the ranges obtained by iterating the hand model `nextRange` from 0 -/
theorem gen_chunks_eq (len cs : Nat) (hcs : 1 ≤ cs) (fuel : Nat) (hf : len ≤ fuel) :
    chunks.run (len : Int) (cs : Int) fuel
      = .ok ((chunksOf len cs).map (fun p => (p.1 : Int)), (chunksOf len cs).map (fun p => (p.2 : Int))) :=
  chunks_run_eq len cs hcs fuel hf

/-- a length that is not positive yields nothing (any chunk size, any fuel) -/
theorem gen_chunks_empty (len cs : Int) (hlen : len ≤ 0) (fuel : Nat) : chunks.run len cs fuel = .ok ([], []) :=
  chunks_run_empty len cs hlen fuel

/-- **the yielded ranges partition `[0, length)`**: read one after the other they enumerate the rows `0, …, length - 1` exactly
    once and in order, and every range is non-empty, at most `chunksize` long and inside the column -/
theorem gen_chunks_partition (len cs : Nat) (hcs : 1 ≤ cs) :
    (chunksOf len cs).flatMap (fun p => List.range' p.1 (p.2 - p.1)) = List.range len ∧
      ∀ p ∈ chunksOf len cs, p.1 < p.2 ∧ p.2 ≤ p.1 + cs ∧ p.2 ≤ len := by
  refine ⟨?_, fun p hp => (chunkList_bounds len cs hcs len 0 p hp).2⟩
  rw [chunksOf, chunkList_partition len cs hcs len 0 (Nat.zero_le _) (by omega), List.range_eq_range']
  rfl

/-- the first range is what the drivers' `next(it, (0, 0))` returns, and each further one is `nextRange` at the previous end -/
example (len cs n cur : Nat) :
    chunkList len cs (n + 1) cur
      = match nextRange cur len cs with
        | none => []
        | some (a, b) => (a, b) :: chunkList len cs n b := rfl

example : chunks.run 10 4 10 = .ok ([0, 4, 8], [4, 8, 10]) := rfl
example : chunksOf 10 4 = [(0, 4), (4, 8), (8, 10)] := by decide
example : chunks.run 3 0 50 = .error .outOfFuel := rfl      -- chunksize 0 never advances: the generator does not end

end Exetera.Props.C19Gen
