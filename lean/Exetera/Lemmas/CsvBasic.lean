import Exetera.Model.Csv
import Exetera.Spec.Csv
import Exetera.Lemmas.While
/-! List, slice and blank-skipping facts used by the CSV proofs (C05). -/
namespace Exetera.Csv
open Exetera

theorem getElem?_append_len {α} (A R : List α) (k : Nat) : (A ++ R)[A.length + k]? = R[k]? := by
  rw [List.getElem?_append_right (by omega)]
  congr 1; omega

theorem getElem?_append_len0 {α} (A R : List α) : (A ++ R)[A.length]? = R[0]? := by
  simpa using getElem?_append_len A R 0

theorem drop_append_len {α} (A R : List α) (k : Nat) : (A ++ R).drop (A.length + k) = R.drop k := by
  rw [List.drop_append]
  simp [List.drop_eq_nil_of_le]

/-- the blanks at the front of `B`, and what follows them -/
theorem leadWs_split (B : Bytes) :
    B = B.takeWhile (fun b => b == WS) ++ B.dropWhile (fun b => b == WS) :=
  (List.takeWhile_append_dropWhile).symm

theorem leadWs_nil : leadWs [] = 0 := rfl

theorem leadWs_cons_ne {b : Nat} {B : Bytes} (h : b ≠ WS) : leadWs (b :: B) = 0 := by
  have hb : (b == WS) = false := by simpa using h
  simp [leadWs, hb]

theorem leadWs_cons_ws (B : Bytes) : leadWs (WS :: B) = leadWs B + 1 := by
  simp [leadWs]

theorem leadWs_le (B : Bytes) : leadWs B ≤ B.length := by
  unfold leadWs
  exact (List.takeWhile_prefix _).length_le

/-- `skipAfter` at the byte `t` that sits right after `A ++ X` -/
theorem skipAfter_at (A X : Bytes) (t : Nat) (B : Bytes) :
    skipAfter (A ++ (X ++ t :: B)) (A.length + X.length) = A.length + X.length + leadWs B := by
  unfold skipAfter
  have : (A ++ (X ++ t :: B)).drop (A.length + X.length + 1) = B := by
    rw [← List.append_assoc]
    have h := drop_append_len (A ++ X) (t :: B) 1
    simp only [List.length_append] at h
    rw [h]; rfl
  rw [this]

theorem skipFrom_at (A B : Bytes) : skipFrom (A ++ B) A.length = A.length + leadWs B := by
  unfold skipFrom
  have := drop_append_len A B 0
  simp only [Nat.add_zero, List.drop_zero] at this
  rw [this]

end Exetera.Csv
