import Exetera.Gen.Kernels
import Exetera.Model.FilterIndex
import Exetera.Lemmas.GenKernels
import Exetera.Lemmas.GenKernelsSpans
import Exetera.Lemmas.GenKernelsSpansIndex
import Exetera.Lemmas.GenKernelsSpansMerge
/-!
  The TRANSLATED two-pass kernels `apply_filter_to_index_values` / `apply_indices_to_index_values` against the hand-written
  models of `Model/FilterIndex.lean`.

  The two sides differ on purpose in their error branches (the model insists that every slice lies inside its array and
  reports `IndexError`; the translation follows numpy: slices clamp, a length mismatch is a `ValueError`; the model lets
  negative subscripts wrap, the translation makes them an error), so the tie is stated on the success domain, for ALL
  inputs:   model = .ok r  →  translated kernel = .ok r   (for `apply_indices…`: for non-negative subscripts).
  Every `.ok` theorem of Props/C09 about the model thereby holds of the translated code.
-/
namespace Exetera.GenK

open Exetera Exetera.PyRt Exetera.Gen.Kernels
open Exetera.FilterIndex (entryLen copyEntry P2 filterPass1 filterPass2 initP2 applyFilterToIndexValues indexPass1 indexPass2
  applyIndicesToIndexValues indexGuard)

/-! ### the model's accessors on natural subscripts -/

theorem fi_getWrapE_nat {α} (xs : List α) (i : Nat) (site : String) :
    FilterIndex.getWrapE xs (i : Int) site = getE xs i site := by
  unfold FilterIndex.getWrapE FilterIndex.normIdx
  have h0 : (0 : Int) ≤ (i : Int) := by omega
  simp only [h0, if_true, Int.toNat_natCast]
  by_cases h : i < xs.length
  · simp [h]
  · simp [h, getE]

theorem entryLen_inv {cur nxt : List Nat} {i d : Nat} (h : entryLen cur nxt (i : Int) = .ok d) :
    ∃ n c, nxt[i]? = some n ∧ cur[i]? = some c ∧ c ≤ n ∧ d = n - c := by
  simp only [entryLen, fi_getWrapE_nat, bind, Except.bind, pure, Except.pure, throw, throwThe, MonadExceptOf.throw] at h
  cases hn : nxt[i]? with
  | none => simp [getE, hn] at h
  | some n =>
    cases hc : cur[i]? with
    | none => simp [getE, hn, hc] at h
    | some c =>
      simp only [getE, hn, hc] at h
      by_cases hle : c ≤ n
      · simp only [hle, if_true, Except.ok.injEq] at h
        exact ⟨n, c, rfl, rfl, hle, h.symm⟩
      · simp [hle] at h

theorem copyEntry_inv {cur nxt values : List Nat} {i : Nat} {s s' : P2} (h : copyEntry cur nxt values (i : Int) s = .ok s') :
    ∃ n c, nxt[i]? = some n ∧ cur[i]? = some c ∧ c ≤ n ∧ n ≤ values.length ∧ s.total + (n - c) ≤ s.dv.length ∧
      s.count < s.di.length ∧
      s' = { count := s.count + 1, total := s.total + (n - c), di := s.di.set s.count (s.total + (n - c)),
             dv := s.dv.take s.total ++ slice values c n ++ s.dv.drop (s.total + (n - c)) } := by
  simp only [copyEntry, fi_getWrapE_nat, bind, Except.bind, pure, Except.pure] at h
  cases hn : nxt[i]? with
  | none => simp [getE, hn] at h
  | some n =>
    cases hc : cur[i]? with
    | none => simp [getE, hn, hc] at h
    | some c =>
      simp only [getE, hn, hc, FilterIndex.sliceE, FilterIndex.setSliceE, setE] at h
      by_cases h1 : c ≤ n ∧ n ≤ values.length
      · rw [if_pos h1] at h
        by_cases h2 : s.total ≤ s.total + (n - c) ∧ s.total + (n - c) ≤ s.dv.length ∧
            (slice values c n).length = s.total + (n - c) - s.total
        · simp only [] at h
          rw [if_pos h2] at h
          by_cases h3 : s.count < s.di.length
          · simp only [] at h
            rw [if_pos h3] at h
            simp only [Except.ok.injEq] at h
            exact ⟨n, c, rfl, rfl, h1.1, h1.2, h2.2.1, h3, h.symm⟩
          · simp only [] at h
            rw [if_neg h3] at h
            simp at h
        · simp only [] at h
          rw [if_neg h2] at h
          simp at h
      · rw [if_neg h1] at h
        simp at h

/-- `dest[a:b] = rhs` with natural bounds inside `dest` and a right-hand side of exactly that length -/
theorem setSliceE_nat {α} (dest rhs : List α) (a b : Nat) (hab : a ≤ b) (hb : b ≤ dest.length) (hr : rhs.length = b - a) :
    setSliceE dest (some (a : Int)) (some (b : Int)) rhs = .ok (dest.take a ++ rhs ++ dest.drop b) := by
  have ha' : ¬ ((a : Int) < 0) := by omega
  have hb' : ¬ ((b : Int) < 0) := by omega
  have h1 : min a dest.length = a := by omega
  have h2 : min b dest.length = b := by omega
  simp only [setSliceE, normBound, ha', hb', if_false, Int.toNat_natCast, h1, h2, Nat.max_eq_right hab, broadcastTo, hr,
    if_true]

theorem ints_slice (xs : List Nat) (a b : Nat) : slice (ints xs) a b = ints (slice xs a b) := by
  simp [slice, ints, List.map_take, List.map_drop]

theorem ints_set (xs : List Nat) (i v : Nat) : (ints xs).set i (v : Int) = ints (xs.set i v) := by
  simp [ints, List.map_set]

theorem getE_ints' (sp : List Nat) (i : Nat) (site : String) {x : Nat} (h : sp[i]? = some x) :
    getE (ints sp) i site = .ok (x : Int) := getE_map_ofNat sp i site h

/-! ### apply_filter_to_index_values -/

namespace Filt

abbrev St := apply_filter_to_index_values.St

/-- what the loops leave alone -/
def Frame (flt : List Bool) (cur nxt values : List Nat) (s : St) : Prop :=
  s.p0 = flt ∧ s.p2 = ints values ∧ s.v0 = ints cur ∧ s.v1 = ints nxt

theorem pass1 (flt : List Bool) (cur nxt values : List Nat) :
    ∀ (n i count total : Nat) (s : St) (c' t' : Nat), i + n = flt.length → Frame flt cur nxt values s →
      s.v2 = (count : Int) → s.v3 = (total : Int) →
      filterPass1 cur nxt (flt.drop i) i count total = .ok (c', t') →
      ∃ s', forRangeAux (fun _ => false) (fun k s => apply_filter_to_index_values.body_L1 { s with v4 := k }) n (i : Int) s
          = .ok s' ∧ Frame flt cur nxt values s' ∧ s'.v2 = (c' : Int) ∧ s'.v3 = (t' : Int) ∧ s'.p1 = s.p1 := by
  intro n
  induction n with
  | zero =>
    intro i count total s c' t' hi hF h2 h3 h
    rw [List.drop_eq_nil_of_le (by omega)] at h
    simp only [filterPass1, Except.ok.injEq, Prod.mk.injEq] at h
    exact ⟨s, rfl, hF, by rw [h2, h.1], by rw [h3, h.2], rfl⟩
  | succ n ih =>
    intro i count total s c' t' hi hF h2 h3 h
    have hil : i < flt.length := by omega
    rw [List.drop_eq_getElem_cons hil] at h
    obtain ⟨f0, f2, f3, f4⟩ := hF
    have hb : getE flt i "p0[v4]" = .ok flt[i] := getE_of_lt _ hil
    have hc : ((i : Int) + 1) = ((i + 1 : Nat) : Int) := by omega
    have hft : (false == true) = false := rfl
    simp only [forRangeAux]
    cases hfi : flt[i] with
    | false =>
      simp only [filterPass1, hfi, Bool.false_eq_true, if_false] at h
      have hbody : apply_filter_to_index_values.body_L1 { s with v4 := (i : Int) } = .ok { s with v4 := (i : Int) } := by
        simp only [apply_filter_to_index_values.body_L1, f0, idxE_nat, hb, hfi, bindE_ok, hft, Bool.false_eq_true, if_false]
      simp only [hbody, Bool.false_eq_true, if_false, hc]
      obtain ⟨s', hrun, hF', h2', h3', hp1⟩ := ih (i + 1) count total { s with v4 := (i : Int) } c' t' (by omega)
        ⟨f0, f2, f3, f4⟩ h2 h3 h
      exact ⟨s', hrun, hF', h2', h3', hp1⟩
    | true =>
      simp only [filterPass1, hfi, if_true] at h
      cases hel : entryLen cur nxt (i : Int) with
      | error e => simp [hel] at h
      | ok d =>
        simp only [hel] at h
        obtain ⟨nn, cc, hn, hcu, hle, hd⟩ := entryLen_inv hel
        let s2 : St := { s with p0 := flt, v0 := ints cur, v1 := ints nxt, v4 := (i : Int), v2 := ((count + 1 : Nat) : Int), v3 := ((total + d : Nat) : Int) }
        have hbody : apply_filter_to_index_values.body_L1 { s with v4 := (i : Int) } = .ok s2 := by
          have e1 : (count : Int) + 1 = ((count + 1 : Nat) : Int) := by omega
          have e2 : (total : Int) + ((nn : Int) - (cc : Int)) = ((total + d : Nat) : Int) := by omega
          simp only [apply_filter_to_index_values.body_L1, f0, f3, f4, h2, h3, idxE_nat, hb, hfi, bindE_ok,
            getE_ints' _ _ _ hn, getE_ints' _ _ _ hcu, e1, e2, beq_self_eq_true, if_true]
          rfl
        simp only [hbody, Bool.false_eq_true, if_false, hc]
        obtain ⟨s', hrun, hF', h2', h3', hp1⟩ := ih (i + 1) (count + 1) (total + d) s2 c' t' (by omega)
          ⟨rfl, f2, rfl, rfl⟩ rfl rfl h
        exact ⟨s', hrun, hF', h2', h3', hp1⟩

theorem pass2 (flt : List Bool) (cur nxt values : List Nat) :
    ∀ (n i : Nat) (s : St) (st st' : P2), i + n = flt.length → Frame flt cur nxt values s →
      s.v2 = (st.count : Int) → s.v3 = (st.total : Int) → s.v5 = ints st.di → s.v6 = ints st.dv →
      filterPass2 cur nxt values (flt.drop i) i st = .ok st' →
      ∃ s', forRangeAux (fun _ => false) (fun k s => apply_filter_to_index_values.body_L2 { s with v4 := k }) n (i : Int) s
          = .ok s' ∧ s'.v5 = ints st'.di ∧ s'.v6 = ints st'.dv := by
  intro n
  induction n with
  | zero =>
    intro i s st st' hi hF h2 h3 h5 h6 h
    rw [List.drop_eq_nil_of_le (by omega)] at h
    simp only [filterPass2, Except.ok.injEq] at h
    subst h
    exact ⟨s, rfl, h5, h6⟩
  | succ n ih =>
    intro i s st st' hi hF h2 h3 h5 h6 h
    have hil : i < flt.length := by omega
    rw [List.drop_eq_getElem_cons hil] at h
    obtain ⟨f0, f2, f3, f4⟩ := hF
    have hb : getE flt i "p0[v4]" = .ok flt[i] := getE_of_lt _ hil
    have hc : ((i : Int) + 1) = ((i + 1 : Nat) : Int) := by omega
    have hft : (false == true) = false := rfl
    simp only [forRangeAux]
    cases hfi : flt[i] with
    | false =>
      simp only [filterPass2, hfi, Bool.false_eq_true, if_false] at h
      have hbody : apply_filter_to_index_values.body_L2 { s with v4 := (i : Int) } = .ok { s with v4 := (i : Int) } := by
        simp only [apply_filter_to_index_values.body_L2, f0, idxE_nat, hb, hfi, bindE_ok, hft, Bool.false_eq_true, if_false]
      simp only [hbody, Bool.false_eq_true, if_false, hc]
      exact ih (i + 1) { s with v4 := (i : Int) } st st' (by omega) ⟨f0, f2, f3, f4⟩ h2 h3 h5 h6 h
    | true =>
      simp only [filterPass2, hfi, if_true] at h
      cases hce : copyEntry cur nxt values (i : Int) st with
      | error e => simp [hce] at h
      | ok st1 =>
        simp only [hce] at h
        obtain ⟨nn, cc, hn, hcu, hle, hnl, htl, hcl, hst1⟩ := copyEntry_inv hce
        let s2 : St := ⟨flt, s.p1, ints values, ints cur, ints nxt, (st1.count : Int), (st1.total : Int), (i : Int),
          ints st1.di, ints st1.dv, (nn : Int), (cc : Int), (nn : Int) - (cc : Int)⟩
        have hbody : apply_filter_to_index_values.body_L2 { s with v4 := (i : Int) } = .ok s2 := by
          have e2 : (st.total : Int) + ((nn : Int) - (cc : Int)) = ((st.total + (nn - cc) : Nat) : Int) := by omega
          have e1 : (st.count : Int) + 1 = ((st.count + 1 : Nat) : Int) := by omega
          have hsl : (slice (ints values) cc nn).length = st.total + (nn - cc) - st.total := by
            rw [ints_slice, ints_length, slice_length]; omega
          simp only [apply_filter_to_index_values.body_L2, f0, f2, f3, f4, h2, h3, h5, h6, idxE_nat, hb, hfi, bindE_ok,
            beq_self_eq_true,
            getE_ints' _ _ _ hn, getE_ints' _ _ _ hcu, e2, pySlice_nat,
            setSliceE_nat (ints st.dv) _ st.total (st.total + (nn - cc)) (by omega) (by simpa using htl) hsl,
            setIdxE_nat, setE, show st.count < (ints st.di).length by simpa using hcl, if_true, e1]
          simp only [s2, hst1, ints_slice, ints_set]
          simp [ints, List.map_take, List.map_drop]
        simp only [hbody, Bool.false_eq_true, if_false, hc]
        exact ih (i + 1) s2 st1 st' (by omega) ⟨rfl, rfl, rfl, rfl⟩ rfl rfl rfl rfl h

end Filt

/-- on every input on which the (repaired) model succeeds, the translated kernel returns the same two arrays -/
theorem apply_filter_to_index_values_ok (flt : List Bool) (indices values di dv : List Nat)
    (h : applyFilterToIndexValues .repaired flt indices values = .ok (di, dv)) :
    apply_filter_to_index_values.run flt (ints indices) (ints values) = .ok (ints di, ints dv) := by
  unfold applyFilterToIndexValues at h
  by_cases hlen : flt.length ≠ indices.length - 1
  · simp [hlen] at h
  · have hlen' : flt.length = indices.length - 1 := by omega
    rw [if_neg (by simp [hlen'])] at h
    dsimp only at h
    cases h1 : filterPass1 indices.dropLast (indices.drop 1) flt 0 0 0 with
    | error e => rw [h1] at h; simp at h
    | ok ct =>
      obtain ⟨count, total⟩ := ct
      simp only [h1] at h
      have hinit : initP2 count total = .ok ⟨1, 0, (List.replicate (count + 1) 0).set 0 0, List.replicate total 0⟩ := by
        simp [initP2, setE, bind, Except.bind, pure, Except.pure]
      simp only [hinit] at h
      cases h2 : filterPass2 indices.dropLast (indices.drop 1) values flt 0
          ⟨1, 0, (List.replicate (count + 1) 0).set 0 0, List.replicate total 0⟩ with
      | error e => rw [h2] at h; simp at h
      | ok st' =>
        simp only [h2, Except.ok.injEq, Prod.mk.injEq] at h
        unfold apply_filter_to_index_values.run
        have hg : ((flt.length : Int) != max (((ints indices).length : Int) - 1) 0) = false := by
          simp only [ints_length, bne_eq_false_iff_eq]
          omega
        have hdl : (ints indices).dropLast = ints indices.dropLast := by simp [ints, List.map_dropLast]
        have htl : (ints indices).tail = ints (indices.drop 1) := by simp [ints]
        simp only [hg, Bool.false_eq_true, if_false, bindE_ok, pySlice_dropLast, pySlice_tail, hdl, htl, forRangeE, pyLen,
          Int.sub_zero, Int.toNat_natCast]
        obtain ⟨s1, hrun1, hF1, hc1, ht1, hp1⟩ := Filt.pass1 flt indices.dropLast (indices.drop 1) values flt.length 0 0 0
          (⟨flt, ints indices, ints values, ints indices.dropLast, ints (indices.drop 1), 0, 0, 0, [], [], 0, 0, 0⟩ : Filt.St)
          count total (by omega) ⟨rfl, rfl, rfl, rfl⟩ rfl rfl (by simpa using h1)
        have hrun1' : forRangeAux (fun _ => false) (fun k s => apply_filter_to_index_values.body_L1 { s with v4 := k })
            flt.length (0 : Int)
            (⟨flt, ints indices, ints values, ints indices.dropLast, ints (indices.drop 1), 0, 0, 0, [], [], 0, 0, 0⟩ : Filt.St)
            = .ok s1 := hrun1
        obtain ⟨f0, f2, f3, f4⟩ := hF1
        have e1 : (count : Int) + 1 = ((count + 1 : Nat) : Int) := by omega
        have hl2 : s1.p0.length = flt.length := by rw [f0]
        simp only [hrun1', bindE_ok, hc1, ht1, e1, npZeros_nat, hl2]
        have hz : setIdxE (List.replicate (count + 1) (0 : Int)) 0 0 "v5[0]" = .ok ((List.replicate (count + 1) (0 : Int)).set 0 0) := by
          simp [setIdxE, setE]
        simp only [hz, bindE_ok]
        obtain ⟨s2, hrun2, h5, h6⟩ := Filt.pass2 flt indices.dropLast (indices.drop 1) values flt.length 0
          ({ s1 with v5 := (List.replicate (count + 1) (0 : Int)).set 0 0, v6 := List.replicate total (0 : Int), v2 := 1, v3 := 0 } : Filt.St)
          ⟨1, 0, (List.replicate (count + 1) 0).set 0 0, List.replicate total 0⟩ st'
          (by omega) ⟨f0, f2, f3, f4⟩ rfl rfl (by simp [ints]) (by simp [ints]) (by simpa using h2)
        have hrun2' : forRangeAux (fun _ => false) (fun k s => apply_filter_to_index_values.body_L2 { s with v4 := k })
            flt.length (0 : Int)
            ({ s1 with v5 := (List.replicate (count + 1) (0 : Int)).set 0 0, v6 := List.replicate total (0 : Int), v2 := 1, v3 := 0 } : Filt.St) = .ok s2 := hrun2
        simp only [hrun2', bindE_ok, h5, h6, h.1, h.2]


/-- a filter of any other length is rejected with IndexError before anything is read (fix D8, as translated) -/
theorem apply_filter_to_index_values_length_mismatch (flt : List Bool) (indices values : List Int)
    (h : (flt.length : Int) ≠ max ((indices.length : Int) - 1) 0) :
    apply_filter_to_index_values.run flt indices values = .error (.oob "raise IndexError") := by
  unfold apply_filter_to_index_values.run
  have hg : ((flt.length : Int) != max ((indices.length : Int) - 1) 0) = true := by
    rw [bne_iff_ne]; exact h
  simp only [pyLen, hg, if_true, bindE_error]

/-! ### apply_indices_to_index_values -/

namespace Idx

abbrev St := apply_indices_to_index_values.St

def Frame (cur nxt values : List Nat) (s : St) : Prop :=
  s.p2 = ints values ∧ s.v0 = ints cur ∧ s.v1 = ints nxt

theorem pass1 (cur nxt values : List Nat) :
    ∀ (idx : List Nat) (count total : Nat) (s : St) (c' t' : Nat), Frame cur nxt values s →
      s.v2 = (count : Int) → s.v3 = (total : Int) →
      indexPass1 .repaired cur nxt (ints idx) count total = .ok (c', t') →
      ∃ s', forEachAux (fun _ => false) (fun k s => apply_indices_to_index_values.body_L1 { s with v4 := k }) (ints idx) s
          = .ok s' ∧ Frame cur nxt values s' ∧ s'.v2 = (c' : Int) ∧ s'.v3 = (t' : Int) ∧ s'.p0 = s.p0 ∧ s'.p1 = s.p1
  | [], count, total, s, c', t', hF, h2, h3, h => by
    simp only [ints, List.map_nil, indexPass1, Except.ok.injEq, Prod.mk.injEq] at h
    exact ⟨s, rfl, hF, by rw [h2, h.1], by rw [h3, h.2], rfl, rfl⟩
  | i :: is, count, total, s, c', t', hF, h2, h3, h => by
    obtain ⟨f2, f3, f4⟩ := hF
    simp only [ints, List.map_cons, Int.ofNat_eq_natCast, indexPass1] at h
    simp only [ints, List.map_cons, Int.ofNat_eq_natCast, forEachAux]
    cases hg : indexGuard .repaired cur.length (i : Int) with
    | error e => rw [hg] at h; simp at h
    | ok u =>
      rw [hg] at h
      simp only [] at h
      have hin : ¬ ((i : Int) < -(cur.length : Int) ∨ (i : Int) ≥ (cur.length : Int)) := by
        intro hc
        unfold indexGuard at hg
        rw [if_pos ⟨rfl, hc⟩] at hg
        cases hg
      cases hel : entryLen cur nxt (i : Int) with
      | error e => rw [hel] at h; simp at h
      | ok d =>
        rw [hel] at h
        simp only [] at h
        obtain ⟨nn, cc, hn, hcu, hle, hd⟩ := entryLen_inv hel
        let s2 : St := ⟨s.p0, s.p1, s.p2, ints cur, ints nxt, ((count + 1 : Nat) : Int), ((total + d : Nat) : Int), (i : Int),
          s.v5, s.v6, s.v7, s.v8, s.v9⟩
        have hbody : apply_indices_to_index_values.body_L1 { s with v4 := (i : Int) } = .ok s2 := by
          have e1 : (count : Int) + 1 = ((count + 1 : Nat) : Int) := by omega
          have e2 : (total : Int) + ((nn : Int) - (cc : Int)) = ((total + d : Nat) : Int) := by omega
          have g1 : decide ((i : Int) < -(((ints cur).length : Nat) : Int)) = false := by
            simp only [ints_length, decide_eq_false_iff_not]; omega
          have g2 : decide ((i : Int) ≥ (((ints cur).length : Nat) : Int)) = false := by
            simp only [ints_length, decide_eq_false_iff_not]; omega
          simp only [apply_indices_to_index_values.body_L1, f3, f4, h2, h3, pyLen, g1, g2, Bool.or_self, Bool.false_eq_true,
            if_false, bindE_ok, idxE_nat, getE_ints' _ _ _ hn, getE_ints' _ _ _ hcu, e1, e2]
          rfl
        simp only [hbody, Bool.false_eq_true, if_false]
        have hrec := pass1 cur nxt values is (count + 1) (total + d) s2 c' t' ⟨f2, rfl, rfl⟩ rfl rfl h
        simpa [ints] using hrec

theorem pass2 (cur nxt values : List Nat) :
    ∀ (idx : List Nat) (s : St) (st st' : P2), Frame cur nxt values s →
      s.v2 = (st.count : Int) → s.v3 = (st.total : Int) → s.v5 = ints st.di → s.v6 = ints st.dv →
      indexPass2 cur nxt values (ints idx) st = .ok st' →
      ∃ s', forEachAux (fun _ => false) (fun k s => apply_indices_to_index_values.body_L2 { s with v4 := k }) (ints idx) s
          = .ok s' ∧ s'.v5 = ints st'.di ∧ s'.v6 = ints st'.dv
  | [], s, st, st', hF, h2, h3, h5, h6, h => by
    simp only [ints, List.map_nil, indexPass2, Except.ok.injEq] at h
    subst h
    exact ⟨s, rfl, h5, h6⟩
  | i :: is, s, st, st', hF, h2, h3, h5, h6, h => by
    obtain ⟨f2, f3, f4⟩ := hF
    simp only [ints, List.map_cons, Int.ofNat_eq_natCast, indexPass2] at h
    simp only [ints, List.map_cons, Int.ofNat_eq_natCast, forEachAux]
    cases hce : copyEntry cur nxt values (i : Int) st with
    | error e => rw [hce] at h; simp at h
    | ok st1 =>
      rw [hce] at h
      simp only [] at h
      obtain ⟨nn, cc, hn, hcu, hle, hnl, htl, hcl, hst1⟩ := copyEntry_inv hce
      let s2 : St := ⟨s.p0, s.p1, ints values, ints cur, ints nxt, (st1.count : Int), (st1.total : Int), (i : Int),
        ints st1.di, ints st1.dv, (nn : Int), (cc : Int), (nn : Int) - (cc : Int)⟩
      have hbody : apply_indices_to_index_values.body_L2 { s with v4 := (i : Int) } = .ok s2 := by
        have e2 : (st.total : Int) + ((nn : Int) - (cc : Int)) = ((st.total + (nn - cc) : Nat) : Int) := by omega
        have e1 : (st.count : Int) + 1 = ((st.count + 1 : Nat) : Int) := by omega
        have hsl : (slice (ints values) cc nn).length = st.total + (nn - cc) - st.total := by
          rw [ints_slice, ints_length, slice_length]; omega
        simp only [apply_indices_to_index_values.body_L2, f2, f3, f4, h2, h3, h5, h6, idxE_nat, bindE_ok,
          getE_ints' _ _ _ hn, getE_ints' _ _ _ hcu, e2, pySlice_nat,
          setSliceE_nat (ints st.dv) _ st.total (st.total + (nn - cc)) (by omega) (by simpa using htl) hsl,
          setIdxE_nat, setE, show st.count < (ints st.di).length by simpa using hcl, if_true, e1]
        simp only [s2, hst1, ints_slice, ints_set]
        simp [ints, List.map_take, List.map_drop]
      simp only [hbody, Bool.false_eq_true, if_false]
      have hrec := pass2 cur nxt values is s2 st1 st' ⟨rfl, rfl, rfl⟩ rfl rfl rfl rfl h
      simpa [ints] using hrec

end Idx

/-- on every input with non-negative subscripts on which the (repaired) model succeeds, the translated kernel returns the
    same two arrays -/
theorem apply_indices_to_index_values_ok (idx indices values di dv : List Nat)
    (h : applyIndicesToIndexValues .repaired (ints idx) indices values = .ok (di, dv)) :
    apply_indices_to_index_values.run (ints idx) (ints indices) (ints values) = .ok (ints di, ints dv) := by
  unfold applyIndicesToIndexValues at h
  dsimp only at h
  cases h1 : indexPass1 .repaired indices.dropLast (indices.drop 1) (ints idx) 0 0 with
  | error e => rw [h1] at h; simp at h
  | ok ct =>
    obtain ⟨count, total⟩ := ct
    simp only [h1] at h
    have hinit : initP2 count total = .ok ⟨1, 0, (List.replicate (count + 1) 0).set 0 0, List.replicate total 0⟩ := by
      simp [initP2, setE, bind, Except.bind, pure, Except.pure]
    simp only [hinit] at h
    cases h2 : indexPass2 indices.dropLast (indices.drop 1) values (ints idx)
        ⟨1, 0, (List.replicate (count + 1) 0).set 0 0, List.replicate total 0⟩ with
    | error e => rw [h2] at h; simp at h
    | ok st' =>
      simp only [h2, Except.ok.injEq, Prod.mk.injEq] at h
      unfold apply_indices_to_index_values.run
      have hdl : (ints indices).dropLast = ints indices.dropLast := by simp [ints, List.map_dropLast]
      have htl : (ints indices).tail = ints (indices.drop 1) := by simp [ints]
      simp only [pySlice_dropLast, pySlice_tail, hdl, htl, forEachE]
      obtain ⟨s1, hrun1, hF1, hc1, ht1, hp0, hp1⟩ := Idx.pass1 indices.dropLast (indices.drop 1) values idx 0 0
        (⟨ints idx, ints indices, ints values, ints indices.dropLast, ints (indices.drop 1), 0, 0, 0, [], [], 0, 0, 0⟩ : Idx.St)
        count total ⟨rfl, rfl, rfl⟩ rfl rfl h1
      have hrun1' : forEachAux (fun _ => false) (fun k s => apply_indices_to_index_values.body_L1 { s with v4 := k }) (ints idx)
          (⟨ints idx, ints indices, ints values, ints indices.dropLast, ints (indices.drop 1), 0, 0, 0, [], [], 0, 0, 0⟩ : Idx.St)
          = .ok s1 := hrun1
      obtain ⟨f2, f3, f4⟩ := hF1
      have e1 : (count : Int) + 1 = ((count + 1 : Nat) : Int) := by omega
      have hp0' : s1.p0 = ints idx := hp0
      simp only [hrun1', bindE_ok, hc1, ht1, e1, npZeros_nat]
      have hz : setIdxE (List.replicate (count + 1) (0 : Int)) 0 0 "v5[0]" = .ok ((List.replicate (count + 1) (0 : Int)).set 0 0) := by
        simp [setIdxE, setE]
      simp only [hz, bindE_ok]
      obtain ⟨s2, hrun2, h5, h6⟩ := Idx.pass2 indices.dropLast (indices.drop 1) values idx
        ({ s1 with v5 := (List.replicate (count + 1) (0 : Int)).set 0 0, v6 := List.replicate total (0 : Int), v2 := 1, v3 := 0 } : Idx.St)
        ⟨1, 0, (List.replicate (count + 1) 0).set 0 0, List.replicate total 0⟩ st'
        ⟨f2, f3, f4⟩ rfl rfl (by simp [ints]) (by simp [ints]) h2
      have hrun2' : forEachAux (fun _ => false) (fun k s => apply_indices_to_index_values.body_L2 { s with v4 := k }) s1.p0
          ({ s1 with v5 := (List.replicate (count + 1) (0 : Int)).set 0 0, v6 := List.replicate total (0 : Int), v2 := 1, v3 := 0 } : Idx.St)
          = .ok s2 := by
        have := hrun2
        rw [← hp0'] at this
        exact this
      simp only [hrun2', bindE_ok, h5, h6, h.1, h.2]

end Exetera.GenK
