import Exetera.Model.JoinOld
/-! `Session.get_index` (C19): dictionary lookup of every foreign key in a duplicate-free target column; keys without a
    target row get markers `≥ INVALID_INDEX`. -/
namespace Exetera.JoinOld
open Exetera

theorem buildLookup_spec (k : Int) : ∀ (vs : List Int) (i : Nat) (d : List (Int × Int)), vs.Nodup →
    (∀ t, vs[t]? = some k → (buildLookup vs i d).lookup k = some ((i + t : Nat) : Int)) ∧
    (k ∉ vs → (buildLookup vs i d).lookup k = d.lookup k)
  | [], i, d, _ => by simp [buildLookup]
  | v :: vs, i, d, hnd => by
    have hnd' := (List.nodup_cons.mp hnd).2
    have hv := (List.nodup_cons.mp hnd).1
    obtain ⟨ih1, ih2⟩ := buildLookup_spec k vs (i + 1) ((v, (i : Int)) :: d) hnd'
    constructor
    · intro t ht
      cases t with
      | zero =>
        simp only [List.getElem?_cons_zero, Option.some.injEq] at ht
        subst ht
        simp only [buildLookup]
        rw [ih2 hv]
        simp [List.lookup]
      | succ t =>
        simp only [List.getElem?_cons_succ] at ht
        simp only [buildLookup]
        rw [ih1 t ht]
        congr 2; omega
    · intro hk
      simp only [List.mem_cons, not_or] at hk
      simp only [buildLookup]
      rw [ih2 hk.2]
      have : (k == v) = false := by simpa using hk.1
      simp [List.lookup, this]

/-- the dictionary maps every target key to its row and every other bound key to a marker -/
def DictOK (target : List Int) (d : List (Int × Int)) : Prop :=
  ∀ k, (∀ t : Nat, target[t]? = some k → d.lookup k = some (t : Int)) ∧
       (k ∉ target → ∀ v, d.lookup k = some v → INVALID_INDEX ≤ v)

/-- what `get_index` promises for the foreign keys `fk` in the output rows `outs` -/
def IndexRows (target fk outs : List Int) : Prop :=
  outs.length = fk.length ∧ ∀ (r : Nat) (k : Int), fk[r]? = some k →
    (∀ t : Nat, target[t]? = some k → outs[r]? = some (t : Int)) ∧
    (k ∉ target → ∃ v, outs[r]? = some v ∧ INVALID_INDEX ≤ v)

theorem foldl_getIndexStep (target : List Int) (hlen : (target.length : Int) ≤ INVALID_INDEX) :
    ∀ (fk : List Int) (s : GI), DictOK target s.dict → INVALID_INDEX ≤ s.cur →
      ∃ outs, (fk.foldl getIndexStep s).out = s.out ++ outs ∧ IndexRows target fk outs
  | [], s, _, _ => ⟨[], by simp, rfl, by simp⟩
  | k :: fk, s, hd, hc => by
    by_cases hk : k ∈ target
    · obtain ⟨t, ht, hkt⟩ := List.getElem_of_mem hk
      have hlook := (hd k).1 t (by rw [List.getElem?_eq_getElem ht, hkt])
      have hstep : getIndexStep s k = { s with out := s.out ++ [(t : Int)] } := by
        have : ¬ ((t : Int) ≥ INVALID_INDEX) := by omega
        simp [getIndexStep, hlook, this]
      obtain ⟨outs, h1, h2, h3⟩ := foldl_getIndexStep target hlen fk (getIndexStep s k) (by rw [hstep]; exact hd) (by rw [hstep]; exact hc)
      refine ⟨(t : Int) :: outs, by rw [List.foldl_cons, h1, hstep]; simp, by simp [h2], ?_⟩
      intro r k' hr
      cases r with
      | zero =>
        simp only [List.getElem?_cons_zero, Option.some.injEq] at hr
        subst hr
        refine ⟨fun t' ht' => ?_, fun hn => absurd hk hn⟩
        have := (hd k).1 t' ht'
        rw [hlook] at this
        simpa using this
      | succ r => simpa using h3 r k' (by simpa using hr)
    · let index := (s.dict.lookup k).getD s.cur
      have hidx : INVALID_INDEX ≤ index := by
        cases hl : s.dict.lookup k with
        | none => simpa [index, hl] using hc
        | some v => simpa [index, hl] using (hd k).2 hk v hl
      have hstep : getIndexStep s k = { dict := (k, index) :: s.dict, cur := s.cur + 1, out := s.out ++ [index] } := by
        simp only [getIndexStep]
        rw [if_pos hidx]
      have hd' : DictOK target ((k, index) :: s.dict) := by
        intro k'
        constructor
        · intro t ht
          have hne : (k' == k) = false := by
            have : k' ≠ k := fun h => hk (by rw [← h]; exact List.mem_of_getElem? ht)
            simpa using this
          simp only [List.lookup, hne]
          exact (hd k').1 t ht
        · intro hk' v hv
          by_cases he : k' = k
          · subst he
            simp [List.lookup] at hv
            omega
          · have hne : (k' == k) = false := by simpa using he
            simp only [List.lookup, hne] at hv
            exact (hd k').2 hk' v hv
      obtain ⟨outs, h1, h2, h3⟩ := foldl_getIndexStep target hlen fk (getIndexStep s k) (by rw [hstep]; exact hd')
        (by rw [hstep]; simp only []; omega)
      refine ⟨index :: outs, by rw [List.foldl_cons, h1, hstep]; simp, by simp [h2], ?_⟩
      intro r k' hr
      cases r with
      | zero =>
        simp only [List.getElem?_cons_zero, Option.some.injEq] at hr
        subst hr
        exact ⟨fun t ht => absurd (List.mem_of_getElem? ht) hk, fun _ => ⟨index, by simp, hidx⟩⟩
      | succ r => simpa using h3 r k' (by simpa using hr)

theorem getIndex_rows (target fk : List Int) (hnd : target.Nodup) (hlen : (target.length : Int) ≤ INVALID_INDEX) :
    IndexRows target fk (getIndex target fk) := by
  have hd : DictOK target (buildLookup target 0 []) := by
    intro k
    obtain ⟨h1, h2⟩ := buildLookup_spec k target 0 [] hnd
    constructor
    · intro t ht; simpa using h1 t ht
    · intro hk v hv
      rw [h2 hk] at hv
      simp [List.lookup] at hv
  obtain ⟨outs, h1, h2⟩ := foldl_getIndexStep target hlen fk { dict := buildLookup target 0 [], cur := INVALID_INDEX } hd
    (Int.le_refl _)
  simp only [getIndex, h1, List.nil_append]
  exact h2

end Exetera.JoinOld
