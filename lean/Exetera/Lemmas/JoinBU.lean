import Exetera.Lemmas.JoinGeneral
/-! The both-unique kernels (`left_both_unique`, `inner_both_unique`) and their streamed drivers: global invariant and
    one-iteration lemmas. Both key columns are strictly sorted, both chunks are untrimmed, the kernel has no block state. -/
namespace Exetera.Join
open Exetera Exetera.Spec

/-- `true` ↦ `generate_ordered_map_to_left_both_unique_streamed`, `false` ↦ `…inner_both_unique_streamed` -/
def bvariant (emit : Bool) : Variant := if emit then .leftBU else .innerBU

/-- a duplicate-free sorted column is sorted -/
theorem Strict.sorted {xs : List Int} (h : xs.Pairwise (· < ·)) : Sorted xs :=
  List.Pairwise.imp (fun h => Int.le_of_lt h) h

theorem Strict.lt_get? {xs : List Int} (h : xs.Pairwise (· < ·)) {i j : Nat} {a b : Int} (hij : i < j)
    (ha : xs[i]? = some a) (hb : xs[j]? = some b) : a < b := by
  obtain ⟨hi, rfl⟩ := List.getElem?_eq_some_iff.mp ha
  obtain ⟨hj, rfl⟩ := List.getElem?_eq_some_iff.mp hb
  exact (List.pairwise_iff_getElem.mp h) i j hi hj hij

/-- an untrimmed chunk's window is exactly its logical range -/
theorem untrimmed_len (xs : List Int) (start cs : Nat) (hs : start ≤ xs.length) :
    (getUntrimmedChunk xs start cs).data.length =
      (getUntrimmedChunk xs start cs).hi - (getUntrimmedChunk xs start cs).lo := by
  have h1 := nextChunk_fst start xs.length cs
  have h2 := nextChunk_snd_le start xs.length cs hs
  simp only [getUntrimmedChunk, h1, slice_length]; omega

/-- fetching an untrimmed chunk never fails -/
theorem fetchUntrimmed_ok (xs : List Int) (start cs : Nat) (hcs : 0 < cs) (hs : start ≤ xs.length) :
    ∃ c, fetchChunk false xs start cs = .ok c ∧ c.lo = start ∧ ChunkOK xs c ∧ c.data.length = c.hi - c.lo := by
  obtain ⟨h2, h3⟩ := untrimmed_ok xs start cs hcs hs
  exact ⟨_, by simp [fetchChunk], h2, h3, untrimmed_len xs start cs hs⟩

/-- global invariant of the both-unique drivers: the output so far plus the (selected) spec rows of the left rows not yet
    consumed is the whole (selected) join, and every right row before the merge position is below the current left key -/
structure BInv (emit : Bool) (L R : List Int) (cs : Nat) (inv : Int) (d : D) : Prop where
  lok : ChunkOK L d.lch
  rok : ChunkOK R d.rch
  llen : d.lch.data.length = d.lch.hi - d.lch.lo
  rlen : d.rch.data.length = d.rch.hi - d.rch.lo
  ile : d.k.i ≤ d.lch.hi - d.lch.lo
  jle : d.k.j ≤ d.rch.hi - d.rch.lo
  blen : d.k.lb.length = d.k.rb.length
  bcap : d.k.rb.length ≤ cs
  outL : d.lout ++ d.k.lb ++ encL (sel emit (rest L R d.I)) = encL (sel emit (leftJoin L R))
  outR : d.rout ++ d.k.rb ++ encR inv (sel emit (rest L R d.I)) = encR inv (sel emit (leftJoin L R))
  h1 : ∀ j b a, j < d.J → R[j]? = some b → L[d.I]? = some a → b < a

/-- kernel-local variant -/
def bkmu (d : D) : Nat := (d.lch.hi - d.lch.lo - d.k.i) + (d.rch.hi - d.rch.lo - d.k.j)

/-- global variant: every kernel iteration consumes a left or a right row -/
def bgmu (L R : List Int) (d : D) : Nat := (L.length - d.I) + (R.length - d.J)

section step
variable {emit : Bool} {L R : List Int} {cs : Nat} {inv : Int} {d d' : D}

/-- `left[i] < right[j]`: the unmatched left row is emitted (left join) or skipped (inner join) -/
theorem bstep_lt (hL : Sorted L) (hR : Sorted R) (hinv : BInv emit L R cs inv d)
    (hi : d.k.i < d.lch.hi - d.lch.lo)
    (hr : d.k.rb.length < cs) {a b : Int} (ha : L[d.I]? = some a) (hb : R[d.J]? = some b) (hab : a < b)
    (e_lch : d'.lch = d.lch) (e_rch : d'.rch = d.rch) (e_lout : d'.lout = d.lout) (e_rout : d'.rout = d.rout)
    (e_i : d'.k.i = d.k.i + 1) (e_j : d'.k.j = d.k.j)
    (e_lb : d'.k.lb = if emit then d.k.lb ++ [(d.I : Int)] else d.k.lb)
    (e_rb : d'.k.rb = if emit then d.k.rb ++ [inv] else d.k.rb) :
    BInv emit L R cs inv d' ∧ bkmu d' < bkmu d ∧ bgmu L R d' < bgmu L R d := by
  obtain ⟨hIlt, haL⟩ := List.getElem?_eq_some_iff.mp ha
  obtain ⟨hJlt, hbR⟩ := List.getElem?_eq_some_iff.mp hb
  have hI' : d'.I = d.I + 1 := by simp only [D.I, e_lch, e_i]; omega
  have hJ' : d'.J = d.J := by simp only [D.J, e_rch, e_j]
  have hrest : rest L R d.I = (d.I, none) :: rest L R (d.I + 1) := by
    apply rest_lt hR hIlt (J := d.J) (by omega)
    · intro j hjl
      rw [haL]
      exact hinv.h1 j _ a hjl (get?_some_of_lt (by omega)) ha
    · intro _; rw [haL, hbR]; exact hab
  have hoL := hinv.outL
  have hoR := hinv.outR
  rw [hrest, sel_cons_none] at hoL hoR
  have hblen := hinv.blen
  have hbcap := hinv.bcap
  have hile := hinv.ile
  refine ⟨⟨by rw [e_lch]; exact hinv.lok, by rw [e_rch]; exact hinv.rok, by rw [e_lch]; exact hinv.llen,
      by rw [e_rch]; exact hinv.rlen, by rw [e_lch, e_i]; omega, by rw [e_rch, e_j]; exact hinv.jle, ?_, ?_, ?_, ?_, ?_⟩,
      ?_, ?_⟩
  · rw [e_lb, e_rb]; cases emit <;> simp [hblen]
  · rw [e_rb]; cases emit <;> simp <;> omega
  · rw [hI', e_lout, e_lb, ← hoL]; cases emit <;> simp
  · rw [hI', e_rout, e_rb, ← hoR]; cases emit <;> simp [encCell]
  · intro j b' a' hjl hb' ha'
    rw [hI'] at ha'; rw [hJ'] at hjl
    have := hinv.h1 j b' a hjl hb' ha
    have hle := Sorted.le_get? hL (i := d.I) (j := d.I + 1) (by omega) ha ha'
    omega
  · simp only [bkmu, e_lch, e_rch, e_i, e_j]; omega
  · simp only [bgmu, hI', hJ']; omega

/-- `left[i] > right[j]`: skip the right row -/
theorem bstep_gt (hinv : BInv emit L R cs inv d)
    (hj : d.k.j < d.rch.hi - d.rch.lo)
    {a b : Int} (ha : L[d.I]? = some a) (hb : R[d.J]? = some b) (hab : b < a)
    (e_lch : d'.lch = d.lch) (e_rch : d'.rch = d.rch) (e_lout : d'.lout = d.lout) (e_rout : d'.rout = d.rout)
    (e_i : d'.k.i = d.k.i) (e_j : d'.k.j = d.k.j + 1)
    (e_lb : d'.k.lb = d.k.lb) (e_rb : d'.k.rb = d.k.rb) :
    BInv emit L R cs inv d' ∧ bkmu d' < bkmu d ∧ bgmu L R d' < bgmu L R d := by
  obtain ⟨hJlt, hbR⟩ := List.getElem?_eq_some_iff.mp hb
  have hI' : d'.I = d.I := by simp only [D.I, e_lch, e_i]
  have hJ' : d'.J = d.J + 1 := by simp only [D.J, e_rch, e_j]; omega
  refine ⟨⟨by rw [e_lch]; exact hinv.lok, by rw [e_rch]; exact hinv.rok, by rw [e_lch]; exact hinv.llen,
      by rw [e_rch]; exact hinv.rlen, by rw [e_lch, e_i]; exact hinv.ile, by rw [e_rch, e_j]; omega,
      by rw [e_lb, e_rb]; exact hinv.blen, by rw [e_rb]; exact hinv.bcap,
      by rw [hI', e_lout, e_lb]; exact hinv.outL, by rw [hI', e_rout, e_rb]; exact hinv.outR, ?_⟩, ?_, ?_⟩
  · intro j b' a' hjl hb' ha'
    rw [hI'] at ha'; rw [hJ'] at hjl
    have e : a' = a := by rw [ha] at ha'; exact (Option.some.inj ha').symm
    subst e
    by_cases hjJ : j < d.J
    · exact hinv.h1 j b' a' hjJ hb' ha
    · have : j = d.J := by omega
      subst this
      rw [hb] at hb'; cases hb'; exact hab
  · simp only [bkmu, e_lch, e_rch, e_i, e_j]; omega
  · simp only [bgmu, hI', hJ']; omega

/-- `left[i] == right[j]`: both columns are duplicate-free, so `(I, J)` is the only row of this left key; emit it and
    advance both sides -/
theorem bstep_eq (hL : L.Pairwise (· < ·)) (hR : R.Pairwise (· < ·)) (hinv : BInv emit L R cs inv d)
    (hi : d.k.i < d.lch.hi - d.lch.lo) (hj : d.k.j < d.rch.hi - d.rch.lo)
    (hr : d.k.rb.length < cs) {a : Int} (ha : L[d.I]? = some a) (hb : R[d.J]? = some a)
    (e_lch : d'.lch = d.lch) (e_rch : d'.rch = d.rch) (e_lout : d'.lout = d.lout) (e_rout : d'.rout = d.rout)
    (e_i : d'.k.i = d.k.i + 1) (e_j : d'.k.j = d.k.j + 1)
    (e_lb : d'.k.lb = d.k.lb ++ [(d.I : Int)]) (e_rb : d'.k.rb = d.k.rb ++ [(d.J : Int)]) :
    BInv emit L R cs inv d' ∧ bkmu d' < bkmu d ∧ bgmu L R d' < bgmu L R d := by
  obtain ⟨hIlt, haL⟩ := List.getElem?_eq_some_iff.mp ha
  obtain ⟨hJlt, hbR⟩ := List.getElem?_eq_some_iff.mp hb
  have hI' : d'.I = d.I + 1 := by simp only [D.I, e_lch, e_i]; omega
  have hJ' : d'.J = d.J + 1 := by simp only [D.J, e_rch, e_j]; omega
  have hmatch : matchRows L[d.I] R 0 = List.range' d.J 1 := by
    apply matchRows_sorted (Strict.sorted hR) (m := 1) (by omega)
    · intro j hjl
      rw [haL]
      exact hinv.h1 j _ a hjl (get?_some_of_lt (by omega)) ha
    · intro t ht
      have ht0 : t = 0 := by omega
      subst ht0
      rw [haL]; simpa using hbR
    · intro hlt
      rw [haL]
      exact Strict.lt_get? hR (i := d.J) (j := d.J + 1) (by omega) hb (get?_some_of_lt hlt)
  have hrest : rest L R d.I = (d.I, some d.J) :: rest L R (d.I + 1) := by
    rw [rest_unfold L R hIlt, hmatch]; simp [leftRow]
  have hoL := hinv.outL
  have hoR := hinv.outR
  rw [hrest, sel_cons_some] at hoL hoR
  have hblen := hinv.blen
  have hbcap := hinv.bcap
  have hile := hinv.ile
  have hjle := hinv.jle
  refine ⟨⟨by rw [e_lch]; exact hinv.lok, by rw [e_rch]; exact hinv.rok, by rw [e_lch]; exact hinv.llen,
      by rw [e_rch]; exact hinv.rlen, by rw [e_lch, e_i]; omega, by rw [e_rch, e_j]; omega,
      by rw [e_lb, e_rb]; simp [hblen], by rw [e_rb]; simp; omega,
      by rw [hI', e_lout, e_lb, ← hoL]; simp, by rw [hI', e_rout, e_rb, ← hoR]; simp [encCell], ?_⟩, ?_, ?_⟩
  · intro j b' a' hjl hb' ha'
    rw [hI'] at ha'; rw [hJ'] at hjl
    have haa' : a < a' := Strict.lt_get? hL (i := d.I) (j := d.I + 1) (by omega) ha ha'
    by_cases hjJ : j < d.J
    · have := hinv.h1 j b' a hjJ hb' ha; omega
    · have : j = d.J := by omega
      subst this
      rw [hb] at hb'; cases hb'; exact haa'
  · simp only [bkmu, e_lch, e_rch, e_i, e_j]; omega
  · simp only [bgmu, hI', hJ']; omega

end step
end Exetera.Join
