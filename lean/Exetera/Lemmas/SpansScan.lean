import Exetera.Lemmas.Spans
/-! Helper lemmas for C08, part 3: the compiled scan kernels (two arrays, several arrays, indexed strings)
    compute `Spec.spans` of the joint column, with every subscript in bounds. -/
namespace Exetera.Spans

open Exetera Exetera.Spec

theorem prod_beq {α β} [BEq α] [BEq β] (a c : α) (b d : β) : ((a, b) == (c, d)) = (a == c && b == d) := rfl

theorem neq_pair {α β} [BEq α] [BEq β] (a c : α) (b d : β) : neq (a, b) (c, d) = (neq a c || neq b d) := by
  simp [neq, bne, prod_beq, Bool.not_and]

/-- the spec on `i :: range' …` -/
theorem spans_eq_range' {α} (ne : α → α → Bool) (xs : List α) (h : xs.length ≠ 0) :
    spans ne xs = 0 :: ((List.range' 1 (xs.length - 1)).filter (isBoundary ne xs) ++ [xs.length]) := by
  unfold spans
  simp only [h, if_false]
  obtain ⟨m, hm⟩ : ∃ m, xs.length = m + 1 := ⟨xs.length - 1, by omega⟩
  rw [List.range_eq_range', hm, List.range'_succ]
  simp [isBoundary_zero]

/-- two columns with the same length and the same boundaries have the same spans -/
theorem spans_congr {α β} (ne : α → α → Bool) (ne' : β → β → Bool) (xs : List α) (ys : List β)
    (hl : xs.length = ys.length) (hb : ∀ i, isBoundary ne xs i = isBoundary ne' ys i) : spans ne xs = spans ne' ys := by
  apply pairwise_lt_ext (spans_pairwise _ _) (spans_pairwise _ _)
  intro i
  rw [mem_spans, mem_spans, hl, hb]

/-! ### two arrays -/

theorem isBoundary_zip {α β} [BEq α] [BEq β] (a : List α) (b : List β) (hl : a.length = b.length) (i : Nat) :
    isBoundary neq (a.zip b) i = (isBoundary neq a i || isBoundary neq b i) := by
  cases i with
  | zero => simp [isBoundary_zero]
  | succ i =>
    by_cases hi : i + 1 < a.length
    · have hz : (a.zip b).length = a.length := by simp [List.length_zip, hl]
      rw [isBoundary_eq _ _ _ (by omega) (by omega), isBoundary_eq _ _ _ (by omega) hi,
        isBoundary_eq _ _ _ (by omega) (by omega : i + 1 < b.length)]
      simp only [List.getElem_zip, neq_pair]
    · have h1 : isBoundary neq a (i + 1) = false := by
        cases h : isBoundary neq a (i + 1) with
        | false => rfl
        | true => have := isBoundary_lt h; omega
      have h2 : isBoundary neq b (i + 1) = false := by
        cases h : isBoundary neq b (i + 1) with
        | false => rfl
        | true => have := isBoundary_lt h; omega
      have h3 : isBoundary neq (a.zip b) (i + 1) = false := by
        cases h : isBoundary neq (a.zip b) (i + 1) with
        | false => rfl
        | true => have := isBoundary_lt h; simp [List.length_zip, hl] at this; omega
      rw [h1, h2, h3]; rfl

theorem int_bne_comm (x y : Int) : (x != y) = (y != x) := by
  simp [bne, BEq.comm]

theorem scan2_eq (a b : List Int) (n : Nat) (ha : a.length = n) (hb : b.length = n) :
    ∀ k i count, i + k = n → 1 ≤ i → count < i →
      scan2 a b n (n + 1) k i count = .ok ((List.range' i k).filter (isBoundary neq (a.zip b)) ++ [n])
  | 0, i, count, hik, hi, hc => by
    have : count + 1 < n + 1 := by omega
    simp [scan2, this]
  | k + 1, i, count, hik, hi, hc => by
    have hia : i < a.length := by omega
    have hib : i < b.length := by omega
    have hia' : i - 1 < a.length := by omega
    have hib' : i - 1 < b.length := by omega
    have hcap : count + 1 < n + 1 := by omega
    have hbd : isBoundary neq (a.zip b) i = (a[i] != a[i - 1] || b[i] != b[i - 1]) := by
      rw [isBoundary_zip a b (by omega), isBoundary_eq _ _ _ (by omega) hia, isBoundary_eq _ _ _ (by omega) hib]
      simp only [neq]
      rw [int_bne_comm a[i], int_bne_comm b[i]]
    rw [scan2, getE_of_lt _ hia, getE_of_lt _ hia']
    simp only []
    rw [List.range'_succ, List.filter_cons, hbd]
    by_cases h1 : (a[i] != a[i - 1]) = true
    · simp only [h1, if_true, hcap, Bool.true_or]
      rw [scan2_eq a b n ha hb k (i + 1) (count + 1) (by omega) (by omega) (by omega)]
      rfl
    · simp only [h1, Bool.false_eq_true, if_false, Bool.false_or]
      rw [getE_of_lt _ hib, getE_of_lt _ hib']
      simp only []
      by_cases h2 : (b[i] != b[i - 1]) = true
      · simp only [h2, if_true, hcap]
        rw [scan2_eq a b n ha hb k (i + 1) (count + 1) (by omega) (by omega) (by omega)]
        rfl
      · simp only [h2, Bool.false_eq_true, if_false]
        exact scan2_eq a b n ha hb k (i + 1) count (by omega) (by omega) (by omega)

/-- **`_get_spans_for_2_fields`: no out-of-bounds access, and the result is the span array of the zipped column** -/
theorem getSpansFor2Fields_eq_spec (a b : List Int) (hl : a.length = b.length) :
    getSpansFor2Fields .repaired a b = .ok (spans neq (a.zip b)) := by
  unfold getSpansFor2Fields getSpansFor2FieldsNjit
  have hz : (a.zip b).length = a.length := by simp [List.length_zip, hl]
  by_cases h0 : a.length = 0
  · have : spans neq (a.zip b) = [0] := by unfold spans; simp [hz, h0]
    simp [h0, this]
  · have hc : (a.length + 1 == 0) = false := by simp
    have h0' : (a.length == 0) = false := by simp [h0]
    simp only [hc, Bool.false_eq_true, if_false, h0', Bool.and_false]
    rw [scan2_eq a b a.length rfl hl.symm (a.length - 1) 1 0 (by omega) (by omega) (by omega)]
    rw [spans_eq_range' _ _ (by omega : (a.zip b).length ≠ 0), hz]
    rfl

/-! ### several arrays -/

/-- the joint column of several columns: row `i` is the tuple of the fields' `i`-th entries -/
theorem getElem?_jointRows (fs : List (List Int)) (n i : Nat) (h : i < n) :
    (jointRows fs n)[i]? = some (fs.map (·[i]?)) := by
  unfold jointRows
  rw [List.getElem?_map, List.getElem?_range h]; rfl

theorem jointRows_length (fs : List (List Int)) (n : Nat) : (jointRows fs n).length = n := by
  simp [jointRows]

theorem rowNe_eq (i : Nat) (hi : 0 < i) : ∀ (fs : List (List Int)), (∀ f ∈ fs, i < f.length) →
    rowNe i fs = .ok (neq (fs.map (·[i - 1]?)) (fs.map (·[i]?)))
  | [], _ => by simp [rowNe, neq]
  | f :: fs, h => by
    have hf : i < f.length := h f (by simp)
    have hf' : i - 1 < f.length := by omega
    rw [rowNe, getE_of_lt _ hf, getE_of_lt _ hf']
    simp only []
    have ih := rowNe_eq i hi fs (fun g hg => h g (by simp [hg]))
    by_cases hx : (f[i] != f[i - 1]) = true
    · simp only [hx, if_true]
      have : f[i] ≠ f[i - 1] := by simpa using hx
      simp [neq, List.getElem?_eq_getElem hf, List.getElem?_eq_getElem hf', Ne.symm this]
    · simp only [hx, Bool.false_eq_true, if_false, ih]
      have : f[i] = f[i - 1] := by simpa using hx
      simp only [neq, List.map_cons, List.getElem?_eq_getElem hf, List.getElem?_eq_getElem hf', this]
      simp [bne, List.cons_beq_cons]

theorem scanMulti_eq (fs : List (List Int)) (n : Nat) (hf : ∀ f ∈ fs, f.length = n) :
    ∀ k i count, i + k = n → 1 ≤ i → count < i →
      scanMulti fs n (n + 1) k i count = .ok ((List.range' i k).filter (isBoundary neq (jointRows fs n)) ++ [n])
  | 0, i, count, hik, hi, hc => by
    have : count + 1 < n + 1 := by omega
    simp [scanMulti, this]
  | k + 1, i, count, hik, hi, hc => by
    have hcap : count + 1 < n + 1 := by omega
    have hbd : isBoundary neq (jointRows fs n) i = neq (fs.map (·[i - 1]?)) (fs.map (·[i]?)) := by
      cases i with
      | zero => omega
      | succ j =>
        rw [isBoundary_succ, getElem?_jointRows fs n j (by omega), getElem?_jointRows fs n (j + 1) (by omega)]
        simp
    rw [scanMulti, rowNe_eq i (by omega) fs (fun f h => by have := hf f h; omega)]
    rw [List.range'_succ, List.filter_cons, hbd]
    cases hne : neq (fs.map (·[i - 1]?)) (fs.map (·[i]?)) with
    | true =>
      simp only [hcap, if_true]
      rw [scanMulti_eq fs n hf k (i + 1) (count + 1) (by omega) (by omega) (by omega)]
      rfl
    | false =>
      simp only [Bool.false_eq_true, if_false]
      exact scanMulti_eq fs n hf k (i + 1) count (by omega) (by omega) (by omega)

/-- **`_get_spans_for_multi_fields`: in bounds, and equal to the span array of the joint column** -/
theorem getSpansForMultiFields_eq_spec (f0 : List Int) (fs : List (List Int)) (hf : ∀ f ∈ f0 :: fs, f.length = f0.length) :
    getSpansForMultiFields .repaired (f0 :: fs) = .ok (spans neq (jointRows (f0 :: fs) f0.length)) := by
  unfold getSpansForMultiFields getSpansForMultiFieldsNjit
  simp only []
  by_cases h0 : f0.length = 0
  · have : spans neq (jointRows (f0 :: fs) f0.length) = [0] := by
      unfold spans; simp [jointRows_length, h0]
    rw [this]; simp [h0]
  · have hc : (f0.length + 1 == 0) = false := by simp
    have h0' : (f0.length == 0) = false := by simp [h0]
    simp only [hc, Bool.false_eq_true, if_false, h0', Bool.and_false]
    rw [scanMulti_eq (f0 :: fs) f0.length hf (f0.length - 1) 1 0 (by omega) (by omega) (by omega)]
    rw [spans_eq_range' _ _ (by rw [jointRows_length]; exact h0), jointRows_length]
    rfl

/-! ### indexed strings -/

/-- a well-formed index: non-decreasing offsets into `values` -/
def ValidIndex (indices values : List Nat) : Prop :=
  indices.Pairwise (· ≤ ·) ∧ ∀ x ∈ indices, x ≤ values.length

theorem decodeRows_length (indices values : List Nat) : (decodeRows indices values).length = indices.length - 1 := by
  simp [decodeRows, List.length_zipWith]

theorem getElem?_decodeRows (indices values : List Nat) (i : Nat) (h : i + 1 < indices.length) :
    (decodeRows indices values)[i]? = some (slice values indices[i] indices[i + 1]) := by
  unfold decodeRows
  rw [List.getElem?_zipWith, List.getElem?_dropLast, List.getElem?_tail]
  have : i < indices.length - 1 := by omega
  simp [this, List.getElem?_eq_getElem h, List.getElem?_eq_getElem (by omega : i < indices.length)]

theorem scanIndexed_eq (indices values : List Nat) (hv : ValidIndex indices values) (n : Nat) (hn : indices.length = n + 1) :
    ∀ k i, i + k = n → 1 ≤ i →
      scanIndexed indices values k i =
        .ok ((List.range' i k).filter (isBoundary neq (decodeRows indices values)) ++ [n])
  | 0, i, hik, hi => by simp [scanIndexed, hn]
  | k + 1, i, hik, hi => by
    have h0 : i - 1 < indices.length := by omega
    have h1 : i < indices.length := by omega
    have h2 : i + 1 < indices.length := by omega
    have hle1 : indices[i - 1] ≤ indices[i] := by
      have := (List.pairwise_iff_getElem.1 hv.1) (i - 1) i h0 h1 (by omega); exact this
    have hle2 : indices[i] ≤ indices[i + 1] := by
      have := (List.pairwise_iff_getElem.1 hv.1) i (i + 1) h1 h2 (by omega); exact this
    have hb1 : indices[i] ≤ values.length := hv.2 _ (List.getElem_mem h1)
    have hb2 : indices[i + 1] ≤ values.length := hv.2 _ (List.getElem_mem h2)
    have hbd : isBoundary neq (decodeRows indices values) i =
        neq (slice values indices[i - 1] indices[i]) (slice values indices[i] indices[i + 1]) := by
      cases i with
      | zero => omega
      | succ j =>
        rw [isBoundary_succ, getElem?_decodeRows indices values j (by omega),
          getElem?_decodeRows indices values (j + 1) (by omega)]
        simp
    rw [scanIndexed, getE_of_lt _ h0, getE_of_lt _ h1, getE_of_lt _ h2]
    simp only []
    rw [List.range'_succ, List.filter_cons, hbd]
    have ih := scanIndexed_eq indices values hv n hn k (i + 1) (by omega) (by omega)
    by_cases hlen : ((indices[i + 1] : Int) - indices[i] != (indices[i] : Int) - indices[i - 1]) = true
    · have hne : neq (slice values indices[i - 1] indices[i]) (slice values indices[i] indices[i + 1]) = true := by
        simp only [neq, bne_iff_ne, ne_eq]
        intro heq
        have := congrArg List.length heq
        rw [slice_length, slice_length] at this
        have hlen' : (indices[i + 1] : Int) - indices[i] ≠ (indices[i] : Int) - indices[i - 1] := by simpa using hlen
        omega
      simp only [hlen, if_true, hne, ih]
      rfl
    · simp only [hlen, Bool.false_eq_true, if_false]
      by_cases hs : (slice values indices[i - 1] indices[i] != slice values indices[i] indices[i + 1]) = true
      · have hne : neq (slice values indices[i - 1] indices[i]) (slice values indices[i] indices[i + 1]) = true := hs
        simp only [hs, if_true, hne, ih]
        rfl
      · have hne : neq (slice values indices[i - 1] indices[i]) (slice values indices[i] indices[i + 1]) = false := by
          simpa [neq] using hs
        simp only [hs, Bool.false_eq_true, if_false, hne, ih]

/-- **`_get_spans_for_index_string_field`: in bounds, and equal to the span array of the decoded rows** (byte-exact) -/
theorem getSpansForIndexStringField_eq_spec (indices values : List Nat) (hv : ValidIndex indices values) :
    getSpansForIndexStringField .repaired indices values = .ok (spans neq (decodeRows indices values)) := by
  unfold getSpansForIndexStringField
  by_cases h2 : indices.length < 2
  · have : spans neq (decodeRows indices values) = [0] := by
      unfold spans; simp [decodeRows_length]; omega
    simp [h2, this]
  · have hd : (decide (indices.length < 2)) = false := by simp [h2]
    simp only [hd, Bool.and_false, Bool.false_eq_true, if_false]
    rw [scanIndexed_eq indices values hv (indices.length - 1) (by omega) (indices.length - 2) 1 (by omega) (by omega)]
    have hl : (decodeRows indices values).length ≠ 0 := by rw [decodeRows_length]; omega
    rw [spans_eq_range' _ _ hl, decodeRows_length]
    have : indices.length - 1 - 1 = indices.length - 2 := by omega
    rw [this]; rfl

end Exetera.Spans
