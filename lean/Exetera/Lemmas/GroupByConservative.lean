import Exetera.Lemmas.GroupByCols
/-!
  C07 helper lemmas, part 5c: fix D20 is conservative. On key columns whose stacking casts are faithful (in particular:
  all key columns of one dtype, where numpy promotes nothing) the repaired `groupby` (`groupbyCols`) returns exactly the
  grouping — same sort index or `None`, same span array — that the stacked code (`groupbyStacked`) returned, for every
  value of the hint, truthful or not.
-/
namespace Exetera.GroupBy
open Exetera Exetera.Spec Exetera.Spans Exetera.SortIndex List

theorem groupbyStacked_eq_groupbyCols (k0 : KeyCol) (ks : List KeyCol) (hint : Bool) (n : Nat)
    (hrect : Rect n ((k0 :: ks).map (·.data))) (hf : Faithful (k0 :: ks)) :
    groupbyStacked .repaired (k0 :: ks) hint = groupbyCols (k0 :: ks) hint := by
  have hk0 : k0.data.length = n := hrect k0.data (by simp)
  have hrect' : Rect n (k0.data :: ks.map (·.data)) := by simpa using hrect
  -- no sort: both compute the spans of the frame as it stands
  have hsp1 := spans_stacked k0 ks n hrect hf
  have hsp2 := colSpans_spec k0.data (ks.map (·.data)) n hrect'
  simp only [map_cons] at hsp1 hsp2
  unfold groupbyStacked groupbyCols
  rw [stack_ok k0 ks n hrect, readKeys_ok k0 ks n hrect]
  simp only [map_cons]
  -- the two sortedness tests agree
  obtain ⟨b, hb, hspec⟩ := checkIfSorted_spec (k0.data.map k0.cast) (ks.map (fun k => k.data.map k.cast)) n
    (by simpa using rect_stacked (k0 :: ks) n hrect)
  have hbs : b = keysSorted (k0.data :: ks.map (·.data)) := by
    have hiff : b = true ↔ SortedRows (k0.data :: ks.map (·.data)) n := by
      rw [hspec]
      constructor
      · intro h i j hij hj
        have := h i j hij hj
        rw [← map_cons (f := fun k : KeyCol => k.data.map k.cast), keyAt_stacked (k0 :: ks) n j hrect hj,
          keyAt_stacked (k0 :: ks) n i hrect (by omega), tupleLt_stacked n (k0 :: ks) hrect hf j i hj (by omega)] at this
        rw [← map_cons (f := fun k : KeyCol => k.data), keyAt_data, keyAt_data]; exact this
      · intro h i j hij hj
        have := h i j hij hj
        rw [← map_cons (f := fun k : KeyCol => k.data), keyAt_data, keyAt_data,
          ← tupleLt_stacked n (k0 :: ks) hrect hf j i hj (by omega),
          ← keyAt_stacked (k0 :: ks) n j hrect hj, ← keyAt_stacked (k0 :: ks) n i hrect (by omega)] at this
        simpa using this
    rw [← keysSorted_spec k0.data (ks.map (·.data)) n hrect'] at hiff
    cases b <;> cases hk : keysSorted (k0.data :: ks.map (·.data)) <;> simp_all
  cases hint with
  | true => simp only [if_true, Bool.true_or, hsp1, hsp2]
  | false =>
    simp only [Bool.false_eq_true, if_false, Bool.false_or, hb, ← hbs]
    cases b with
    | true => simp only [if_true, hsp1, hsp2]
    | false =>
      simp only [Bool.false_eq_true, if_false]
      obtain ⟨idx, hidx, hperm, _⟩ := datasetSortIndex_spec k0.data (ks.map (·.data)) n (fun c hc => hrect' c hc)
      have hlen := perm_range_length hperm
      have hlt := perm_range_lt hperm
      simp only [nrows, hk0, hidx, gatherKeys_ok n idx hlt (k0 :: ks) hrect, gatherCols_ok n idx hlt _ hrect']
      have hra : Rect n ((keysAlong (k0 :: ks) idx).map (·.data)) := by
        rw [keysAlong_data, ← hlen]; exact rect_colsAlong _ idx
      have hst := stack_ok ⟨k0.cast, idx.map (k0.data.getD · 0)⟩ (keysAlong ks idx) n hra
      have hsp := spans_stacked ⟨k0.cast, idx.map (k0.data.getD · 0)⟩ (keysAlong ks idx) n hra
        (faithful_keysAlong hf hrect idx hlt)
      have e : keysAlong (k0 :: ks) idx = ⟨k0.cast, idx.map (k0.data.getD · 0)⟩ :: keysAlong ks idx := rfl
      have hrc : Rect n (colsAlong (k0.data :: ks.map (·.data)) idx) := by
        rw [← hlen]; exact rect_colsAlong _ idx
      have e2 : colsAlong (k0.data :: ks.map (·.data)) idx =
          idx.map (k0.data.getD · 0) :: colsAlong (ks.map (·.data)) idx := rfl
      rw [e, hst]
      simp only []
      rw [hsp, ← e, keysAlong_data]
      rw [e2] at hrc ⊢
      rw [colSpans_spec _ _ n hrc]
      simp only [map_cons]
      rfl

end Exetera.GroupBy
