import Exetera.Lemmas.CsvDriver
/-! `read_file_using_fast_csv_reader`: one window, no regrowth ⇒ the imported fields are the file's columns (C05). -/
namespace Exetera.Csv
open Exetera Spec

theorem column_length (recs : List (List Bytes)) (c : Nat) (h : ∀ r ∈ recs, c < r.length) :
    (column recs c).length = recs.length := by
  induction recs with
  | nil => simp [column]
  | cons r rs ih =>
    have hr := h r (by simp)
    rw [column_cons, List.getElem?_eq_getElem hr]
    simp [ih (fun x hx => h x (by simp [hx]))]

/-- the indexed string field that holds exactly the entries `es` -/
def fieldOf (es : List Bytes) : Imp :=
  { kind := .indexed, idx := indexOf es, vals := bytesOf es, acc := (bytesOf es).length }

theorem readFile_single_window {file : Bytes} {crs ncols : Nat} {offs : List Nat} (hrow : List Cell)
    (rows : List (List Cell)) (im : List Nat) (fuel : Nat)
    (hT : file = render (hrow :: rows) ∨ (file ++ [NL] = render (hrow :: rows) ∧ file.getLast? ≠ some NL))
    (hfile : file ≠ [])
    (hhdr : hrow.length = ncols ∧ ∀ c ∈ hrow, c.WF)
    (htab : ∀ r ∈ rows, r.length = ncols ∧ ∀ c ∈ r, c.WF) (hnc : 0 < ncols) (hcrs : 0 < crs)
    (hw : file.length ≤ crs * Gen.Csv.CHUNK_ROW_FACTOR * ncols)
    (hl : offs.length = ncols + 1) (h0 : offAt offs 0 = 0) (hm : ∀ c, c < ncols → offAt offs c ≤ offAt offs (c + 1))
    (hcap : ∀ c, c < ncols → offAt offs c + (column (values rows) c).flatten.length < offAt offs (c + 1))
    (hrows : rows.length < crs * Gen.Csv.CHUNK_ROW_FACTOR) (him : ∀ c ∈ im, c < ncols) (hfuel : 0 < fuel) :
    readFile file crs ncols offs im (im.map (fun _ => ({ kind := .indexed } : Imp))) fuel =
      .ok ⟨rows.length, im.map (fun c => fieldOf (column (values rows) c)), [(rows.length : Int)]⟩ := by
  have hrne : hrow ≠ [] := by intro h; rw [h] at hhdr; simp at hhdr; omega
  have hallne : ∀ r ∈ hrow :: rows, r ≠ [] := by
    intro r hr h
    rcases List.mem_cons.mp hr with h1 | h1
    · exact hrne (h1 ▸ h)
    · have := (htab r h1).1; rw [h] at this; simp at this; omega
  have hTnl : (render (hrow :: rows)).getLast? = some NL := render_getLast _ (by simp) hallne
  have hwin := readWindow_whole hw hT hTnl
  have hTlen : file.length ≤ (render (hrow :: rows)).length := by
    rcases hT with h | ⟨h, _⟩
    · rw [← h]; exact Nat.le_refl _
    · rw [← h]; simp
  have hTpos : 0 < (render (hrow :: rows)).length := by
    have : 0 < file.length := List.length_pos_iff.mpr hfile
    omega
  -- the kernel call on the whole text
  have hmaxpos : 0 < crs * Gen.Csv.CHUNK_ROW_FACTOR := Nat.mul_pos hcrs (by decide)
  have hsh := shape_zeros (maxrow := crs * Gen.Csv.CHUNK_ROW_FACTOR) hl h0 hm
  have hcap' : RowsCap offs (fun _ => []) rows :=
    rowsCap_of_final offs ncols rows _ (fun r hr => (htab r hr).1) (by simpa using hcap)
  obtain ⟨o, hker, hok⟩ :=
    kernel_records (src := render (hrow :: rows)) (offs := offs) true hrow rows [] (by simp [render]) (fun _ => hhdr) htab hnc
      hsh hmaxpos (fun c hc => zeros_first c hc) hcap' hrows (Or.inl rfl)
  simp only [List.length_nil] at hker
  -- what the importers receive
  have hlenE : ∀ c, c < ncols → (stageRows (fun _ => []) rows c).length = rows.length := by
    intro c hc
    rw [stageRows_col]
    simp only [List.nil_append]
    rw [column_length]
    · simp [values]
    · intro r hr
      simp only [values, List.mem_map] at hr
      obtain ⟨r', hr', rfl⟩ := hr
      have := (htab r' hr').1
      simp [this, hc]
  have himp := importAll_indexed hok.cols hlenE hl im him
  have hEc : ∀ c, stageRows (fun _ => []) rows c = column (values rows) c := by
    intro c; rw [stageRows_col]; rfl
  simp only [hEc] at himp
  -- the single driver iteration
  have hslice : ((slice file 0 (0 + crs * Gen.Csv.CHUNK_ROW_FACTOR * ncols)).length == 0) = false := by
    have : slice file 0 (0 + crs * Gen.Csv.CHUNK_ROW_FACTOR * ncols) = file := by
      simp [slice, List.take_of_length_le hw]
    rw [this]
    have : 0 < file.length := List.length_pos_iff.mpr hfile
    simp; omega
  have hwr : o.written.toNat = rows.length := by rw [hok.written]; simp
  have hwneg : ¬ o.written < 0 := by rw [hok.written]; omega
  have hnp0 : (o.nextPos == 0) = false := by rw [hok.nextPos]; exact beq_false_of_ne (by omega)
  obtain ⟨f, rfl⟩ : ∃ f, fuel = f + 1 := ⟨fuel - 1, by omega⟩
  have hg0 : 0 < file.length := List.length_pos_iff.mpr hfile
  unfold readFile
  simp only [whileE, hg0, decide_true, Bool.not_false, Bool.and_self, if_true]
  simp only [driverStep, Bool.not_false, Bool.and_self, if_true, hwin, hslice, Bool.false_eq_true, if_false, hker,
    hwneg, hwr, himp, hok.indsFull, hok.valsFull, hok.vfc, Option.isSome_none, Bool.and_false, Bool.or_self, hnp0,
    Bool.not_false, Bool.true_and]
  have hdone : ¬ (o.nextPos < file.length) := by rw [hok.nextPos]; omega
  cases f <;> simp [whileE, hdone, hok.written, fieldOf]

end Exetera.Csv
