import Exetera.Model.Basic
/-!
  Model of the two backing stores of a field array (exetera/core/fields.py, exetera/core/data_writer.py):

    * `MemoryFieldArray.write_part`   (fields.py:411-435)  — reallocate-and-copy append, `_dataset is None` until the first part
    * `DataWriter.write` → `_write_additional` (data_writer.py:45-85) on the dataset the field constructor created
    * `MemoryFieldArray.__getitem__` on a never-written array (fields.py:384-392) — the dtype that comes back
    * `categorical_field_constructor`'s `key_values` dataset (fields.py:2034-2044)
    * the `fieldtype` attribute each constructor writes and the class `Session.get` wraps a reopened group in
      (fields.py:2013-2050, session.py:807-846)

  Arrays are lists; `np.zeros(n)` is `List.replicate n z` for the element type's zero `z`; numpy basic slice assignment
  `dst[a:b] = src` is `sliceAssign` (lengths must agree, a length-1 source broadcasts, anything else is numpy's
  "could not broadcast" ValueError).  numpy *casting* is not modelled: parts are assumed to carry the field's dtype.

  `Variant.asFound` mirrors the code before the `fix:` patches in /verif/fixes (D1, D2, D32, NC01a), `Variant.repaired`
  mirrors the code with them applied; the driver runs `repaired`, the witness theorems in `Witness/C01.lean` run `asFound`.
-/
namespace Exetera.Storage

open Exetera

inductive Variant where
  | asFound | repaired
  deriving Repr, DecidableEq, Inhabited

/-- numpy `dst[a:b] = src` for a one-dimensional `dst` (`0 ≤ a`, `b` already clamped by the caller) -/
def sliceAssign {α} (dst : List α) (a b : Nat) (src : List α) : Except Err (List α) :=
  let n := (slice dst a b).length
  if n == src.length then .ok (dst.take a ++ src ++ dst.drop (a + n))
  else match src with
    | [x] => .ok (dst.take a ++ List.replicate n x ++ dst.drop (a + n))      -- broadcast of a single element
    | _ => .error (.valueError "could not broadcast input array")

/-- `MemoryFieldArray.write_part(part)`; `ds = none` is `self._dataset is None`.
    as found: `new_dataset[-len(part):] = part` — for an empty part Python's `-0` is `0`, the target is the whole array (D1);
    repaired: `new_dataset[len(self._dataset):] = part`. -/
def memWritePart {α} (v : Variant) (z : α) (ds : Option (List α)) (part : List α) : Except Err (Option (List α)) :=
  match ds with
  | none => .ok (some part)                                     -- `self._dataset = part.copy()`
  | some old =>
    let new0 := List.replicate (old.length + part.length) z      -- np.zeros(len(old) + len(part))
    match sliceAssign new0 0 old.length old with                -- new[:len(old)] = old
    | .error e => .error e
    | .ok new1 =>
      let start := match v with
        | .repaired => old.length
        | .asFound => if part.length == 0 then 0 else new1.length - part.length
      match sliceAssign new1 start new1.length part with
      | .error e => .error e
      | .ok new2 => .ok (some new2)

/-- `DataWriter.write(group, name, field, count)` when `name` already exists in the group (every field constructor
    creates its datasets empty): `_write_additional` — resize by `count`, then `gv[-count:] = field[:count]`. -/
def h5Write {α} (z : α) (ds : List α) (field : List α) (count : Nat) : Except Err (List α) :=
  if count == 0 then .ok ds
  else
    let gv := ds ++ List.replicate count z                       -- gv.resize((gv.size + count,))
    if count == field.length then sliceAssign gv (gv.length - count) gv.length field
    else sliceAssign gv (gv.length - count) gv.length (field.take count)

/-- a field array: memory-backed (`MemoryFieldArray`) or the HDF5 dataset behind `WriteableFieldArray` -/
inductive Arr (α : Type) where
  | mem (ds : Option (List α))
  | h5 (ds : List α)
  deriving Repr, DecidableEq

/-- the array as the field constructor leaves it -/
def Arr.fresh {α} (h5 : Bool) : Arr α := if h5 then .h5 [] else .mem none

/-- what `arr[:]` holds -/
def Arr.contents {α} : Arr α → List α
  | .mem none => []
  | .mem (some xs) => xs
  | .h5 xs => xs

/-- `len(arr)` -/
def Arr.len {α} (a : Arr α) : Nat := a.contents.length

/-- `arr.write_part(part)` (`WriteableFieldArray.write_part` passes `count = len(part)`) -/
def Arr.writePart {α} (v : Variant) (z : α) : Arr α → List α → Except Err (Arr α)
  | .mem ds, part =>
    match memWritePart v z ds part with
    | .ok ds' => .ok (.mem ds')
    | .error e => .error e
  | .h5 ds, part =>
    match h5Write z ds part part.length with
    | .ok ds' => .ok (.h5 ds')
    | .error e => .error e

/-- `for x in xs: s = f(s, x)` with the first error ending the loop -/
def foldE {σ α} (f : σ → α → Except Err σ) : σ → List α → Except Err σ
  | s, [] => .ok s
  | s, x :: xs =>
    match f s x with
    | .ok s' => foldE f s' xs
    | .error e => .error e

/-- a plain (numeric / fixed string / categorical / timestamp) field: every part goes through `write_part`, then
    `complete()` (which only sets the `completed` attribute / is `pass`) -/
def writeParts {α} (v : Variant) (z : α) (a : Arr α) (parts : List (List α)) : Except Err (Arr α) :=
  foldE (Arr.writePart v z) a parts

/-- dtype of `field.data[:]`: an HDF5 dataset has the dtype the constructor gave it; a memory array has the dtype of
    its first part (assumed to be the declared one) — and, as found, `uint8` when nothing was ever written (NC01a). -/
def readDtype (v : Variant) (h5 : Bool) (declared : String) (everWritten : Bool) : String :=
  if h5 then declared
  else if everWritten then declared
  else match v with
    | .asFound => "uint8"
    | .repaired => declared

/-! ### categorical key -/

/-- value range of the integer formats a categorical field may have -/
def intRange : String → Option (Int × Int)
  | "int8" => some (-128, 127)
  | "int16" => some (-32768, 32767)
  | "int32" => some (-2147483648, 2147483647)
  | "int64" => some (-9223372036854775808, 9223372036854775807)
  | "uint8" => some (0, 255)
  | "uint16" => some (0, 65535)
  | "uint32" => some (0, 4294967295)
  | "uint64" => some (0, 18446744073709551615)
  | _ => none

/-- `ds[:] = [python ints]` into a dataset of integer dtype `fmt`: numpy raises OverflowError for an int out of range -/
def storeInts (fmt : String) (xs : List Int) : Except Err (List Int) :=
  match intRange fmt with
  | none => .error (.other "format-not-modelled")
  | some (lo, hi) => if xs.all (fun x => decide (lo ≤ x) && decide (x ≤ hi)) then .ok xs else .error (.other "overflow_error")

/-- the `key_values` dataset written by `categorical_field_constructor`: as found always `int8` (D32), repaired the
    field's own `nformat`. `validate_and_normalize_categorical_key` rejects an empty key. -/
def storeKeyValues (v : Variant) (nformat : String) (keyValues : List Int) : Except Err (List Int) :=
  if keyValues.isEmpty then .error (.valueError "'key' cannot be empty")
  else match v with
    | .asFound => storeInts "int8" keyValues
    | .repaired => storeInts nformat keyValues

/-! ### fieldtype attribute and reopen dispatch -/

inductive Kind where
  | indexedString | fixedString (len : Nat) | numeric (nformat : String) | categorical (nformat : String) | timestamp
  deriving Repr, DecidableEq, Inhabited

inductive FieldClass where
  | IndexedStringField | FixedStringField | NumericField | CategoricalField | TimestampField
  deriving Repr, DecidableEq, Inhabited

def FieldClass.name : FieldClass → String
  | .IndexedStringField => "IndexedStringField"
  | .FixedStringField => "FixedStringField"
  | .NumericField => "NumericField"
  | .CategoricalField => "CategoricalField"
  | .TimestampField => "TimestampField"

/-- the class each `DataFrame.create_*` wraps the new group in -/
def Kind.cls : Kind → FieldClass
  | .indexedString => .IndexedStringField
  | .fixedString _ => .FixedStringField
  | .numeric _ => .NumericField
  | .categorical _ => .CategoricalField
  | .timestamp => .TimestampField

/-- the part of the `fieldtype` attribute before the first comma, as written by the `*_field_constructor`s -/
def Kind.fieldtypeHead : Kind → String
  | .indexedString => "indexedstring"
  | .fixedString _ => "fixedstring"
  | .numeric _ => "numeric"
  | .categorical _ => "categorical"
  | .timestamp => "timestamp"

/-- the full attribute (`'fixedstring,{}'.format(length)` etc.) -/
def Kind.fieldtypeAttr : Kind → String
  | .indexedString => "indexedstring"
  | .fixedString n => "fixedstring," ++ toString n
  | .numeric f => "numeric," ++ f
  | .categorical f => "categorical," ++ f
  | .timestamp => "timestamp"

/-- `Session.get`'s `fieldtype_map`, keyed by `attrs['fieldtype'].split(',')[0]` -/
def fieldtypeMap : String → Option FieldClass
  | "indexedstring" => some .IndexedStringField
  | "fixedstring" => some .FixedStringField
  | "categorical" => some .CategoricalField
  | "boolean" => some .NumericField
  | "numeric" => some .NumericField
  | "datetime" => some .TimestampField
  | "date" => some .TimestampField
  | "timestamp" => some .TimestampField
  | _ => none

/-- the class a reopened group written by the constructor of kind `k` is wrapped in (`KeyError` for an unknown head) -/
def reopenClass (k : Kind) : Except Err FieldClass :=
  match fieldtypeMap k.fieldtypeHead with
  | some c => .ok c
  | none => .error (.keyError k.fieldtypeHead)

end Exetera.Storage
