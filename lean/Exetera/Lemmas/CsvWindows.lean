import Exetera.Lemmas.CsvSplit
/-! Facts about the windows the driver reads from a well-formed file (C05). -/
namespace Exetera.Csv
open Exetera Spec

/-- a window that does not reach the end of the records `rest`: some complete records and a strict prefix of the next -/
theorem window_split (rest : List (List Cell)) (w : Nat) (hlong : w < (render rest).length) :
    ∃ a r m, rest[a]? = some r ∧ (render rest).take w = render (rest.take a) ++ (renderCells r).take m ∧
      m < (renderCells r).length ∧ (render (rest.take a)).length ≤ w ∧
      (∀ r0 rs, rest = r0 :: rs → (renderCells r0).length ≤ w → 1 ≤ a) := by
  obtain ⟨h1, h2⟩ := take_render rest w
  have hle := render_take_fit_length rest w
  cases hr : rest[fitCount rest w]? with
  | none =>
    exfalso
    have hk : rest.length ≤ fitCount rest w := by
      rcases Nat.lt_or_ge (fitCount rest w) rest.length with h | h
      · rw [List.getElem?_eq_getElem h] at hr; cases hr
      · exact h
    rw [List.take_of_length_le hk] at hle
    omega
  | some r =>
    refine ⟨fitCount rest w, r, _, hr, ?_, h2 r hr, hle, ?_⟩
    · rw [h1, hr]
    · intro r0 rs h hfit
      exact fitCount_pos rest w r0 rs h hfit

/-- records that do not consist of empty cells only take more than `ncols` bytes each -/
theorem render_length_ge (ncols : Nat) (ls : List (List Cell)) (h : ∀ l ∈ ls, ncols < (renderCells l).length) :
    ls.length * (ncols + 1) ≤ (render ls).length := by
  induction ls with
  | nil => simp
  | cons l ls ih =>
    have h1 := h l (by simp)
    have h2 := ih (fun x hx => h x (by simp [hx]))
    simp only [List.length_cons, render, List.length_append, Nat.succ_mul]
    omega

/-- fewer than `c` such records fit into `c * ncols` (+1) bytes -/
theorem count_lt_of_bytes {a c ncols b : Nat} (hc : 2 ≤ c) (h1 : a * (ncols + 1) ≤ b) (h2 : b ≤ c * ncols + 1) : a < c := by
  rcases Nat.lt_or_ge a c with h | h
  · exact h
  · exfalso
    have h3 : c * (ncols + 1) ≤ a * (ncols + 1) := Nat.mul_le_mul_right _ h
    rw [Nat.mul_succ] at h3
    omega

theorem take_succ_of_get {α} {l : List α} {a : Nat} {r : α} (h : l[a]? = some r) : l.take (a + 1) = l.take a ++ [r] := by
  rw [List.take_succ, h]; rfl

/-- the bytes of a contiguous part of a column are at most the bytes of the column -/
theorem column_part_le (x y z : List (List Cell)) (c : Nat) :
    (column (values y) c).flatten.length ≤ (column (values (x ++ y ++ z)) c).flatten.length := by
  simp only [column, values, List.map_append, List.filterMap_append, List.flatten_append, List.length_append]
  omega

end Exetera.Csv
