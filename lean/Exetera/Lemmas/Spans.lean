import Exetera.Model.Spans
import Exetera.Spec.Spans
/-! Helper lemmas for C08, part 1: structure of `Spec.spans`, and `get_spans_for_field = Spec.spans`. -/
namespace Exetera.Spans

open Exetera Exetera.Spec

/-- two strictly increasing lists with the same elements are equal -/
theorem pairwise_lt_ext : ∀ {l₁ l₂ : List Nat}, l₁.Pairwise (· < ·) → l₂.Pairwise (· < ·) →
    (∀ x, x ∈ l₁ ↔ x ∈ l₂) → l₁ = l₂
  | [], [], _, _, _ => rfl
  | [], b :: l₂, _, _, h => by have := (h b).2 (by simp); simp at this
  | a :: l₁, [], _, _, h => by have := (h a).1 (by simp); simp at this
  | a :: l₁, b :: l₂, h₁, h₂, h => by
    rw [List.pairwise_cons] at h₁ h₂
    have hab : a = b := by
      have ha := (h a).1 (by simp)
      have hb := (h b).2 (by simp)
      simp only [List.mem_cons] at ha hb
      rcases ha with ha | ha
      · exact ha
      · rcases hb with hb | hb
        · exact hb.symm
        · have := h₁.1 b hb; have := h₂.1 a ha; omega
    subst hab
    congr 1
    apply pairwise_lt_ext h₁.2 h₂.2
    intro x
    constructor
    · intro hx
      have := (h x).1 (by simp [hx])
      simp only [List.mem_cons] at this
      rcases this with rfl | this
      · have := h₁.1 x hx; omega
      · exact this
    · intro hx
      have := (h x).2 (by simp [hx])
      simp only [List.mem_cons] at this
      rcases this with rfl | this
      · have := h₂.1 x hx; omega
      · exact this

theorem le_getLast_of_pairwise' : ∀ (sp : List Nat) (n : Nat), sp.Pairwise (· < ·) → sp.getLast? = some n →
    ∀ x ∈ sp, x ≤ n
  | [], _, _, h, _, _ => by simp at h
  | [a], n, _, h, x, hx => by simp at h hx; omega
  | a :: b :: rest, n, hp, h, x, hx => by
    rw [List.pairwise_cons] at hp
    have hl : (b :: rest).getLast? = some n := by simpa [List.getLast?_cons_cons] using h
    have ih := le_getLast_of_pairwise' (b :: rest) n hp.2 hl
    rcases List.mem_cons.1 hx with rfl | hx
    · have := hp.1 b (by simp); have := ih b (by simp); omega
    · exact ih x hx

/-! ### `isBoundary` -/

theorem isBoundary_zero {α} (ne : α → α → Bool) (xs : List α) : isBoundary ne xs 0 = false := by
  simp [isBoundary]

theorem isBoundary_succ {α} (ne : α → α → Bool) (xs : List α) (i : Nat) :
    isBoundary ne xs (i + 1) = match xs[i]?, xs[i + 1]? with
      | some a, some b => ne a b
      | _, _ => false := by
  simp only [isBoundary, Nat.add_sub_cancel]
  split <;> simp_all

theorem isBoundary_lt {α} {ne : α → α → Bool} {xs : List α} {i : Nat} (h : isBoundary ne xs i = true) :
    0 < i ∧ i < xs.length := by
  cases i with
  | zero => simp [isBoundary_zero] at h
  | succ i =>
    rw [isBoundary_succ] at h
    split at h
    · rename_i a b h1 h2
      have := (List.getElem?_eq_some_iff.1 h2).1
      omega
    · simp at h

/-- `isBoundary` in terms of bounds-checked reads -/
theorem isBoundary_eq {α} (ne : α → α → Bool) (xs : List α) (i : Nat) (h0 : 0 < i) (h : i < xs.length) :
    isBoundary ne xs i = ne (xs[i - 1]'(by omega)) xs[i] := by
  cases i with
  | zero => omega
  | succ i =>
    rw [isBoundary_succ]
    simp [List.getElem?_eq_getElem h, List.getElem?_eq_getElem (show i < xs.length by omega)]

/-! ### structure of the specification -/

theorem mem_spans {α} (ne : α → α → Bool) (xs : List α) (i : Nat) :
    i ∈ spans ne xs ↔ i = 0 ∨ i = xs.length ∨ isBoundary ne xs i = true := by
  unfold spans
  split
  · rename_i h
    simp only [List.mem_singleton, h]
    constructor
    · intro h; exact Or.inl h
    · rintro (h | h | h)
      · exact h
      · exact h
      · have := isBoundary_lt h; omega
  · simp only [List.mem_cons, List.mem_append, List.mem_filter, List.mem_range,
      List.not_mem_nil, or_false]
    constructor
    · rintro ((h | ⟨_, h⟩) | h)
      · exact Or.inl h
      · exact Or.inr (Or.inr h)
      · exact Or.inr (Or.inl h)
    · rintro (h | h | h)
      · exact Or.inl (Or.inl h)
      · exact Or.inr h
      · exact Or.inl (Or.inr ⟨(isBoundary_lt h).2, h⟩)

theorem spans_pairwise {α} (ne : α → α → Bool) (xs : List α) : (spans ne xs).Pairwise (· < ·) := by
  unfold spans
  split
  · simp
  · rename_i h
    rw [List.cons_append, List.pairwise_cons]
    constructor
    · intro b hb
      simp only [List.mem_append, List.mem_filter, List.mem_range, List.mem_cons,
        List.not_mem_nil, or_false] at hb
      rcases hb with ⟨_, hb⟩ | hb
      · exact (isBoundary_lt hb).1
      · omega
    · rw [List.pairwise_append]
      refine ⟨List.Pairwise.filter _ List.pairwise_lt_range, by simp, ?_⟩
      intro a ha b hb
      simp only [List.mem_filter, List.mem_range] at ha
      simp only [List.mem_singleton] at hb
      omega

theorem spans_head {α} (ne : α → α → Bool) (xs : List α) : (spans ne xs).head? = some 0 := by
  unfold spans; split <;> simp

theorem spans_getLast {α} (ne : α → α → Bool) (xs : List α) : (spans ne xs).getLast? = some xs.length := by
  unfold spans
  split
  · rename_i h; simp [h]
  · rw [List.getLast?_append]; simp

theorem spans_wellformed' {α} (ne : α → α → Bool) (xs : List α) : Wellformed (spans ne xs) xs.length :=
  ⟨spans_pairwise ne xs, spans_head ne xs, spans_getLast ne xs⟩

/-! ### get_spans_for_field -/

theorem mem_nonzeroFrom (bs : List Bool) : ∀ (b i : Nat), i ∈ nonzeroFrom b bs ↔ b ≤ i ∧ bs[i - b]? = some true := by
  induction bs with
  | nil => intro b i; simp [nonzeroFrom]
  | cons x bs ih =>
    intro b i
    unfold nonzeroFrom
    by_cases hib : i = b
    · subst hib
      cases x <;> simp [ih] <;> omega
    · have key : (b + 1 ≤ i ∧ bs[i - (b + 1)]? = some true) ↔ (b ≤ i ∧ (x :: bs)[i - b]? = some true) := by
        constructor
        · rintro ⟨h1, h2⟩
          refine ⟨by omega, ?_⟩
          have : i - b = (i - (b + 1)) + 1 := by omega
          rw [this, List.getElem?_cons_succ]; exact h2
        · rintro ⟨h1, h2⟩
          refine ⟨by omega, ?_⟩
          have : i - b = (i - (b + 1)) + 1 := by omega
          rw [this, List.getElem?_cons_succ] at h2; exact h2
      cases x
      · simp only [Bool.false_eq_true, if_false]; rw [ih]; exact key
      · simp only [if_true, List.mem_cons]; rw [ih]
        constructor
        · rintro (h | h)
          · exact absurd h hib
          · exact key.1 h
        · intro h; exact Or.inr (key.2 h)

theorem nonzeroFrom_pairwise (bs : List Bool) : ∀ b, (nonzeroFrom b bs).Pairwise (· < ·) := by
  induction bs with
  | nil => intro b; simp [nonzeroFrom]
  | cons x bs ih =>
    intro b
    unfold nonzeroFrom
    cases x
    · simpa using ih (b + 1)
    · simp only [if_true, List.pairwise_cons]
      refine ⟨?_, ih (b + 1)⟩
      intro a ha
      have := (mem_nonzeroFrom bs (b + 1) a).1 ha
      omega

theorem mem_nonzero (bs : List Bool) (i : Nat) : i ∈ nonzero bs ↔ bs[i]? = some true := by
  unfold nonzero
  rw [mem_nonzeroFrom]; simp

theorem getElem?_adjacentNe {α} (ne : α → α → Bool) (xs : List α) (k : Nat) :
    (adjacentNe ne xs)[k]? = some true ↔ isBoundary ne xs (k + 1) = true := by
  unfold adjacentNe
  rw [List.getElem?_zipWith, isBoundary_succ, List.getElem?_dropLast, List.getElem?_tail]
  by_cases hk : k < xs.length - 1
  · simp only [hk, if_true]
    split <;> split <;> simp_all
  · simp only [hk, if_false]
    have : xs[k + 1]? = none := by
      rw [List.getElem?_eq_none_iff]; omega
    simp [this]

theorem adjacentNe_length {α} (ne : α → α → Bool) (xs : List α) : (adjacentNe ne xs).length = xs.length - 1 := by
  unfold adjacentNe
  simp [List.length_zipWith]

/-- **`get_spans_for_field` computes the specification** (for every comparison function) -/
theorem getSpansForField_eq_spec {α} (ne : α → α → Bool) (xs : List α) :
    getSpansForField ne xs = spans ne xs := by
  apply pairwise_lt_ext (nonzeroFrom_pairwise _ 0) (spans_pairwise ne xs)
  intro i
  rw [mem_spans]
  show i ∈ nonzero _ ↔ _
  rw [mem_nonzero]
  simp only [setSlice]
  by_cases hn : xs.length = 0
  · have hx : xs = [] := List.eq_nil_of_length_eq_zero hn
    subst hx
    cases i with
    | zero => simp [adjacentNe]
    | succ i => simp [adjacentNe, isBoundary]
  · have hmax : max 1 xs.length = xs.length := by omega
    rw [hmax]
    have hlen : (List.take 1 (List.replicate (xs.length + 1) false) ++ adjacentNe ne xs ++
        List.drop xs.length (List.replicate (xs.length + 1) false)).length = xs.length + 1 := by
      simp [adjacentNe_length]; omega
    rw [List.getElem?_set, List.getElem?_set]
    simp only [List.length_set, hlen]
    by_cases hi0 : i = 0
    · subst hi0
      have : ¬ xs.length = 0 := hn
      simp [this]
    · by_cases hin : i = xs.length
      · subst hin; simp
      · have h1 : ¬ xs.length = i := fun h => hin h.symm
        have h2 : ¬ 0 = i := fun h => hi0 h.symm
        simp only [h1, h2, if_false, hi0, hin, false_or]
        rw [List.append_assoc, List.getElem?_append]
        have hl1 : (List.take 1 (List.replicate (xs.length + 1) false)).length = 1 := by simp
        rw [hl1]
        have : ¬ i < 1 := by omega
        simp only [this, if_false]
        rw [List.getElem?_append, adjacentNe_length]
        by_cases hlt : i - 1 < xs.length - 1
        · simp only [hlt, if_true]
          rw [getElem?_adjacentNe]
          have : i - 1 + 1 = i := by omega
          rw [this]
        · simp only [hlt, if_false]
          constructor
          · intro h
            rw [List.getElem?_drop, List.getElem?_replicate] at h
            split at h <;> simp at h
          · intro h
            have := isBoundary_lt h
            omega

end Exetera.Spans
