/-!
  Specification of C14: `isin` and `unique` with exact set semantics, over any value type `α` with a (lawful) equality
  test `==` and a total order given as `le : α → α → Bool` (numbers: `≤`; fixed and indexed strings: `bytesLe`, the
  lexicographic order of their UTF-8 bytes).
-/
namespace Exetera.Spec

/-- three-way lexicographic comparison of two byte strings: `-1` (less), `0` (equal), `1` (greater);
    a proper prefix is less than the longer string -/
def lexCmp : List UInt8 → List UInt8 → Int
  | [], [] => 0
  | [], _ :: _ => -1
  | _ :: _, [] => 1
  | x :: xs, y :: ys => if x < y then -1 else if x > y then 1 else lexCmp xs ys

/-- "`a` sorts before or equal to `b`" for byte strings -/
def bytesLe (a b : List UInt8) : Bool := decide (lexCmp a b ≤ 0)

section
variable {α : Type} [BEq α]

/-- `field.isin(tests)`: row `r` is `true` iff the row's value is a member of `tests` -/
def isin (col tests : List α) : List Bool := col.map (fun x => tests.contains x)

variable (le : α → α → Bool)

/-- insert `x` into an ascending duplicate-free list, keeping it ascending and duplicate-free -/
def insertU (x : α) : List α → List α
  | [] => [x]
  | y :: ys => if x == y then y :: ys else if le x y then x :: y :: ys else y :: insertU x ys

/-- the sorted distinct values of a column -/
def uniques (col : List α) : List α := col.foldr (insertU le) []

/-- `return_index`: for every unique value the row of its first occurrence -/
def uniqueIndex (col : List α) : List Nat := (uniques le col).map (fun u => col.idxOf u)

/-- `return_inverse`: for every row the position of its value among the uniques -/
def uniqueInverse (col : List α) : List Nat := col.map (fun x => (uniques le col).idxOf x)

/-- `return_counts`: for every unique value the number of rows holding it -/
def uniqueCounts (col : List α) : List Nat := (uniques le col).map (fun u => col.count u)

end
end Exetera.Spec
