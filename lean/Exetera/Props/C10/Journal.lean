import Exetera.Props.C17
import Exetera.Props.C10.Basic
import Exetera.Model.KernelSitesJournal
import Exetera.Model.KernelPathsJournal
/-!
# C10 — the journalling kernels (owning property: C17)
-/
namespace Exetera.Props.C10
open Exetera Exetera.Journal Exetera.Spec.Journal

theorem access_sites_covered_journal : ∀ k ∈ KernelSites.journalSites, lookup k.1 = some k := by decide +kernel

/-- the PATH CONDITION of every subscript occurrence in these kernels (enclosing loop guards, `if` / `elif` tests, negated
    `else` branches and early exits), as regenerated from the current source (`Gen/KernelPaths.lean`), is exactly the one the
    model was written against (`Model/KernelPathsJournal.lean`): dropping or changing a test that dominates a subscript breaks
    the build; and the table covers exactly the kernels of the site table -/
theorem access_paths_covered_journal :
    (∀ k ∈ KernelPaths.journalPaths, lookupPaths k.1 = some k) ∧
    KernelPaths.journalPaths.map (·.1) = KernelSites.journalSites.map (·.1) := by decide +kernel

example : KernelSites.journalSites.length = 6 := by decide

/-- `ordered_generate_journalling_indices` on EVERY pair of key columns (no sortedness, no uniqueness): the writing pass
    takes exactly the steps of the counting pass, so `joint < total` at every write into the two exactly-sized result
    arrays, whatever the ratio of matched to unmatched keys -/
theorem no_oob_journal_indices (old new : List Int) (site : String) : journalIndices old new ≠ .error (.oob site) := by
  obtain ⟨om, nm, h, _⟩ := C17.journal_indices_safe old new
  exact ne_oob_of_ok h site

example : journalIndices [3, 1, 1, 3, 3] [2, 2, 0] = .ok ([-1, -1, -1, 0, 2, 4], [0, 1, 2, -1, -1, -1]) := by rfl

/-- `compare_rows_for_journalling` / `compare_indexed_rows_for_journalling` over all compared fields (≥ 1, each with one
    cell per row of each table), run on the maps of `ordered_generate_journalling_indices` -/
theorem no_oob_journal_compare (ok nk : List Int) (cols : List Col) (hne : cols ≠ [])
    (hwf : ∀ c, c ∈ cols → c.WF ok.length nk.length) (site : String) :
    compareCols (indices ok nk).1 (indices ok nk).2 (cols.map Col.enc) (List.replicate (indices ok nk).1.length false)
      ≠ .error (.oob site) :=
  ne_oob_of_ok (C17.to_keep_iff_new_or_differs ok nk cols hne hwf) site

/-- `merge_journalled_entries` (numeric field), `merge_indexed_journalled_entries_count` + `merge_indexed_journalled_entries`
    (indexed field) on ascending old keys, strictly ascending snapshot keys, the specified maps and flags (for ANY row
    comparison `d`) and the destination sizes `journal_table` allocates: the destination arrays are never overrun -/
theorem no_oob_journal_merge {ok nk : List Int} (hso : ok.Pairwise (· ≤ ·)) (hsn : nk.Pairwise (· < ·))
    (d : Nat → Nat → Bool) (c : Col) (hwf : c.WF ok.length nk.length) (site : String) :
    mergeCol (indices ok nk).1 (indices ok nk).2 (toKeep ok nk d) (ok.length + (toKeep ok nk d).count true) c.enc
      ≠ .error (.oob site) :=
  ne_oob_of_ok (C17.merge_eq_spec hso hsn d c hwf) site

example : mergeCol [1, 2, -1] [0, -1, 1] [true, false, true] 5 (Col.str [[1], [2], []] [[3], [4]]).enc =
    .ok (.str [0, 1, 2, 3, 3, 4] [1, 2, 3, 4]) := by rfl
/-- the error branch is real: a destination one slot short -/
example : mergeCol [1, 2, -1] [0, -1, 1] [true, false, true] 4 (Col.num [7, 7, 9] [7, 5]).enc
    = .error (.oob "dest[cur_dest]") := by rfl

/-- all kernels in sequence, as `journal_table` runs them after its two sorts -/
theorem no_oob_journal_sorted {ok nk : List Int} (hso : ok.Pairwise (· ≤ ·)) (hsn : nk.Pairwise (· < ·)) (cols : List Col)
    (hwf : ∀ c, c ∈ cols → c.WF ok.length nk.length) (site : String) :
    journalSorted ok nk (cols.map Col.enc) ok.length ≠ .error (.oob site) :=
  ne_oob_of_ok (C17.rows_aligned hso hsn cols hwf) site

/-- `journal_table` end to end on tables in ANY physical order: one `valid_from` per old row, unique snapshot keys, one
    cell per row in every compared field -/
theorem no_oob_journal_table {oldIds oldVf newIds : List Int} {cols : List Col}
    (hvf : oldVf.length = oldIds.length) (hu : newIds.Nodup) (hwf : ∀ c, c ∈ cols → c.WF oldIds.length newIds.length)
    (site : String) : journalTable oldIds oldVf newIds cols ≠ .error (.oob site) :=
  ne_oob_of_ok (C17.journal_table_eq hvf hu hwf) site

example : journalTable [2, 1, 1] [1, 2, 1] [3, 1] [.num [20, 12, 11] [30, 12], .str [[5], [6, 7], []] [[8], [6]]] =
    .ok [.num [11, 12, 12, 20, 30], .str [0, 0, 2, 3, 4, 5] [6, 7, 6, 5, 8]] := by rfl

end Exetera.Props.C10
