import Exetera.Lemmas.CatalogueRename
import Exetera.Lemmas.CatalogueInv
/-! `rename` with the repaired choice of intermediate names: under the invariant a rename that passes the pre-check
    performs both passes without a refusal and leaves both catalogues re-keyed by the same map. -/
namespace Exetera.Catalogue

theorem mem_cur {s : State} {g : Nat} {n : Name} : n ∈ (ownedBy s.cols g).map (·.1) ↔ (g, n) ∈ keys s.cols := by
  simp only [List.mem_map, mem_keys]
  constructor
  · rintro ⟨⟨n', h⟩, hm, rfl⟩; exact ⟨h, mem_ownedBy.1 hm⟩
  · rintro ⟨h, hm⟩; exact ⟨(n, h), mem_ownedBy.2 hm, rfl⟩

variable {cur : List Name} {dict : List (Name × Name)} {cs : List (Name × Nat)} {p : List Step1}

theorem PlanFacts.step_of_cur (F : PlanFacts cur dict cs p) (hcur : cur = cs.map (·.1)) {n : Name} (hn : n ∈ cur) :
    ∃ st ∈ p, st.k = n := by
  have hk : p.map (·.k) = cur := by
    rw [hcur, ← F.shape]; simp [List.map_map, Function.comp]
  rw [← hk] at hn
  simpa using hn

theorem mem_frL {a b : Name} : (a, b) ∈ frL p ↔ ∃ st ∈ p, st.target = some b ∧ st.uname = a := by
  simp only [frL, List.mem_filterMap, Option.map_eq_some_iff, Prod.mk.injEq]
  constructor
  · rintro ⟨st, hst, t, ht, rfl, rfl⟩; exact ⟨st, hst, ht, rfl⟩
  · rintro ⟨st, hst, ht, rfl⟩; exact ⟨st, hst, b, ht, rfl, rfl⟩

/-- the second-pass moves that h5py really performs -/
def proper (ms : List (Name × Name)) : List (Name × Name) := ms.filter fun m => m.1 ≠ m.2

/-- first pass then second pass send every current column to its final name -/
theorem two_pass_key (F : PlanFacts cur dict cs p) (g : Nat) {st : Step1} (hst : st ∈ p) :
    moveKey g (proper (frL p)) (moveKey g (moves1 p) (g, st.k)) = (g, renOf dict st.k) := by
  have e1 : moveKey g (moves1 p) (g, st.k) = (g, st.uname) := by
    simp only [moveKey, if_true, look_moves1 F hst]
  rw [e1]
  simp only [moveKey, if_true, Prod.mk.injEq, true_and]
  rw [F.renOf_eq hst]
  have hl := F.look_frL hst
  cases ht : st.target with
  | none =>
    rw [ht] at hl
    unfold proper
    rw [lookN_filter_none _ hl]
  | some t =>
    rw [ht] at hl
    unfold proper
    rw [lookN_filter_some F.frL_keys_nodup _ hl]
    by_cases hut : st.uname = t
    · simp [hut]
    · simp [hut]

theorem renameFields_ok {s : State} (hI : InvCore s) (g : Nat) (dict : List (Name × Name))
    (hok : RenameOk dict ((ownedBy s.cols g).map (·.1))) :
    renameFields .repaired s g dict = .ok () (renamedState s g dict) := by
  have hcn : ((ownedBy s.cols g).map (·.1)).Nodup := ownedBy_keys_nodup hI.colsNodup g
  obtain ⟨p, hp⟩ := plan1_total ((ownedBy s.cols g).map (·.1)) dict (ownedBy s.cols g)
    ((ownedBy s.cols g).map (·.1) ++ dict.map (·.2))
  have F := planFacts rfl hcn hok.valsNodup hp
  have hfind : (dict.map (·.1)).find? (fun k => decide (k ∉ (ownedBy s.cols g).map (·.1))) = none := by
    rw [List.find?_eq_none]
    intro k hk
    simp [hok.keysPresent k hk]
  have hcl : clashes (((ownedBy s.cols g).map (·.1)).filter (fun k => decide (k ∉ dict.map (·.1)))) (dict.map (·.2)) = [] := by
    rw [clashes_nil]
    refine ⟨hok.valsNodup, ?_⟩
    intro v hv hm
    simp only [List.mem_filter, decide_eq_true_eq] at hm
    exact hm.2 (hok.noClash v hv hm.1)
  -- first pass
  have h1 : applyMoves g (moves1 p) s.links = .ok (s.links.map fun e => (moveKey g (moves1 p) e.1, e.2)) := by
    apply applyMoves_ok g _ _ (moves1_keys_nodup F) _ (moves1_vals_nodup F)
    · intro b hb
      simp only [List.mem_map] at hb
      obtain ⟨⟨a, b'⟩, hab, rfl⟩ := hb
      obtain ⟨st, hst, hne, _, rfl⟩ := mem_moves1.1 hab
      intro hm
      exact F.ufresh st hst hne (mem_cur.2 ((hI.sameKeys _).2 hm))
    · intro a ha
      simp only [List.mem_map] at ha
      obtain ⟨⟨a', b⟩, hab, rfl⟩ := ha
      obtain ⟨st, hst, _, rfl, _⟩ := mem_moves1.1 hab
      exact (hI.sameKeys _).1 (mem_cur.1 (F.kcur st hst))
  unfold renameFields
  simp only [hfind, hcl, ne_eq, not_true_eq_false, if_false, hp, h1, F.moves2_eq,
    F.finalCols_eq rfl hcn hok.keysNodup hok.valsNodup hok.noClash]
  have hstep : ∀ n, (g, n) ∈ keys s.links → ∃ st ∈ p, st.k = n := fun n hn =>
    F.step_of_cur rfl (mem_cur.2 ((hI.sameKeys _).2 hn))
  have h2 : applyMoves g (frL p) (s.links.map fun e => (moveKey g (moves1 p) e.1, e.2))
      = .ok (s.links.map fun e => (renKey g dict e.1, e.2)) := by
    rw [applyMoves_skip]
    have hsub : List.Sublist (proper (frL p)) (frL p) := List.filter_sublist
    rw [show (frL p).filter (fun m => m.1 ≠ m.2) = proper (frL p) from rfl]
    rw [applyMoves_ok g (proper (frL p)) _ ((hsub.map _).nodup F.frL_keys_nodup) _ ((hsub.map _).nodup F.frL_vals_nodup)]
    · congr 1
      rw [List.map_map]
      apply List.map_congr_left
      intro e he
      simp only [Function.comp, Prod.mk.injEq, and_true]
      by_cases hg : e.1.1 = g
      · obtain ⟨st, hst, hk⟩ := hstep e.1.2 (by rw [← hg]; exact mem_keys_of_mem he)
        have : e.1 = (g, st.k) := by rw [hk, ← hg]
        rw [this, two_pass_key F g hst]
        simp [renKey]
      · simp [moveKey, renKey, hg]
    · -- destinations are free after the first pass
      intro b hb
      simp only [List.mem_map] at hb
      obtain ⟨⟨a, b'⟩, hab, rfl⟩ := hb
      have hab' := List.mem_filter.1 hab
      obtain ⟨st, hst, ht, hu⟩ := mem_frL.1 hab'.1
      have hne : st.uname ≠ b' := by
        have := hab'.2; simp only [ne_eq, decide_eq_true_eq] at this; rw [hu]; exact this
      have hbcur := F.direct st hst b' ht hne
      intro hm
      simp only [keys, List.map_map, List.mem_map, Function.comp] at hm
      obtain ⟨e, he, heq⟩ := hm
      by_cases hg : e.1.1 = g
      · obtain ⟨st', hst', hk⟩ := hstep e.1.2 (by rw [← hg]; exact mem_keys_of_mem he)
        have e1 : moveKey g (moves1 p) e.1 = (g, st'.uname) := by
          have : e.1 = (g, st'.k) := by rw [hk, ← hg]
          rw [this]; simp only [moveKey, if_true, look_moves1 F hst']
        rw [e1] at heq
        have hu' : st'.uname = b' := (Prod.mk.inj heq).2
        have hnone : st'.target = none := by
          cases hts : st'.target with
          | none => rfl
          | some t' => exact absurd (hu' ▸ hbcur) (F.ufresh st' hst' (by simp [hts]))
        have hkb : st'.k = b' := by rw [← F.keep st' hst' hnone]; exact hu'
        have hbkey := hok.noClash b' (List.mem_map.2 ⟨(st.k, b'), lookN_mem ((F.target st hst) ▸ ht), rfl⟩) hbcur
        have : lookN dict st'.k ≠ none := by
          rw [hkb]; intro hn; exact (lookN_eq_none.1 hn) hbkey
        exact this ((F.target st' hst') ▸ hnone)
      · simp only [moveKey, hg, if_false] at heq
        exact hg (by rw [heq])
    · -- sources are present after the first pass
      intro a ha
      simp only [List.mem_map] at ha
      obtain ⟨⟨a', b⟩, hab, rfl⟩ := ha
      obtain ⟨st, hst, ht, hu⟩ := mem_frL.1 (List.mem_filter.1 hab).1
      have hkl : (g, st.k) ∈ keys s.links := (hI.sameKeys _).1 (mem_cur.1 (F.kcur st hst))
      obtain ⟨o, ho⟩ := mem_keys.1 hkl
      simp only [keys, List.map_map, List.mem_map, Function.comp]
      refine ⟨((g, st.k), o), ho, ?_⟩
      simp only [moveKey, if_true, look_moves1 F hst, hu]
  rw [h2]
  rfl

end Exetera.Catalogue
