import Exetera.Lemmas.TransformsBool
/-! C06: the two blank-trimming loops of `numeric_bool_transform` and the row loop with its validation modes. -/
namespace Exetera.Transforms
open Exetera Exetera.Spec.Transforms

def isBlank (b : Nat) : Bool := b == 32

def leadN (cell : Bytes) : Nat := (cell.takeWhile isBlank).length
def trailE (cell : Bytes) : Nat := (cell.reverse.dropWhile isBlank).length

theorem boolBlank_eq : Gen.boolBlank = 32 := rfl

theorem skipLead_spec (vals : Bytes) (base : Nat) (suf : Bytes) (k : Nat)
    (h : ∀ j, j < suf.length → vals[base + k + j]? = suf[j]?) :
    skipLead vals base suf.length k = .ok (k + (suf.takeWhile isBlank).length) := by
  induction suf generalizing k with
  | nil => simp [skipLead]
  | cons b t ih =>
    have h0 := h 0 (by simp)
    simp only [Nat.add_zero, List.getElem?_cons_zero] at h0
    simp only [List.length_cons]
    rw [skipLead]
    simp only [getE, h0, boolBlank_eq]
    by_cases hb : b = 32
    · have : (b == 32) = true := by simp [hb]
      simp only [this, if_true]
      rw [ih (k + 1) (fun j hj => by
        have := h (j + 1) (by simp; omega)
        simp only [List.getElem?_cons_succ] at this
        rw [← this]; congr 1; omega)]
      simp [List.takeWhile, isBlank, hb]; omega
    · have : (b == 32) = false := by simp [hb]
      simp [this, List.takeWhile, isBlank, hb]

theorem skipTrail_spec (vals : Bytes) (base : Nat) (r : Bytes)
    (h : ∀ j, j < r.length → vals[base + j]? = r.reverse[j]?) :
    skipTrail vals base r.length = .ok (r.dropWhile isBlank).length := by
  induction r with
  | nil => simp [skipTrail]
  | cons b r ih =>
    have h0 := h r.length (by simp)
    simp only [List.reverse_cons] at h0
    rw [List.getElem?_append_right (by simp)] at h0
    simp only [List.length_reverse, Nat.sub_self, List.getElem?_cons_zero] at h0
    simp only [List.length_cons]
    rw [skipTrail]
    simp only [getE, h0, boolBlank_eq]
    by_cases hb : b = 32
    · have : (b == 32) = true := by simp [hb]
      simp only [this, if_true]
      rw [ih (fun j hj => by
        have := h j (by simp; omega)
        simp only [List.reverse_cons] at this
        rw [List.getElem?_append_left (by simpa using hj)] at this
        exact this)]
      simp [List.dropWhile, isBlank, hb]
    · have : (b == 32) = false := by simp [hb]
      simp [this, List.dropWhile, isBlank, hb]

/-! ### the trimmed text as a slice -/

theorem dropWhile_eq_drop (p : Nat → Bool) (l : Bytes) : l.dropWhile p = l.drop (l.takeWhile p).length := by
  induction l with
  | nil => rfl
  | cons a l ih =>
    simp only [List.dropWhile, List.takeWhile]
    cases p a <;> simp [ih]

theorem reverse_dropWhile_reverse (p : Nat → Bool) (d : Bytes) :
    (d.reverse.dropWhile p).reverse = d.take (d.reverse.dropWhile p).length := by
  have h := List.takeWhile_append_dropWhile (p := p) (l := d.reverse)
  have : d = (d.reverse.dropWhile p).reverse ++ (d.reverse.takeWhile p).reverse := by
    have h2 := congrArg List.reverse h
    rw [List.reverse_append, List.reverse_reverse] at h2
    exact h2.symm
  conv => rhs; rw [this]
  rw [List.take_left' (by simp)]

theorem takeWhile_all (p : Nat → Bool) (l : Bytes) : ∀ x ∈ l.takeWhile p, p x = true := by
  induction l with
  | nil => simp
  | cons a l ih =>
    intro x hx
    simp only [List.takeWhile] at hx
    cases hp : p a with
    | false => simp [hp] at hx
    | true =>
      simp only [hp, List.mem_cons] at hx
      rcases hx with rfl | hx
      · exact hp
      · exact ih x hx

theorem dropWhile_eq_nil_of_all (p : Nat → Bool) (l : Bytes) (h : ∀ x ∈ l, p x = true) : l.dropWhile p = [] := by
  induction l with
  | nil => rfl
  | cons a l ih =>
    have ha := h a (by simp)
    simp only [List.dropWhile, ha]
    exact ih (fun x hx => h x (by simp [hx]))

theorem trailE_split (cell : Bytes) :
    trailE cell = if ((cell.dropWhile isBlank).reverse.dropWhile isBlank).isEmpty then 0
      else ((cell.dropWhile isBlank).reverse.dropWhile isBlank).length + leadN cell := by
  have hsplit : cell = cell.takeWhile isBlank ++ cell.dropWhile isBlank := (List.takeWhile_append_dropWhile).symm
  unfold trailE leadN
  conv => lhs; rw [hsplit]
  rw [List.reverse_append, List.dropWhile_append]
  split
  · rename_i he
    have : (cell.takeWhile isBlank).reverse.dropWhile isBlank = [] := by
      apply dropWhile_eq_nil_of_all
      intro x hx
      exact takeWhile_all isBlank cell x (by simpa using hx)
    simp [this]
  · rename_i he
    simp [he]

theorem trim_eq_slice (cell : Bytes) : trimBlank cell = slice cell (leadN cell) (trailE cell) := by
  have e32 : (fun x : Nat => x == 32) = isBlank := rfl
  unfold trimBlank
  rw [e32, reverse_dropWhile_reverse isBlank (cell.dropWhile isBlank), trailE_split]
  split
  · rename_i he
    have : (cell.dropWhile isBlank).reverse.dropWhile isBlank = [] := by simpa using he
    simp [this, slice]
  · simp only [slice, Nat.add_sub_cancel]
    rw [dropWhile_eq_drop isBlank cell]; rfl

theorem trailE_le_length (cell : Bytes) : trailE cell ≤ cell.length := by
  unfold trailE
  have := (List.dropWhile_sublist isBlank (l := cell.reverse)).length_le
  simpa using this

theorem trim_nil_iff (cell : Bytes) : trimBlank cell = [] ↔ trailE cell ≤ leadN cell := by
  rw [trim_eq_slice]
  have hle := trailE_le_length cell
  constructor
  · intro h
    rcases Nat.lt_or_ge (leadN cell) (trailE cell) with hc | hc
    · have hl : (slice cell (leadN cell) (trailE cell)).length = trailE cell - leadN cell := by
        simp only [slice_length]; omega
      rw [h] at hl; simp at hl; omega
    · exact hc
  · intro h
    simp only [slice]
    have : trailE cell - leadN cell = 0 := by omega
    simp [this]

theorem slice_slice {α} (xs : List α) (a l x y : Nat) (hy : y ≤ l) :
    slice (slice xs a (a + l)) x y = slice xs (a + x) (a + y) := by
  simp only [slice, Nat.add_sub_cancel_left]
  rw [List.drop_take, List.take_take, List.drop_drop]
  have e1 : min (y - x) (l - x) = a + y - (a + x) := by omega
  rw [e1]

/-- the outcome of the trimming and literal lookup of one row -/
theorem boolCell_spec (c : Chunk) (i s : Nat) (cell : Bytes) (rest : List Bytes) (h : EncFrom c i s (cell :: rest)) :
    boolCell c i = .ok (if trimBlank cell = [] then (none, true) else (boolLit (trimBlank cell), false)) := by
  have h0 := h.start
  have h1 := h.next
  have hbyte := h.byte
  obtain ⟨_, hlen, hsl, _⟩ := h
  simp only [boolCell, getE, h0, h1, Nat.add_sub_cancel_left]
  have hl := skipLead_spec c.vals (c.off + s) cell 0 (fun j hj => by simpa using hbyte j hj)
  simp only [Nat.zero_add] at hl
  rw [hl]
  have ht := skipTrail_spec c.vals (c.off + s) cell.reverse (fun j hj => by
    simp only [List.length_reverse] at hj
    simpa using hbyte j hj)
  simp only [List.length_reverse] at ht
  rw [ht]
  simp only
  have e1 : (cell.takeWhile isBlank).length = leadN cell := rfl
  have e2 : (cell.reverse.dropWhile isBlank).length = trailE cell := rfl
  rw [e1, e2]
  by_cases hemp : trailE cell ≤ leadN cell
  · simp [hemp, (trim_nil_iff cell).mpr hemp]
  · have hne : ¬ trimBlank cell = [] := fun hh => hemp ((trim_nil_iff cell).mp hh)
    have hle := trailE_le_length cell
    simp only [hemp, if_false, hne]
    have hin : c.off + s + trailE cell ≤ c.vals.length := by omega
    simp only [sliceE, hin, if_true]
    have := slice_slice c.vals (c.off + s) cell.length (leadN cell) (trailE cell) hle
    rw [hsl] at this
    rw [← this, ← trim_eq_slice]

end Exetera.Transforms

namespace Exetera.Transforms
open Exetera Exetera.Spec.Transforms

/-- the regenerated literal table accepts exactly the documented spellings -/
theorem boolLit_eq_boolValue (val : Bytes) : boolLit val = boolValue val := by
  rw [boolLit, boolLitIn_eq_lookup, boolValue, ← lookup_wordLits boolWords (by decide) val]
  exact lookup_congr (by decide +kernel) (by decide +kernel) (by decide +kernel) (by decide +kernel) val

theorem boolRows_spec (c : Chunk) (mode : Mode) (inv : Bool) (capE capV : Nat) (rest : List Bytes) (i s : Nat)
    (el va : List Bool) (h : EncFrom c i s rest) (hE : i + rest.length ≤ capE) (hV : i + rest.length ≤ capV) :
    boolRows c mode inv capE capV rest.length i el va =
      match numericColumn mode inv (rest.map boolClass) with
      | some (vs, fs) => .ok (el ++ vs, va ++ fs)
      | none => .error (.other "Exception") := by
  induction rest generalizing i s el va with
  | nil => simp [boolRows, numericColumn]
  | cons cell rest ih =>
    have hrest := h.2.2.2
    simp only [List.length_cons] at hE hV
    have hE1 : ¬ capE ≤ i := by omega
    have hV1 : ¬ capV ≤ i := by omega
    simp only [List.length_cons, List.map_cons]
    rw [boolRows, boolCell_spec c i s cell rest h]
    have ih' := fun el va => ih (i + 1) (s + cell.length) el va hrest (by omega) (by omega)
    have hcons : numericColumn mode inv (boolClass cell :: rest.map boolClass) =
        consCell (numericCell mode inv (boolClass cell)) (numericColumn mode inv (rest.map boolClass)) := rfl
    rw [hcons]
    generalize numericColumn mode inv (rest.map boolClass) = col at ih' ⊢
    by_cases he : trimBlank cell = []
    · have hk : boolClass cell = .empty := by simp [boolClass, he]
      simp only [he, if_true, hk, hE1, hV1, if_false]
      cases mode <;> cases col <;> simp [numericCell, consCell, ih']
    · simp only [he, if_false, boolLit_eq_boolValue, hE1, hV1]
      cases hv : boolValue (trimBlank cell) with
      | some v =>
        have hk : boolClass cell = .value (v == 1) := by simp [boolClass, he, hv]
        simp only [hk]
        cases col <;> simp [numericCell, consCell, ih']
      | none =>
        have hk : boolClass cell = .garbage := by simp [boolClass, he, hv]
        simp only [hk]
        cases mode <;> cases col <;> simp [numericCell, consCell, ih']

/-- `numeric_bool_transform` on a well-formed chunk, with result arrays of at least `written_row_count` elements (the only
    caller allocates exactly that many) -/
theorem boolTransform_spec (c : Chunk) (mode : Mode) (inv : Bool) (capE capV : Nat) (cells : List Bytes)
    (h : Encodes c cells) (hE : c.rows ≤ capE) (hV : c.rows ≤ capV) :
    boolTransform c mode inv capE capV =
      match numericColumn mode inv (cells.map boolClass) with
      | some r => .ok r
      | none => .error (.other "Exception") := by
  obtain ⟨hr, ⟨s0, he, _⟩, hcol⟩ := h
  rw [boolTransform, withCol_ok c _ _ _ hcol, hr,
    boolRows_spec c mode inv capE capV cells 0 s0 [] [] he (by omega) (by omega)]
  cases numericColumn mode inv (cells.map boolClass) with
  | none => rfl
  | some r => simp

end Exetera.Transforms
