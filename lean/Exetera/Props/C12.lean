import Exetera.Props.C03
import Exetera.Lemmas.JoinCalls
/-!
# C12 — streaming operations always terminate (join-map generation part)

`whileE` returns `.error .outOfFuel` when a loop is cut off with its guard still true: that is the model's rendering of
"spins". The theorems say that, given fuel above an explicit bound LINEAR in input plus output size, no driver of the eight
join-map generators runs out of fuel, for every chunk size ≥ 1 — including runs of equal keys longer than a chunk — and
that the number of `_partial`/`_remaining` invocations is at most twice that bound. (Each `_partial` call is itself run with
`partialFuel`, linear in window plus buffer size, and is proved to finish within it as part of the same theorems.)
The other streamed operations have their C12 theorems in `Props/C12Map.lean` (column mapping), `Props/C12Rest.lean` (span
concatenation, CSV export, CSV reading) and `Props/C12Copy.lean` (chunked copy); all share the namespace `Exetera.Props.C12`.
-/
namespace Exetera.Props.C12
open Exetera Exetera.Join Exetera.Spec

/-- the uniqueness assumption of each variant, as strict sortedness of the side assumed unique -/
def Valid (v : Variant) (L R : List Int) : Prop :=
  Sorted L ∧ Sorted R ∧
  (match v with | .leftLU | .innerLU | .leftBU | .innerBU => L.Pairwise (· < ·) | _ => True) ∧
  (match v with | .leftRU | .innerRU | .leftBU | .innerBU => R.Pairwise (· < ·) | _ => True)

/-- the linear step bound -/
def bound (L R : List Int) : Nat := L.length + R.length + 2 * (leftJoin L R).length + 1

theorem innerJoin_le_leftJoin (L R : List Int) : (innerJoin L R).length ≤ (leftJoin L R).length := by
  have hspec := inner_eq_sel_left R L 0
  have := congrArg (fun p => p.1.length) hspec
  simp only [encodeInner, List.length_map, encL_length] at this
  have h2 : (sel false (leftJoin L R)).length ≤ (leftJoin L R).length := by
    simp only [sel, Bool.false_eq_true, if_false]; exact List.length_filter_le _ _
  simp only [innerJoin, leftJoin] at *
  omega

/-- every join-map driver finishes normally within the linear bound, for every chunk size ≥ 1 -/
theorem join_streamed_terminates (v : Variant) {L R : List Int} {cs : Nat} (inv : Int) (hcs : 0 < cs) (hv : Valid v L R)
    (fuel : Nat) (hfuel : bound L R ≤ fuel) :
    ∃ o, streamed v fuel cs inv L R = .ok o ∧ o.calls ≤ 2 * fuel := by
  obtain ⟨hL, hR, hlu, hru⟩ := hv
  have hin := innerJoin_le_leftJoin L R
  simp only [bound] at hfuel
  have key : ∃ o, streamed v fuel cs inv L R = .ok o := by
    cases v with
    | left => obtain ⟨c, h⟩ := C03.left_streamed_eq inv hcs hL hR fuel hfuel; exact ⟨_, h⟩
    | inner => obtain ⟨c, h⟩ := C03.inner_streamed_eq inv hcs hL hR fuel (by omega); exact ⟨_, h⟩
    | leftLU => obtain ⟨c, h⟩ := C03.left_left_unique_streamed_eq inv hcs hlu hR fuel (by omega); exact ⟨_, h⟩
    | innerLU => obtain ⟨c, h⟩ := C03.inner_left_unique_streamed_eq inv hcs hlu hR fuel (by omega); exact ⟨_, h⟩
    | leftRU => obtain ⟨c, h⟩ := C03.left_right_unique_streamed_eq inv hcs hL hru fuel (by omega); exact ⟨_, h⟩
    | innerRU => obtain ⟨c, h⟩ := C03.inner_right_unique_streamed_eq inv hcs hL hru fuel (by omega); exact ⟨_, h⟩
    | leftBU => obtain ⟨c, h⟩ := C03.left_both_unique_streamed_eq inv hcs hlu hru fuel (by omega); exact ⟨_, h⟩
    | innerBU => obtain ⟨c, h⟩ := C03.inner_both_unique_streamed_eq inv hcs hlu hru fuel (by omega); exact ⟨_, h⟩
  obtain ⟨o, ho⟩ := key
  exact ⟨o, ho, streamed_calls_le ho⟩

/-- the bound read off at the smallest admissible fuel: the number of kernel calls is LINEAR in the input and output sizes,
    `≤ 2 · (|L| + |R| + 2·|left join| + 1)`, whatever the chunk size (the statement above bounds the calls by the fuel given, which
    says this only after instantiating the fuel) -/
theorem join_streamed_calls_linear (v : Variant) {L R : List Int} {cs : Nat} (inv : Int) (hcs : 0 < cs) (hv : Valid v L R) :
    ∃ o, streamed v (bound L R) cs inv L R = .ok o ∧
      o.calls ≤ 2 * (L.length + R.length + 2 * (leftJoin L R).length + 1) :=
  join_streamed_terminates v inv hcs hv (bound L R) (Nat.le_refl _)

/-- in particular: never `outOfFuel` (never spins), whatever the chunk size and however long the runs of equal keys -/
theorem join_streamed_never_spins (v : Variant) {L R : List Int} {cs : Nat} (inv : Int) (hcs : 0 < cs) (hv : Valid v L R)
    (fuel : Nat) (hfuel : bound L R ≤ fuel) : streamed v fuel cs inv L R ≠ .error .outOfFuel := by
  obtain ⟨o, ho, _⟩ := join_streamed_terminates v inv hcs hv fuel hfuel
  rw [ho]; intro h; cases h

/-- fetching a trimmed chunk terminates for every chunk size ≥ 1, even when the whole window is one run -/
theorem get_next_chunk_terminates (xs : List Int) (start cs : Nat) (hcs : 0 < cs) (hs : start ≤ xs.length) :
    ∃ c, getNextChunk xs start cs = .ok c ∧ (start < xs.length → c.lo < c.hi) := by
  obtain ⟨c, h1, h2, h3, _⟩ := getNextChunk_ok xs start cs hcs hs
  exact ⟨c, h1, fun h => h3.nonempty (by omega)⟩

-- non-vacuity: a key repeated more often than the chunk size, chunk size 1
example : Valid .left [1, 1, 1, 1, 2] [1, 1, 1] ∧ bound [1, 1, 1, 1, 2] [1, 1, 1] ≤ 40 := by
  refine ⟨⟨by simp [Sorted], by simp [Sorted], trivial, trivial⟩, by decide⟩
example : (streamed .left 40 1 (-1) [1, 1, 1, 1, 2] [1, 1, 1]).toOption.map (fun o => decide (o.calls ≤ 80)) = some true := by
  decide

end Exetera.Props.C12
