import Driver.Util
import Exetera.Model.FieldOps
open Lean Exetera
namespace Driver.C13

def handle : Driver.Handler := fun op j =>
  match op with
  | "c13_resolve" => some do
    let cls ← Driver.get? String j "cls"
    let d ← Driver.get? String j "dunder"
    pure <| match FieldOps.resolve cls d with
      | some (sym, ord) => Driver.okJson (Json.mkObj [("sym", Json.str sym), ("ord", Driver.nats ord)])
      | none => Json.mkObj [("err", Json.str "unsupported")]
  | _ => none

end Driver.C13
