import Exetera.Props.C05
import Exetera.Lemmas.GenKernelsCsvRun
/-!
  C05 over the TRANSLATED `fast_csv_reader` (`Gen/Kernels.lean`, regenerated from exetera/core/csv_reader_speedup.py by
  tools/translate_njit.py on every run) — the byte-level CSV state machine the property rests on.

  * `gen_fast_csv_reader_ok` (call-level transfer): on rectangular staging arrays (every row of `column_inds` has `maxrow + 1`
    slots: `np.zeros((count_columns, count_rows + 1))`), every `.ok` run of the hand model `Csv.fastCsvReader` is the run of the
    translated kernel on the same bytes, any fuel ≥ `len(source) + 1`: same `next_pos`, `written_row_count`, the two "full" flags,
    `val_full_col_idx`, and the same final `column_inds` / `column_vals` (`outOf`).  Transfer and not refinement because the model
    keeps `row_index == -1` as a flag, reads `column_inds[col, -1]` as slot `maxrow`, computes a column budget in `Nat`, and names
    its subscript sites differently.  The theorem also says: no subscript of the translated kernel is out of range, the only
    negative subscript is the wrap-around read `column_inds[col_index, -1]` on the header line, both blank-skipping loops and
    `while True:` end within the fuel, and the `return` inside the loop is reached.
  * `gen_fsm_whole_eq_spec`, `gen_fsm_split_at_record_end`, `gen_fsm_window_eq_spec`, `gen_fsm_any_buffers_eq_spec`: the statements of
    `C05.fsm_whole_eq_spec`, `C05.fsm_split_at_record_end`, `C05.fsm_window_eq_spec` and `C05.fsm_any_buffers_eq_spec` (one call with ARBITRARY buffers: no flag / indices full / values
    full, and exactly which records it reports) for the translated kernel itself.  Every window / chunking / regrowth theorem of
    C05 is built from calls of this form.
-/
namespace Exetera.Props.C05Gen

open Exetera Exetera.Csv Exetera.Csv.Spec Exetera.PyRt Exetera.GenK Exetera.GenK.CsvK Exetera.Gen.Kernels Exetera.Props.C05

/-- what the translated kernel returns when the model returns `o`: `(next_pos, written_row_count, is_column_inds_full,
    is_column_vals_full, val_full_col_idx, final column_inds, final column_vals)` -/
def outOf (o : KOut) : Int × Int × Bool × Bool × Int × List (List Int) × List Int :=
  ((o.nextPos : Int), o.written, o.indsFull, o.valsFull, vfcInt o.vfc, ints2 o.inds, ints o.vals)

/-- the translated kernel on the bytes / staging arrays of the model, with the four special bytes of the source -/
def genRun (src : Csv.Bytes) (start : Nat) (inds : List (List Nat)) (vals offs : List Nat) (hdr : Bool) (fuel : Nat) :=
  fast_csv_reader.run (ints src) (start : Int) (ints2 inds) (ints vals) (ints offs) hdr ((Csv.QUOTE : Nat) : Int)
    ((Csv.SEP : Nat) : Int) ((Csv.NL : Nat) : Int) ((Csv.WS : Nat) : Int) fuel

theorem gen_fast_csv_reader_ok (src : Csv.Bytes) (start : Nat) (inds : List (List Nat)) (vals offs : List Nat) (hdr : Bool)
    (maxrow : Nat) (hrect : ∀ r ∈ inds, r.length = maxrow + 1) (o : KOut)
    (h : fastCsvReader src start inds vals offs hdr = .ok o) (fuel : Nat) (hf : src.length + 1 ≤ fuel) :
    genRun src start inds vals offs hdr fuel = .ok (outOf o) :=
  fast_csv_reader_ok src start inds vals offs hdr maxrow hrect o h fuel hf

theorem zeros2_rect (ncols maxrow : Nat) : ∀ r ∈ zeros2 ncols (maxrow + 1), r.length = maxrow + 1 := by
  intro r hr
  simp only [zeros2, List.mem_replicate] at hr
  rw [hr.2]; simp

theorem shape_rect {ncols maxrow : Nat} {offs : List Nat} {inds : List (List Nat)} {vals : List Nat}
    (h : Shape ncols maxrow offs inds vals) : ∀ r ∈ inds, r.length = maxrow + 1 := by
  intro r hr
  obtain ⟨c, hc⟩ := List.getElem?_of_mem hr
  exact h.rowLen c r hc

/-- `C05.fsm_whole_eq_spec` for the translated kernel: one call on the text of a header line and a table, fresh buffers that
    are large enough -/
theorem gen_fsm_whole_eq_spec {ncols maxrow : Nat} {offs : List Nat} (hrow : List Cell) (rows : List (List Cell))
    (hhdr : hrow.length = ncols ∧ ∀ c ∈ hrow, c.WF) (htab : Table ncols rows) (hbuf : Buffers ncols maxrow offs)
    (hfit : Fits ncols offs rows) (hrows : rows.length < maxrow) (fuel : Nat)
    (hf : (render (hrow :: rows)).length + 1 ≤ fuel) :
    ∃ o, genRun (render (hrow :: rows)) 0 (zeros2 ncols (maxrow + 1)) (List.replicate (offs.getLastD 0) 0) offs true fuel
          = .ok (outOf o) ∧
      o.nextPos = (render (hrow :: rows)).length ∧ o.written = rows.length ∧ o.indsFull = false ∧ o.valsFull = false ∧
      o.vfc = none ∧
      ∀ c, c < ncols →
        Imp.importPart { kind := .indexed } o.inds o.vals offs c rows.length = .ok (fieldOf (column (values rows) c)) := by
  obtain ⟨o, hk, hrest⟩ := fsm_whole_eq_spec hrow rows hhdr htab hbuf hfit hrows
  exact ⟨o, gen_fast_csv_reader_ok _ _ _ _ _ _ maxrow (zeros2_rect ncols maxrow) o hk fuel hf, hrest⟩

/-- `C05.fsm_split_at_record_end` for the translated kernel: a call entered at a record end (byte `|pre|`, whatever lies in
    front) yields exactly the records that follow -/
theorem gen_fsm_split_at_record_end {ncols maxrow : Nat} {offs : List Nat} (pre : List Nat) (rowsB : List (List Cell))
    (htab : Table ncols rowsB) (hne : rowsB ≠ []) (hbuf : Buffers ncols maxrow offs) (hfit : Fits ncols offs rowsB)
    (hrows : rowsB.length < maxrow) (fuel : Nat) (hf : (pre ++ render rowsB).length + 1 ≤ fuel) :
    ∃ o, genRun (pre ++ render rowsB) pre.length (zeros2 ncols (maxrow + 1)) (List.replicate (offs.getLastD 0) 0)
          offs false fuel = .ok (outOf o) ∧
      o.nextPos = (pre ++ render rowsB).length ∧ o.written = rowsB.length ∧ o.indsFull = false ∧ o.valsFull = false ∧
      ∀ c, c < ncols →
        Imp.importPart { kind := .indexed } o.inds o.vals offs c rowsB.length = .ok (fieldOf (column (values rowsB) c)) := by
  obtain ⟨o, hk, hrest⟩ := fsm_split_at_record_end pre rowsB htab hne hbuf hfit hrows
  exact ⟨o, gen_fast_csv_reader_ok _ _ _ _ _ _ maxrow (zeros2_rect ncols maxrow) o hk fuel hf, hrest⟩

/-- `C05.fsm_window_eq_spec` for the translated kernel: a window that ends inside a record, cut anywhere -/
theorem gen_fsm_window_eq_spec {ncols maxrow : Nat} {offs : List Nat} (hh : Bool) (hrow : List Cell) (rowsA : List (List Cell))
    (r : List Cell) (m : Nat) (pre : List Nat)
    (hhdr : hh = true → hrow.length = ncols ∧ ∀ c ∈ hrow, c.WF) (htab : Table ncols (rowsA ++ [r]))
    (hm : m < (renderCells r).length) (hbuf : Buffers ncols maxrow offs) (hfit : Fits ncols offs (rowsA ++ [r]))
    (hrows : rowsA.length < maxrow) (hne : hh = true ∨ rowsA ≠ []) (fuel : Nat)
    (hf : (pre ++ (((if hh then renderCells hrow else []) ++ render rowsA) ++ (renderCells r).take m)).length + 1 ≤ fuel) :
    ∃ o, genRun (pre ++ (((if hh then renderCells hrow else []) ++ render rowsA) ++ (renderCells r).take m)) pre.length
          (zeros2 ncols (maxrow + 1)) (List.replicate (offs.getLastD 0) 0) offs hh fuel = .ok (outOf o) ∧
      o.nextPos = (pre ++ ((if hh then renderCells hrow else []) ++ render rowsA)).length ∧ o.written = rowsA.length ∧
      o.indsFull = false ∧ o.valsFull = false ∧ o.vfc = none ∧
      ∀ c, c < ncols →
        Imp.importPart { kind := .indexed } o.inds o.vals offs c rowsA.length = .ok (fieldOf (column (values rowsA) c)) := by
  obtain ⟨o, hk, hrest⟩ := fsm_window_eq_spec hh hrow rowsA r m pre hhdr htab hm hbuf hfit hrows hne
  exact ⟨o, gen_fast_csv_reader_ok _ _ _ _ _ _ maxrow (zeros2_rect ncols maxrow) o hk fuel hf, hrest⟩

/-- `C05.fsm_any_buffers_eq_spec` for the translated kernel: one call with ARBITRARY staging buffers (stale contents, any
    `maxrow ≥ 1`, budgets ≥ 1) — it returns, reports exactly the first `a` records, and one of: no flag and everything read;
    indices full and `a = maxrow`; values full with the column whose budget is exhausted -/
theorem gen_fsm_any_buffers_eq_spec {ncols maxrow : Nat} {offs : List Nat} {inds : List (List Nat)} {vals : List Nat}
    (hh : Bool) (hrow : List Cell) (rowsW : List (List Cell)) (nxt : Option (List Cell × Nat)) (pre : List Nat)
    (hnxt : ∀ r m, nxt = some (r, m) → m < (renderCells r).length ∧ r.length = ncols ∧ ∀ c ∈ r, c.WF)
    (hhdr : hh = true → hrow.length = ncols ∧ ∀ c ∈ hrow, c.WF) (htab : Table ncols rowsW)
    (hbuf : Budgets ncols offs) (hsh : Shape ncols maxrow offs inds vals) (hmax : 0 < maxrow)
    (hz : ∀ c, c < ncols → ∃ r, inds[c]? = some r ∧ r[0]? = some 0) (fuel : Nat)
    (hf : (pre ++ (((if hh then renderCells hrow else []) ++ render rowsW) ++ tailText nxt)).length + 1 ≤ fuel) :
    ∃ o a, genRun (pre ++ (((if hh then renderCells hrow else []) ++ render rowsW) ++ tailText nxt)) pre.length inds vals
          offs hh fuel = .ok (outOf o) ∧
      a ≤ rowsW.length ∧ o.written = (a : Int) ∧
      o.nextPos = (pre ++ ((if hh then renderCells hrow else []) ++ render (rowsW.take a))).length ∧
      (∀ c, c < ncols →
        Imp.importPart { kind := .indexed } o.inds o.vals offs c a = .ok (fieldOf (column (values (rowsW.take a)) c))) ∧
      ((o.indsFull = false ∧ o.valsFull = false ∧ o.vfc = none ∧ a = rowsW.length)
       ∨ (o.indsFull = true ∧ o.valsFull = false ∧ o.vfc = none ∧ a = maxrow)
       ∨ (o.indsFull = false ∧ o.valsFull = true ∧ ∃ j, j < ncols ∧ o.vfc = some j ∧
            offAt offs (j + 1) - offAt offs j ≤
              (column (values ((rowsW ++ tailRows nxt).take (a + 1))) j).flatten.length)) := by
  obtain ⟨o, a, hk, hrest⟩ := fsm_any_buffers_eq_spec hh hrow rowsW nxt pre hnxt hhdr htab hbuf hsh hmax hz
  exact ⟨o, a, gen_fast_csv_reader_ok _ _ _ _ _ _ maxrow (shape_rect hsh) o hk fuel hf, hrest⟩

/-- the translated kernel evaluated: header `a,bb`, records `x,1` and `"y",2`; two records reported, resume at byte 15 -/
example : genRun [97, 44, 98, 98, 10, 120, 44, 49, 10, 34, 121, 34, 44, 50, 10] 0 (zeros2 2 5) (List.replicate 16 0) [0, 8, 16]
    true 16 = .ok (15, 2, false, false, -1, [[0, 1, 2, 0, 0], [0, 1, 2, 0, 0]], [120, 121, 0, 0, 0, 0, 0, 0, 49, 50, 0, 0, 0, 0, 0, 0]) := by
  rfl

/-- and the hypothesis of `gen_fast_csv_reader_ok` on that input: the model returns, the staging array is rectangular -/
example : (fastCsvReader [97, 44, 98, 98, 10, 120, 44, 49, 10, 34, 121, 34, 44, 50, 10] 0 (zeros2 2 5) (List.replicate 16 0)
    [0, 8, 16] true).toOption.isSome = true ∧ ∀ r ∈ zeros2 2 (4 + 1), r.length = 4 + 1 :=
  ⟨by decide +kernel, zeros2_rect 2 4⟩

end Exetera.Props.C05Gen
