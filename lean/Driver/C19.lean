import Driver.Util
import Exetera.Model.JoinOld
open Lean Exetera Exetera.JoinFlat Exetera.JoinOld
namespace Driver.C19

def intLists (xs : List (List Int)) : Json := Json.arr (xs.map Driver.ints).toArray

def payloadOf (j : Json) : Except String Payload := do
  let k ← Driver.get? String j "kind"
  if k == "num" then
    let xs ← Driver.get? (List Int) j "data"
    pure (.numeric xs)
  else
    let i ← Driver.get? (List Int) j "indices"
    let v ← Driver.get? (List Int) j "values"
    pure (.indexed i v)

def payloads (j : Json) (k : String) : Except String (List Payload) := do
  let arr ← Driver.get? (Array Json) j k
  arr.toList.mapM payloadOf

def sinksOf (j : Json) (k : String) (ki : String) : Except String Sinks := do
  let s ← Driver.get? String j k
  if s == "none" then pure .none
  else if s == "fields" then pure .fields
  else
    let init ← Driver.get? (List (List Int)) j ki
    pure (.arrays init)

def optLists : Option (List (List Int)) → Json
  | none => Json.null
  | some xs => intLists xs

def optInts : Option (List Int) → Json
  | none => Json.null
  | some xs => Driver.ints xs

def mergeOut (o : MergeOut) : Json :=
  Json.mkObj [("ret", optLists o.returned), ("sinks", intLists o.sinks), ("map", optInts o.map)]

def pout : POut → Json
  | .numeric xs => Json.mkObj [("kind", "num"), ("data", Driver.ints xs)]
  | .indexed i v => Json.mkObj [("kind", "idx"), ("indices", Driver.ints i), ("values", Driver.ints v)]

def pouts (xs : List POut) : Json := Json.arr (xs.map pout).toArray

def cfgOf (j : Json) : Except String Cfg := do
  let kf ← Driver.get? Bool j "keys_fields"
  let sf ← Driver.get? Bool j "src_fields"
  let sk ← sinksOf j "sinks" "sink_init"
  let mg ← Driver.get? Bool j "map_given"
  pure ⟨kf, sf, sk, mg⟩

def handle : Driver.Handler := fun op j =>
  match op with
  | "flat_left" => some do
    let bu ← Driver.get? Bool j "bu"
    let a ← Driver.get? (List Int) j "first"
    let b ← Driver.get? (List Int) j "second"
    let cap ← Driver.get? Nat j "cap"
    let inv ← Driver.get? Int j "inv"
    pure <| Driver.outE (fun (o : Bool × List Int) => Json.mkObj [("unmapped", toJson o.1), ("result", Driver.ints o.2)])
      (generateLeft bu a b (List.replicate cap 0) inv)
  | "flat_inner" => some do
    let sl ← Driver.get? Bool j "scan_l"
    let sr ← Driver.get? Bool j "scan_r"
    let a ← Driver.get? (List Int) j "left"
    let b ← Driver.get? (List Int) j "right"
    let cap ← Driver.get? Nat j "cap"
    pure <| Driver.outE (fun (o : List Int × List Int) => Json.mkObj [("l", Driver.ints o.1), ("r", Driver.ints o.2)])
      (orderedInnerMap sl sr a b (List.replicate cap 0) (List.replicate cap 0))
  | "inner_size" => some do
    let a ← Driver.get? (List Int) j "left"
    let b ← Driver.get? (List Int) j "right"
    pure <| Driver.outE (fun (n : Nat) => toJson n) (innerResultSize a b)
  | "streamed_old" => some do
    let a ← Driver.get? (List Int) j "left"
    let b ← Driver.get? (List Int) j "right"
    let inv ← Driver.get? Int j "inv"
    let cs ← Driver.get? Nat j "cs"
    pure <| Driver.outE (fun (o : Bool × List Int) => Json.mkObj [("unmapped", toJson o.1), ("result", Driver.ints o.2)])
      (streamedOld a b inv cs)
  | "map_stream_old" => some do
    let src ← Driver.get? (List Int) j "src"
    let m ← Driver.get? (List Int) j "map"
    let inv ← Driver.get? Int j "inv"
    let cs ← Driver.get? Nat j "cs"
    pure <| Driver.outE Driver.ints (mapValidStreamOld src m inv cs (0 : Int))
  | "oml" => some do
    let c ← cfgOf j
    let cs ← Driver.get? Nat j "cs"
    let lu ← Driver.get? Bool j "lu"
    let ru ← Driver.get? Bool j "ru"
    let a ← Driver.get? (List Int) j "left"
    let b ← Driver.get? (List Int) j "right"
    let ps ← payloads j "payloads"
    pure <| Driver.outE mergeOut (orderedMergeLeft cs c lu ru a b ps)
  | "omr" => some do
    let c ← cfgOf j
    let cs ← Driver.get? Nat j "cs"
    let lu ← Driver.get? Bool j "lu"
    let ru ← Driver.get? Bool j "ru"
    let a ← Driver.get? (List Int) j "left"
    let b ← Driver.get? (List Int) j "right"
    let ps ← payloads j "payloads"
    pure <| Driver.outE mergeOut (orderedMergeRight cs c lu ru a b ps)
  | "omi" => some do
    let lu ← Driver.get? Bool j "lu"
    let ru ← Driver.get? Bool j "ru"
    let a ← Driver.get? (List Int) j "left"
    let b ← Driver.get? (List Int) j "right"
    let lp ← payloads j "lpayloads"
    let rp ← payloads j "rpayloads"
    let ls ← sinksOf j "lsinks" "lsink_init"
    let rs ← sinksOf j "rsinks" "rsink_init"
    pure <| Driver.outE (fun (o : InnerOut) => Json.mkObj [("left", mergeOut o.left), ("right", mergeOut o.right)])
      (orderedMergeInner lu ru a b lp ls rp rs)
  | "merge_left" => some do
    let a ← Driver.get? (List Int) j "left"
    let b ← Driver.get? (List Int) j "right"
    let ps ← payloads j "payloads"
    pure <| Driver.outE pouts (mergeLeft Spec.leftJoin a b ps)
  | "merge_right" => some do
    let a ← Driver.get? (List Int) j "left"
    let b ← Driver.get? (List Int) j "right"
    let ps ← payloads j "payloads"
    pure <| Driver.outE pouts (mergeRight Spec.leftJoin a b ps)
  | "merge_inner" => some do
    let a ← Driver.get? (List Int) j "left"
    let b ← Driver.get? (List Int) j "right"
    let lp ← payloads j "lpayloads"
    let rp ← payloads j "rpayloads"
    pure <| Driver.outE (fun (o : List POut × List POut) => Json.mkObj [("left", pouts o.1), ("right", pouts o.2)])
      (mergeInner Spec.innerJoin a b lp rp)
  | "get_index" => some do
    let t ← Driver.get? (List Int) j "target"
    let f ← Driver.get? (List Int) j "fk"
    pure <| Driver.okJson (Driver.ints (getIndex t f))
  | "session_join" => some do
    let n ← Driver.get? Nat j "dest_len"
    let f ← Driver.get? (List Int) j "fkey"
    let v ← Driver.get? (List Int) j "values"
    pure <| Driver.outE Driver.ints (JoinOld.join n f v)
  | _ => none

end Driver.C19
