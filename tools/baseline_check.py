#!/usr/bin/env python3
"""Run /repo's pinned test suite (guard off) and compare with /root/.vp/BASELINE.json stable_pass."""
import json, subprocess, sys, tempfile, os, xml.etree.ElementTree as ET
b = json.load(open('/root/.vp/BASELINE.json'))
fd, out = tempfile.mkstemp(suffix='.xml'); os.close(fd)
env = dict(os.environ); env.pop('EXETERA_VERIF', None)
cmd = b['cmd'].replace('<file>', out)
p = subprocess.run(cmd, shell=True, env=env, stdout=subprocess.PIPE, stderr=subprocess.STDOUT, text=True)
passed = set()
for tc in ET.parse(out).getroot().iter('testcase'):
    if not any(c.tag in ('failure', 'error', 'skipped') for c in tc):
        passed.add(f"{tc.get('classname')}::{tc.get('name')}")
os.unlink(out)
missing = [t for t in b['stable_pass'] if t not in passed]
print(f"stable_pass={len(b['stable_pass'])} passed_now={len(passed)} missing={len(missing)}")
for t in missing: print("  MISSING", t)
sys.exit(1 if missing else 0)
