"""Kernel shapes (C10): for every @exetera_njit / @njit function the loop guards and the array subscripts it contains,
as normalised source strings. Written to Gen/KernelShape.lean by tools/translate.py; `--pin` prints the Lean literal that
Model/KernelSites.lean freezes for the kernels that are modelled.

Kernel paths (C10): for every subscript site of the same functions its PATH CONDITION — the ordered list of tests that
were passed on the way to the subscript, as normalised source text (`ast.unparse`):
  * `for t in it` / `while test` for every enclosing loop (the same strings as the guards of `kernelShape`);
  * `test` for the body of an `if` / `elif`, `not (test)` for its `else` (an `elif` is an `if` inside the `else`);
  * `not (test)` for every statement that follows an `if test: … break | continue | return | raise` in the same block
    (an early exit), and `test` when it is the `else` branch that always exits;
  * inside one expression: the operands of `a and b` to the left of the subscript (`not (a)` for `a or b`), and the test of
    a conditional expression (`x if test else y`).
Each condition is the text of a test that evaluated to true at the time it was passed (a syntactic path, not an invariant:
variables may have been re-assigned since). Written to Gen/KernelPaths.lean as
`kernelPaths : List (String × List (String × List String))` = kernel ↦ sorted, duplicate-free [(site, path condition)];
a site that occurs on several paths has one entry per path. `--paths` prints the Lean literal that
Model/KernelPaths<Family>.lean freezes."""
import ast
from pathlib import Path

FILES = ["exetera/core/operations.py", "exetera/core/csv_reader_speedup.py"]


def is_njit(fn):
    for d in fn.decorator_list:
        name = d.func if isinstance(d, ast.Call) else d
        s = ast.unparse(name)
        if s.split(".")[-1] in ("exetera_njit", "njit", "jit"):
            return True
    return False


def shape(fn):
    guards, subs = [], []
    for n in ast.walk(fn):
        if isinstance(n, ast.While):
            guards.append("while " + ast.unparse(n.test))
        elif isinstance(n, ast.For):
            guards.append("for " + ast.unparse(n.target) + " in " + ast.unparse(n.iter))
        elif isinstance(n, ast.Subscript):
            ctx = "W" if isinstance(n.ctx, ast.Store) else "R"
            subs.append(f"{ctx} {ast.unparse(n)}")
    return sorted(set(guards)), sorted(set(subs))


# ---------------------------------------------------------------------------------------------------------------------
# path conditions
# ---------------------------------------------------------------------------------------------------------------------
EXITS = (ast.Break, ast.Continue, ast.Return, ast.Raise)


def neg(test):
    return "not (" + ast.unparse(test) + ")"


def always_exits(block):
    """the block cannot fall through to the statement after it"""
    if not block:
        return False
    last = block[-1]
    if isinstance(last, EXITS):
        return True
    if isinstance(last, ast.If):
        return always_exits(last.body) and always_exits(last.orelse)
    return False


class Paths:
    def __init__(self):
        self.out = []           # (site, tuple of conditions), one per occurrence

    # expressions -----------------------------------------------------------------------------------------------------
    def expr(self, n, path):
        if n is None:
            return
        if isinstance(n, ast.BoolOp):
            seen = []
            for v in n.values:
                self.expr(v, path + seen)
                seen = seen + [ast.unparse(v) if isinstance(n.op, ast.And) else neg(v)]
            return
        if isinstance(n, ast.IfExp):
            self.expr(n.test, path)
            self.expr(n.body, path + [ast.unparse(n.test)])
            self.expr(n.orelse, path + [neg(n.test)])
            return
        if isinstance(n, ast.Subscript):
            ctx = "W" if isinstance(n.ctx, ast.Store) else "R"
            self.out.append((f"{ctx} {ast.unparse(n)}", tuple(path)))
        for c in ast.iter_child_nodes(n):
            if isinstance(c, ast.expr):
                self.expr(c, path)
            elif isinstance(c, (ast.stmt, ast.excepthandler)):
                self.stmt(c, path)      # not expected inside an expression
            else:
                self.expr(c, path)      # slices, comprehensions, keywords, arguments: same path

    # statements ------------------------------------------------------------------------------------------------------
    def block(self, stmts, path):
        path = list(path)
        for s in stmts:
            self.stmt(s, path)
            if isinstance(s, ast.If):
                if always_exits(s.body):
                    path = path + [neg(s.test)]
                elif always_exits(s.orelse):
                    path = path + [ast.unparse(s.test)]

    def stmt(self, s, path):
        if isinstance(s, ast.If):
            self.expr(s.test, path)
            self.block(s.body, path + [ast.unparse(s.test)])
            self.block(s.orelse, path + [neg(s.test)])
        elif isinstance(s, ast.While):
            self.expr(s.test, path)
            self.block(s.body, path + ["while " + ast.unparse(s.test)])
            self.block(s.orelse, path)
        elif isinstance(s, ast.For):
            self.expr(s.iter, path)
            inner = path + ["for " + ast.unparse(s.target) + " in " + ast.unparse(s.iter)]
            self.expr(s.target, inner)
            self.block(s.body, inner)
            self.block(s.orelse, path)
        elif isinstance(s, (ast.FunctionDef, ast.AsyncFunctionDef)):
            for d in s.decorator_list:
                self.expr(d, path)
            self.expr(s.args, path)
            self.expr(s.returns, path)
            self.block(s.body, path)
        elif isinstance(s, (ast.With, ast.AsyncWith)):
            for it in s.items:
                self.expr(it, path)
            self.block(s.body, path)
        elif isinstance(s, ast.Try):
            self.block(s.body, path)
            for h in s.handlers:
                self.expr(h.type, path)
                self.block(h.body, path)
            self.block(s.orelse, path)
            self.block(s.finalbody, path)
        else:
            for c in ast.iter_child_nodes(s):
                if isinstance(c, ast.stmt):
                    self.stmt(c, path)
                else:
                    self.expr(c, path)


def paths(fn):
    p = Paths()
    p.stmt(fn, [])
    return sorted(set(p.out))


def kernel_fns(repo):
    for f in FILES:
        tree = ast.parse((Path(repo) / f).read_text())
        for n in tree.body:
            if isinstance(n, ast.FunctionDef) and is_njit(n):
                yield n


def kernels(repo):
    return [(n.name,) + shape(n) for n in kernel_fns(repo)]


def kernel_paths(repo):
    out = []
    for n in kernel_fns(repo):
        ps = paths(n)
        _, subs = shape(n)
        if sorted(set(s for s, _ in ps)) != subs:
            raise RuntimeError(f"{n.name}: the path walk and the subscript walk see different sites")
        out.append((n.name, ps))
    return out


def lean_str(s):
    return '"' + s.replace("\\", "\\\\").replace('"', '\\"') + '"'


def lean_list(xs):
    return "[" + ", ".join(lean_str(x) for x in xs) + "]"


def render(rows, name, doc):
    L = [f"/-- {doc} -/", f"def {name} : List (String × List String × List String) := ["]
    L.append(",\n".join(f"  ({lean_str(n)},\n    {lean_list(g)},\n    {lean_list(s)})" for n, g, s in rows))
    L.append("]")
    return "\n".join(L)


def render_paths(rows, name, doc):
    L = [f"/-- {doc} -/", f"def {name} : List (String × List (String × List String)) := ["]
    L.append(",\n".join(
        f"  ({lean_str(n)}, [" + ("\n" if ps else "") +
        ",\n".join(f"    ({lean_str(s)}, {lean_list(p)})" for s, p in ps) + "])" for n, ps in rows))
    L.append("]")
    return "\n".join(L)


def write_gen(repo, out):
    rows = kernels(repo)
    if len(rows) < 30:
        raise RuntimeError(f"only {len(rows)} compiled kernels found")
    txt = "-- generated by tools/translate.py (tools/translate_kernels.py) from operations.py and csv_reader_speedup.py; do not edit\n" \
          "namespace Exetera.Gen\n\n" + \
          render(rows, "kernelShape", "(compiled kernel, its loop guards, its array subscripts: R read / W write), as written in the source") + \
          "\n\nend Exetera.Gen\n"
    (Path(out) / "KernelShape.lean").write_text(txt)
    prow = kernel_paths(repo)
    txt = "-- generated by tools/translate.py (tools/translate_kernels.py) from operations.py and csv_reader_speedup.py; do not edit\n" \
          "namespace Exetera.Gen\n\n" + \
          render_paths(prow, "kernelPaths",
                       "(compiled kernel, for every occurrence of an array subscript (R read / W write) its path condition: the "
                       "enclosing loop guards and the `if` / `elif` tests (`not (…)` for `else` branches and for statements after an "
                       "early exit `if …: break | continue | return | raise`; operands to the left inside `and` / `or`) under which it "
                       "executes, outermost first), as written in the source") + \
          "\n\nend Exetera.Gen\n"
    (Path(out) / "KernelPaths.lean").write_text(txt)
    return len(rows)


if __name__ == "__main__":
    import sys
    args = sys.argv[1:]
    want_paths = "--paths" in args
    args = [a for a in args if a != "--paths"]
    repo = args[0] if args else "/repo"
    want = args[1:]
    if want_paths:
        rows = dict(kernel_paths(repo))
        print(render_paths([(k, rows[k]) for k in (want or rows)], "pinned", "pinned paths"))
    else:
        rows = kernels(repo)
        print(render([r for r in rows if not want or r[0] in want], "pinned", "pinned shapes"))
