import Exetera.Gen.Kernels
import Exetera.Model.Transforms
import Exetera.Lemmas.GenKernels
import Exetera.Lemmas.GenKernelsSpans
/-!
  The TRANSLATED `numeric_bool_transform` (Gen/Kernels.lean) against the hand model of `Model/Transforms.lean`:
  loop-level transfer lemmas for the two whitespace-trimming `while` loops, whose guards subscript `column_vals`
  (`whileG`), against `Transforms.skipLead` / `Transforms.skipTrail` — every `.ok` run of the model's recursion is a run of the
  translated loop (on the kernel's global fuel, any fuel ≥ the trip count) that leaves `byte_start_idx` / `byte_end_idx` at the
  model's result and changes nothing else.

  NOT done here (left `_partial` by omission, nothing is claimed): the row loop `body_L1` (the literal cascade against
  `boolLitIn Gen.boolLiterals`, the two stores, the validation modes) and the kernel-level transfer against
  `Transforms.boolTransform`.
-/
namespace Exetera.GenK.NumericBool

open Exetera Exetera.PyRt Exetera.Transforms Exetera.Gen.Kernels Exetera.GenK

abbrev St := numeric_bool_transform.St

/-- `val in (c1, …)` on a one-element array is the membership of its element -/
theorem arrInTupleE_one (x : Int) (cs : List Int) : arrInTupleE [x] cs = .ok (cs.any (fun c => c == x)) := rfl

/-- … and a ValueError on an array of any other length (what numpy and numba do) -/
theorem arrInTupleE_ne_one (a cs : List Int) (h : a.length ≠ 1) :
    ∃ e, arrInTupleE a cs = .error e ∧ e.tag = "value_error" := by
  match a, h with
  | [], _ => exact ⟨_, rfl, rfl⟩
  | [_], h => exact absurd rfl h
  | _ :: _ :: _, _ => exact ⟨_, rfl, rfl⟩

example : arrInTupleE [121] [49, 89, 121, 84, 116] = .ok true := rfl
example : arrInTupleE [50] [49, 89, 121, 84, 116] = .ok false := rfl
example : (arrInTupleE [] [49, 89]).toOption = none := rfl

/-- loop L2, `while byte_start_idx < length and column_vals[col_offset + row_start_idx + byte_start_idx] == 32: byte_start_idx += 1`,
    follows `skipLead vals base n b` (`n = length - byte_start_idx`, `base = col_offset + row_start_idx`) -/
theorem lead_transfer (vals : Bytes) (base : Nat) :
    ∀ (n b r fuel : Nat) (s : St), skipLead vals base n b = .ok r → n ≤ fuel →
      s.p3 = ints vals → s.v0 + s.v7 = (base : Int) → s.v10 = (b : Int) → s.v9 = ((b + n : Nat) : Int) →
      whileG numeric_bool_transform.guardE_L2 numeric_bool_transform.body_L2 fuel s = .ok { s with v10 := (r : Int) } := by
  intro n
  induction n with
  | zero =>
    intro b r fuel s h _ _ _ h10 h9
    simp only [skipLead, Except.ok.injEq] at h
    subst h
    have hlt : ¬ (s.v10 < s.v9) := by rw [h10, h9]; omega
    have hg : numeric_bool_transform.guardE_L2 s = .ok false := by
      simp [numeric_bool_transform.guardE_L2, hlt]
    have hs : ({ s with v10 := (b : Int) } : St) = s := by
      cases s; simp_all
    rw [hs]
    cases fuel <;> simp [whileG, hg]
  | succ n ih =>
    intro b r fuel s h hf h3 h0 h10 h9
    obtain ⟨f, rfl⟩ : ∃ f, fuel = f + 1 := ⟨fuel - 1, by omega⟩
    simp only [skipLead] at h
    cases hget : getE vals (base + b) "column_vals[col_offset+row_start_idx+byte_start_idx]" with
    | error e => rw [hget] at h; simp at h
    | ok x =>
      rw [hget] at h
      simp only at h
      have hx : vals[base + b]? = some x := by simpa using hget
      have hidx : (s.v0 + s.v7) + s.v10 = ((base + b : Nat) : Int) := by rw [h0, h10]; omega
      have hlt : s.v10 < s.v9 := by rw [h10, h9]; omega
      have hread : idxE s.p3 ((s.v0 + s.v7) + s.v10) "p3[v0 + v7 + v10]" = .ok (x : Int) := by
        rw [hidx, idxE_nat, h3]; exact getE_ints vals _ _ hx
      by_cases hb : (x == Gen.boolBlank) = true
      · rw [if_pos hb] at h
        have hx32 : x = 32 := by simpa [Gen.boolBlank] using hb
        have hg : numeric_bool_transform.guardE_L2 s = .ok true := by
          simp [numeric_bool_transform.guardE_L2, hlt, hread, hx32]
        have hbody : numeric_bool_transform.body_L2 s = .ok { s with v10 := s.v10 + 1 } := rfl
        have ih' := ih (b + 1) r f { s with v10 := s.v10 + 1 } h (by omega) h3 h0
          (by show s.v10 + 1 = ((b + 1 : Nat) : Int); rw [h10]; omega)
          (by show s.v9 = ((b + 1 + n : Nat) : Int); rw [h9]; omega)
        simp only [whileG, hg, hbody, if_true]
        exact ih'
      · rw [if_neg hb] at h
        simp only [Except.ok.injEq] at h
        subst h
        have hx32 : ¬ ((x : Int) = 32) := by
          intro hc
          apply hb
          have : x = 32 := by omega
          simp [Gen.boolBlank, this]
        have hg : numeric_bool_transform.guardE_L2 s = .ok false := by
          simp [numeric_bool_transform.guardE_L2, hlt, hread, hx32]
        have hs : ({ s with v10 := (b : Int) } : St) = s := by
          cases s; simp_all
        rw [hs]
        simp [whileG, hg]

/-- loop L3, `while byte_end_idx >= 0 and column_vals[col_offset + row_start_idx + byte_end_idx] == 32: byte_end_idx -= 1`,
    follows `skipTrail vals base e` (`e = byte_end_idx + 1`) -/
theorem trail_transfer (vals : Bytes) (base : Nat) :
    ∀ (e r fuel : Nat) (s : St), skipTrail vals base e = .ok r → e ≤ fuel →
      s.p3 = ints vals → s.v0 + s.v7 = (base : Int) → s.v11 = (e : Int) - 1 →
      whileG numeric_bool_transform.guardE_L3 numeric_bool_transform.body_L3 fuel s = .ok { s with v11 := (r : Int) - 1 } := by
  intro e
  induction e with
  | zero =>
    intro r fuel s h _ _ _ h11
    simp only [skipTrail, Except.ok.injEq] at h
    subst h
    have hge : ¬ (s.v11 ≥ 0) := by rw [h11]; omega
    have hg : numeric_bool_transform.guardE_L3 s = .ok false := by
      simp [numeric_bool_transform.guardE_L3, hge]
    have hs : ({ s with v11 := ((0 : Nat) : Int) - 1 } : St) = s := by
      cases s; simp_all
    rw [hs]
    cases fuel <;> simp [whileG, hg]
  | succ e ih =>
    intro r fuel s h hf h3 h0 h11
    obtain ⟨f, rfl⟩ : ∃ f, fuel = f + 1 := ⟨fuel - 1, by omega⟩
    simp only [skipTrail] at h
    cases hget : getE vals (base + e) "column_vals[col_offset+row_start_idx+byte_end_idx]" with
    | error err => rw [hget] at h; simp at h
    | ok x =>
      rw [hget] at h
      simp only at h
      have hx : vals[base + e]? = some x := by simpa using hget
      have hidx : (s.v0 + s.v7) + s.v11 = ((base + e : Nat) : Int) := by rw [h0, h11]; omega
      have hge : s.v11 ≥ 0 := by rw [h11]; omega
      have hread : idxE s.p3 ((s.v0 + s.v7) + s.v11) "p3[v0 + v7 + v11]" = .ok (x : Int) := by
        rw [hidx, idxE_nat, h3]; exact getE_ints vals _ _ hx
      by_cases hb : (x == Gen.boolBlank) = true
      · rw [if_pos hb] at h
        have hx32 : x = 32 := by simpa [Gen.boolBlank] using hb
        have hg : numeric_bool_transform.guardE_L3 s = .ok true := by
          simp [numeric_bool_transform.guardE_L3, hge, hread, hx32]
        have hbody : numeric_bool_transform.body_L3 s = .ok { s with v11 := s.v11 - 1 } := rfl
        have ih' := ih r f { s with v11 := s.v11 - 1 } h (by omega) h3 h0
          (by show s.v11 - 1 = (e : Int) - 1; rw [h11]; omega)
        simp only [whileG, hg, hbody, if_true]
        exact ih'
      · rw [if_neg hb] at h
        simp only [Except.ok.injEq] at h
        subst h
        have hx32 : ¬ ((x : Int) = 32) := by
          intro hc
          apply hb
          have : x = 32 := by omega
          simp [Gen.boolBlank, this]
        have hg : numeric_bool_transform.guardE_L3 s = .ok false := by
          simp [numeric_bool_transform.guardE_L3, hge, hread, hx32]
        have hs : ({ s with v11 := ((e + 1 : Nat) : Int) - 1 } : St) = s := by
          cases s; simp_all
        rw [hs]
        simp [whileG, hg]

/-! ### the hypotheses are satisfiable: the cell `"  1 "` of a one-column chunk -/

def exSt : St :=
  { p0 := [false], p1 := [true], p2 := [[0, 4]], p3 := ints [32, 32, 49, 32], p4 := [0, 4], p5 := 0, p6 := 1, p7 := 0,
    p8 := "relaxed", p9 := [102], v0 := 0, v1 := 0, v2 := [[102]], v3 := 0, v4 := false, v5 := true, v6 := -1, v7 := 0, v8 := 4,
    v9 := 4, v10 := 0, v11 := 3, v12 := 0, v13 := [], v14 := [], brk1 := false }

example : skipLead [32, 32, 49, 32] 0 4 0 = .ok 2 := rfl
example : skipTrail [32, 32, 49, 32] 0 4 = .ok 3 := rfl

example : whileG numeric_bool_transform.guardE_L2 numeric_bool_transform.body_L2 4 exSt = .ok { exSt with v10 := 2 } :=
  lead_transfer [32, 32, 49, 32] 0 4 0 2 4 exSt rfl (by omega) rfl rfl rfl rfl

example : whileG numeric_bool_transform.guardE_L3 numeric_bool_transform.body_L3 4 exSt = .ok { exSt with v11 := 2 } :=
  trail_transfer [32, 32, 49, 32] 0 4 3 4 exSt rfl (by omega) rfl rfl rfl

end Exetera.GenK.NumericBool
