import Exetera.Lemmas.Merge
import Exetera.Lemmas.MergeFit
import Exetera.Lemmas.MergeFrame
/-! C02 / NC02c: the value buffer `ordered_map_valid_indexed_stream` sizes for itself (`value_factor=None`) holds every entry
    of the source, so a streamed indexed column needs no hypothesis about entry lengths. -/
namespace Exetera.Merge

open Exetera Exetera.Spec Exetera.MapValid

/-- for the columns of `mapColumn` the two notions coincide: the capacity is met by construction -/
theorem ColWF.toOK {col : Col} {n : Nat} (h : ColWF col n) (vf cs : Nat) (hcs : 1 ≤ cs) :
    ∀ ix vs, col = .indexed ix vs → ColOK col n (cs * autoValueFactor vf ix cs) := by
  intro ix vs e
  refine ⟨h.len, fun ix' vs' e' => ?_⟩
  have : ix' = ix ∧ vs' = vs := by rw [e] at e'; injection e' with a b; exact ⟨a.symm, b.symm⟩
  obtain ⟨rfl, rfl⟩ := this
  exact ⟨h.indexedOK _ _ e, entries_fit_auto vf _ _ cs hcs⟩

/-- a well-formed column meets `ColOK` for some capacity (its own longest entry) -/
theorem ColWF.exists_ok {col : Col} {n : Nat} (h : ColWF col n) : ∃ cap, ColOK col n cap := by
  cases col with
  | flat e vals => exact ⟨0, ⟨h.len, fun ix vs e => by cases e⟩⟩
  | indexed ix vs =>
    refine ⟨longestEntry ix, ⟨h.len, fun ix' vs' e => ?_⟩⟩
    injection e with a b
    subst a; subst b
    exact ⟨h.indexedOK _ _ rfl, entry_le_longest _ _⟩

theorem selectCol_id_wf {col : Col} {n : Nat} (h : ColWF col n) : selectCol col (idSel n) = some col := by
  obtain ⟨cap, hc⟩ := h.exists_ok
  exact selectCol_id hc

theorem safeMapColumn_spec_wf (col : Col) (n : Nat) (sel : List (Option Nat)) (hcol : ColWF col n)
    (hsel : ∀ i, some i ∈ sel → i < n) : ∃ out, safeMapColumn col sel = .ok out ∧ selectCol col sel = some out :=
  safeMapColumn_spec col n sel (Or.inr hcol.exists_ok) hsel

end Exetera.Merge
