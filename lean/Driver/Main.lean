import Driver.Util
import Driver.C03
open Lean

def handlers : List Driver.Handler := [Driver.C03.handle]

def dispatch (line : String) : String :=
  match Json.parse line with
  | .error e => (Json.mkObj [("bad", Json.str e)]).compress
  | .ok j =>
    match j.getObjValAs? String "op" with
    | .error e => (Json.mkObj [("bad", Json.str e)]).compress
    | .ok op =>
      match handlers.findSome? (fun h => h op j) with
      | none => (Json.mkObj [("bad", Json.str s!"unknown op {op}")]).compress
      | some (.error e) => (Json.mkObj [("bad", Json.str e)]).compress
      | some (.ok out) => out.compress

partial def loop (h : IO.FS.Stream) (out : IO.FS.Stream) : IO Unit := do
  let line ← h.getLine
  if line.isEmpty then return ()
  out.putStrLn (dispatch line)
  loop h out

def main : IO Unit := do
  let out ← IO.getStdout
  loop (← IO.getStdin) out
  out.flush
