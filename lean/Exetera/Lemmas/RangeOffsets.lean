import Exetera.Spec.MapValid
import Exetera.Spec.FilterIndex
import Exetera.Spec.CsvLine
import Exetera.Spec.Csv
/-!
  C11: every offset of the stored form of a list of entries is a byte count between 0 and the total number of bytes — for each
  of the four renderings of "offsets of a list of entries" the specifications use (`Spec.offsetsFromI` of C04,
  `Spec.offsetsFromF` of C09, `Spec.CsvLine.offsets` of C16, `Csv.Spec.indexOf` of C05).
-/
namespace Exetera

/-- the value range of numpy's `int64` -/
def FitsInt64 (x : Int) : Prop := -(2 ^ 63) ≤ x ∧ x < 2 ^ 63
/-- the value range of numpy's `int32` -/
def FitsInt32 (x : Int) : Prop := -(2 ^ 31) ≤ x ∧ x < 2 ^ 31

theorem FitsInt64.of_bounds {x : Int} {n : Nat} (h0 : 0 ≤ x) (h1 : x ≤ n) (hn : n < 2 ^ 63) : FitsInt64 x := by
  unfold FitsInt64; omega
theorem FitsInt32.of_bounds {x : Int} {n : Nat} (h0 : 0 ≤ x) (h1 : x ≤ n) (hn : n < 2 ^ 31) : FitsInt32 x := by
  unfold FitsInt32; omega
theorem FitsInt64.of_nat_le {x n : Nat} (h1 : x ≤ n) (hn : n < 2 ^ 63) : FitsInt64 (x : Int) := by
  unfold FitsInt64; omega
theorem FitsInt32.of_nat_le {x n : Nat} (h1 : x ≤ n) (hn : n < 2 ^ 31) : FitsInt32 (x : Int) := by
  unfold FitsInt32; omega

theorem offsetsFromI_range {β} : ∀ (es : List (List β)) (base : Int), ∀ x ∈ Spec.offsetsFromI base es,
    base ≤ x ∧ x ≤ base + (es.flatten.length : Int)
  | [], base => by simp [Spec.offsetsFromI]
  | e :: es, base => by
    intro x hx
    simp only [Spec.offsetsFromI, List.mem_cons] at hx
    rcases hx with rfl | hx
    · simp only [List.flatten_cons, List.length_append]; omega
    · have := offsetsFromI_range es (base + e.length) x hx
      simp only [List.flatten_cons, List.length_append]
      omega

theorem offsetsFromF_range {α} : ∀ (es : List (List α)) (s : Nat), ∀ x ∈ Spec.offsetsFromF s es,
    s ≤ x ∧ x ≤ s + es.flatten.length
  | [], s => by simp [Spec.offsetsFromF]
  | e :: es, s => by
    intro x hx
    simp only [Spec.offsetsFromF, List.mem_cons] at hx
    rcases hx with rfl | hx
    · simp only [List.flatten_cons, List.length_append]; omega
    · have := offsetsFromF_range es (s + e.length) x hx
      simp only [List.flatten_cons, List.length_append]
      omega

theorem csvLine_offsetsFrom_range {α} : ∀ (xs : List (List α)) (base : Nat), ∀ x ∈ Spec.CsvLine.offsetsFrom base xs,
    base ≤ x ∧ x ≤ base + xs.flatten.length
  | [], base => by simp [Spec.CsvLine.offsetsFrom]
  | e :: es, base => by
    intro x hx
    simp only [Spec.CsvLine.offsetsFrom, List.mem_cons] at hx
    rcases hx with rfl | hx
    · simp only [List.flatten_cons, List.length_append]; omega
    · have := csvLine_offsetsFrom_range es (base + e.length) x hx
      simp only [List.flatten_cons, List.length_append]
      omega

theorem csvLine_storedIndices_range {α} (outs : List (List α)) : ∀ x ∈ Spec.CsvLine.storedIndices outs,
    x ≤ outs.flatten.length := by
  intro x hx
  unfold Spec.CsvLine.storedIndices at hx
  split at hx
  · simp at hx
  · simp only [Spec.CsvLine.offsets, List.mem_cons] at hx
    rcases hx with rfl | hx
    · omega
    · have := csvLine_offsetsFrom_range outs 0 x hx
      omega

theorem csv_offsetsFrom_range : ∀ (es : List (List Nat)) (base : Nat), ∀ x ∈ Csv.Spec.offsetsFrom base es,
    base ≤ x ∧ x ≤ base + es.flatten.length
  | [], base => by simp [Csv.Spec.offsetsFrom]
  | e :: es, base => by
    intro x hx
    simp only [Csv.Spec.offsetsFrom, List.mem_cons] at hx
    rcases hx with rfl | hx
    · simp only [List.flatten_cons, List.length_append]; omega
    · have := csv_offsetsFrom_range es (base + e.length) x hx
      simp only [List.flatten_cons, List.length_append]
      omega

theorem sublist_flatten_length_le {α} {l₁ l₂ : List (List α)} (h : l₁.Sublist l₂) :
    l₁.flatten.length ≤ l₂.flatten.length := by
  induction h with
  | slnil => simp
  | cons a _ ih => simp only [List.flatten_cons, List.length_append]; omega
  | cons_cons a _ ih => simp only [List.flatten_cons, List.length_append]; omega

end Exetera
