import Exetera.Spec.FilterIndex
/-!
  Specification of sorting by ANY mix of key columns (C09): numeric / categorical / timestamp / fixed-string columns hold
  numbers, indexed-string columns hold byte strings (the UTF-8 encoding). A key value is a number or a string; numbers are
  ordered as integers, strings bytewise-lexicographically (a proper prefix is smaller) — which for valid UTF-8 is the
  code-point order Python's `str` and numpy's `<U` arrays compare by.
  The sort permutation is characterised without reference to an algorithm: it lists every row once, in non-decreasing
  order of key tuple, rows with equal tuples in their original order (`IsStableSortPermK`).
-/
namespace Exetera.Spec

/-- strict bytewise lexicographic order on strings -/
def strLt : List Nat → List Nat → Bool
  | [], [] => false
  | [], _ :: _ => true
  | _ :: _, [] => false
  | a :: as, b :: bs => a < b || (a == b && strLt as bs)

/-- one component of a key tuple -/
inductive KeyVal where
  | num (x : Int)
  | str (bs : List Nat)
  deriving DecidableEq, Repr

/-- strict order on key values. A column holds one kind, so a number is never compared with a string by a sort; the
    mixed cases only make the order total. -/
def keyLt : KeyVal → KeyVal → Bool
  | .num a, .num b => decide (a < b)
  | .str a, .str b => strLt a b
  | .num _, .str _ => true
  | .str _, .num _ => false

/-- a key column -/
inductive KeyCol where
  | nums (xs : List Int)
  | strs (es : List (List Nat))
  deriving DecidableEq, Repr

def KeyCol.length : KeyCol → Nat
  | .nums xs => xs.length
  | .strs es => es.length

def KeyCol.at? : KeyCol → Nat → Option KeyVal
  | .nums xs, i => xs[i]?.map .num
  | .strs es, i => es[i]?.map .str

/-- lexicographic `≤` on key tuples -/
def lexLEK : List KeyVal → List KeyVal → Bool
  | [], _ => true
  | _ :: _, [] => false
  | a :: as, b :: bs => keyLt a b || (a == b && lexLEK as bs)

/-- the key tuple of row `i` (most significant key first) -/
def keyRowK (keys : List KeyCol) (i : Nat) : List KeyVal := keys.filterMap (·.at? i)

/-- `p` lists every row `0..n-1` once, in non-decreasing order of key tuple, rows with equal tuples in their original
    order: THE stable ascending lexicographic sort permutation -/
def IsStableSortPermK (keys : List KeyCol) (n : Nat) (p : List Nat) : Prop :=
  p.Perm (List.range n) ∧
  p.Pairwise (fun i j => lexLEK (keyRowK keys i) (keyRowK keys j) = true ∧
    (lexLEK (keyRowK keys j) (keyRowK keys i) = true → i < j))

/-- the key columns named by `by_` (most significant first), of any kind -/
def keyColsAll {μ} (cols : List (ColSpec μ)) : List String → Option (List KeyCol)
  | [] => some []
  | k :: ks =>
    match cols.find? (fun c => c.name == k) with
    | some c =>
      match keyColsAll cols ks with
      | some r =>
        match c.content with
        | .nums xs => some (.nums xs :: r)
        | .strs es => some (.strs es :: r)
      | none => none
    | none => none

/-- a string without its trailing NUL characters: what a numpy `<U` / `S` array keeps of it (numpy pads with NUL and
    cannot tell padding from content — the root of NC14a and NC09g) -/
def stripNul (e : List Nat) : List Nat := (e.reverse.dropWhile (· == 0)).reverse

/-- the column as `np.asarray(list_of_str)` holds it -/
def KeyCol.numpyView : KeyCol → KeyCol
  | .nums xs => .nums xs
  | .strs es => .strs (es.map stripNul)

/-- no string key ends in a NUL character -/
def KeyCol.NoTrailingNul : KeyCol → Prop
  | .nums _ => True
  | .strs es => ∀ e ∈ es, e.getLast? ≠ some 0

end Exetera.Spec
