import Exetera.Lemmas.GroupByFrame
/-!
  C07 helper lemmas, part 5: both paths of `DataFrame.groupby` (already sorted / sort first) produce a stable sort index
  and the spans of the frame read along it; the written keys and the reductions are the group-by of the original frame.
-/
namespace Exetera.GroupBy
open Exetera Exetera.Spec Exetera.Spans Exetera.SortIndex List

/-- the rows are in non-decreasing key order (index form) -/
def SortedRows (cols : List (List Int)) (n : Nat) : Prop :=
  ∀ i j, i < j → j < n → tupleLt (keyAt cols j) (keyAt cols i) = false

theorem perm_range_lt {idx : List Nat} {n : Nat} (h : idx.Perm (List.range n)) : ∀ i ∈ idx, i < n := by
  intro i hi; simpa using h.mem_iff.1 hi

theorem perm_range_length {idx : List Nat} {n : Nat} (h : idx.Perm (List.range n)) : idx.length = n := by
  simpa using h.length_eq

/-- `DataFrame.groupby` as found (stacked key columns): never fails on a rectangular frame with at least one key; the result is `(None, spans)` with
    the frame already sorted, or `(sort index, spans)`; in both cases `idx` is a stable sort index of the frame and
    `spans` are the spans of the key rows read along it -/
theorem groupby_paths (k0 : KeyCol) (ks : List KeyCol) (hint : Bool) (n : Nat)
    (hrect : Rect n ((k0 :: ks).map (·.data))) (hf : Faithful (k0 :: ks))
    (hhint : hint = true → SortedRows ((k0 :: ks).map (·.data)) n) :
    ∃ idx si, idx.Perm (List.range n) ∧ idx.Pairwise (ltBy ((k0 :: ks).map (·.data))) ∧
      ((si = none ∧ idx = List.range n) ∨ si = some idx) ∧
      groupbyStacked .repaired (k0 :: ks) hint =
        .ok ⟨si, spans neq (rowsBy (colsAlong ((k0 :: ks).map (·.data)) idx) n)⟩ := by
  have hstack := stack_ok k0 ks n hrect
  have hk0 : k0.data.length = n := hrect k0.data (by simp)
  -- the sorted branch
  have sortedBranch : SortedRows ((k0 :: ks).map (·.data)) n →
      (List.range n).Pairwise (ltBy ((k0 :: ks).map (·.data))) ∧
        getSpansForMultiFields .repaired ((k0 :: ks).map (fun k => k.data.map k.cast)) =
          .ok (spans neq (rowsBy (colsAlong ((k0 :: ks).map (fun k : KeyCol => k.data)) (List.range n)) n)) := by
    intro hsorted
    refine ⟨range_sorted_index _ n hsorted, ?_⟩
    rw [spans_stacked k0 ks n hrect hf, colsAlong_range _ n hrect]
  unfold groupbyStacked
  rw [hstack]
  cases hint with
  | true =>
    obtain ⟨h1, h2⟩ := sortedBranch (hhint rfl)
    refine ⟨List.range n, none, Perm.refl _, h1, Or.inl ⟨rfl, rfl⟩, ?_⟩
    simp only [if_true, h2]
  | false =>
    simp only [Bool.false_eq_true, if_false]
    obtain ⟨b, hb, hspec⟩ := checkIfSorted_spec (k0.data.map k0.cast) (ks.map (fun k => k.data.map k.cast)) n
      (by simpa using rect_stacked (k0 :: ks) n hrect)
    simp only [map_cons] at hb hspec ⊢
    rw [hb]
    cases b with
    | true =>
      have hsorted : SortedRows ((k0 :: ks).map (·.data)) n := by
        intro i j hij hj
        have := hspec.1 rfl i j hij hj
        rw [← map_cons (f := fun k : KeyCol => k.data.map k.cast), keyAt_stacked (k0 :: ks) n j hrect hj,
          keyAt_stacked (k0 :: ks) n i hrect (by omega), tupleLt_stacked n (k0 :: ks) hrect hf j i hj (by omega)] at this
        rw [keyAt_data, keyAt_data]; exact this
      obtain ⟨h1, h2⟩ := sortedBranch hsorted
      refine ⟨List.range n, none, Perm.refl _, h1, Or.inl ⟨rfl, rfl⟩, ?_⟩
      simp only [map_cons] at h2
      simp only [h2]
    | false =>
      simp only
      obtain ⟨idx, hidx, hperm, hs⟩ := datasetSortIndex_spec k0.data (ks.map (·.data)) n (fun c hc => hrect c (by simpa using hc))
      have hlen := perm_range_length hperm
      have hlt := perm_range_lt hperm
      refine ⟨idx, some idx, hperm, by simpa using hs, Or.inr rfl, ?_⟩
      simp only [nrows, hk0, hidx, gatherKeys_ok n idx hlt (k0 :: ks) hrect]
      have hrect' : Rect n ((keysAlong (k0 :: ks) idx).map (·.data)) := by
        rw [keysAlong_data, ← hlen]; exact rect_colsAlong _ idx
      have hst := stack_ok ⟨k0.cast, idx.map (k0.data.getD · 0)⟩ (keysAlong ks idx) n hrect'
      have hsp := spans_stacked ⟨k0.cast, idx.map (k0.data.getD · 0)⟩ (keysAlong ks idx) n hrect'
        (faithful_keysAlong hf hrect idx hlt)
      have e : keysAlong (k0 :: ks) idx = ⟨k0.cast, idx.map (k0.data.getD · 0)⟩ :: keysAlong ks idx := rfl
      rw [e, hst]
      simp only []
      rw [hsp, ← e, keysAlong_data]
      simp

/-- what `HDF5DataFrameGroupBy` computes from such a grouping: the key columns are the columns of the adjacent groups'
    keys, the reduction of a non-indexed target gives the aggregate of each adjacent group -/
theorem outputs_along (agg : Agg) (cols : List (List Int)) (T : List Int) (n : Nat) (idx : List Nat) (si : Option (List Nat))
    (hperm : idx.Perm (List.range n)) (hsi : (si = none ∧ idx = List.range n) ∨ si = some idx)
    (hrect : Rect n cols) (hT : T.length = n) :
    ∃ kcols r, writeKeys ⟨si, spans neq (rowsBy (colsAlong cols idx) n)⟩ cols = .ok kcols ∧
      aggTarget .repaired agg ⟨si, spans neq (rowsBy (colsAlong cols idx) n)⟩ (.plain T) = .ok (.ints r) ∧
      ColumnsOf kcols ((groupAdj (frameAlong cols T 0 idx)).map (·.1)) ∧
      r.map some = ((groupAdj (frameAlong cols T 0 idx)).map (·.2)).map (aggSpec agg) := by
  have hlen := perm_range_length hperm
  have hlt := perm_range_lt hperm
  let sp := spans neq (rowsBy (colsAlong cols idx) n)
  let Ts := idx.map (T.getD · 0)
  have hTs : Ts.length = n := by simp [Ts, hlen]
  have hw : Wellformed sp n := by
    have := spans_wellformed' neq (rowsBy (colsAlong cols idx) n)
    rw [show (rowsBy (colsAlong cols idx) n).length = n from by simp [rowsBy]] at this
    exact this
  have hstarts := dropLast_lt_of_wellformed hw
  have hframe : (rowsBy (colsAlong cols idx) n).zip Ts = frameAlong cols T 0 idx := by
    rw [← hlen, rowsBy_colsAlong]
    simp only [Ts, frameAlong]
    rw [zip_map']
  obtain ⟨hc1, hc2⟩ := frame_core (colsAlong cols idx) Ts n hTs
  rw [hframe] at hc1 hc2
  obtain ⟨r, hr, hrm⟩ := applySpans_plain agg sp Ts (by rw [hTs]; exact hw)
  have hwk : writeKeys ⟨si, sp⟩ cols = .ok ((colsAlong cols idx).map (fun c => sp.dropLast.map (c.getD · 0))) := by
    rcases hsi with ⟨rfl, hi⟩ | rfl
    · rw [writeKeys_none sp cols (fun c hc a ha => by rw [hrect c hc]; exact hstarts a ha)]
      rw [hi, colsAlong_range cols n hrect]
    · exact writeKeys_some idx sp cols (fun c hc i hi => by rw [hrect c hc]; exact hlt i hi)
        (fun a ha => by rw [hlen]; exact hstarts a ha)
  have hag : aggTarget .repaired agg ⟨si, sp⟩ (.plain T) = .ok (.ints r) := by
    rcases hsi with ⟨rfl, hi⟩ | rfl
    · have : Ts = T := by simp only [Ts, hi]; rw [← hT]; exact map_getD_range T
      simp only [aggTarget]; rw [← this]; exact hr
    · simp only [aggTarget, applyIndex, gather_ok T 0 idx (fun i hi => by rw [hT]; exact hlt i hi)]
      exact hr
  have hcount : sp.dropLast.length = (groupAdj (frameAlong cols T 0 idx)).length := by
    have := congrArg List.length hc2
    simp only [length_map] at this
    rw [← this, ← pairs_map_fst, length_map]
  refine ⟨_, r, hwk, hag, ⟨?_, ?_⟩, ?_⟩
  · intro c hc
    simp only [mem_map] at hc
    obtain ⟨c', _, rfl⟩ := hc
    simp only [length_map]; exact hcount
  · rw [length_map, ← hcount]; exact hc1
  · rw [hrm, ← hc2, map_map]; rfl

end Exetera.GroupBy
