import Exetera.Props.C06
/-!
# C06 — witness of finding NC06d (the as-found variant of the model, `categoricalImport`, mirrors the code before the fix)

As found, a categorical column *without* free text stored `0` for a cell that equals no category key, without flag or
error: with categories `{"no": 0, "yes": 1}` the cell `maybe` was stored as `0`, i.e. as `no`. With
`fixes/NC06d_strict_categorical_rejects_unknown_text.patch` (`categoricalImportChecked`) the same import raises `ValueError`.
-/
namespace Exetera.Witness.C06
open Exetera Exetera.Transforms Exetera.Spec.Transforms

def cats : List (Bytes × Int) := [([110, 111], 0), ([121, 101, 115], 1)]          -- "no" ↦ 0, "yes" ↦ 1

/-- rows `no`, `maybe`, `yes` -/
def chunk : Chunk :=
  { inds := [0, 2, 7, 10], vals := [110, 111, 109, 97, 121, 98, 101, 121, 101, 115], off := 0, cap := 10, rows := 3, col := 0, ncols := 1 }

theorem chunk_encodes : Encodes chunk [[110, 111], [109, 97, 121, 98, 101], [121, 101, 115]] := by
  refine ⟨rfl, ⟨0, ?_, by decide⟩, by decide⟩
  simp [EncFrom, chunk, slice]

/-- `maybe` is no key … -/
theorem maybe_is_no_key : lookup cats [109, 97, 121, 98, 101] = none := by decide

/-- … yet the import as found succeeded and stored the value of `no` for it -/
theorem nc06d_unmatched_text_stored_as_zero :
    categoricalImport cats [chunk] [] = .ok [0, 0, 1] ∧ lookup cats [110, 111] = some 0 := by
  refine ⟨?_, by decide⟩
  rw [Props.C06.categorical_import cats (by decide) [chunk] _ (.cons chunk_encodes .nil) []]
  rfl

/-- with fix NC06d the same import raises instead -/
theorem nc06d_repaired_import_raises :
    categoricalImportChecked cats [chunk] [] = .error (.valueError "is not one of the categories") :=
  (Props.C06.categorical_property cats (by decide) [chunk] _ (.cons chunk_encodes .nil)).2
    ⟨[109, 97, 121, 98, 101], by decide, by decide⟩

end Exetera.Witness.C06
