import Exetera.Lemmas.CsvKernelThm
/-! What is staged after the records of a table is, column by column, `Spec.column (Spec.values rows)`; the budget condition
    in terms of whole columns (C05). -/
namespace Exetera.Csv
open Exetera Spec

theorem stageRow_col (cs : List Cell) : ∀ (E : Nat → List Bytes) (j c : Nat),
    stageRow false E j cs c = E c ++ (if j ≤ c then ((cs.map Cell.value)[c - j]?).toList else []) := by
  induction cs with
  | nil => intro E j c; simp [stageRow]
  | cons d cs ih =>
    intro E j c
    rw [stageRow, ih]
    simp only [stage, Bool.false_eq_true, if_false]
    rcases Nat.lt_trichotomy c j with h | h | h
    · have h1 : ¬ j + 1 ≤ c := by omega
      have h2 : ¬ j ≤ c := by omega
      simp [h1, h2, upd_ne _ _ (Nat.ne_of_lt h)]
    · subst h
      have h1 : ¬ c + 1 ≤ c := by omega
      simp [h1, upd_self]
    · have h1 : j + 1 ≤ c := by omega
      have h2 : j ≤ c := by omega
      have h3 : c - j = (c - (j + 1)) + 1 := by omega
      simp [h1, h2, upd_ne _ _ (Nat.ne_of_gt h), h3]

theorem column_cons (r : List Bytes) (rs : List (List Bytes)) (c : Nat) :
    column (r :: rs) c = (r[c]?).toList ++ column rs c := by
  unfold column
  cases h : r[c]? <;> simp [List.filterMap_cons, h]

theorem stageRows_col (rows : List (List Cell)) : ∀ (E : Nat → List Bytes) (c : Nat),
    stageRows E rows c = E c ++ column (values rows) c := by
  induction rows with
  | nil => intro E c; simp [stageRows, values, column]
  | cons r rs ih =>
    intro E c
    rw [stageRows, ih, stageRow_col]
    simp [values, column_cons, ih]

theorem rowCap_of_final (offs : List Nat) (cs : List Cell) : ∀ (E : Nat → List Bytes) (j : Nat),
    (∀ c, j ≤ c → c < j + cs.length → offAt offs c + (stageRow false E j cs c).flatten.length < offAt offs (c + 1)) →
    RowCap offs false E j cs := by
  induction cs with
  | nil => intro E j _; trivial
  | cons d cs ih =>
    intro E j h
    refine ⟨fun _ => ?_, ?_⟩
    · have := h j (Nat.le_refl _) (by simp)
      rw [stageRow_col] at this
      simpa [Nat.add_assoc] using this
    · apply ih
      intro c h1 h2
      have := h c (by omega) (by simp; omega)
      simpa [stageRow] using this

theorem flatten_length_append_le (a b : List Bytes) : a.flatten.length ≤ (a ++ b).flatten.length := by
  simp

theorem rowsCap_of_final (offs : List Nat) (ncols : Nat) (rows : List (List Cell)) : ∀ (E : Nat → List Bytes),
    (∀ r ∈ rows, r.length = ncols) →
    (∀ c, c < ncols → offAt offs c + (E c ++ column (values rows) c).flatten.length < offAt offs (c + 1)) →
    RowsCap offs E rows := by
  induction rows with
  | nil => intro E _ _; trivial
  | cons r rs ih =>
    intro E hlen h
    have hr := hlen r (by simp)
    refine ⟨?_, ?_⟩
    · apply rowCap_of_final
      intro c _ h2
      have hc := h c (by omega)
      have hle : (stageRow false E 0 r c).flatten.length ≤ (E c ++ column (values (r :: rs)) c).flatten.length := by
        rw [← stageRows_col (r :: rs) E c, stageRows, stageRows_col]
        exact flatten_length_append_le _ _
      omega
    · apply ih _ (fun x hx => hlen x (by simp [hx]))
      intro c hc
      have := h c hc
      rw [← stageRows_col (r :: rs) E c, stageRows, stageRows_col] at this
      exact this

end Exetera.Csv
