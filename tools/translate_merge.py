"""C02 — Gen/MergeDispatch.lean: the static call structure of `_ordered_merge` (exetera/core/dataframe.py), read off its AST.

Extracted (everything as it is written in the source, nothing interpreted here — `Model/Merge.lean` interprets it):
  * sentinel / dtype choice: the two branches of `if left_keys_unique or right_keys_unique`, and the threshold constant of
    `ops.get_map_datatype_based_on_lengths`;
  * `how == 'left'` / else: which of left/right becomes `a` / `b` (key fields and uniqueness flags);
  * the dispatch table: (group 'leftright' | 'inner', first flag, second flag) -> destination fields created (python
    variable -> field name), callee, positional argument expressions, keyword arguments;
  * the signature of every callee in operations.py (parameter names, whether each has a default) so that the model can bind
    the arguments the way Python does (a dropped `invalid` is a TypeError, an extra positional lands in `chunksize`);
  * the `_a_map/_b_map -> _left_map/_right_map` renames per `how`, with whether each is guarded by `in dest`;
  * `left_map = dest['_left_map'] if '_left_map' in dest else None` (variable -> field name);
  * per column loop: the suffix rule (`if k in <other list>: dest_k += <suffix>`) and the three mapping call sites with their
    argument lists (so a dropped `invalid` argument is visible).
If the function no longer has that shape the extraction FAILS: a MergeDispatch.lean with `extracted := false` and empty
tables is written (so `Exetera.Props.C02` no longer builds) and the translator exits non-zero (broken tie)."""
import ast
from pathlib import Path


class Bad(Exception):
    pass


def q(s):
    return '"' + s.replace("\\", "\\\\").replace('"', '\\"') + '"'


def b(x):
    return "true" if x else "false"


def lst(xs):
    return "[" + ", ".join(xs) + "]"


def pair(a, c):
    return f"({a}, {c})"


def find_fn(tree, name):
    for n in tree.body:
        if isinstance(n, ast.FunctionDef) and n.name == name:
            return n
    raise Bad(f"function {name} not found")


def is_name(n, s):
    return isinstance(n, ast.Name) and n.id == s


def cond_var(test):
    if isinstance(test, ast.Name):
        return test.id
    raise Bad("dispatch condition is not a plain variable: " + ast.unparse(test))


def leaf(stmts):
    """a leaf of the dispatch nest: `x = dest.create_numeric('<name>', strdtype)`* then one `ops.<callee>(...)`"""
    creates, call = [], None
    for s in stmts:
        if isinstance(s, ast.Assign) and len(s.targets) == 1 and isinstance(s.targets[0], ast.Name) \
                and isinstance(s.value, ast.Call) and ast.unparse(s.value.func) == "dest.create_numeric" \
                and len(s.value.args) == 2 and isinstance(s.value.args[0], ast.Constant):
            if ast.unparse(s.value.args[1]) != "strdtype":
                raise Bad("map field not created with strdtype")
            creates.append((s.targets[0].id, s.value.args[0].value))
        elif isinstance(s, ast.Expr) and isinstance(s.value, ast.Call) and ast.unparse(s.value.func).startswith("ops."):
            if call is not None:
                raise Bad("two generator calls in one dispatch leaf")
            c = s.value
            call = (ast.unparse(c.func)[4:], [ast.unparse(a) for a in c.args],
                    [(k.arg, ast.unparse(k.value)) for k in c.keywords])
        else:
            raise Bad("unexpected statement in dispatch leaf: " + ast.unparse(s))
    if call is None:
        raise Bad("dispatch leaf without generator call")
    return creates, call


def nest(stmts, pre_creates):
    """`if u: (if v: leaf else: leaf) else: (if v: leaf else: leaf)` -> [(u?, v?, creates, call)], (uvar, vvar)"""
    ifs = [s for s in stmts if isinstance(s, ast.If)]
    if len(ifs) != 1:
        raise Bad("dispatch nest: expected exactly one if")
    top = ifs[0]
    u = cond_var(top.test)
    rows, vs = [], set()
    for uval, body in ((True, top.body), (False, top.orelse)):
        if len(body) != 1 or not isinstance(body[0], ast.If):
            raise Bad("dispatch nest: second level is not a single if")
        inner = body[0]
        vs.add(cond_var(inner.test))
        for vval, lf in ((True, inner.body), (False, inner.orelse)):
            creates, call = leaf(lf)
            rows.append((uval, vval, pre_creates + creates, call))
    if len(vs) != 1:
        raise Bad("dispatch nest: second-level conditions differ")
    return rows, (u, vs.pop())


def tuple_assign(s):
    """`a, b = c, d` -> [(a, c), (b, d)]"""
    if not (isinstance(s, ast.Assign) and len(s.targets) == 1 and isinstance(s.targets[0], ast.Tuple)
            and isinstance(s.value, ast.Tuple) and len(s.targets[0].elts) == len(s.value.elts)):
        raise Bad("expected a tuple assignment: " + ast.unparse(s))
    return [(ast.unparse(t), ast.unparse(v)) for t, v in zip(s.targets[0].elts, s.value.elts)]


def how_eq(test):
    if isinstance(test, ast.Compare) and is_name(test.left, "how") and len(test.ops) == 1 \
            and isinstance(test.ops[0], ast.Eq) and isinstance(test.comparators[0], ast.Constant):
        return test.comparators[0].value
    raise Bad("expected `how == '<mode>'`: " + ast.unparse(test))


def rename_list(stmts):
    out = []
    for s in stmts:
        guarded = False
        if isinstance(s, ast.If):
            t = s.test
            if not (isinstance(t, ast.Compare) and isinstance(t.ops[0], ast.In) and isinstance(t.left, ast.Constant)
                    and is_name(t.comparators[0], "dest") and len(s.body) == 1 and not s.orelse):
                raise Bad("rename guard has unexpected shape")
            guard_name = t.left.value
            s = s.body[0]
            guarded = True
        if not (isinstance(s, ast.Expr) and isinstance(s.value, ast.Call) and ast.unparse(s.value.func) == "dest.rename"
                and len(s.value.args) == 2 and all(isinstance(a, ast.Constant) for a in s.value.args)):
            raise Bad("expected dest.rename('<a>', '<b>')")
        a, c = s.value.args[0].value, s.value.args[1].value
        if guarded and guard_name != a:
            raise Bad("rename guard tests another name than the one renamed")
        out.append((guarded, a, c))
    return out


def column_loop(loop):
    """for k in <side>_fields_to_map: suffix rule + three mapping call sites"""
    if not (isinstance(loop.iter, ast.Name) and loop.iter.id.endswith("_fields_to_map")):
        raise Bad("column loop does not iterate over *_fields_to_map")
    side = loop.iter.id[:-len("_fields_to_map")]
    suffix = None
    calls = []
    for s in loop.body:
        if isinstance(s, ast.If) and isinstance(s.test, ast.Compare) and isinstance(s.test.ops[0], ast.In) \
                and is_name(s.test.left, loop.target.id):
            if not (len(s.body) == 1 and isinstance(s.body[0], ast.AugAssign) and isinstance(s.body[0].op, ast.Add)):
                raise Bad("suffix rule has unexpected shape")
            suffix = (ast.unparse(s.test.comparators[0]), ast.unparse(s.body[0].value))
        elif isinstance(s, ast.If):
            node = s
            while True:
                t = ast.unparse(node.test)
                if t.endswith("_map is None"):
                    branch = "nomap"
                elif t.endswith(".indexed"):
                    branch = "indexed"
                else:
                    raise Bad("unknown mapping branch test: " + t)
                calls.append((branch, node.test, node.body))
                if len(node.orelse) == 1 and isinstance(node.orelse[0], ast.If):
                    node = node.orelse[0]
                else:
                    calls.append(("flat", None, node.orelse))
                    break
    if suffix is None or len(calls) != 3:
        raise Bad("column loop: suffix rule or mapping branches missing")
    out = []
    for branch, test, body in calls:
        if len(body) != 1 or not (isinstance(body[0], ast.Expr) and isinstance(body[0].value, ast.Call)):
            raise Bad("mapping branch is not a single call")
        c = body[0].value
        if c.keywords:
            raise Bad("mapping call uses keyword arguments")
        out.append((side, branch, ast.unparse(test) if test is not None else "", ast.unparse(c.func)[4:],
                    [ast.unparse(a) for a in c.args]))
    return side, suffix, out


def extract(repo):
    df = ast.parse((repo / "exetera/core/dataframe.py").read_text())
    opsm = ast.parse((repo / "exetera/core/operations.py").read_text())
    fn = find_fn(df, "_ordered_merge")
    R = {}
    body = fn.body
    # --- sentinel choice
    sel = [s for s in body if isinstance(s, ast.If) and ast.unparse(s.test) == "left_keys_unique or right_keys_unique"]
    if len(sel) != 1:
        raise Bad("sentinel selection `if left_keys_unique or right_keys_unique` not found")

    def assigns(stmts):
        return {s.targets[0].id: ast.unparse(s.value) for s in stmts
                if isinstance(s, ast.Assign) and isinstance(s.targets[0], ast.Name)}
    u, g = assigns(sel[0].body), assigns(sel[0].orelse)
    if u.get("npdtype") != "ops.get_map_datatype_based_on_lengths(left_len, right_len)":
        raise Bad("npdtype of the unique branch is not get_map_datatype_based_on_lengths(left_len, right_len)")
    if u.get("invalid") != "ops.INVALID_INDEX_32 if npdtype == np.int32 else ops.INVALID_INDEX_64":
        raise Bad("invalid of the unique branch has unexpected shape: " + str(u.get("invalid")))
    if not g.get("invalid", "").startswith("ops.INVALID_INDEX_"):
        raise Bad("invalid of the general branch has unexpected shape")
    R["sentinelUnique32"] = "INVALID_INDEX_32"
    R["sentinelUnique64"] = "INVALID_INDEX_64"
    R["sentinelGeneral"] = g["invalid"][4:]
    gm = find_fn(opsm, "get_map_datatype_based_on_lengths")
    src = ast.unparse(gm.body[0])
    want = "if left_len < utils.INT64_INDEX_LENGTH and right_len < utils.INT64_INDEX_LENGTH:\n    return np.int32\nelse:\n    return np.int64"
    if src != want:
        raise Bad("get_map_datatype_based_on_lengths has unexpected shape")
    R["int32Below"] = "INT64_INDEX_LENGTH"
    # --- the how split
    hs = [s for s in body if isinstance(s, ast.If) and ast.unparse(s.test) == "how in ('left', 'right')"]
    if len(hs) != 1:
        raise Bad("`if how in ('left', 'right')` not found")
    lr, inner = hs[0].body, hs[0].orelse
    if len(lr) != 3 or not all(isinstance(s, ast.If) for s in lr):
        raise Bad("left/right branch: expected side assignment, dispatch nest, renames")
    first = how_eq(lr[0].test)
    other = {"left": "right", "right": "left"}[first]
    R["sideAssign"] = [(first, sum((tuple_assign(s) for s in lr[0].body), [])),
                       (other, sum((tuple_assign(s) for s in lr[0].orelse), []))]
    rows, cv = nest([lr[1]], [])
    R["rows"] = [("leftright",) + r for r in rows]
    R["condVars"] = [("leftright", cv)]
    rfirst = how_eq(lr[2].test)
    R["renames"] = [(rfirst, rename_list(lr[2].body)), ({"left": "right", "right": "left"}[rfirst], rename_list(lr[2].orelse))]
    pre = []
    rest = []
    for s in inner:
        if isinstance(s, ast.If):
            rest.append(s)
        else:
            c, _ = leaf([s, ast.parse("ops.x()").body[0]])
            pre += c
    rows, cv = nest(rest, pre)
    R["rows"] += [("inner",) + r for r in rows]
    R["condVars"].append(("inner", cv))
    # --- map variables
    mv = []
    for s in body:
        if isinstance(s, ast.Assign) and isinstance(s.targets[0], ast.Name) and s.targets[0].id.endswith("_map") \
                and isinstance(s.value, ast.IfExp):
            v = s.value
            name = v.test.left.value if isinstance(v.test, ast.Compare) and isinstance(v.test.left, ast.Constant) else None
            if name is None or ast.unparse(v.body) != f"dest[{name!r}]" or ast.unparse(v.orelse) != "None" \
                    or ast.unparse(v.test) != f"{name!r} in dest":
                raise Bad("map variable assignment has unexpected shape: " + ast.unparse(s))
            mv.append((s.targets[0].id, name))
    if len(mv) != 2:
        raise Bad("left_map / right_map assignments not found")
    R["mapVars"] = mv
    # --- column loops
    loops = [s for s in body if isinstance(s, ast.For)]
    if len(loops) != 2:
        raise Bad("expected two column loops")
    R["suffix"], R["mapCalls"] = [], []
    for lp in loops:
        side, suffix, calls = column_loop(lp)
        R["suffix"].append((side,) + suffix)
        R["mapCalls"] += calls
    # --- callee signatures
    callees = sorted({r[4][0] for r in R["rows"]} | {c[3] for c in R["mapCalls"]})
    sigs = []
    for c in callees:
        f = find_fn(opsm, c)
        a = f.args
        if a.vararg or a.kwarg or a.kwonlyargs or a.posonlyargs:
            raise Bad(f"{c}: unexpected parameter kinds")
        nd = len(a.args) - len(a.defaults)
        sigs.append((c, [(p.arg, i >= nd) for i, p in enumerate(a.args)]))
    R["params"] = sigs
    return R


HEADER = "-- generated by tools/translate.py (tools/translate_merge.py) from exetera/core/dataframe.py::_ordered_merge and operations.py; do not edit\n"

STRUCTS = '''namespace Exetera.Gen.MergeDispatch

/-- one leaf of the dispatch nest of `_ordered_merge` -/
structure GenRow where
  group : String                     -- "leftright" (how in ('left','right')) or "inner"
  first : Bool                       -- value of the outer condition variable
  second : Bool                      -- value of the inner condition variable
  creates : List (String × String)   -- python variable ↦ destination field created with `dest.create_numeric`
  callee : String                    -- `ops.<callee>`
  args : List String                 -- positional argument expressions, as written
  kwargs : List (String × String)    -- keyword arguments, as written
  deriving Repr, DecidableEq

/-- one column-mapping call site -/
structure MapCall where
  side : String                      -- "left" | "right": which `for k in <side>_fields_to_map` loop
  branch : String                    -- "nomap" (`<side>_map is None`) | "indexed" (`<side>[k].indexed`) | "flat" (else)
  test : String                      -- the branch test, as written
  callee : String
  args : List String
  deriving Repr, DecidableEq

'''


def render(R, ok=True):
    L = [HEADER, STRUCTS]
    L.append(f"/-- did the extraction succeed? (`false`: the source no longer has the shape the model was written for) -/\ndef extracted : Bool := {b(ok)}\n")
    if not ok:
        R = {"sentinelUnique32": "", "sentinelUnique64": "", "sentinelGeneral": "", "int32Below": "", "sideAssign": [],
             "rows": [], "condVars": [], "renames": [], "mapVars": [], "suffix": [], "mapCalls": [], "params": []}
    L.append(f"def sentinelUnique32 : String := {q(R['sentinelUnique32'])}")
    L.append(f"def sentinelUnique64 : String := {q(R['sentinelUnique64'])}")
    L.append(f"def sentinelGeneral : String := {q(R['sentinelGeneral'])}")
    L.append(f"/-- `get_map_datatype_based_on_lengths`: int32 iff both lengths are below this constant of utils.py -/\ndef int32Below : String := {q(R['int32Below'])}\n")
    L.append("/-- `if how == 'left': a_on, b_on = …; a_unique, b_unique = … else: …`: how ↦ (target ↦ source) -/")
    L.append("def sideAssign : List (String × List (String × String)) := " + lst(
        pair(q(h), lst(pair(q(a), q(c)) for a, c in asg)) for h, asg in R["sideAssign"]) + "\n")
    L.append("/-- the variables the two-level nest of each group tests (outer, inner) -/")
    L.append("def condVars : List (String × (String × String)) := " + lst(
        pair(q(gp), pair(q(u), q(v))) for gp, (u, v) in R["condVars"]) + "\n")
    L.append("def genRows : List GenRow := [")
    rows = []
    for gp, u, v, creates, (callee, args, kw) in R["rows"]:
        rows.append("  { group := %s, first := %s, second := %s,\n    creates := %s,\n    callee := %s,\n    args := %s,\n    kwargs := %s }" % (
            q(gp), b(u), b(v), lst(pair(q(a), q(c)) for a, c in creates), q(callee), lst(q(a) for a in args),
            lst(pair(q(a), q(c)) for a, c in kw)))
    L.append(",\n".join(rows) + "]\n")
    L.append("/-- `dest.rename` calls after the left/right dispatch: how ↦ [(guarded by `'<from>' in dest`, from, to)] -/")
    L.append("def renames : List (String × List (Bool × String × String)) := " + lst(
        pair(q(h), lst(f"({b(gd)}, {q(a)}, {q(c)})" for gd, a, c in rs)) for h, rs in R["renames"]) + "\n")
    L.append("/-- `<var> = dest['<name>'] if '<name>' in dest else None` -/")
    L.append("def mapVars : List (String × String) := " + lst(pair(q(a), q(c)) for a, c in R["mapVars"]) + "\n")
    L.append("/-- suffix rule of each column loop: (loop side, list the name is looked up in, suffix appended) -/")
    L.append("def suffixRule : List (String × String × String) := " + lst(f"({q(s)}, {q(o)}, {q(x)})" for s, o, x in R["suffix"]) + "\n")
    L.append("def mapCalls : List MapCall := [")
    L.append(",\n".join("  { side := %s, branch := %s, test := %s, callee := %s, args := %s }" % (
        q(s), q(br), q(t), q(c), lst(q(a) for a in args)) for s, br, t, c, args in R["mapCalls"]) + "]\n")
    L.append("/-- parameters of every callee in operations.py: (name, has a default) in order -/")
    L.append("def calleeParams : List (String × List (String × Bool)) := [")
    L.append(",\n".join("  " + pair(q(c), lst(pair(q(p), b(d)) for p, d in ps)) for c, ps in R["params"]) + "]\n")
    L.append("end Exetera.Gen.MergeDispatch\n")
    return "\n".join(L)


def run(repo, out):
    repo, out = Path(repo), Path(out)
    try:
        R = extract(repo)
    except (Bad, KeyError, IndexError, AttributeError, SyntaxError, OSError) as e:
        (out / "MergeDispatch.lean").write_text(render({}, ok=False))
        raise SystemExit(f"TRANSLATE-FAIL: _ordered_merge: {e}")
    new = render(R)
    f = out / "MergeDispatch.lean"
    if not f.exists() or f.read_text() != new:
        f.write_text(new)


if __name__ == "__main__":
    import sys
    run(sys.argv[1] if len(sys.argv) > 1 else "/repo", Path(__file__).resolve().parent.parent / "lean" / "Exetera" / "Gen")
    print("ok")
