import Exetera.Lemmas.JoinSpec
import Exetera.Lemmas.Chunks
import Exetera.Lemmas.While
/-! Kernel-independent helper lemmas for the join proofs: sortedness in `getElem?` form, run counting, pending block rows. -/
namespace Exetera.Join
open Exetera Exetera.Spec

theorem Sorted.le_get? {xs : List Int} (h : Sorted xs) {i j : Nat} {a b : Int} (hij : i ≤ j)
    (ha : xs[i]? = some a) (hb : xs[j]? = some b) : a ≤ b := by
  obtain ⟨hi, rfl⟩ := List.getElem?_eq_some_iff.mp ha
  obtain ⟨hj, rfl⟩ := List.getElem?_eq_some_iff.mp hb
  exact h.le_of_lt hij hj

theorem get?_some_of_lt {xs : List Int} {i : Nat} (h : i < xs.length) : xs[i]? = some xs[i] :=
  List.getElem?_eq_getElem h

/-- `runCount` from position `k` (count so far `c`): counts the maximal run inside `[k, lim)` -/
theorem runCount_spec (xs : List Int) (lim : Nat) (hlim : lim ≤ xs.length) :
    ∀ (f k c : Nat), k < lim → lim ≤ k + 1 + f →
      ∃ e, runCount xs lim f k c = .ok (c + e) ∧ k + e < lim ∧
        (∀ t, t ≤ e → xs[k + t]? = xs[k]?) ∧ (k + e + 1 < lim → xs[k + e + 1]? ≠ xs[k]?) := by
  intro f
  induction f with
  | zero =>
    intro k c hk hf
    refine ⟨0, by simp [runCount], by omega, ?_, by omega⟩
    intro t ht; have : t = 0 := by omega
    subst this; rfl
  | succ f ih =>
    intro k c hk hf
    by_cases hk1 : k + 1 < lim
    · have ha := getE_of_lt "run[k+1]" (xs := xs) (i := k + 1) (by omega)
      have hb := getE_of_lt "run[k]" (xs := xs) (i := k) (by omega)
      simp only [runCount, hk1, if_true, ha, hb]
      by_cases heq : xs[k + 1]'(by omega) = xs[k]'(by omega)
      · simp only [heq, beq_self_eq_true, if_true]
        obtain ⟨e, h1, h2, h3, h4⟩ := ih (k + 1) (c + 1) hk1 (by omega)
        refine ⟨e + 1, by rw [h1]; congr 1; omega, by omega, ?_, ?_⟩
        · intro t ht
          cases t with
          | zero => rfl
          | succ t =>
            have := h3 t (by omega)
            have e1 : k + (t + 1) = k + 1 + t := by omega
            rw [e1, this, get?_some_of_lt (by omega : k + 1 < xs.length), get?_some_of_lt (by omega : k < xs.length), heq]
        · intro hlt
          have := h4 (by omega)
          have e1 : k + (e + 1) + 1 = k + 1 + e + 1 := by omega
          rw [e1]
          rw [get?_some_of_lt (by omega : k + 1 < xs.length), heq, ← get?_some_of_lt (by omega : k < xs.length)] at this
          exact this
      · have hne : (xs[k + 1]'(by omega) == xs[k]'(by omega)) = false := by simpa using heq
        simp only [hne]
        refine ⟨0, by simp, by omega, ?_, ?_⟩
        · intro t ht; have : t = 0 := by omega
          subst this; rfl
        · intro _
          rw [get?_some_of_lt (by omega : k + 0 + 1 < xs.length), get?_some_of_lt (by omega : k < xs.length)]
          simpa using heq
    · simp only [runCount, hk1, if_false]
      refine ⟨0, by simp, by omega, ?_, by omega⟩
      intro t ht; have : t = 0 := by omega
      subst this; rfl

/-- rows of a cartesian block still to be emitted when the FSM is at `(ii, jj)` -/
def pendInner (I J ii jj n m : Nat) : List (Nat × Option Nat) :=
  (List.range' (J + jj) (m - jj)).map (fun j => (I + ii, some j)) ++ blockRows (I + ii + 1) J m (n - ii - 1)

theorem pendInner_zero (I J ii n m : Nat) (h : ii < n) : pendInner I J ii 0 n m = blockRows (I + ii) J m (n - ii) := by
  have : n - ii = (n - ii - 1) + 1 := by omega
  rw [this]
  simp [pendInner, blockRows, blockRow]

theorem pendInner_step (I J ii jj n m : Nat) (h : jj < m) :
    pendInner I J ii jj n m = (I + ii, some (J + jj)) :: pendInner I J ii (jj + 1) n m := by
  have : m - jj = (m - (jj + 1)) + 1 := by omega
  simp only [pendInner]
  rw [this, List.range'_succ]
  simp [Nat.add_assoc]

theorem pendInner_rowend (I J ii n m : Nat) (h : ii + 1 < n) :
    pendInner I J ii m n m = pendInner I J (ii + 1) 0 n m := by
  rw [pendInner_zero _ _ _ _ _ h]
  have : n - (ii + 1) = n - ii - 1 := by omega
  simp [pendInner, this, Nat.add_assoc]

theorem pendInner_end (I J ii n m : Nat) (h : ii + 1 = n) : pendInner I J ii m n m = [] := by
  have : n - ii - 1 = 0 := by omega
  simp [pendInner, this, blockRows]

end Exetera.Join
