import Exetera.Lemmas.JournalTable
import Exetera.Lemmas.JournalSort
import Exetera.Lemmas.JournalIndicesSafe
import Exetera.Lemmas.JournalHistory
/-!
# C17 — snapshot journalling keeps all history and appends only changed/new records

The theorems are about the model the correspondence driver executes (`Exetera.Journal.*`, `Driver/C17.lean`) and the
specification `Exetera.Spec.Journal` (`indices`, `toKeep`, `plan`, `planPhys`). An `.ok` result means: no out-of-bounds
subscript in any kernel, no negative subscript wrap-around, no loop out of fuel, no failed `assert`, no size mismatch in a
slice assignment. "Ascending" old keys are `Pairwise (· ≤ ·)` (several versions per key), the snapshot's keys are
`Pairwise (· < ·)` (sorted and unique); `journal_table_eq` needs neither: it takes the tables in any physical order.

Vocabulary (`Lemmas/JournalDefs.lean`): a `Col` is one compared field (its old and new column, numeric or string), `c.enc` the
arrays the kernels see (an indexed string field as indices + values), `c.WF lo ln` says the field has one cell per row,
`c.differs r j` that old row `r` and snapshot row `j` differ in this field, `differsAny cols` that they differ in some field,
`c.out p` the field read along the plan `p` (strings laid out as indices + values again).
-/
namespace Exetera.Props.C17
open Exetera Exetera.Journal Exetera.Spec.Journal

/-- `ordered_generate_journalling_indices`: one slot per distinct key of old ∪ new in ascending order; the old entry is the
    last row of the key's run (or -1), the new entry the key's snapshot row (or -1). Both passes finish without leaving an array. -/
theorem journal_indices_spec {old new : List Int} (hso : old.Pairwise (· ≤ ·)) (hsn : new.Pairwise (· < ·)) :
    journalIndices old new = .ok (indices old new) :=
  journalIndices_eq hso hsn

example : ([0, 0, 0, 1, 1, 2, 3, 3, 5, 5, 5] : List Int).Pairwise (· ≤ ·) ∧ ([0, 2, 3, 4, 5, 6] : List Int).Pairwise (· < ·) := by
  decide
example : journalIndices [0, 0, 0, 1, 1, 2, 3, 3, 5, 5, 5] [0, 2, 3, 4, 5, 6] =
    .ok ([2, 4, 5, 7, -1, 10, -1], [0, -1, 1, 2, 3, 4, 5]) := by rfl
example : indices [0, 0, 0, 1, 1, 2, 3, 3, 5, 5, 5] [0, 2, 3, 4, 5, 6] = ([2, 4, 5, 7, -1, 10, -1], [0, -1, 1, 2, 3, 4, 5]) := by rfl

/-- memory safety and termination of `ordered_generate_journalling_indices` on *every* input (no sortedness, no uniqueness): both
    passes finish, the writing pass takes exactly the counting pass's steps so `joint < total` at every write, no subscript leaves
    its array, and the two maps have the same length -/
theorem journal_indices_safe (old new : List Int) :
    ∃ om nm, journalIndices old new = .ok (om, nm) ∧ om.length = nm.length :=
  journalIndices_safe old new

example : journalIndices [3, 1, 1, 3, 3] [2, 2, 0] = .ok ([-1, -1, -1, 0, 2, 4], [0, 1, 2, -1, -1, -1]) := by rfl

/-- the compare loop over all compared fields (numeric and indexed, at least one): `to_keep` is, slot by slot, the specified
    flag — by induction over the list of fields -/
theorem to_keep_iff_new_or_differs (ok nk : List Int) (cols : List Col) (hne : cols ≠ [])
    (hwf : ∀ c, c ∈ cols → c.WF ok.length nk.length) :
    compareCols (indices ok nk).1 (indices ok nk).2 (cols.map Col.enc) (List.replicate (indices ok nk).1.length false) =
      .ok (toKeep ok nk (differsAny cols)) :=
  compareCols_toKeep ok nk cols hne hwf

/-- reading of the specified flag: a slot is kept iff its key has a snapshot row and is new or differs from its last version -/
theorem keepFlag_iff (d : Nat → Nat → Bool) (j? r? : Option Nat) :
    keepFlag d j? r? = true ↔ ∃ j, j? = some j ∧ (r? = none ∨ ∃ r, r? = some r ∧ d r j = true) := by
  cases j? <;> cases r? <;> simp [keepFlag]

example : compareCols [1, 2, -1] [0, -1, 1] ([Col.num [7, 7, 9] [7, 5], Col.str [[1], [2], []] [[3], [4]]].map Col.enc)
    [false, false, false] = .ok [true, false, true] := by rfl
example : toKeep [4, 4, 6] [4, 8] (differsAny [Col.num [7, 7, 9] [7, 5], Col.str [[1], [2], []] [[3], [4]]]) = [true, false, true] := by
  rfl

/-- `merge_journalled_entries` (numeric field) and `merge_indexed_journalled_entries_count` + `merge_indexed_journalled_entries`
    (indexed string field), run on the specified maps and flags with the destination sizes `journal_table` allocates, write exactly
    the field read along the specification's plan -/
theorem merge_eq_spec {ok nk : List Int} (hso : ok.Pairwise (· ≤ ·)) (hsn : nk.Pairwise (· < ·)) (d : Nat → Nat → Bool)
    (c : Col) (hwf : c.WF ok.length nk.length) :
    mergeCol (indices ok nk).1 (indices ok nk).2 (toKeep ok nk d) (ok.length + (toKeep ok nk d).count true) c.enc =
      .ok (c.out (plan ok nk d)) :=
  mergeCol_spec hso hsn d c hwf

example : mergeCol [1, 2, -1] [0, -1, 1] [true, false, true] 5 (Col.str [[1], [2], []] [[3], [4]]).enc =
    .ok (.str [0, 1, 2, 3, 3, 4] [1, 2, 3, 4]) := by rfl

/-- **journal_table on sorted tables** (`rows_aligned`): every result field — numeric or indexed — is its old and new column read
    along one and the same plan, the specification's: per key ascending all old versions in order, then the snapshot row iff the key
    is new or the row differs from the last old version in some compared field -/
theorem rows_aligned {ok nk : List Int} (hso : ok.Pairwise (· ≤ ·)) (hsn : nk.Pairwise (· < ·)) (cols : List Col)
    (hwf : ∀ c, c ∈ cols → c.WF ok.length nk.length) :
    journalSorted ok nk (cols.map Col.enc) ok.length = .ok (cols.map (Col.out (plan ok nk (differsAny cols)))) :=
  journalSorted_eq hso hsn cols hwf

/-- every result field has the same number of rows: `len(old) + to_keep.sum()`, the length of the plan -/
theorem columns_equal_length {ok nk : List Int} (hso : ok.Pairwise (· ≤ ·)) (hsn : nk.Pairwise (· < ·)) (cols : List Col)
    (hwf : ∀ c, c ∈ cols → c.WF ok.length nk.length) :
    ∃ outs, journalSorted ok nk (cols.map Col.enc) ok.length = .ok outs ∧ outs.length = cols.length ∧
      ∀ o, o ∈ outs → o.rows = (plan ok nk (differsAny cols)).length ∧
        o.rows = ok.length + (toKeep ok nk (differsAny cols)).count true := by
  refine ⟨_, journalSorted_eq hso hsn cols hwf, by simp, ?_⟩
  intro o ho
  obtain ⟨c, hc, rfl⟩ := List.mem_map.1 ho
  have hpl := (plan_facts (differsAny cols) hso hsn).2.2
  have hw := hwf c hc
  cases c with
  | num a b =>
    have := column_plan_length hso hsn (differsAny cols) a b hw.1 hw.2
    simp only [Col.out, OutCol.rows]; omega
  | str a b =>
    have := column_plan_length hso hsn (differsAny cols) a b hw.1 hw.2
    simp only [Col.out, OutCol.rows, encode_inds_length]; omega

/-- keys absent from the snapshot keep their history and get no new row -/
theorem absent_keys_keep_history (ok nk : List Int) (d : Nat → Nat → Bool) (k : Int) (h : k ∉ nk) :
    block ok nk d k = (positions k ok).map .old := by
  have : positions k nk = [] := positionsFrom_of_not_mem h
  simp [block, this, newPart]

/-- a key that is only in the snapshot contributes exactly its snapshot row -/
theorem new_keys_are_appended (ok nk : List Int) (d : Nat → Nat → Bool) (k : Int) (h : k ∉ ok) (h' : k ∈ nk) :
    ∃ j, (positions k nk).head? = some j ∧ block ok nk d k = [.new j] := by
  have ho : positions k ok = [] := positionsFrom_of_not_mem h
  have hn := positions_ne_nil h'
  cases hp : positions k nk with
  | nil => exact absurd hp hn
  | cons j rest => exact ⟨j, rfl, by simp [block, ho, hp, newPart, keepFlag]⟩

/-- **journal_table**, tables in any physical order (old table: several versions per key anywhere; snapshot: unique keys in any
    order): the model of `journal_table` — two stable sorts, index generation, compare loop, merge loop — returns, for every compared
    field, the field read along `planPhys`: per key ascending the key's old versions in (valid_from, physical row) order, then the
    snapshot row iff the key is new or the row differs from the latest old version in some compared field -/
theorem journal_table_eq {oldIds oldVf newIds : List Int} {cols : List Col}
    (hvf : oldVf.length = oldIds.length) (hu : newIds.Nodup) (hwf : ∀ c, c ∈ cols → c.WF oldIds.length newIds.length) :
    journalTable oldIds oldVf newIds cols = .ok (cols.map (Col.out (planPhys oldIds oldVf newIds (differsAny cols)))) :=
  journalTable_of_sorted (fun _ _ cols hso hsn hwf => journalSorted_eq hso hsn cols hwf) hvf hu hwf

example : ([2, 1, 1] : List Int).length = 3 ∧ ([3, 1] : List Int).Nodup := by decide
example :
    journalTable [2, 1, 1] [1, 2, 1] [3, 1] [.num [20, 12, 11] [30, 12], .str [[5], [6, 7], []] [[8], [6]]] =
      .ok [.num [11, 12, 12, 20, 30], .str [0, 0, 2, 3, 4, 5] [6, 7, 6, 5, 8]] := by rfl
example : planPhys [2, 1, 1] [1, 2, 1] [3, 1] (differsAny [.num [20, 12, 11] [30, 12], .str [[5], [6, 7], []] [[8], [6]]]) =
    [.old 2, .old 1, .new 1, .old 0, .new 0] := by rfl

/-- the history of a key consists exactly of the rows of that key -/
theorem history_rows {ids vf : List Int} (hvf : vf.length = ids.length) {k : Int} {r : Nat} :
    r ∈ history ids vf k ↔ ids[r]? = some k :=
  mem_history hvf

/-- what `history` means, without reference to a sorting algorithm: the rows of the key, with their `valid_from` attached, strictly
    ascending in (valid_from, physical row) — so the last one is the latest version, ties broken by the later physical row -/
theorem history_order (okeys ovf : List Int) (k : Int) :
    ∃ L : List (Int × Nat), history okeys ovf k = L.map (·.2) ∧ L.Pairwise TimeRowLt ∧
      ∀ p, p ∈ L → ovf[p.2]? = some p.1 ∧ okeys[p.2]? = some k :=
  history_time_row_order okeys ovf k

example : history [2, 1, 1, 1] [1, 5, 1, 5] 1 = [2, 1, 3] := by rfl

end Exetera.Props.C17
