import Exetera.Model.Catalogue
/-! Lemmas about the association tables of the catalogue model (membership form). -/
namespace Exetera.Catalogue

theorem mem_keys {t : Table} {k : Key} : k ∈ keys t ↔ ∃ v, (k, v) ∈ t := by
  simp [keys]

theorem mem_keys_of_mem {t : Table} {k : Key} {v : Nat} (h : (k, v) ∈ t) : k ∈ keys t := mem_keys.2 ⟨v, h⟩

@[simp] theorem keys_nil : keys [] = [] := rfl
@[simp] theorem keys_cons (e : Key × Nat) (t : Table) : keys (e :: t) = e.1 :: keys t := rfl
@[simp] theorem keys_append (t u : Table) : keys (t ++ u) = keys t ++ keys u := by simp [keys]

/-- a table with distinct keys is a function -/
theorem functional {t : Table} (hn : (keys t).Nodup) {k : Key} {v w : Nat} (h1 : (k, v) ∈ t) (h2 : (k, w) ∈ t) : v = w := by
  induction t with
  | nil => simp at h1
  | cons e t ih =>
    simp only [keys_cons, List.nodup_cons] at hn
    simp only [List.mem_cons] at h1 h2
    rcases h1 with h1 | h1 <;> rcases h2 with h2 | h2
    · rw [← h1] at h2; exact ((Prod.mk.inj h2).2).symm
    · subst h1; exact absurd (mem_keys_of_mem h2) hn.1
    · subst h2; exact absurd (mem_keys_of_mem h1) hn.1
    · exact ih hn.2 h1 h2

/-- a table with distinct values is injective -/
theorem injective {t : Table} (hn : (t.map (·.2)).Nodup) {k k' : Key} {v : Nat} (h1 : (k, v) ∈ t) (h2 : (k', v) ∈ t) : k = k' := by
  induction t with
  | nil => simp at h1
  | cons e t ih =>
    simp only [List.map_cons, List.nodup_cons, List.mem_map, not_exists, not_and] at hn
    simp only [List.mem_cons] at h1 h2
    rcases h1 with h1 | h1 <;> rcases h2 with h2 | h2
    · rw [← h1] at h2; exact ((Prod.mk.inj h2).1).symm
    · subst h1; exact absurd rfl (hn.1 (k', v) h2)
    · subst h2; exact absurd rfl (hn.1 (k, v) h1)
    · exact ih hn.2 h1 h2

theorem look_eq_some {t : Table} (hn : (keys t).Nodup) {k : Key} {v : Nat} : look t k = some v ↔ (k, v) ∈ t := by
  induction t with
  | nil => simp [look]
  | cons e t ih =>
    obtain ⟨k', v'⟩ := e
    simp only [keys_cons, List.nodup_cons] at hn
    simp only [look]
    split
    · next h =>
      subst h
      constructor
      · intro h; simp at h; simp [h]
      · intro h
        simp only [List.mem_cons, Prod.mk.injEq, true_and] at h
        rcases h with h | h
        · simp [h]
        · exact absurd (mem_keys_of_mem h) hn.1
    · next h =>
      rw [ih hn.2]
      simp only [List.mem_cons, Prod.mk.injEq]
      constructor
      · intro h1; exact Or.inr h1
      · rintro (⟨h1, _⟩ | h1)
        · exact absurd h1.symm h
        · exact h1

theorem look_eq_none {t : Table} {k : Key} : look t k = none ↔ k ∉ keys t := by
  induction t with
  | nil => simp [look]
  | cons e t ih =>
    obtain ⟨k', v'⟩ := e
    simp only [look, keys_cons, List.mem_cons, not_or]
    split
    · next h => simp [h]
    · next h => rw [ih]; constructor
                · intro h1; exact ⟨fun h2 => h h2.symm, h1⟩
                · intro h1; exact h1.2

theorem look_mem {t : Table} {k : Key} {v : Nat} (h : look t k = some v) : (k, v) ∈ t := by
  induction t with
  | nil => simp [look] at h
  | cons e t ih =>
    obtain ⟨k', v'⟩ := e
    simp only [look] at h
    split at h
    · next h' => subst h'; simp at h; simp [h]
    · exact List.mem_cons_of_mem _ (ih h)

/-! erase -/
theorem mem_erase {t : Table} {k : Key} {e : Key × Nat} : e ∈ erase t k ↔ e ∈ t ∧ e.1 ≠ k := by
  simp [erase]

theorem keys_erase_nodup {t : Table} (k : Key) (hn : (keys t).Nodup) : (keys (erase t k)).Nodup := by
  unfold erase keys
  exact (List.Sublist.map _ List.filter_sublist).nodup hn

theorem vals_erase_nodup {t : Table} (k : Key) (hn : (t.map (·.2)).Nodup) : ((erase t k).map (·.2)).Nodup := by
  unfold erase
  exact (List.Sublist.map _ List.filter_sublist).nodup hn

theorem mem_keys_erase {t : Table} {k k' : Key} : k' ∈ keys (erase t k) ↔ k' ∈ keys t ∧ k' ≠ k := by
  simp only [mem_keys, mem_erase]
  constructor
  · rintro ⟨v, h1, h2⟩; exact ⟨⟨v, h1⟩, h2⟩
  · rintro ⟨⟨v, h1⟩, h2⟩; exact ⟨v, h1, h2⟩

/-! dropOwner -/
theorem mem_dropOwner {t : Table} {g : Nat} {e : Key × Nat} : e ∈ dropOwner t g ↔ e ∈ t ∧ e.1.1 ≠ g := by
  simp [dropOwner]

theorem keys_dropOwner_nodup {t : Table} (g : Nat) (hn : (keys t).Nodup) : (keys (dropOwner t g)).Nodup := by
  unfold dropOwner keys
  exact (List.Sublist.map _ List.filter_sublist).nodup hn

theorem vals_dropOwner_nodup {t : Table} (g : Nat) (hn : (t.map (·.2)).Nodup) : ((dropOwner t g).map (·.2)).Nodup := by
  unfold dropOwner
  exact (List.Sublist.map _ List.filter_sublist).nodup hn

theorem mem_keys_dropOwner {t : Table} {g : Nat} {k : Key} : k ∈ keys (dropOwner t g) ↔ k ∈ keys t ∧ k.1 ≠ g := by
  simp only [mem_keys, mem_dropOwner]
  constructor
  · rintro ⟨v, h1, h2⟩; exact ⟨⟨v, h1⟩, h2⟩
  · rintro ⟨⟨v, h1⟩, h2⟩; exact ⟨v, h1, h2⟩

/-! append of a fresh binding -/
theorem keys_snoc_nodup {t : Table} {k : Key} (v : Nat) (hn : (keys t).Nodup) (hk : k ∉ keys t) :
    (keys (t ++ [(k, v)])).Nodup := by
  simp only [keys_append, keys_cons, keys_nil]
  rw [List.nodup_append]
  refine ⟨hn, by simp, ?_⟩
  intro a ha b hb
  simp only [List.mem_singleton] at hb
  subst hb
  intro h; subst h; exact hk ha

theorem vals_snoc_nodup {t : Table} (k : Key) {v : Nat} (hn : (t.map (·.2)).Nodup) (hv : ∀ e ∈ t, e.2 ≠ v) :
    ((t ++ [(k, v)]).map (·.2)).Nodup := by
  simp only [List.map_append, List.map_cons, List.map_nil]
  rw [List.nodup_append]
  refine ⟨hn, by simp, ?_⟩
  intro a ha b hb
  simp only [List.mem_singleton] at hb
  subst hb
  simp only [List.mem_map] at ha
  obtain ⟨e, he, rfl⟩ := ha
  exact hv e he

/-! rekey -/
theorem vals_rekey (t : Table) (k k' : Key) : (rekey t k k').map (·.2) = t.map (·.2) := by
  simp only [rekey, List.map_map]
  apply List.map_congr_left
  intro e _
  simp only [Function.comp]
  split <;> rfl

theorem mem_rekey {t : Table} {k k' : Key} {e : Key × Nat} :
    e ∈ rekey t k k' ↔ (e.1 = k' ∧ (k, e.2) ∈ t) ∨ (e ∈ t ∧ e.1 ≠ k) := by
  simp only [rekey, List.mem_map]
  constructor
  · rintro ⟨a, ha, rfl⟩
    split
    · next h => left; exact ⟨rfl, by rw [← h]; exact ha⟩
    · next h => right; exact ⟨ha, h⟩
  · rintro (⟨h1, h2⟩ | ⟨h1, h2⟩)
    · refine ⟨(k, e.2), h2, ?_⟩
      simp only [if_true]
      rw [← h1]
    · exact ⟨e, h1, by simp [h2]⟩

theorem mem_keys_rekey {t : Table} {k k' x : Key} (hk : k ∈ keys t) :
    x ∈ keys (rekey t k k') ↔ x = k' ∨ (x ∈ keys t ∧ x ≠ k) := by
  simp only [mem_keys, mem_rekey]
  constructor
  · rintro ⟨v, (⟨h1, _⟩ | ⟨h1, h2⟩)⟩
    · left; exact h1
    · right; exact ⟨⟨v, h1⟩, h2⟩
  · rintro (h | ⟨⟨v, h1⟩, h2⟩)
    · obtain ⟨v, hv⟩ := mem_keys.1 hk
      exact ⟨v, Or.inl ⟨h, hv⟩⟩
    · exact ⟨v, Or.inr ⟨h1, h2⟩⟩

theorem keys_rekey_nodup {t : Table} {k k' : Key} (hn : (keys t).Nodup) (hk' : k' ∉ keys t) :
    (keys (rekey t k k')).Nodup := by
  induction t with
  | nil => simp [rekey]
  | cons e t ih =>
    simp only [keys_cons, List.nodup_cons, List.mem_cons, not_or] at hn hk'
    have ih' := ih hn.2 hk'.2
    simp only [rekey, List.map_cons, keys_cons, List.nodup_cons] at ih' ⊢
    refine ⟨?_, ih'⟩
    intro hmem
    have hmem' : (if e.1 = k then (k', e.2) else e).1 ∈ keys (rekey t k k') := hmem
    rw [mem_keys] at hmem'
    obtain ⟨v, hv⟩ := hmem'
    rw [mem_rekey] at hv
    split at hv
    · next h =>
      rcases hv with ⟨_, h2⟩ | ⟨h1, _⟩
      · exact hn.1 (by rw [h]; exact mem_keys_of_mem h2)
      · exact hk'.2 (mem_keys_of_mem h1)
    · next h =>
      rcases hv with ⟨h1, _⟩ | ⟨h1, _⟩
      · exact hk'.1 h1.symm
      · exact hn.1 (mem_keys_of_mem h1)

/-! dictSet -/
theorem dictSet_fresh {t : Table} {k : Key} (v : Nat) (hk : k ∉ keys t) : dictSet t k v = t ++ [(k, v)] := by
  simp [dictSet, hk]

/-- re-assigning the value a key already has changes nothing -/
theorem dictSet_same {t : Table} {k : Key} {v : Nat} (hn : (keys t).Nodup) (h : (k, v) ∈ t) : dictSet t k v = t := by
  have hk : k ∈ keys t := mem_keys_of_mem h
  simp only [dictSet, hk, if_true]
  conv => rhs; rw [← List.map_id t]
  apply List.map_congr_left
  intro e he
  split
  · next h' =>
    obtain ⟨k', v'⟩ := e
    simp only at h'
    subst h'
    simp only [id, Prod.mk.injEq, true_and]
    exact functional hn h he
  · rfl

/-! ownedBy -/
theorem mem_ownedBy {t : Table} {g : Nat} {n : Name} {v : Nat} : (n, v) ∈ ownedBy t g ↔ ((g, n), v) ∈ t := by
  simp only [ownedBy, List.mem_filterMap]
  constructor
  · rintro ⟨⟨⟨g', n'⟩, v'⟩, he, h⟩
    simp only at h
    split at h
    · next hg => simp at h; obtain ⟨rfl, rfl⟩ := h; subst hg; exact he
    · simp at h
  · intro h
    exact ⟨((g, n), v), h, by simp⟩

/-! nameOfVal -/
theorem nameOfVal_eq_some {t : Table} (hn : (t.map (·.2)).Nodup) {v : Nat} {n : Name} :
    nameOfVal t v = some n ↔ ∃ g, ((g, n), v) ∈ t := by
  induction t with
  | nil => simp [nameOfVal]
  | cons e t ih =>
    obtain ⟨⟨g', n'⟩, v'⟩ := e
    simp only [List.map_cons, List.nodup_cons, List.mem_map, not_exists, not_and] at hn
    simp only [nameOfVal]
    split
    · next h =>
      subst h
      simp only [Option.some.injEq, List.mem_cons, Prod.mk.injEq]
      constructor
      · intro h; subst h; exact ⟨g', by simp⟩
      · rintro ⟨g, (⟨⟨_, h⟩, _⟩ | h)⟩
        · exact h.symm
        · exact absurd rfl (hn.1 _ h)
    · next h =>
      rw [ih hn.2]
      simp only [List.mem_cons, Prod.mk.injEq]
      constructor
      · rintro ⟨g, hg⟩; exact ⟨g, Or.inr hg⟩
      · rintro ⟨g, (⟨_, h1⟩ | hg)⟩
        · exact absurd h1.symm h
        · exact ⟨g, hg⟩

theorem nameOfVal_eq_none {t : Table} {v : Nat} : nameOfVal t v = none ↔ ∀ e ∈ t, e.2 ≠ v := by
  induction t with
  | nil => simp [nameOfVal]
  | cons e t ih =>
    obtain ⟨k, v'⟩ := e
    simp only [nameOfVal, List.mem_cons, forall_eq_or_imp]
    split
    · next h => simp [h]
    · next h => rw [ih]; simp [h]

end Exetera.Catalogue
