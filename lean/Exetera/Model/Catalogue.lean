import Exetera.Model.Basic
/-!
  C15 — executable model of ExeTera's catalogue bookkeeping
  (`exetera/core/dataframe.py` 49-453, 1263-1307; `exetera/core/dataset.py`; `exetera/core/fields.py` 42-144, 1998-2061).

  Two catalogues are kept side by side and every operation updates them one after the other, in the order the Python
  code does, with the failure points the Python code / h5py have:

  * in memory : `HDF5DataFrame._columns`  (`cols`,  (frame, column name) ↦ field handle)
                `HDF5Dataset._dataframes` (`dfs`,   (dataset, frame name) ↦ frame)          `frame.name` (`fname`)
  * on disk   : link table of each HDF5 group (`links`, (group, link name) ↦ object id)
                root link table of each file  (`file`,  (file, link name) ↦ group)

  A Python `HDF5DataFrame` object is bound to one h5py group for life, so one id (`Nat`, allocation order) names both.
  Field objects on disk are ids into the append-only heap `objs` (type + payload fingerprint; h5py keeps unlinked objects
  readable while a handle is open, so nothing is ever removed from the heap). Python field objects are ids into `handles`;
  several of them may wrap the same h5 group (`field.writeable()` builds a second wrapper, a reopen loads new ones): each has its
  own `_valid_reference`, they share nothing but the group.

  `Variant.asFound` mirrors the code before the fix commits D22/D23/D24/NC15a/NC15b, `Variant.repaired` the code with them.
  The theorems in `Props/C15.lean` are about `repaired`; `Witness/C15.lean` shows what `asFound` did.
-/
namespace Exetera.Catalogue

abbrev Name := String
/-- (owner id, name): a column of a frame / a link of a group / a frame of a dataset / a root link of a file -/
abbrev Key := Nat × Name
abbrev Table := List (Key × Nat)

inductive Variant where
  | asFound | repaired
  deriving DecidableEq, Repr

inductive Kind where
  | numeric | indexed | fixed | categorical | timestamp
  deriving DecidableEq, Repr, Inhabited

/-- what a field object on disk holds: its `fieldtype` and a fingerprint of its data -/
structure Content where
  kind : Kind
  data : Nat
  deriving DecidableEq, Repr, Inhabited

/-- a Python `HDF5Field` object -/
structure Handle where
  oid : Nat               -- the h5py group it wraps (`_field`)
  valid : Bool            -- `_valid_reference`
  owner : Option Nat      -- `_dataframe`
  home : Nat              -- the frame it was created in / loaded for (never changes; only `reopen` looks at it)
  closed : Bool           -- its dataset object has been closed by `reopen` (the client never touches such a handle)
  deriving DecidableEq, Repr, Inhabited

structure State where
  cols : Table            -- python: frame._columns        (insertion ordered)
  links : Table           -- h5    : group link tables
  dfs : Table             -- python: dataset._dataframes    (insertion ordered)
  file : Table            -- h5    : root link tables
  fname : List Name       -- python: frame.name, by frame id; its length is the next frame id
  fds : List Nat          -- the dataset (file) each frame id was created in, by frame id
  objs : List Content     -- h5    : object heap, by object id
  handles : List Handle   -- python: field objects, by handle id
  deriving DecidableEq, Repr

def State.init : State := ⟨[], [], [], [], [], [], [], []⟩

/-- outcome of an operation: Python returns / raises, and the state it leaves behind in either case -/
inductive Res (α : Type) where
  | ok (a : α) (s : State)
  | err (e : Err) (s : State)
  deriving Repr

def Res.state {α} : Res α → State
  | .ok _ s => s
  | .err _ s => s

def Res.isOk {α} : Res α → Bool
  | .ok _ _ => true
  | .err _ _ => false

/-- sequencing: an exception ends the operation and keeps whatever had been done -/
def Res.andThen {α β} (r : Res α) (k : α → State → Res β) : Res β :=
  match r with
  | .ok a s => k a s
  | .err e s => .err e s

def attrErr : Err := .other "attribute_error"
def closedErr : Err := .other "closed"
def badCase : Err := .other "bad-case"

/-! ### association tables (Python dict / h5 link table) -/

def keys (t : Table) : List Key := t.map (·.1)

def look : Table → Key → Option Nat
  | [], _ => none
  | (k', v) :: t, k => if k' = k then some v else look t k

/-- `del d[k]` -/
def erase (t : Table) (k : Key) : Table := t.filter (fun e => e.1 ≠ k)

/-- `d[k] = v` of a Python dict: replace in place or append -/
def dictSet (t : Table) (k : Key) (v : Nat) : Table :=
  if k ∈ keys t then t.map (fun e => if e.1 = k then (k, v) else e) else t ++ [(k, v)]

/-- h5 `move` of a link inside one table: the entry keeps its place and value -/
def rekey (t : Table) (k k' : Key) : Table := t.map (fun e => if e.1 = k then (k', e.2) else e)

/-- everything owned by `g` is dropped (an h5 group is unlinked / a frame object becomes garbage) -/
def dropOwner (t : Table) (g : Nat) : Table := t.filter (fun e => e.1.1 ≠ g)

/-- the (name, value) pairs owned by `g`, in table order -/
def ownedBy (t : Table) (g : Nat) : List (Name × Nat) :=
  t.filterMap (fun e => if e.1.1 = g then some (e.1.2, e.2) else none)

/-- the name under which value `v` is linked (h5py `obj.name`, last path component) -/
def nameOfVal : Table → Nat → Option Name
  | [], _ => none
  | (k, v') :: t, v => if v' = v then some k.2 else nameOfVal t v

/-! ### plain name ↦ x dictionaries used locally by `rename` -/

def lookN {β} : List (Name × β) → Name → Option β
  | [], _ => none
  | (k', v) :: t, k => if k' = k then some v else lookN t k

def setN {β} (t : List (Name × β)) (k : Name) (v : β) : List (Name × β) :=
  if k ∈ t.map (·.1) then t.map (fun e => if e.1 = k then (k, v) else e) else t ++ [(k, v)]

/-- build a Python dict by successive assignment -/
def fromPairs {β} (ps : List (Name × β)) : List (Name × β) := ps.foldl (fun d p => setN d p.1 p.2) []

/-! ### handles -/

/-- `field._ensure_valid()` (plus the harness convention for handles of a closed dataset object) -/
def ensureValid (s : State) (h : Nat) : Except Err Handle :=
  match s.handles[h]? with
  | none => .error badCase
  | some hd =>
    if hd.closed then .error closedErr
    else if hd.valid then .ok hd
    else .error (.valueError "This field no longer refers to a valid underlying field object")

/-- `field.name` : `self._field.name.split('/')[-1]`; h5py reports `None` for an object that is no longer linked -/
def fieldName (s : State) (h : Nat) : Except Err Name :=
  match ensureValid s h with
  | .error e => .error e
  | .ok hd =>
    match nameOfVal s.links hd.oid with
    | some n => .ok n
    | none => .error attrErr

/-- what `field.create_like` + `field.data[:]` read from the source field -/
def fieldContent (s : State) (h : Nat) : Except Err Content :=
  match ensureValid s h with
  | .error e => .error e
  | .ok hd =>
    match s.objs[hd.oid]? with
    | some c => .ok c
    | none => .error badCase

/-! ### operations of a dataframe -/

/-- `*_field_constructor(session, df, name, …)` then `XField(session, df._h5group[name], df)` then `df._columns[name] = field`
    (`create_*`, and `create_like(df, name)` + data copy used by `__setitem__`, `add`, `copy`).
    `base_field_contructor` tests `name in group`, which for a dataframe is the in-memory `_columns`;
    `h5group.create_group` refuses an existing link. Returns the new handle. -/
def addField (v : Variant) (s : State) (g : Nat) (n : Name) (c : Content) : Res Nat :=
  if (g, n) ∈ keys s.cols then .err (.valueError "Field already exists in group") s
  else if (g, n) ∈ keys s.links then .err (.valueError "Unable to create group (name already exists)") s
  else
    let oid := s.objs.length
    let hid := s.handles.length
    -- D24: IndexedStringField.__init__ reset `_dataframe` to None
    let owner := if v = .asFound ∧ c.kind = .indexed then none else some g
    .ok hid { s with links := s.links ++ [((g, n), oid)], objs := s.objs ++ [c],
                     handles := s.handles ++ [⟨oid, true, owner, g, false⟩], cols := s.cols ++ [((g, n), hid)] }

/-- `df.__delitem__(name)`: membership test on `_columns`, then `del h5group[name]`, then `del _columns[name]` -/
def delItem (s : State) (g : Nat) (n : Name) : Res Unit :=
  if (g, n) ∉ keys s.cols then .err (.valueError "There is no field named") s
  else if (g, n) ∉ keys s.links then .err (.keyError "Couldn't delete link") s
  else .ok () { s with links := erase s.links (g, n), cols := erase s.cols (g, n) }

/-- `df.drop(name)`: `del _columns[name]` first, then `del h5group[name]` -/
def dropField (s : State) (g : Nat) (n : Name) : Res Unit :=
  if (g, n) ∉ keys s.cols then .err (.keyError n) s
  else
    let s1 := { s with cols := erase s.cols (g, n) }
    if (g, n) ∉ keys s1.links then .err (.keyError "Couldn't delete link") s1
    else .ok () { s1 with links := erase s1.links (g, n) }

/-- `h5group.move(a, b)`: nothing when `a == b`; refused when `a` is missing or `b` exists -/
def h5Move (t : Table) (g : Nat) (a b : Name) : Except Err Table :=
  if a = b then .ok t
  else if (g, a) ∉ keys t then .error (.valueError "Unable to move link (name doesn't exist)")
  else if (g, b) ∈ keys t then .error (.valueError "Unable to move link (an object with that name already exists)")
  else .ok (rekey t (g, a) (g, b))

/-- a sequence of `h5group.move` calls; on a refusal the moves already made stay -/
def applyMoves (g : Nat) : List (Name × Name) → Table → Except (Err × Table) Table
  | [], t => .ok t
  | (a, b) :: ms, t =>
    match h5Move t g a b with
    | .error e => .error (e, t)
    | .ok t' => applyMoves g ms t'

/-- `while name in keys: name += '_'` — at most `fuel` further underscores -/
def freshName (used : List Name) : Nat → Name → Option Name
  | 0, name => if name ∈ used then none else some name
  | fuel + 1, name => if name ∈ used then freshName used fuel (name ++ "_") else some name

def maxLen : List Name → Nat
  | [] => 0
  | n :: ns => max n.length (maxLen ns)

/-- enough fuel for `freshName used · name` : a name longer than every used name is unused -/
def freshFuel (used : List Name) (name : Name) : Nat := maxLen used + 1 - name.length

/-- the clash pre-check of `rename`: `keys` = current names minus the renamed ones; then for every destination
    `if v in keys: clashes.add(v)`, `keys.add(v)` -/
def clashes : List Name → List Name → List Name
  | _, [] => []
  | ks, v :: vs => if v ∈ ks then v :: clashes ks vs else clashes (v :: ks) vs

/-- one column in the first pass of `rename` -/
structure Step1 where
  k : Name               -- current name
  h : Nat                -- its field object
  uname : Name           -- name after the first pass (`k` itself when the column is not renamed)
  target : Option Name   -- `dict_[k]` when renamed
  deriving DecidableEq, Repr

/-- first pass of `rename`, the part that only computes: for each column in `_columns` order its intermediate name.
    asFound : `get_unique_name(dict_[k], self._columns)` — unique w.r.t. the names at the start of the call only (D22).
    repaired: a destination that is not a current name is used directly; otherwise `get_unique_name(dict_[k], reserved)`
              with `reserved` = current names ∪ destinations ∪ intermediates already handed out. -/
def plan1 (v : Variant) (cur : List Name) (dict : List (Name × Name)) :
    List (Name × Nat) → List Name → Option (List Step1)
  | [], _ => some []
  | (k, h) :: cs, reserved =>
    match lookN dict k with
    | none => (plan1 v cur dict cs reserved).map (⟨k, h, k, none⟩ :: ·)
    | some t =>
      match v with
      | .asFound =>
        match freshName cur (freshFuel cur t) t with
        | none => none
        | some u => (plan1 v cur dict cs reserved).map (⟨k, h, u, some t⟩ :: ·)
      | .repaired =>
        if t ∈ cur then
          match freshName reserved (freshFuel reserved t) t with
          | none => none
          | some u => (plan1 v cur dict cs (u :: reserved)).map (⟨k, h, u, some t⟩ :: ·)
        else (plan1 v cur dict cs reserved).map (⟨k, h, t, some t⟩ :: ·)

/-- the h5 moves of the first pass, in order -/
def moves1 (p : List Step1) : List (Name × Name) :=
  p.filterMap (fun st => st.target.map (fun _ => (st.k, st.uname)))

/-- `intermediate_columns` -/
def intermediate (p : List Step1) : List (Name × Nat) := fromPairs (p.map (fun st => (st.uname, st.h)))

/-- `final_renames` : `if uname != k: final_renames[uname] = dict_[k]` -/
def finalRenames (p : List Step1) : List (Name × Name) :=
  fromPairs (p.filterMap (fun st => match st.target with
    | some t => if st.uname ≠ st.k then some (st.uname, t) else none
    | none => none))

/-- the h5 moves of the second pass, in `intermediate_columns` order -/
def moves2 (inter : List (Name × Nat)) (fr : List (Name × Name)) : List (Name × Name) :=
  inter.filterMap (fun e => (lookN fr e.1).map (fun t => (e.1, t)))

/-- `final_columns` -/
def finalCols (inter : List (Name × Nat)) (fr : List (Name × Name)) : List (Name × Nat) :=
  fromPairs (inter.map (fun e => ((lookN fr e.1).getD e.1, e.2)))

/-- `self._columns = final_columns` -/
def setFrameCols (t : Table) (g : Nat) (final : List (Name × Nat)) : Table :=
  dropOwner t g ++ final.map (fun e => ((g, e.1), e.2))

/-- `df.rename(dict)` / `df.rename(a, b)` (dataframe.py 362-453). `dict` is the Python dict in insertion order
    (distinct keys — the driver rejects anything else as a malformed case). -/
def renameFields (v : Variant) (s : State) (g : Nat) (dict : List (Name × Name)) : Res Unit :=
  let cs := ownedBy s.cols g
  let cur := cs.map (·.1)
  -- `for k in dict_.keys(): keys.remove(k)`
  match (dict.map (·.1)).find? (fun k => k ∉ cur) with
  | some k => .err (.keyError k) s
  | none =>
    if clashes (cur.filter (fun k => k ∉ dict.map (·.1))) (dict.map (·.2)) ≠ [] then
      .err (.valueError "The attempted rename cannot be performed as it creates the following name clashes") s
    else
      match plan1 v cur dict cs (cur ++ dict.map (·.2)) with
      | none => .err .outOfFuel s
      | some p =>
        match applyMoves g (moves1 p) s.links with
        | .error (e, t) => .err e { s with links := t }
        | .ok t1 =>
          let inter := intermediate p
          let fr := finalRenames p
          match applyMoves g (moves2 inter fr) t1 with
          | .error (e, t) => .err e { s with links := t }
          | .ok t2 => .ok () { s with links := t2, cols := setFrameCols s.cols g (finalCols inter fr) }

/-- `field._valid_reference = False` -/
def invalidate (s : State) (h : Nat) : State :=
  { s with handles := s.handles.modify h (fun hd => { hd with valid := false }) }

/-- `field.writeable()`: `_ensure_valid()`, then `XField(session, self._field, self._dataframe, write_enabled=True)` — a second
    wrapper object around the same h5 group, remembering the same dataframe, with a `_valid_reference` of its own (True).
    Nothing ties the two objects together afterwards. Returns the new handle.
    asFound: `NumericField.writeable()` passed `dataframe=None` (NC15b); `IndexedStringField.__init__` reset `_dataframe` (D24). -/
def viewField (v : Variant) (s : State) (h : Nat) : Res Nat :=
  match ensureValid s h with
  | .error e => .err e s
  | .ok hd =>
    let lost : Bool := match v, s.objs[hd.oid]? with
      | .asFound, some c => c.kind == .numeric || c.kind == .indexed
      | _, _ => false
    let owner := if lost then none else hd.owner
    .ok s.handles.length { s with handles := s.handles ++ [⟨hd.oid, true, owner, hd.home, false⟩] }

/-- `dataframe.copy(field, ddf, name)` -/
def copyField (v : Variant) (s : State) (h : Nat) (g : Nat) (n : Name) : Res Nat :=
  match fieldContent s h with
  | .error e => .err e s
  | .ok c => addField v s g n c

/-- `dataframe.move(field, ddf, name)` (dataframe.py 1286-1307) -/
def moveField (v : Variant) (s : State) (h : Nat) (g : Nat) (n : Name) : Res Unit :=
  match ensureValid s h with          -- `field.dataframe`
  | .error e => .err e s
  | .ok hd =>
    if hd.owner = some g then
      match fieldName s h with
      | .error e => .err e s
      | .ok k => renameFields v s g [(k, n)]
    else
      (copyField v s h g n).andThen fun _ s1 =>
        match hd.owner with               -- `field.dataframe.drop(field.name)`
        | none => .err attrErr s1
        | some og =>
          match fieldName s1 h with
          | .error e => .err e s1
          | .ok k => (dropField s1 og k).andThen fun _ s2 => .ok () (invalidate s2 h)

/-- `df.delete_field(field)` -/
def deleteField (s : State) (g : Nat) (h : Nat) : Res Unit :=
  match ensureValid s h with
  | .error e => .err e s
  | .ok hd =>
    if hd.owner ≠ some g then .err (.valueError "This field is owned by a different dataframe") s
    else
      match fieldName s h with
      | .error e => .err e s
      | .ok k => delItem s g k

/-- `df.add(field)` : name taken from the field -/
def addCopy (v : Variant) (s : State) (g : Nat) (h : Nat) : Res Nat :=
  match fieldName s h with
  | .error e => .err e s
  | .ok k => copyField v s h g k

/-! ### operations of a dataset -/

/-- `for k, v in dataframe.items(): f = v.create_like(_dataframe, k); f.data.write(v.data[:])` -/
def copyAll (v : Variant) (g : Nat) : List (Name × Nat) → State → Res Unit
  | [], s => .ok () s
  | (n, h) :: rest, s =>
    match copyField v s h g n with
    | .err e s' => .err e s'
    | .ok _ s' => copyAll v g rest s'

/-- `self._file.create_group(name)`; `HDF5DataFrame(self, name, h5group)` (no columns yet). Returns the frame. -/
def newGroup (s : State) (d : Nat) (fn : Name) : Res Nat :=
  if (d, fn) ∈ keys s.file then .err (.valueError "Unable to create group (name already exists)") s
  else .ok s.fname.length { s with file := s.file ++ [((d, fn), s.fname.length)], fname := s.fname ++ [fn], fds := s.fds ++ [d] }

/-- the optional duplication of `create_dataframe(name, dataframe=src)` -/
def fillFrame (v : Variant) (g : Nat) (src : Option Nat) (s1 : State) : Res Unit :=
  match src with
  | none => .ok () s1
  | some sg => copyAll v g (ownedBy s1.cols sg) s1

/-- `ds.create_dataframe(name, dataframe=src)` : group, frame object, optional field copies, then `_dataframes[name] = …` -/
def createFrame (v : Variant) (s : State) (d : Nat) (fn : Name) (src : Option Nat) : Res Nat :=
  (newGroup s d fn).andThen fun g s1 =>
    (fillFrame v g src s1).andThen fun _ s2 => .ok g { s2 with dfs := dictSet s2.dfs (d, fn) g }

/-- module-level `dataset.copy(dataframe, dataset, name)` (also `ds.copy(df, name)` and the foreign branch of `ds[name] = df`) -/
def copyFrame (v : Variant) (s : State) (sg : Nat) (d : Nat) (fn : Name) : Res Unit :=
  if (d, fn) ∈ keys s.dfs then .err (.valueError "A dataframe with the the name already exists in the destination dataset") s
  else
    (createFrame v s d fn none).andThen fun g s1 =>
      (copyAll v g (ownedBy s1.cols sg) s1).andThen fun _ s2 =>
        .ok () { s2 with dfs := dictSet s2.dfs (d, fn) g }

/-- `del self._file[name]` : the group and everything below it is unlinked (and the frame object that wrapped it is garbage) -/
def unlinkGroup (s : State) (d : Nat) (fn : Name) : Res Unit :=
  match look s.file (d, fn) with
  | none => .err (.keyError "Couldn't delete link") s
  | some g => .ok () { s with file := erase s.file (d, fn), links := dropOwner s.links g, cols := dropOwner s.cols g }

/-- `ds.drop(name)` : `del self._dataframes[name]`; `del self._file[name]` -/
def dropFrame (s : State) (d : Nat) (fn : Name) : Res Unit :=
  if (d, fn) ∉ keys s.dfs then .err (.keyError fn) s
  else unlinkGroup { s with dfs := erase s.dfs (d, fn) } d fn

/-- `ds.__delitem__(name)` -/
def delFrame (s : State) (d : Nat) (fn : Name) : Res Unit :=
  if (d, fn) ∉ keys s.dfs then .err (.valueError "This dataframe does not contain the name to delete.") s
  else unlinkGroup { s with dfs := erase s.dfs (d, fn) } d fn

/-- `self._file.move(dataframe.h5group.name, name)` -/
def moveGroup (s : State) (d : Nat) (g : Nat) (fn : Name) : Res Unit :=
  match nameOfVal s.file g with
  | none => .err attrErr s
  | some old =>
    -- h5py compares the strings '/old' and 'new', so even old = new goes to HDF5, which refuses an existing name
    if (d, fn) ∈ keys s.file then .err (.valueError "Unable to move link (an object with that name already exists)") s
    else .ok () { s with file := rekey s.file (d, old) (d, fn) }

/-- the dictionary part of `ds[name] = df` for a frame of this dataset:
    `del self._dataframes[dataframe.name]`; `dataframe.name = name`; `self._dataframes[name] = dataframe` -/
def renameEntry (s : State) (d : Nat) (g : Nat) (fn : Name) : Res Unit :=
  match s.fname[g]? with
  | none => .err badCase s
  | some old =>
    if (d, old) ∉ keys s.dfs then .err (.keyError old) s
    else
      let dfs1 := erase s.dfs (d, old)
      .ok () { s with dfs := dictSet dfs1 (d, fn) g, fname := s.fname.set g fn }

/-- `ds[name] = dataframe` (dataset.py 189-212). `sd` is the dataset the frame was obtained from. -/
def setFrame (v : Variant) (s : State) (d : Nat) (fn : Name) (sd : Nat) (sg : Nat) : Res Unit :=
  if sd = d then
    match v with
    | .asFound => (renameEntry s d sg fn).andThen fun _ s1 => moveGroup s1 d sg fn      -- D23: dictionary first
    | .repaired => (moveGroup s d sg fn).andThen fun _ s1 => renameEntry s1 d sg fn
  else copyFrame v s sg d fn

/-- module-level `dataset.move(dataframe, dataset, name)` : copy, then `dataframe.dataset.drop(dataframe.name)` -/
def moveFrame (v : Variant) (s : State) (sd : Nat) (sg : Nat) (d : Nat) (fn : Name) : Res Unit :=
  (copyFrame v s sg d fn).andThen fun _ s1 =>
    match s1.fname[sg]? with
    | none => .err badCase s1
    | some old => dropFrame s1 sd old

/-- close the dataset object and open the file again: `_dataframes` and every `_columns` are rebuilt from the link tables
    in h5py's iteration order (by name); every older field object of this dataset is dead to the client.
    asFound (NC15a): fields loaded by `Session.get` have `_dataframe = None`. -/
def insertBy {α} (le : α → α → Bool) (x : α) : List α → List α
  | [] => [x]
  | y :: ys => if le x y then x :: y :: ys else y :: insertBy le x ys

def sortBy {α} (le : α → α → Bool) : List α → List α
  | [] => []
  | x :: xs => insertBy le x (sortBy le xs)

def entryLe (a b : Key × Nat) : Bool := a.1.1 < b.1.1 || (a.1.1 = b.1.1 && a.1.2 ≤ b.1.2)

/-- one loaded column: `self._columns[subg] = session.get(h5group[subg])` -/
def loadCols (v : Variant) : List (Key × Nat) → List Handle → Table × List Handle
  | [], hs => ([], hs)
  | ((g, n), oid) :: rest, hs =>
    let owner := match v with | .asFound => none | .repaired => some g
    let r := loadCols v rest (hs ++ [⟨oid, true, owner, g, false⟩])
    (((g, n), hs.length) :: r.1, r.2)

/-- `HDF5DataFrame(self, group, h5group)` sets `frame.name = group` -/
def loadNames : List (Key × Nat) → List Name → List Name
  | [], fn => fn
  | ((_, n), g) :: rest, fn => loadNames rest (fn.set g n)

def inDs (s : State) (d : Nat) (g : Nat) : Bool := s.fds[g]? == some d

/-- h5py iteration order of a reopened file: groups by name, the links of each group by name -/
def loadLe (file : Table) (a b : Key × Nat) : Bool :=
  let fa := (nameOfVal file a.1.1).getD ""
  let fb := (nameOfVal file b.1.1).getD ""
  decide (fa < fb) || (fa == fb && decide (a.1.2 ≤ b.1.2))

def reopen (v : Variant) (s : State) (d : Nat) : State :=
  let mine := sortBy entryLe (s.file.filter (fun e => e.1.1 = d))
  let closedH := s.handles.map (fun hd => if inDs s d hd.home then { hd with closed := true } else hd)
  let toLoad := sortBy (loadLe s.file) (s.links.filter (fun l => l.1.1 ∈ mine.map (·.2)))
  let loaded := loadCols v toLoad closedH
  { s with dfs := s.dfs.filter (fun e => e.1.1 ≠ d) ++ mine,
           fname := loadNames mine s.fname,
           cols := s.cols.filter (fun e => !inDs s d e.1.1) ++ loaded.1,
           handles := loaded.2 }

/-! ### the operation alphabet -/

/-- how the client names a field object: looked up now (`ds[frame][col]`), or a handle it kept (creation index) -/
inductive FRef where
  | byName (d : Nat) (frame : Name) (col : Name)
  | byHandle (h : Nat)
  deriving DecidableEq, Repr

inductive Op where
  | create (d : Nat) (frame col : Name) (c : Content)                -- ds[frame].create_<kind>(col) + data.write
  | setItem (d : Nat) (frame col : Name) (src : FRef)                -- ds[frame][col] = field
  | add (d : Nat) (frame : Name) (src : FRef)                        -- ds[frame].add(field)
  | delItem (d : Nat) (frame col : Name)                             -- del ds[frame][col]
  | drop (d : Nat) (frame col : Name)                                -- ds[frame].drop(col)
  | deleteField (d : Nat) (frame : Name) (src : FRef)                -- ds[frame].delete_field(field)
  | rename (d : Nat) (frame : Name) (dict : List (Name × Name))      -- ds[frame].rename(dict) / rename(a, b)
  | copyField (src : FRef) (d : Nat) (frame col : Name)              -- dataframe.copy(field, ds[frame], col)
  | moveField (src : FRef) (d : Nat) (frame col : Name)              -- dataframe.move(field, ds[frame], col)
  | createFrame (d : Nat) (frame : Name) (src : Option (Nat × Name)) -- ds.create_dataframe(frame, dataframe=…)
  | requireFrame (d : Nat) (frame : Name)                            -- ds.require_dataframe(frame)
  | copyFrame (sd : Nat) (sframe : Name) (d : Nat) (frame : Name)    -- ds.copy(ds'[sframe], frame) / dataset.copy
  | setFrame (d : Nat) (frame : Name) (sd : Nat) (sframe : Name)     -- ds[frame] = ds'[sframe]
  | delFrame (d : Nat) (frame : Name)                                -- del ds[frame]
  | dropFrame (d : Nat) (frame : Name)                               -- ds.drop(frame)
  | deleteFrame (d : Nat) (sd : Nat) (sframe : Name)                 -- ds.delete_dataframe(ds'[sframe])
  | moveFrame (sd : Nat) (sframe : Name) (d : Nat) (frame : Name)    -- dataset.move(ds'[sframe], ds, frame)
  | reopen (d : Nat)                                                 -- close + open again
  | view (src : FRef)                                                -- w = field.writeable()  (the client keeps w)
  deriving DecidableEq, Repr

def Op.isReopen : Op → Bool
  | .reopen _ => true
  | _ => false

/-- `ds[frame]` -/
def getFrame (s : State) (d : Nat) (fn : Name) : Except Err Nat :=
  match look s.dfs (d, fn) with
  | some g => .ok g
  | none => .error (.valueError "Can not find the name from this dataset.")

/-- evaluate a field reference -/
def getField (s : State) : FRef → Except Err Nat
  | .byName d fn c =>
    match getFrame s d fn with
    | .error e => .error e
    | .ok g =>
      match look s.cols (g, c) with
      | some h => .ok h
      | none => .error (.valueError "There is no field named")
  | .byHandle h => if h < s.handles.length then .ok h else .error badCase

def withFrame {α} (s : State) (d : Nat) (fn : Name) (k : Nat → Res α) : Res α :=
  match getFrame s d fn with
  | .error e => .err e s
  | .ok g => k g

def withField {α} (s : State) (r : FRef) (k : Nat → Res α) : Res α :=
  match getField s r with
  | .error e => .err e s
  | .ok h => k h

def Res.void {α} : Res α → Res Unit
  | .ok _ s => .ok () s
  | .err e s => .err e s

/-- one client call -/
def step (v : Variant) (s : State) : Op → Res Unit
  | .create d fn n c => withFrame s d fn fun g => (addField v s g n c).void
  | .setItem d fn n r => withField s r fun h => withFrame s d fn fun g => (copyField v s h g n).void
  | .add d fn r => withField s r fun h => withFrame s d fn fun g => (addCopy v s g h).void
  | .delItem d fn n => withFrame s d fn fun g => delItem s g n
  | .drop d fn n => withFrame s d fn fun g => dropField s g n
  | .deleteField d fn r => withField s r fun h => withFrame s d fn fun g => deleteField s g h
  | .rename d fn dict =>
    if ¬ (dict.map (·.1)).Nodup then .err badCase s
    else withFrame s d fn fun g => renameFields v s g dict
  | .copyField r d fn n => withField s r fun h => withFrame s d fn fun g => (copyField v s h g n).void
  | .moveField r d fn n => withField s r fun h => withFrame s d fn fun g => moveField v s h g n
  | .createFrame d fn none => (createFrame v s d fn none).void
  | .createFrame d fn (some (sd, sfn)) => withFrame s sd sfn fun sg => (createFrame v s d fn (some sg)).void
  | .requireFrame d fn => if (d, fn) ∈ keys s.dfs then .ok () s else (createFrame v s d fn none).void
  | .copyFrame sd sfn d fn => withFrame s sd sfn fun sg => copyFrame v s sg d fn
  | .setFrame d fn sd sfn => withFrame s sd sfn fun sg => setFrame v s d fn sd sg
  | .delFrame d fn => delFrame s d fn
  | .dropFrame d fn => dropFrame s d fn
  | .deleteFrame d sd sfn => withFrame s sd sfn fun sg =>
      match s.fname[sg]? with
      | none => .err badCase s
      | some nm => delFrame s d nm
  | .moveFrame sd sfn d fn => withFrame s sd sfn fun sg => moveFrame v s sd sg d fn
  | .reopen d => .ok () (reopen v s d)
  | .view r => withField s r fun h => (viewField v s h).void

/-- a whole history; exceptions are caught by the client, the state carries on -/
def run (v : Variant) : State → List Op → State
  | s, [] => s
  | s, op :: ops => run v (step v s op).state ops

end Exetera.Catalogue
