import Exetera.Lemmas.GroupBySorted
import Exetera.Lemmas.SortIndexPass
import Exetera.Lemmas.Spans
/-!
  C07 helper lemmas, part 2: reading a frame along a stable lexicographic sort index and grouping adjacent rows gives the
  group-by of the ORIGINAL frame: distinct keys ascending, each with the target values of its rows in original order.
-/
namespace Exetera.GroupBy
open Exetera Exetera.Spec Exetera.Spans Exetera.SortIndex List

/-- the key rows of `n`-row columns, by row number -/
def rowsBy (cols : List (List Int)) (n : Nat) : List (List Int) := (List.range n).map (keyAt cols)

/-- the frame read along an index: (key tuple, target value) per row -/
def frameAlong {V} (cols : List (List Int)) (T : List V) (d : V) (idx : List Nat) : List (List Int × V) :=
  idx.map (fun i => (keyAt cols i, T.getD i d))

theorem zip_rowsBy {V} (cols : List (List Int)) (T : List V) (d : V) (n : Nat) (hT : T.length = n) :
    (rowsBy cols n).zip T = frameAlong cols T d (List.range n) := by
  apply List.ext_getElem
  · simp [rowsBy, frameAlong, hT]
  · intro i h1 h2
    simp only [rowsBy, frameAlong, length_zip, length_map, length_range] at h1 h2
    simp [rowsBy, frameAlong, List.getD_eq_getElem?_getD, List.getElem?_eq_getElem (show i < T.length by omega)]

theorem select_eq_valuesOf {V} (rows : List (List Int)) (T : List V) (k : List Int) :
    select rows T k = valuesOf (rows.zip T) k := rfl

theorem keysSorted_frameAlong {V} (cols : List (List Int)) (T : List V) (d : V) (idx : List Nat)
    (hs : idx.Pairwise (ltBy cols)) : KeysSorted (frameAlong cols T d idx) := by
  unfold KeysSorted frameAlong
  rw [map_map, pairwise_map]
  refine hs.imp ?_
  intro a b hab
  rcases hab with h | ⟨h, _⟩
  · exact tupleLt_asymm h
  · simp only [Function.comp]; rw [h]; exact tupleLt_irrefl _

/-- along a stable sort index the rows of one key appear in their original order -/
theorem filter_key_eq (cols : List (List Int)) (n : Nat) (idx : List Nat) (hperm : idx.Perm (List.range n))
    (hs : idx.Pairwise (ltBy cols)) (k : List Int) :
    idx.filter (fun i => keyAt cols i == k) = (List.range n).filter (fun i => keyAt cols i == k) := by
  apply pairwise_lt_ext
  · have := hs.sublist (filter_sublist (p := fun i => keyAt cols i == k))
    refine this.imp_of_mem ?_
    intro a b ha hb hab
    simp only [mem_filter, beq_iff_eq] at ha hb
    rcases hab with h | ⟨_, h⟩
    · rw [ha.2, hb.2, tupleLt_irrefl] at h; cases h
    · exact h
  · exact pairwise_lt_range.sublist filter_sublist
  · intro i
    simp only [mem_filter]
    rw [hperm.mem_iff]

theorem valuesOf_frameAlong {V} (cols : List (List Int)) (T : List V) (d : V) (idx : List Nat) (k : List Int) :
    valuesOf (frameAlong cols T d idx) k = (idx.filter (fun i => keyAt cols i == k)).map (fun i => T.getD i d) := by
  unfold valuesOf frameAlong
  rw [filter_map, map_map]
  rfl

/-- **group-by along a stable sort index**: the adjacent groups of the frame read along `idx` are the distinct key
    tuples of the original frame in ascending order, each with the target values of its rows in ORIGINAL order. -/
theorem groups_along_index {V} (cols : List (List Int)) (T : List V) (d : V) (n : Nat) (idx : List Nat)
    (hperm : idx.Perm (List.range n)) (hs : idx.Pairwise (ltBy cols)) (hT : T.length = n) :
    DistinctAscending (rowsBy cols n) ((groupAdj (frameAlong cols T d idx)).map (·.1)) ∧
    (groupAdj (frameAlong cols T d idx)).map (·.2) =
      ((groupAdj (frameAlong cols T d idx)).map (·.1)).map (select (rowsBy cols n) T) := by
  obtain ⟨h1, h2, h3⟩ := groupAdj_sorted (frameAlong cols T d idx) (keysSorted_frameAlong cols T d idx hs)
  refine ⟨⟨h1, ?_⟩, ?_⟩
  · intro k
    rw [h2]
    simp only [frameAlong, rowsBy, map_map, mem_map, Function.comp]
    constructor
    · rintro ⟨i, hi, rfl⟩
      exact ⟨i, hperm.mem_iff.1 hi, rfl⟩
    · rintro ⟨i, hi, rfl⟩
      exact ⟨i, hperm.mem_iff.2 hi, rfl⟩
  · rw [h3]
    apply map_congr_left
    intro k _
    rw [select_eq_valuesOf, zip_rowsBy cols T d n hT, valuesOf_frameAlong, valuesOf_frameAlong,
      filter_key_eq cols n idx hperm hs k]

/-- the number of rows with key `k` -/
theorem select_length {V} : ∀ (rows : List (List Int)) (T : List V) (k : List Int), T.length = rows.length →
    (select rows T k).length = rows.count k
  | [], T, k, _ => by simp [select]
  | r :: rows, [], k, h => by simp at h
  | r :: rows, t :: T, k, h => by
    have ih := select_length rows T k (by simpa using h)
    simp only [select, zip_cons_cons, filter_cons, count_cons] at ih ⊢
    by_cases hr : r = k
    · simp [hr, ih]
    · have : (r == k) = false := by simpa using hr
      simp [this, ih]

/-- a sorted frame read in its own order: `arange(n)` is a stable sort index -/
theorem range_sorted_index (cols : List (List Int)) (n : Nat)
    (h : ∀ i j, i < j → j < n → tupleLt (keyAt cols j) (keyAt cols i) = false) :
    (List.range n).Pairwise (ltBy cols) := by
  rw [pairwise_iff_getElem]
  intro i j hi hj hij
  simp only [length_range] at hi hj
  simp only [getElem_range]
  rcases tupleLe_iff.1 (h i j hij hj) with h' | h'
  · exact Or.inl h'
  · exact Or.inr ⟨h', hij⟩

end Exetera.GroupBy
