import Exetera.Lemmas.CsvStage
/-! A whole cell including its terminator: from one cell start to the next (C05). -/
namespace Exetera.Csv
open Exetera Spec

/-- entries staged per column, with one more entry `v` in column `j` -/
def upd (E : Nat → List Bytes) (j : Nat) (v : Bytes) : Nat → List Bytes := fun c => if c = j then E j ++ [v] else E c

/-- what is staged after a cell: nothing changes while the header line is read -/
def stage (hdr : Bool) (E : Nat → List Bytes) (j : Nat) (v : Bytes) : Nat → List Bytes := if hdr then E else upd E j v

/-- the kernel is about to read the first byte (after the skipped blanks) of the cell in column `j` of row `k`
    (`hdr`: of the header line); `A` is the text consumed so far, `E c` the entries staged in column `c` during this call -/
structure CellStart (src : Bytes) (offs : List Nat) (maxrow ncols : Nat) (s : KS) (A : Bytes) (j : Nat) (hdr : Bool)
    (k np : Nat) (E : Nat → List Bytes) : Prop where
  index : s.index = A.length
  ics : s.ics = A.length
  col : s.col = j
  hdr_ : s.hdr = hdr
  row : s.row = k
  np : s.nextPos = np
  esc : s.escaped = false
  cand : s.cand = false
  count : s.count = 0
  vfc : s.vfc = none
  indsFull : s.indsFull = false
  valsFull : s.valsFull = false
  done : s.done = (s.index == src.length)
  colOff : s.colOff = offAt offs j
  colCnt : s.colCnt = offAt offs (j + 1) - offAt offs j
  cstart : hdr = false → s.cstart = (E j).flatten.length
  shape : Shape ncols maxrow offs s.inds s.vals
  cols : ∀ c, c < ncols → ColOK offs s.inds s.vals c (E c)
  caps : ∀ c, c < ncols → offAt offs c + (E c).flatten.length ≤ offAt offs (c + 1)
  jlt : j < ncols
  lens : hdr = false → (∀ c, c < j → (E c).length = k + 1) ∧ (∀ c, j ≤ c → c < ncols → (E c).length = k)
  hdrE : hdr = true → (∀ c, E c = []) ∧ k = 0
  krow : hdr = false → k < maxrow
  maxrow_pos : 0 < maxrow

theorem shape_set {ncols maxrow : Nat} {offs : List Nat} {inds : List (List Nat)} {vals vals' : List Nat} {j i v : Nat}
    {r : List Nat} (h : Shape ncols maxrow offs inds vals) (hr : inds[j]? = some r) (hl : vals'.length = vals.length) :
    Shape ncols maxrow offs (inds.set j (r.set i v)) vals' := by
  refine ⟨by simpa using h.indsLen, ?_, h.offsLen, h.offs0, h.mono, by rw [hl]; exact h.last⟩
  intro c r' hr'
  by_cases hjc : j = c
  · subst hjc
    have hj : j < inds.length := by
      rcases Nat.lt_or_ge j inds.length with h | h
      · exact h
      · rw [List.getElem?_eq_none h] at hr; cases hr
    rw [List.getElem?_set_self hj] at hr'
    have := h.rowLen j r hr
    rw [← Option.some.inj hr']; simpa using this
  · rw [List.getElem?_set_ne hjc] at hr'
    exact h.rowLen c r' hr'

theorem cell_room {src : Bytes} {offs : List Nat} {maxrow ncols : Nat} {s : KS} {A : Bytes} {j : Nat} {hdr : Bool}
    {k np : Nat} {E : Nat → List Bytes} (h : CellStart src offs maxrow ncols s A j hdr k np E) (n : Nat)
    (hcap : hdr = false → offAt offs j + (E j).flatten.length + n < offAt offs (j + 1)) : Room s n := by
  intro hh
  rw [h.hdr_] at hh
  have h1 := hcap hh
  have h2 := h.shape.mono_le ncols (j + 1) (by have := h.jlt; omega) (Nat.le_refl _)
  have h3 := h.shape.last
  have h4 := h.shape.mono j h.jlt
  rw [h.colOff, h.cstart hh, h.count, h.colCnt]
  omega

theorem upd_flat_self (E : Nat → List Bytes) (j : Nat) (v : Bytes) :
    (upd E j v j).flatten.length = (E j).flatten.length + v.length := by
  simp [upd]

theorem upd_ne (E : Nat → List Bytes) {j c : Nat} (v : Bytes) (h : c ≠ j) : upd E j v c = E c := by
  simp [upd, h]

theorem upd_self (E : Nat → List Bytes) (j : Nat) (v : Bytes) : upd E j v j = E j ++ [v] := by
  simp [upd]

theorem lt_len_of_get {α} {l : List α} {i : Nat} {x : α} (h : l[i]? = some x) : i < l.length := by
  rcases Nat.lt_or_ge i l.length with h' | h'
  · exact h'
  · rw [List.getElem?_eq_none h'] at h; cases h

/-- a cell that is followed by a separator -/
theorem cell_sep {src : Bytes} {offs : List Nat} {maxrow ncols : Nat} (c : Cell) (hwf : c.WF) (A B : Bytes) (s : KS)
    (j : Nat) (hdr : Bool) (k np : Nat) (E : Nat → List Bytes)
    (hcs : CellStart src offs maxrow ncols s A j hdr k np E)
    (hsrc : src = A ++ (body c ++ SEP :: B)) (hj : j + 1 < ncols)
    (hcap : hdr = false → offAt offs j + (E j).flatten.length + c.value.length < offAt offs (j + 1)) :
    ∃ n s', KSteps src offs maxrow n s s' ∧
      CellStart src offs maxrow ncols s' (A ++ (body c ++ SEP :: B.takeWhile (fun b => b == WS))) (j + 1) hdr k np
        (stage hdr E j c.value) := by
  have hd0 : s.done = false := by
    rw [hcs.done, hcs.index, hsrc]; simp
  obtain ⟨n, s1, hsteps, hi1, he1, hc1, hctx1, hd1, heff⟩ :=
    cell_content (offs := offs) (maxrow := maxrow) c hwf A B SEP s hsrc (Or.inl rfl) hcs.index hcs.ics hd0
      hcs.indsFull hcs.valsFull hcs.esc hcs.cand (cell_room hcs _ hcap)
  obtain ⟨hnp1, hcol1, hh1, hrow1, hvfc1, hcst1, hics1, hif1, hvf1, hco1, hcc1, hinds1⟩ := ctx_eq hctx1
  have hsh := hcs.shape
  have hsrc' : src = (A ++ body c) ++ (SEP :: B) := by simp [hsrc]
  have hi1' : s1.index = (A ++ body c).length := by simp [hi1]
  have hcb : src[s1.index]? = some SEP := by rw [hsrc', hi1', getElem?_append_len0]; simp
  have hskip : skipAfter src s1.index = A.length + (body c).length + leadWs B := by
    rw [hi1, hsrc]; exact skipAfter_at A (body c) SEP B
  have ho := offs_get hsh.offsLen (c := j + 1) (by omega)
  have ho1 := offs_get hsh.offsLen (c := j + 1 + 1) (by omega)
  obtain ⟨⟨rj, hrj, _⟩, _⟩ := hcs.cols j hcs.jlt
  obtain ⟨⟨rn, hrn, hrnk⟩, _⟩ := hcs.cols (j + 1) hj
  have hrnlen := hsh.rowLen _ _ hrn
  have hrjlen := hsh.rowLen _ _ hrj
  have hidx : (A ++ (body c ++ SEP :: B.takeWhile (fun b => b == WS))).length = skipAfter src s1.index + 1 := by
    rw [hskip]; simp [leadWs]; omega
  cases hdr with
  | true =>
    have hh1' : s1.hdr = true := by rw [hh1, hcs.hdr_]
    rw [hcs.hdr_] at heff
    simp only [if_true] at heff
    obtain ⟨x, hx⟩ : ∃ x, rn[maxrow]? = some x := ⟨rn[maxrow]'(by omega), List.getElem?_eq_getElem (by omega)⟩
    obtain ⟨s2, hstep, hi2, hics2, he2, hc2, hd2, hnp2, hcol2, hh2, hrow2, hcst2, hcnt2, hif2, hco2, hcc2, hinds2, hctx2⟩ :=
      step_sep (offs := offs) (maxrow := maxrow) (inds' := s1.inds) (o := offAt offs (j + 1)) (o1 := offAt offs (j + 1 + 1))
        (cs := x) hcb (by rw [he1, hc1]; exact lex_sep _ _ _) (by rw [hif1, hcs.indsFull]) (by rw [hvf1, hcs.valsFull])
        (by simp [hh1']) (by rw [hcol1, hcs.col]; exact ho) (by rw [hcol1, hcs.col]; exact ho1)
        (by rw [hcol1, hcs.col, hh1', hinds1]; exact get2_eq _ hrn hx)
    have hctx2' : s2.vfc = s1.vfc ∧ s2.valsFull = s1.valsFull ∧ s2.vals = s1.vals := by
      simpa [KS.ctx2, Prod.ext_iff] using hctx2
    refine ⟨n + 1, s2, StepsN.trans hsteps (StepsN.one (g := kguard) (by simp [kguard, hd1]) hstep), ?_⟩
    have hE : stage true E j c.value = E := rfl
    rw [hE]
    exact {
      index := by rw [hi2, hidx]
      ics := by rw [hics2, hidx]
      col := by rw [hcol2, hcol1, hcs.col]
      hdr_ := by rw [hh2, hh1']
      row := by rw [hrow2, hrow1, hcs.row]
      np := by rw [hnp2, hnp1, hcs.np]
      esc := he2
      cand := hc2
      count := hcnt2
      vfc := by rw [hctx2'.1, hvfc1, hcs.vfc]
      indsFull := hif2
      valsFull := by rw [hctx2'.2.1, hvf1, hcs.valsFull]
      done := by rw [hd2, hi2]
      colOff := hco2
      colCnt := hcc2
      cstart := by intro h; cases h
      shape := by rw [hinds2, hctx2'.2.2, heff.2, hinds1]; exact hsh
      cols := by rw [hinds2, hctx2'.2.2, heff.2, hinds1]; exact hcs.cols
      caps := hcs.caps
      jlt := hj
      lens := by intro h; cases h
      hdrE := hcs.hdrE
      krow := by intro h; cases h
      maxrow_pos := hcs.maxrow_pos }
  | false =>
    have hh1' : s1.hdr = false := by rw [hh1, hcs.hdr_]
    rw [hcs.hdr_] at heff
    simp only [Bool.false_eq_true, if_false] at heff
    obtain ⟨hcnt1, hw⟩ := heff
    have hkrow := hcs.krow rfl
    obtain ⟨hlens1, hlens2⟩ := hcs.lens rfl
    have hEj : (E j).length = k := hlens2 j (Nat.le_refl _) hcs.jlt
    have hEn : (E (j + 1)).length = k := hlens2 (j + 1) (by omega) hj
    have hx : rn[k]? = some (E (j + 1)).flatten.length := by
      have := hrnk k (by omega)
      rw [this, ← hEn, endOf_all]
    have hp : s.colOff + s.cstart + s.count = offAt offs j + (E j).flatten.length := by
      rw [hcs.colOff, hcs.cstart rfl, hcs.count]; omega
    rw [hp] at hw
    have hval : s1.cstart + s1.count = (E j).flatten.length + c.value.length := by
      rw [hcst1, hcs.cstart rfl, hcnt1, hcs.count]; omega
    have hne : j ≠ j + 1 := by omega
    obtain ⟨s2, hstep, hi2, hics2, he2, hc2, hd2, hnp2, hcol2, hh2, hrow2, hcst2, hcnt2, hif2, hco2, hcc2, hinds2, hctx2⟩ :=
      step_sep (offs := offs) (maxrow := maxrow)
        (inds' := s.inds.set j (rj.set (k + 1) ((E j).flatten.length + c.value.length)))
        (o := offAt offs (j + 1)) (o1 := offAt offs (j + 1 + 1)) (cs := (E (j + 1)).flatten.length)
        hcb (by rw [he1, hc1]; exact lex_sep _ _ _) (by rw [hif1, hcs.indsFull]) (by rw [hvf1, hcs.valsFull])
        (by
          rw [hh1', hinds1, hcol1, hcs.col, hrow1, hcs.row, hval]
          simp only [Bool.false_eq_true, if_false]
          exact set2_eq _ _ hrj (by omega))
        (by rw [hcol1, hcs.col]; exact ho) (by rw [hcol1, hcs.col]; exact ho1)
        (by
          rw [hcol1, hcs.col, hh1', hrow1, hcs.row]
          simp only [Bool.false_eq_true, if_false]
          exact get2_eq _ (by rw [List.getElem?_set_ne hne]; exact hrn) hx)
    have hctx2' : s2.vfc = s1.vfc ∧ s2.valsFull = s1.valsFull ∧ s2.vals = s1.vals := by
      simpa [KS.ctx2, Prod.ext_iff] using hctx2
    refine ⟨n + 1, s2, StepsN.trans hsteps (StepsN.one (g := kguard) (by simp [kguard, hd1]) hstep), ?_⟩
    have hE : stage false E j c.value = upd E j c.value := rfl
    rw [hE]
    have hcapj := hcap rfl
    exact {
      index := by rw [hi2, hidx]
      ics := by rw [hics2, hidx]
      col := by rw [hcol2, hcol1, hcs.col]
      hdr_ := by rw [hh2, hh1']
      row := by rw [hrow2, hrow1, hcs.row]
      np := by rw [hnp2, hnp1, hcs.np]
      esc := he2
      cand := hc2
      count := hcnt2
      vfc := by rw [hctx2'.1, hvfc1, hcs.vfc]
      indsFull := hif2
      valsFull := by rw [hctx2'.2.1, hvf1, hcs.valsFull]
      done := by rw [hd2, hi2]
      colOff := hco2
      colCnt := hcc2
      cstart := by intro _; rw [hcst2]; simp [upd]
      shape := by rw [hinds2, hctx2'.2.2]; exact shape_set hsh hrj hw.len
      cols := by
        intro c' hc'
        rw [hinds2, hctx2'.2.2]
        by_cases hcj : c' = j
        · subst hcj
          have := (hcs.cols c' hc').snoc hrj (by rw [hEj]; omega) hw
          rw [hEj] at this
          simpa [upd] using this
        · have h0 := hcs.cols c' hc'
          have hdis : offAt offs c' + (E c').flatten.length ≤ offAt offs j + (E j).flatten.length ∨
              offAt offs j + (E j).flatten.length + c.value.length ≤ offAt offs c' := by
            rcases Nat.lt_or_ge c' j with hlt | hge
            · left
              have := hcs.caps c' hc'
              have := hsh.mono_le j (c' + 1) (by omega) (by omega)
              omega
            · right
              have := hsh.mono_le c' (j + 1) (by omega) (by omega)
              omega
          have := (h0.of_wrote hw hdis).of_set_other (rj.set (k + 1) ((E j).flatten.length + c.value.length))
            (Ne.symm hcj)
          simpa [upd, hcj] using this
      caps := by
        intro c' hc'
        by_cases hcj : c' = j
        · rw [hcj, upd_flat_self]; omega
        · rw [upd_ne _ _ hcj]; exact hcs.caps c' hc'
      jlt := hj
      lens := by
        intro _
        refine ⟨?_, ?_⟩
        · intro c' hc'
          by_cases hcj : c' = j
          · subst hcj; simp [upd, hEj]
          · simp [upd, hcj]; exact hlens1 c' (by omega)
        · intro c' h1 h2
          have : c' ≠ j := by omega
          simp [upd, this]; exact hlens2 c' (by omega) h2
      hdrE := by intro h; cases h
      krow := fun _ => hkrow
      maxrow_pos := hcs.maxrow_pos }

end Exetera.Csv
