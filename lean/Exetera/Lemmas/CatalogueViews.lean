import Exetera.Lemmas.CatalogueStep
/-! What the client observes: the two views of the catalogue agree; rename refines the abstract renaming; handles. -/
namespace Exetera.Catalogue

theorem look_congr {t u : Table} (ht : (keys t).Nodup) (hu : (keys u).Nodup) (h : ∀ e, e ∈ t ↔ e ∈ u) (k : Key) :
    look t k = look u k := by
  cases hl : look t k with
  | none =>
    symm
    rw [look_eq_none] at hl ⊢
    intro hm
    obtain ⟨v, hv⟩ := mem_keys.1 hm
    exact hl (mem_keys_of_mem ((h _).2 hv))
  | some v =>
    symm
    rw [look_eq_some ht] at hl
    rw [look_eq_some hu]
    exact (h _).1 hl

/-- the catalogue the Python objects report is the catalogue stored in the file -/
theorem views_agree {s : State} (hI : Inv s) : absPy s = absH5 s := by
  funext d fn
  unfold absPy absH5
  rw [look_congr hI.dfsNodup hI.fileNodup hI.sameFrames]
  cases look s.file (d, fn) with
  | none => rfl
  | some g =>
    simp only [Option.map_some]
    congr 1
    funext n
    cases hc : look s.cols (g, n) with
    | none =>
      have : look s.links (g, n) = none := by
        rw [look_eq_none] at hc ⊢
        exact fun hm => hc ((hI.sameKeys _).2 hm)
      rw [this]; rfl
    | some h =>
      obtain ⟨hd, h1, _, _, _, _, h6⟩ := hI.sameObj _ _ (look_mem hc)
      rw [(look_eq_some hI.linksNodup).2 h6]
      simp [h1]

theorem look_renamed_links {s : State} (hI : InvCore s) {g : Nat} {dict : List (Name × Name)}
    (hok : RenameOk dict ((ownedBy s.cols g).map (·.1))) {k : Key} {o : Nat} (hk : (k, o) ∈ s.links) :
    look (renamedState s g dict).links (renKey g dict k) = some o := by
  rw [look_eq_some (renamedState_core hI g dict hok).linksNodup]
  exact mem_renamed_links.2 ⟨(k, o), hk, rfl⟩

/-- `rename` refines the abstract renaming of the frame, and leaves every other frame alone -/
theorem renamedState_refines {s : State} (hI : InvCore s) (g : Nat) (dict : List (Name × Name))
    (hok : RenameOk dict ((ownedBy s.cols g).map (·.1))) :
    Renamed dict (frameH5 s g) (frameH5 (renamedState s g dict) g) ∧
    ∀ g', g' ≠ g → frameH5 (renamedState s g dict) g' = frameH5 s g' := by
  have hobjs : (renamedState s g dict).objs = s.objs := rfl
  refine ⟨⟨?_, ?_⟩, ?_⟩
  · intro n c hc
    unfold frameH5 at hc ⊢
    cases hl : look s.links (g, n) with
    | none => rw [hl] at hc; simp at hc
    | some o =>
      rw [hl] at hc
      have := look_renamed_links hI hok (look_mem hl)
      simp only [renKey, if_true] at this
      rw [this, hobjs]; exact hc
  · intro n' c hc
    unfold frameH5 at hc ⊢
    cases hl : look (renamedState s g dict).links (g, n') with
    | none => rw [hl] at hc; simp at hc
    | some o =>
      rw [hl] at hc
      obtain ⟨e, he, heq⟩ := mem_renamed_links.1 (look_mem hl)
      obtain ⟨h1, h2⟩ := Prod.mk.inj heq
      have hf : e.1.1 = g := by
        have := congrArg Prod.fst h1; rw [renKey_frame] at this; exact this.symm
      refine ⟨e.1.2, ?_, ?_⟩
      · have : look s.links (g, e.1.2) = some o := by
          rw [look_eq_some hI.linksNodup, ← hf, h2]; exact he
        rw [this]; exact hc
      · have := congrArg Prod.snd h1
        simp only [renKey, hf, if_true] at this
        exact this.symm
  · intro g' hg'
    funext n
    unfold frameH5
    have : look (renamedState s g dict).links (g', n) = look s.links (g', n) := by
      cases hl : look s.links (g', n) with
      | none =>
        rw [look_eq_none] at hl ⊢
        intro hm
        obtain ⟨v, hv⟩ := mem_keys.1 hm
        obtain ⟨e, he, heq⟩ := mem_renamed_links.1 hv
        obtain ⟨h1, _⟩ := Prod.mk.inj heq
        have hf : e.1.1 = g' := by
          have := congrArg Prod.fst h1; rw [renKey_frame] at this; exact this.symm
        have : renKey g dict e.1 = e.1 := by simp [renKey, hf, hg']
        rw [this] at h1
        exact hl (h1 ▸ mem_keys_of_mem he)
      | some o =>
        have := look_renamed_links hI hok (look_mem hl)
        simpa [renKey, hg'] using this
    rw [this, hobjs]

/-- field objects held across a rename stay valid and report the new name -/
theorem handle_follows_rename {s : State} (hI : InvCore s) (g : Nat) (dict : List (Name × Name))
    (hok : RenameOk dict ((ownedBy s.cols g).map (·.1))) {h : Nat} {n : Name} (hc : ((g, n), h) ∈ s.cols) :
    viewHandle s h = .named n ∧ viewHandle (renamedState s g dict) h = .named (renOf dict n) := by
  obtain ⟨hd, h1, h2, h3, _, _, h6⟩ := hI.sameObj _ _ hc
  have hI' := renamedState_core hI g dict hok
  have hh' : (renamedState s g dict).handles[h]? = some hd := h1
  constructor
  · unfold viewHandle
    simp only [h1, h3, h2, Bool.false_eq_true, if_false, Bool.not_true]
    rw [(nameOfVal_eq_some hI.oidInj).2 ⟨g, h6⟩]
  · unfold viewHandle
    simp only [hh', h3, h2, Bool.false_eq_true, if_false, Bool.not_true]
    have : ((g, renOf dict n), hd.oid) ∈ (renamedState s g dict).links :=
      mem_renamed_links.2 ⟨((g, n), hd.oid), h6, by simp [renKey]⟩
    rw [(nameOfVal_eq_some hI'.oidInj).2 ⟨g, this⟩]

theorem dropField_handles (s : State) (g : Nat) (n : Name) : (dropField s g n).state.handles = s.handles := by
  unfold dropField; split
  · rfl
  simp only
  split <;> rfl

/-- a field object moved to another frame reports itself invalid afterwards -/
theorem moveField_cross_invalid {s s' : State} {h g : Nat} {n : Name} {hd : Handle}
    (hv : ensureValid s h = .ok hd) (hne : hd.owner ≠ some g) (hok : moveField .repaired s h g n = .ok () s') :
    viewHandle s' h = .invalid := by
  obtain ⟨hh, hc, _⟩ := ensureValid_ok hv
  unfold moveField at hok
  simp only [hv, hne, if_false] at hok
  cases hcp : copyField .repaired s h g n with
  | err e s1 => rw [hcp] at hok; simp [Res.andThen] at hok
  | ok a s1 =>
    rw [hcp] at hok
    simp only [Res.andThen] at hok
    have hh1 : s1.handles[h]? = some hd := by
      unfold copyField at hcp
      split at hcp
      · cases hcp
      · exact (addField_ok_shape hcp).2.2.2.2.1 h hd hh
    split at hok
    · cases hok
    · next og _ =>
      split at hok
      · cases hok
      · next k _ =>
        have hdh := dropField_handles s1 og k
        cases hdr : dropField s1 og k with
        | err e s2 => rw [hdr] at hok; cases hok
        | ok u s2 =>
          rw [hdr] at hok hdh
          simp only [Res.ok.injEq, true_and] at hok
          subst hok
          simp only [Res.state] at hdh
          unfold viewHandle
          simp only [invalidate, List.getElem?_modify, hdh, hh1, Option.map_eq_map, Option.map_some, if_true, hc,
            Bool.false_eq_true, if_false, Bool.not_false]

end Exetera.Catalogue
