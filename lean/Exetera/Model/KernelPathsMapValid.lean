/-!
  C10 — path conditions of the array subscripts of the map-valid kernels that `Model/MapValid.lean` models (owning property C04), frozen from the source the model
  was written against. `Props/C10/MapValid.lean` (`access_paths_covered_map_valid`) proves that the table regenerated from the CURRENT
  source (`Gen/KernelPaths.lean`) is this one: a test that dominates a subscript cannot be dropped, weakened or moved in the
  source without breaking the build.

  Each entry is (site, path condition): the tests passed on the way to that occurrence of the subscript, outermost first —
  `for …` / `while …` = an enclosing loop guard (the same strings as in `KernelSitesMapValid`), a bare test = the `if` / `elif`
  branch taken or an `and` operand to the left of the subscript, `not (…)` = an `else` branch, the code after an early exit
  `if …: break | continue | return | raise`, or an `or` operand to the left. A condition is the text of a test that held
  when it was passed (a syntactic path, not an invariant). A site reached on several paths has one entry per path.
  Regenerate with `python3 tools/translate_kernels.py --paths /repo <kernel> …`.

  Which conjunct of the path condition the model's checked accessor relies on (accessor names as in `KernelSitesMapValid`):
  * `ordered_map_valid_indexed_partial`: `result_values[rv]` and `values[v]` = the capacity test of `ipBody` followed by
    `readRange`: rely on the early exit `if rv + v_end - v_start > len(result_values): break` — the entry
    `not (rv + v_end - v_start > len(result_values))` — mirrored conjunct for conjunct (`indexed_partial_buffers_bounded`);
    `indices[i]`, `indices[i + 1]` = `getI`: rely on the early exit `if i >= i_max: break` (entry `not (i >= i_max)`,
    mirrored in `ipBody`: the stream asks for the next window of `indices` instead of reading past it); `result_indices[ri]` = the capacity
    check `s.ri.length < p.capI`: NO test of the kernel bounds `ri` (the commented-out `ri < len(result_indices)`), it is in
    range because the caller sizes `result_indices` by the sub-chunk length — proved in C04, visible here as the absence of
    a conjunct; `sm_values[sm]` relies on `while sm < sm_end`.
  * `ordered_map_valid_partial`: `map_values[sm]`, `result_data[sm]` rely on `while sm < sm_end`; `values[map_values[sm] -
    d_start]` = `getI` is reached only on `not (map_values[sm] == invalid)`, nothing bounds the computed index (in range by
    the window the stream reads: C04).
  * `next_map_subchunk`: every `map_[sm]` is behind `sm < len(map_)` — as the left operand of the two `while` guards or as
    the `if sm < len(map_)` test before `start = map_[sm]`; the model fuses guard and read (`scanWhile` / `scanAsc`,
    `m[sm]?` with `none ↦ skip`), so these conjuncts are what makes the model's total read faithful.
  * `get_valid_value_extents`: `chunk[i]` under `for i in range(start, end)`, `chunk[j]` under `while j >= i`
    (`firstValidFrom` / `lastValidDown`); the `!= invalid` tests only end the scans.
  * `safe_map_values`, `map_valid`, `safe_map_indexed_values`: `map_field[i]`, `map_filter[i]`, `result[i]` /
    `i_result[i + 1]` rely on `for i in range(len(map_field))` (and on the arrays having that length: the owners'
    hypotheses); `data_field[map_field[i]]`, `data_indices[map_field[i]]`, `data_indices[map_field[i] + 1]` = `getI` are
    reached only on `map_filter[i]` / `map_field[i] != invalid` — the filter is the ONLY protection of the computed
    subscript, the model has the same branch. `i_result[i + 1]` = the capacity check `capI ≤ i + 1` of `smivStep`: relies on
    `for i in range(len(map_field))` and on the kernel's own allocation `len(map_field) + 1`; `v_result[dst:dse] = …` = the
    check `capV < offset + delta`: NO test bounds `dse` — it is in range because the first pass adds up exactly the deltas
    the second pass writes (`safeMapIndexedValues_spec`); `i_result[0]` is on the empty path (at least one slot).
-/
namespace Exetera.KernelPaths

/-- the map-valid kernels (C04): path condition of every subscript occurrence -/
def mapValidPaths : List (String × List (String × List String)) := [
  ("get_valid_value_extents", [
    ("R chunk[i]", ["for i in range(start, end)"]),
    ("R chunk[i]", ["for i in range(start, end)", "chunk[i] != invalid"]),
    ("R chunk[j]", ["while j >= i"]),
    ("R chunk[j]", ["while j >= i", "chunk[j] != invalid"])]),
  ("safe_map_indexed_values", [
    ("R data_indices[map_field[i] + 1]", ["for i in range(len(map_field))", "map_filter[i]"]),
    ("R data_indices[map_field[i]]", ["for i in range(len(map_field))", "map_filter[i]"]),
    ("R data_values[sst:sse]", ["for i in range(len(map_field))", "map_filter[i]"]),
    ("R map_field[i]", ["for i in range(len(map_field))", "map_filter[i]"]),
    ("R map_filter[i]", ["for i in range(len(map_field))"]),
    ("W i_result[0]", []),
    ("W i_result[i + 1]", ["for i in range(len(map_field))", "map_filter[i]"]),
    ("W i_result[i + 1]", ["for i in range(len(map_field))", "not (map_filter[i])"]),
    ("W v_result[dst:dse]", ["for i in range(len(map_field))", "map_filter[i]"]),
    ("W v_result[dst:dse]", ["for i in range(len(map_field))", "not (map_filter[i])", "empty_value is not None"])]),
  ("safe_map_values", [
    ("R data_field[map_field[i]]", ["for i in range(len(map_field))", "map_filter[i]"]),
    ("R map_field[i]", ["for i in range(len(map_field))", "map_filter[i]"]),
    ("R map_filter[i]", ["for i in range(len(map_field))"]),
    ("W result[i]", ["for i in range(len(map_field))", "map_filter[i]"]),
    ("W result[i]", ["for i in range(len(map_field))", "not (map_filter[i])", "empty_value is not None"])]),
  ("map_valid", [
    ("R data_field[map_field[i]]", ["for i in range(len(map_field))", "map_field[i] != invalid"]),
    ("R map_field[i]", ["for i in range(len(map_field))"]),
    ("R map_field[i]", ["for i in range(len(map_field))", "map_field[i] != invalid"]),
    ("W result[i]", ["for i in range(len(map_field))", "map_field[i] != invalid"])]),
  ("next_map_subchunk", [
    ("R map_[sm]", ["sm < len(map_)"]),
    ("R map_[sm]", ["while sm < len(map_) and map_[sm] - start < chunksize"]),
    ("R map_[sm]", ["while sm < len(map_) and map_[sm] - start < chunksize", "map_[sm] != invalid"]),
    ("R map_[sm]", ["while sm < len(map_) and map_[sm] - start < chunksize", "map_[sm] != invalid", "not (map_[sm] < prev)"])]),
  ("ordered_map_valid_partial", [
    ("R map_values[sm]", ["while sm < sm_end"]),
    ("R map_values[sm]", ["while sm < sm_end", "not (map_values[sm] == invalid)"]),
    ("R values[map_values[sm] - d_start]", ["while sm < sm_end", "not (map_values[sm] == invalid)"]),
    ("W result_data[sm]", ["while sm < sm_end", "map_values[sm] == invalid"]),
    ("W result_data[sm]", ["while sm < sm_end", "not (map_values[sm] == invalid)"])]),
  ("ordered_map_valid_indexed_partial", [
    ("R indices[i + 1]", ["while sm < sm_end", "not (sm_values[sm] == invalid)", "not (i >= i_max)"]),
    ("R indices[i]", ["while sm < sm_end", "not (sm_values[sm] == invalid)", "not (i >= i_max)"]),
    ("R indices[i_start]", []),
    ("R sm_values[sm]", ["while sm < sm_end"]),
    ("R sm_values[sm]", ["while sm < sm_end", "not (sm_values[sm] == invalid)"]),
    ("R values[v]", ["while sm < sm_end", "not (sm_values[sm] == invalid)", "not (i >= i_max)", "not (rv + v_end - v_start > len(result_values))", "for v in range(v_start, v_end)"]),
    ("W result_indices[ri]", ["while sm < sm_end", "not (sm_values[sm] == invalid)", "not (i >= i_max)", "not (rv + v_end - v_start > len(result_values))"]),
    ("W result_indices[ri]", ["while sm < sm_end", "sm_values[sm] == invalid"]),
    ("W result_values[rv]", ["while sm < sm_end", "not (sm_values[sm] == invalid)", "not (i >= i_max)", "not (rv + v_end - v_start > len(result_values))", "for v in range(v_start, v_end)"])])
]

end Exetera.KernelPaths
