import Exetera.Model.ChunkedCopy
import Exetera.Lemmas.WhileFuel
/-! `element_chunked_copy`: the loop invariant, the exact number of iterations, and the `chunksize = 0` fixpoint. -/
namespace Exetera.ChunkedCopy
open Exetera

theorem nextChunk_eq' (cur len d : Nat) : Join.nextChunk cur len d = (cur, min (cur + d) len) := by
  unfold Join.nextChunk
  split
  · congr 1; omega
  · congr 1; omega

/-- what holds at the head of every iteration -/
structure Inv {α} (src dest0 : List α) (cs : Nat) (s : St α) : Prop where
  le : s.i ≤ src.length
  chunk : s.chunk = (s.i, min (s.i + cs) src.length)
  dest : s.dest = dest0 ++ src.take s.i
  wlo : s.i ≤ s.writes * cs
  whi : s.writes * cs < s.i + cs
  weq : s.i < src.length → s.i = s.writes * cs

theorem inv_init {α} (src dest0 : List α) (cs : Nat) (hcs : 0 < cs) : Inv src dest0 cs (init src dest0 cs) := by
  refine ⟨Nat.zero_le _, ?_, by simp [init], by simp [init], by simp [init]; exact hcs, by intro _; simp [init]⟩
  simp [init, nextChunk_eq']

theorem take_append_slice' {α} (xs : List α) (a b : Nat) (hab : a ≤ b) : xs.take a ++ slice xs a b = xs.take b := by
  unfold slice
  have : b = a + (b - a) := by omega
  rw [this, List.take_add]
  simp

/-- one iteration: the invariant is kept, `i` strictly advances (by `min cs (n - i)`), one chunk is written -/
theorem body_inv {α} (src dest0 : List α) (cs : Nat) (hcs : 0 < cs) (s : St α) (hI : Inv src dest0 cs s)
    (hg : s.i < src.length) :
    ∃ s', body src cs s = .ok s' ∧ Inv src dest0 cs s' ∧ s'.i = min (s.i + cs) src.length ∧ s.i < s'.i ∧
      s'.writes = s.writes + 1 ∧ s'.dest = s.dest ++ slice src s.i s'.i := by
  obtain ⟨i, ch, dest, w⟩ := s
  obtain ⟨hle, hch, hdest, hwlo, hwhi, hweq⟩ := hI
  simp only [] at hle hch hdest hwlo hwhi hweq hg
  subst hch
  have hw := hweq hg
  have hmul : (w + 1) * cs = w * cs + cs := Nat.succ_mul _ _
  have hi' : i + (min (i + cs) src.length - i) = min (i + cs) src.length := by omega
  refine ⟨⟨min (i + cs) src.length, (min (i + cs) src.length, min (min (i + cs) src.length + cs) src.length),
      dest ++ slice src i (min (i + cs) src.length), w + 1⟩, ?_, ?_, rfl, ?_, rfl, rfl⟩
  · simp only [body, hi', nextChunk_eq']
  · refine ⟨?_, rfl, ?_, ?_, ?_, ?_⟩
    · show min (i + cs) src.length ≤ src.length
      omega
    · show dest ++ slice src i (min (i + cs) src.length) = dest0 ++ src.take (min (i + cs) src.length)
      rw [hdest, List.append_assoc, take_append_slice' src i _ (by omega)]
    · show min (i + cs) src.length ≤ (w + 1) * cs
      rw [hmul]; omega
    · show (w + 1) * cs < min (i + cs) src.length + cs
      rw [hmul]; omega
    · show min (i + cs) src.length < src.length → min (i + cs) src.length = (w + 1) * cs
      rw [hmul]; omega
  · show i < min (i + cs) src.length
    omega

/-- the loop from any invariant state: `fuel` iterations suffice as soon as `fuel * cs` covers what is left -/
theorem loop_spec {α} (src dest0 : List α) (cs : Nat) (hcs : 0 < cs) :
    ∀ (fuel : Nat) (s : St α), Inv src dest0 cs s → src.length - s.i ≤ fuel * cs →
      ∃ s', whileE (guard src) (body src cs) fuel s = .ok s' ∧ Inv src dest0 cs s' ∧ s'.i = src.length := by
  intro fuel
  induction fuel with
  | zero =>
    intro s hI hf
    have : s.i = src.length := by have := hI.le; omega
    exact ⟨s, by simp [whileE, guard, this], hI, this⟩
  | succ f ih =>
    intro s hI hf
    by_cases hg : s.i < src.length
    · obtain ⟨s1, hb, hI1, hi1, _, _, _⟩ := body_inv src dest0 cs hcs s hI hg
      have hmul : (f + 1) * cs = f * cs + cs := Nat.succ_mul _ _
      obtain ⟨s', hw, hI', hfin⟩ := ih s1 hI1 (by rw [hi1]; omega)
      exact ⟨s', by simp [whileE, guard, hg, hb, hw], hI', hfin⟩
    · have : s.i = src.length := by have := hI.le; omega
      exact ⟨s, by simp [whileE, guard, this], hI, this⟩

/-- `chunksize = 0` on a non-empty source: the initial state is a fixpoint of the loop body with the guard true -/
theorem zero_chunk_fixpoint {α} (src : List α) (hne : src ≠ []) (s : St α) (hi : s.i = 0) (hc : s.chunk = (0, 0)) :
    ∀ fuel, whileE (guard src) (body src 0) fuel s = .error .outOfFuel := by
  have hpos : 0 < src.length := List.length_pos_iff.mpr hne
  intro fuel
  induction fuel generalizing s with
  | zero => simp [whileE, guard, hi, hpos]
  | succ f ih =>
    have hb : body src 0 s = .ok ⟨0, (0, 0), s.dest ++ slice src 0 0, s.writes + 1⟩ := by
      simp [body, hi, hc, nextChunk_eq']
    simp only [whileE, guard, hi, hpos, decide_true, if_true, hb]
    exact ih _ rfl rfl

end Exetera.ChunkedCopy
