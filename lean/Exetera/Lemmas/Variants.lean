import Exetera.Lemmas.IndexedWriter
/-!
  The as-found code and the repaired code agree wherever the witnesses of D1 / D2 are not involved:

  * `MemoryFieldArray.write_part` as found equals the repaired one on every non-empty part;
  * the indexed-string writer never hands an empty part to its backing arrays, so `write_part` of the as-found code
    equals the repaired one on every state, and `complete()` differs only when nothing was ever written.
-/
namespace Exetera.Storage

open Exetera

theorem memWritePart_asFound_of_ne_nil {α} (z : α) (ds : Option (List α)) (part : List α) (h : part ≠ []) :
    memWritePart .asFound z ds part = memWritePart .repaired z ds part := by
  cases ds with
  | none => rfl
  | some old =>
    have h1 : (slice (List.replicate (old.length + part.length) z) 0 old.length).length = old.length := by
      simp [slice]
    have e1 := sliceAssign_of_length (List.replicate (old.length + part.length) z) 0 old.length old h1
    have hlen : part.length ≠ 0 := by simpa using h
    have hb : (part.length == 0) = false := by simp [hlen]
    simp only [memWritePart, e1, hb, Bool.false_eq_true, if_false]
    have : (List.take 0 (List.replicate (old.length + part.length) z) ++ old ++
        List.drop (0 + old.length) (List.replicate (old.length + part.length) z)).length - part.length = old.length := by
      simp
    rw [this]

theorem Arr.writePart_asFound_of_ne_nil {α} (z : α) (a : Arr α) (part : List α) (h : part ≠ []) :
    a.writePart .asFound z part = a.writePart .repaired z part := by
  cases a with
  | mem ds => simp [Arr.writePart, memWritePart_asFound_of_ne_nil z ds part h]
  | h5 ds => rfl

theorem foldE_congr {σ α} (f g : σ → α → Except Err σ) (h : ∀ s x, f s x = g s x) (s : σ) (xs : List α) :
    foldE f s xs = foldE g s xs := by
  induction xs generalizing s with
  | nil => rfl
  | cons x xs ih => simp only [foldE, h s x]; cases g s x <;> simp [ih]

theorem writeParts_asFound_of_nonempty {α} (z : α) (a : Arr α) (parts : List (List α)) (h : ∀ p ∈ parts, p ≠ []) :
    writeParts .asFound z a parts = writeParts .repaired z a parts := by
  unfold writeParts
  induction parts generalizing a with
  | nil => rfl
  | cons p ps ih =>
    have hp : p ≠ [] := h p (by simp)
    simp only [foldE, Arr.writePart_asFound_of_ne_nil z a p hp]
    cases Arr.writePart .repaired z a p with
    | error e => rfl
    | ok a' => exact ih a' (fun q hq => h q (by simp [hq]))

end Exetera.Storage

namespace Exetera.IndexedWriter

open Exetera Exetera.Storage Exetera.Spec

theorem putByte_asFound (s : WState) (b : Byte) : putByte .asFound s b = putByte .repaired s b := by
  unfold putByte
  by_cases hlt : s.valueIndex < s.rawValues.length
  · simp only [setE_ok _ _ _ _ hlt]
    have hne : List.take (s.valueIndex + 1) (s.rawValues.set s.valueIndex b) ≠ [] := by
      rw [take_succ_set _ _ _ hlt]; simp
    rw [Arr.writePart_asFound_of_ne_nil _ _ _ hne]
  · simp [setE, hlt]

theorem sentinel_asFound (ix : Arr Nat) : sentinel .asFound ix = sentinel .repaired ix := by
  unfold sentinel
  split
  · exact Arr.writePart_asFound_of_ne_nil _ _ _ (by simp)
  · rfl

theorem endEntry_asFound (s : WState) : endEntry .asFound s = endEntry .repaired s := by
  unfold endEntry
  by_cases hlt : s.indexIndex < s.rawIndices.length
  · simp only [setE_ok _ _ _ _ hlt, sentinel_asFound]
    have hne : List.take (s.indexIndex + 1) (s.rawIndices.set s.indexIndex s.accumulated) ≠ [] := by
      rw [take_succ_set _ _ _ hlt]; simp
    split
    · cases sentinel .repaired s.indices with
      | error e => rfl
      | ok ix0 => simp only [Arr.writePart_asFound_of_ne_nil _ _ _ hne]
    · rfl
  · simp [setE, hlt]

theorem putEntry_asFound (s : WState) (e : Bytes) : putEntry .asFound s e = putEntry .repaired s e := by
  unfold putEntry
  rw [foldE_congr _ _ putByte_asFound]
  cases foldE (putByte .repaired) s e with
  | error _ => rfl
  | ok s1 => exact endEntry_asFound s1

/-- `write_part` of the as-found code is the repaired one, on every state and every part -/
theorem writePart_asFound (s : WState) (part : List Bytes) : writePart .asFound s part = writePart .repaired s part :=
  foldE_congr _ _ putEntry_asFound s part

theorem flushValues_asFound {s : WState} {c : Nat} {es : List Bytes} (h : Inv s c es []) :
    flushValues .asFound s = flushValues .repaired s := by
  unfold flushValues
  split
  · rename_i hne
    have hvi : s.valueIndex ≠ 0 := by simpa using hne
    have : List.take s.valueIndex s.rawValues ≠ [] := by
      have hl := h.rvLen
      have := h.vi
      intro hnil
      have : (List.take s.valueIndex s.rawValues).length = 0 := by rw [hnil]; rfl
      rw [List.length_take] at this
      omega
    rw [Arr.writePart_asFound_of_ne_nil _ _ _ this]
  · rfl

theorem flushIndices_asFound {s : WState} {c : Nat} {es : List Bytes} (h : Inv s c es []) (hne : es ≠ []) :
    flushIndices .asFound s = flushIndices .repaired s := by
  unfold flushIndices
  split
  · rename_i hii
    have hi0 : s.indexIndex ≠ 0 := by simpa using hii
    have : List.take s.indexIndex s.rawIndices ≠ [] := by
      have hl := h.riLen
      have := h.ii
      intro hnil
      have : (List.take s.indexIndex s.rawIndices).length = 0 := by rw [hnil]; rfl
      rw [List.length_take] at this
      omega
    rw [sentinel_asFound]
    cases sentinel .repaired s.indices with
    | error e => rfl
    | ok ix0 => simp only [Arr.writePart_asFound_of_ne_nil _ _ _ this]
  · rename_i hii
    have hi0 : s.indexIndex = 0 := by simpa using hii
    -- nothing staged but at least one entry written: the index is not empty, the repaired branch does nothing either
    have hidx := h.idx
    rw [hi0] at hidx
    simp only [List.take_zero, List.append_nil] at hidx
    have hlen : (storedOffsets s.indices).length = es.length + 1 := by rw [hidx]; simp
    have hcont : s.indices.contents ≠ [] := by
      intro hnil
      have : es.length = 0 := by simpa [storedOffsets, hnil] using hlen
      exact hne (List.eq_nil_of_length_eq_zero this)
    have : (s.indices.len == 0) = false := by simpa [Arr.len] using hcont
    simp [this]

/-- Outside the witness shape of D2 (nothing written at all) the as-found writer IS the repaired writer: same result,
    same stored arrays, for every chunk size `≥ 1`, partition and backend. So every theorem of `Props/C01` about the
    indexed writer also holds for the code without the D1/D2 patches as soon as one entry is written, and the D2
    patch changes the behaviour of nothing but `complete()` on a field without entries. -/
theorem writeField_asFound_eq (c : Nat) (hc : 1 ≤ c) (h5 : Bool) (parts : List (List Bytes))
    (hne : parts.flatten ≠ []) :
    writeField .asFound c h5 parts = writeField .repaired c h5 parts := by
  unfold writeField writeOnto writeRound
  rw [foldE_congr _ _ writePart_asFound]
  have h0 : Inv (WState.init c (Arr.fresh h5) (Arr.fresh h5)) c [] [] :=
    init_inv c hc _ _ [] (by simp) (Or.inr ⟨by simp, rfl⟩)
  obtain ⟨s1, h1, hI⟩ := writeParts_inv parts _ [] h0
  simp only [List.nil_append] at hI
  obtain ⟨s2, h2, hI2, _, _⟩ := flushValues_inv hI
  simp only [h1, complete, flushValues_asFound hI, h2]
  exact flushIndices_asFound hI2 hne

end Exetera.IndexedWriter
