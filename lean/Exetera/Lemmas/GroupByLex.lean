import Exetera.Spec.GroupBy
import Exetera.Lemmas.SpansLex
import Exetera.Lemmas.SpansIndexed
/-! `lexMin?` / `lexMax?` return a minimal / maximal element; the row singled out by C08's `IsFirstMinIn` / `IsFirstMaxIn`
    is that element. -/
namespace Exetera.GroupBy
open Exetera Exetera.Spec Exetera.Spans List

theorem lexLe_trans {r m s : List Nat} (h1 : lexLt m r = false) (h2 : lexLt s m = false) : lexLt s r = false := by
  rcases lexLt_total r m with h | h | h
  · exact lexLt_not_below h h2
  · subst h; exact h2
  · rw [h1] at h; cases h

theorem foldl_min_spec : ∀ (xs : List (List Nat)) (m0 : List Nat),
    (xs.foldl (fun m y => if lexLt y m then y else m) m0 ∈ m0 :: xs) ∧
    ∀ s ∈ m0 :: xs, lexLt s (xs.foldl (fun m y => if lexLt y m then y else m) m0) = false
  | [], m0 => by simp [lexLt_irrefl]
  | y :: ys, m0 => by
    simp only [foldl_cons]
    obtain ⟨hm, hall⟩ := foldl_min_spec ys (if lexLt y m0 then y else m0)
    have hr := hall (if lexLt y m0 then y else m0) (by simp)
    constructor
    · simp only [mem_cons] at hm ⊢
      rcases hm with hm | hm
      · rw [hm]; split <;> simp
      · exact Or.inr (Or.inr hm)
    · intro s hs
      simp only [mem_cons] at hs
      rcases hs with rfl | rfl | hs
      · apply lexLe_trans hr
        split
        · rename_i h; exact lexLt_asymm h
        · exact lexLt_irrefl _
      · apply lexLe_trans hr
        split
        · exact lexLt_irrefl _
        · rename_i h; simpa using h
      · exact hall s (by simp [hs])

theorem foldl_max_spec : ∀ (xs : List (List Nat)) (m0 : List Nat),
    (xs.foldl (fun m y => if lexLt m y then y else m) m0 ∈ m0 :: xs) ∧
    ∀ s ∈ m0 :: xs, lexLt (xs.foldl (fun m y => if lexLt m y then y else m) m0) s = false
  | [], m0 => by simp [lexLt_irrefl]
  | y :: ys, m0 => by
    simp only [foldl_cons]
    obtain ⟨hm, hall⟩ := foldl_max_spec ys (if lexLt m0 y then y else m0)
    have hr := hall (if lexLt m0 y then y else m0) (by simp)
    constructor
    · simp only [mem_cons] at hm ⊢
      rcases hm with hm | hm
      · rw [hm]; split <;> simp
      · exact Or.inr (Or.inr hm)
    · intro s hs
      simp only [mem_cons] at hs
      rcases hs with rfl | rfl | hs
      · refine lexLe_trans ?_ hr
        split
        · rename_i h; exact lexLt_asymm h
        · exact lexLt_irrefl _
      · refine lexLe_trans ?_ hr
        split
        · exact lexLt_irrefl _
        · rename_i h; simpa using h
      · exact hall s (by simp [hs])

theorem lexMin?_spec (l : List (List Nat)) (m : List Nat) (hm : m ∈ l) (hmin : ∀ s ∈ l, lexLt s m = false) :
    lexMin? l = some m := by
  cases l with
  | nil => simp at hm
  | cons x xs =>
    obtain ⟨h1, h2⟩ := foldl_min_spec xs x
    simp only [lexMin?, Option.some.injEq]
    rcases lexLt_total (xs.foldl (fun m y => if lexLt y m then y else m) x) m with h | h | h
    · rw [hmin _ h1] at h; cases h
    · exact h
    · rw [h2 m hm] at h; cases h

theorem lexMax?_spec (l : List (List Nat)) (m : List Nat) (hm : m ∈ l) (hmax : ∀ s ∈ l, lexLt m s = false) :
    lexMax? l = some m := by
  cases l with
  | nil => simp at hm
  | cons x xs =>
    obtain ⟨h1, h2⟩ := foldl_max_spec xs x
    simp only [lexMax?, Option.some.injEq]
    rcases lexLt_total (xs.foldl (fun m y => if lexLt m y then y else m) x) m with h | h | h
    · rw [h2 m hm] at h; cases h
    · exact h
    · rw [hmax _ h1] at h; cases h

theorem getElem?_slice {α} (src : List α) (a b j : Nat) :
    (slice src a b)[j]? = if j < b - a then src[a + j]? else none := by
  simp only [slice, getElem?_take, getElem?_drop]

theorem mem_slice {α} {src : List α} {a b : Nat} {s : α} (h : s ∈ slice src a b) :
    ∃ t, a ≤ t ∧ t < b ∧ src[t]? = some s := by
  rw [mem_iff_getElem?] at h
  obtain ⟨j, hj⟩ := h
  rw [getElem?_slice] at hj
  split at hj
  · exact ⟨a + j, by omega, by omega, hj⟩
  · cases hj

theorem mem_slice_of {α} {src : List α} {a b t : Nat} {s : α} (h1 : a ≤ t) (h2 : t < b) (h : src[t]? = some s) :
    s ∈ slice src a b := by
  rw [mem_iff_getElem?]
  refine ⟨t - a, ?_⟩
  rw [getElem?_slice, if_pos (by omega), show a + (t - a) = t by omega]
  exact h

/-- the first minimal row of the rows `[a, b)` is the group's `lexMin?` -/
theorem lexMin?_of_isFirstMinIn {rows : List (List Nat)} {a b k : Nat} (h : IsFirstMinIn rows a b k) :
    lexMin? (slice rows a b) = rows[k]? := by
  obtain ⟨h1, h2, row, hrow, hmin, _⟩ := h
  rw [hrow]
  apply lexMin?_spec
  · exact mem_slice_of h1 h2 hrow
  · intro s hs
    obtain ⟨t, ht1, ht2, ht⟩ := mem_slice hs
    exact hmin t s ht1 ht2 ht

theorem lexMax?_of_isFirstMaxIn {rows : List (List Nat)} {a b k : Nat} (h : IsFirstMaxIn rows a b k) :
    lexMax? (slice rows a b) = rows[k]? := by
  obtain ⟨h1, h2, row, hrow, hmax, _⟩ := h
  rw [hrow]
  apply lexMax?_spec
  · exact mem_slice_of h1 h2 hrow
  · intro s hs
    obtain ⟨t, ht1, ht2, ht⟩ := mem_slice hs
    exact hmax t s ht1 ht2 ht

end Exetera.GroupBy
