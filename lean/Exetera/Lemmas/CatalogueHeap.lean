import Exetera.Lemmas.CatalogueViews
/-! No catalogue edit ever changes the type or data of an existing field object: the object heap only grows. -/
namespace Exetera.Catalogue

theorem ObjsExt.refl (s : State) : ObjsExt s s := ⟨[], by simp⟩
theorem ObjsExt.trans {a b c : State} (h1 : ObjsExt a b) (h2 : ObjsExt b c) : ObjsExt a c := by
  obtain ⟨x, hx⟩ := h1; obtain ⟨y, hy⟩ := h2
  exact ⟨x ++ y, by rw [hy, hx, List.append_assoc]⟩
theorem ObjsExt.of_eq {s s' : State} (h : s'.objs = s.objs) : ObjsExt s s' := ⟨[], by simp [h]⟩

theorem ObjsExt.get {s s' : State} (h : ObjsExt s s') {oid : Nat} {c : Content} (hc : s.objs[oid]? = some c) :
    s'.objs[oid]? = some c := by
  obtain ⟨x, hx⟩ := h
  rw [hx, List.getElem?_append_left (List.getElem?_eq_some_iff.1 hc).1]; exact hc

theorem addField_objs (v : Variant) (s : State) (g : Nat) (n : Name) (c : Content) : ObjsExt s (addField v s g n c).state := by
  unfold addField; split
  · exact ObjsExt.refl s
  split
  · exact ObjsExt.refl s
  · exact ⟨[c], rfl⟩

theorem copyField_objs (v : Variant) (s : State) (h g : Nat) (n : Name) : ObjsExt s (copyField v s h g n).state := by
  unfold copyField; split
  · exact ObjsExt.refl s
  · exact addField_objs _ _ _ _ _

theorem addCopy_objs (v : Variant) (s : State) (g h : Nat) : ObjsExt s (addCopy v s g h).state := by
  unfold addCopy; split
  · exact ObjsExt.refl s
  · exact copyField_objs _ _ _ _ _

theorem delItem_objs (s : State) (g : Nat) (n : Name) : ObjsExt s (delItem s g n).state := by
  unfold delItem; split
  · exact ObjsExt.refl s
  split
  · exact ObjsExt.refl s
  · exact ObjsExt.of_eq rfl

theorem dropField_objs (s : State) (g : Nat) (n : Name) : ObjsExt s (dropField s g n).state := by
  unfold dropField; split
  · exact ObjsExt.refl s
  simp only
  split <;> exact ObjsExt.of_eq rfl

theorem deleteField_objs (s : State) (g h : Nat) : ObjsExt s (deleteField s g h).state := by
  unfold deleteField
  split
  · exact ObjsExt.refl s
  split
  · exact ObjsExt.refl s
  split
  · exact ObjsExt.refl s
  · exact delItem_objs _ _ _

theorem renameFields_objs (v : Variant) (s : State) (g : Nat) (dict : List (Name × Name)) :
    ObjsExt s (renameFields v s g dict).state := by
  unfold renameFields
  dsimp only
  split
  · exact ObjsExt.refl s
  split
  · exact ObjsExt.refl s
  split
  · exact ObjsExt.refl s
  split
  · exact ObjsExt.of_eq rfl
  split <;> exact ObjsExt.of_eq rfl

theorem andThen_objs {α β} {s : State} {r : Res α} {k : α → State → Res β} (h1 : ObjsExt s r.state)
    (h2 : ∀ a s1, r = .ok a s1 → ObjsExt s1 (k a s1).state) : ObjsExt s (r.andThen k).state := by
  cases r with
  | err e s1 => exact h1
  | ok a s1 => exact h1.trans (h2 a s1 rfl)

theorem moveField_objs (v : Variant) (s : State) (h g : Nat) (n : Name) : ObjsExt s (moveField v s h g n).state := by
  unfold moveField
  split
  · exact ObjsExt.refl s
  · split
    · split
      · exact ObjsExt.refl s
      · exact renameFields_objs _ _ _ _
    · apply andThen_objs (copyField_objs _ _ _ _ _)
      intro a s1 _
      split
      · exact ObjsExt.refl s1
      · split
        · exact ObjsExt.refl s1
        · apply andThen_objs (dropField_objs _ _ _)
          intro _ s2 _
          exact ObjsExt.of_eq rfl

theorem copyAll_objs (v : Variant) (g : Nat) (cs : List (Name × Nat)) (s : State) : ObjsExt s (copyAll v g cs s).state := by
  induction cs generalizing s with
  | nil => exact ObjsExt.refl s
  | cons e cs ih =>
    obtain ⟨n, h⟩ := e
    simp only [copyAll]
    have h1 := copyField_objs v s h g n
    split
    · next e s' heq => rw [heq] at h1; exact h1
    · next a s' heq => rw [heq] at h1; exact h1.trans (ih s')

theorem newGroup_objs (s : State) (d : Nat) (fn : Name) : ObjsExt s (newGroup s d fn).state := by
  unfold newGroup; split
  · exact ObjsExt.refl s
  · exact ObjsExt.of_eq rfl

theorem createFrame_objs (v : Variant) (s : State) (d : Nat) (fn : Name) (src : Option Nat) :
    ObjsExt s (createFrame v s d fn src).state := by
  unfold createFrame
  apply andThen_objs (newGroup_objs _ _ _)
  intro g s1 _
  have hfill : ObjsExt s1 (fillFrame v g src s1).state := by
    unfold fillFrame
    cases src with
    | none => exact ObjsExt.refl s1
    | some sg => exact copyAll_objs _ _ _ _
  apply andThen_objs hfill
  intro _ s2 _
  exact ObjsExt.of_eq rfl

theorem copyFrame_objs (v : Variant) (s : State) (sg d : Nat) (fn : Name) : ObjsExt s (copyFrame v s sg d fn).state := by
  unfold copyFrame
  split
  · exact ObjsExt.refl s
  · apply andThen_objs (createFrame_objs _ _ _ _ _)
    intro g s1 _
    apply andThen_objs (copyAll_objs _ _ _ _)
    intro _ s2 _
    exact ObjsExt.of_eq rfl

theorem unlinkGroup_objs (s : State) (d : Nat) (fn : Name) : ObjsExt s (unlinkGroup s d fn).state := by
  unfold unlinkGroup; split
  · exact ObjsExt.refl s
  · exact ObjsExt.of_eq rfl

theorem dropFrame_objs (s : State) (d : Nat) (fn : Name) : ObjsExt s (dropFrame s d fn).state := by
  unfold dropFrame; split
  · exact ObjsExt.refl s
  · exact (ObjsExt.of_eq rfl : ObjsExt s { s with dfs := erase s.dfs (d, fn) }).trans (unlinkGroup_objs _ _ _)

theorem delFrame_objs (s : State) (d : Nat) (fn : Name) : ObjsExt s (delFrame s d fn).state := by
  unfold delFrame; split
  · exact ObjsExt.refl s
  · exact (ObjsExt.of_eq rfl : ObjsExt s { s with dfs := erase s.dfs (d, fn) }).trans (unlinkGroup_objs _ _ _)

theorem moveGroup_objs (s : State) (d g : Nat) (fn : Name) : ObjsExt s (moveGroup s d g fn).state := by
  unfold moveGroup; split
  · exact ObjsExt.refl s
  · split
    · exact ObjsExt.refl s
    · exact ObjsExt.of_eq rfl

theorem renameEntry_objs (s : State) (d g : Nat) (fn : Name) : ObjsExt s (renameEntry s d g fn).state := by
  unfold renameEntry; split
  · exact ObjsExt.refl s
  · split
    · exact ObjsExt.refl s
    · exact ObjsExt.of_eq rfl

theorem setFrame_objs (v : Variant) (s : State) (d : Nat) (fn : Name) (sd sg : Nat) : ObjsExt s (setFrame v s d fn sd sg).state := by
  unfold setFrame
  split
  · cases v with
    | asFound =>
      apply andThen_objs (renameEntry_objs _ _ _ _)
      intro _ s1 _; exact moveGroup_objs _ _ _ _
    | repaired =>
      apply andThen_objs (moveGroup_objs _ _ _ _)
      intro _ s1 _; exact renameEntry_objs _ _ _ _
  · exact copyFrame_objs _ _ _ _ _

theorem moveFrame_objs (v : Variant) (s : State) (sd sg d : Nat) (fn : Name) : ObjsExt s (moveFrame v s sd sg d fn).state := by
  unfold moveFrame
  apply andThen_objs (copyFrame_objs _ _ _ _ _)
  intro _ s1 _
  split
  · exact ObjsExt.refl s1
  · exact dropFrame_objs _ _ _

theorem void_objs {α} {s : State} {r : Res α} (h : ObjsExt s r.state) : ObjsExt s r.void.state := by
  cases r <;> exact h

/-- no call ever changes the type or the data of an existing field object -/
theorem step_objs (v : Variant) (s : State) (op : Op) : ObjsExt s (step v s op).state := by
  cases op with
  | create d fn n c => simp only [step, withFrame]; split; exact ObjsExt.refl s; exact void_objs (addField_objs _ _ _ _ _)
  | setItem d fn n r =>
    simp only [step, withField, withFrame]; split; exact ObjsExt.refl s
    split; exact ObjsExt.refl s; exact void_objs (copyField_objs _ _ _ _ _)
  | add d fn r =>
    simp only [step, withField, withFrame]; split; exact ObjsExt.refl s
    split; exact ObjsExt.refl s; exact void_objs (addCopy_objs _ _ _ _)
  | delItem d fn n => simp only [step, withFrame]; split; exact ObjsExt.refl s; exact delItem_objs _ _ _
  | drop d fn n => simp only [step, withFrame]; split; exact ObjsExt.refl s; exact dropField_objs _ _ _
  | deleteField d fn r =>
    simp only [step, withField, withFrame]; split; exact ObjsExt.refl s
    split; exact ObjsExt.refl s; exact deleteField_objs _ _ _
  | rename d fn dict =>
    simp only [step, withFrame]; split; exact ObjsExt.refl s
    split; exact ObjsExt.refl s; exact renameFields_objs _ _ _ _
  | copyField r d fn n =>
    simp only [step, withField, withFrame]; split; exact ObjsExt.refl s
    split; exact ObjsExt.refl s; exact void_objs (copyField_objs _ _ _ _ _)
  | moveField r d fn n =>
    simp only [step, withField, withFrame]; split; exact ObjsExt.refl s
    split; exact ObjsExt.refl s; exact moveField_objs _ _ _ _ _
  | createFrame d fn src =>
    cases src with
    | none => simp only [step]; exact void_objs (createFrame_objs _ _ _ _ _)
    | some sr =>
      obtain ⟨sd, sfn⟩ := sr
      simp only [step, withFrame]; split; exact ObjsExt.refl s; exact void_objs (createFrame_objs _ _ _ _ _)
  | requireFrame d fn => simp only [step]; split; exact ObjsExt.refl s; exact void_objs (createFrame_objs _ _ _ _ _)
  | copyFrame sd sfn d fn => simp only [step, withFrame]; split; exact ObjsExt.refl s; exact copyFrame_objs _ _ _ _ _
  | setFrame d fn sd sfn => simp only [step, withFrame]; split; exact ObjsExt.refl s; exact setFrame_objs _ _ _ _ _ _
  | delFrame d fn => exact delFrame_objs _ _ _
  | dropFrame d fn => exact dropFrame_objs _ _ _
  | deleteFrame d sd sfn =>
    simp only [step, withFrame]; split; exact ObjsExt.refl s
    split; exact ObjsExt.refl s; exact delFrame_objs _ _ _
  | moveFrame sd sfn d fn => simp only [step, withFrame]; split; exact ObjsExt.refl s; exact moveFrame_objs _ _ _ _ _ _
  | reopen d => exact ObjsExt.of_eq rfl
  | view r =>
    simp only [step, withField]; split; exact ObjsExt.refl s
    apply void_objs
    unfold viewField; split
    · exact ObjsExt.refl s
    · exact ObjsExt.of_eq rfl

end Exetera.Catalogue
