/-
  Common vocabulary of the executable models (core Lean only; no Mathlib here so the driver links).

  * `Err`      : the small error enum the correspondence compares (`index_error`, `value_error`, …, `hang`).
  * `getE`     : checked array read — every subscript of a modelled compiled kernel goes through it (C10).
  * `whileE`   : small-step loop combinator with fuel; `outOfFuel` is the model's rendering of "spins forever" (C12).
-/
namespace Exetera

inductive Err where
  | oob (site : String)          -- IndexError / out-of-bounds access at a named subscript site
  | outOfFuel                    -- loop did not finish within the given fuel
  | valueError (msg : String)
  | typeError (msg : String)
  | keyError (msg : String)
  | other (msg : String)
  deriving Repr, DecidableEq, Inhabited

def Err.tag : Err → String
  | .oob _ => "index_error"
  | .outOfFuel => "hang"
  | .valueError _ => "value_error"
  | .typeError _ => "type_error"
  | .keyError _ => "key_error"
  | .other m => "other:" ++ m

/-- checked read `xs[i]` -/
def getE {α} (xs : List α) (i : Nat) (site : String := "") : Except Err α :=
  match xs[i]? with
  | some x => .ok x
  | none => .error (.oob site)

@[simp] theorem getE_eq_ok {α} {xs : List α} {i : Nat} {site : String} {x : α} :
    getE xs i site = .ok x ↔ xs[i]? = some x := by
  unfold getE; split <;> simp_all

theorem getE_of_lt {α} {xs : List α} {i : Nat} (site : String) (h : i < xs.length) :
    getE xs i site = .ok xs[i] := by
  simp [getE, List.getElem?_eq_getElem h]

/-- checked write `xs[i] = v` -/
def setE {α} (xs : List α) (i : Nat) (v : α) (site : String := "") : Except Err (List α) :=
  if i < xs.length then .ok (xs.set i v) else .error (.oob site)

/-- `while guard s: s = body s`, at most `fuel` iterations. -/
def whileE {σ} (guard : σ → Bool) (body : σ → Except Err σ) : Nat → σ → Except Err σ
  | 0, s => if guard s then .error .outOfFuel else .ok s
  | n + 1, s =>
    if guard s then
      match body s with
      | .ok s' => whileE guard body n s'
      | .error e => .error e
    else .ok s

/-- Python slice `xs[a:b]` for `0 ≤ a`, `0 ≤ b` (clamped like Python). -/
def slice {α} (xs : List α) (a b : Nat) : List α := (xs.drop a).take (b - a)

@[simp] theorem slice_length {α} (xs : List α) (a b : Nat) :
    (slice xs a b).length = min (b - a) (xs.length - a) := by
  simp [slice]

end Exetera
